//! Abstract network descriptor -> altrios `Network` (as JSON value or loaded object).
//!
//! Descriptor (all integers; metres = int / oscale, m/s = int / vscale, elevation = int / escale,
//! heading = int * pi/180 rad i.e. degrees):
//! {"oscale":1,"vscale":1,"escale":1,
//!  "links":[{"len":L,"flip":i,"next":i,"next_alt":i,"prev":i,"prev_alt":i,
//!            "elevs":[[o,e],..], "headings":[[o,deg],..],
//!            "head":bool, "params":[[ltype,ctype,val],..], "rs":[[s,e,v],..],
//!            "cat":[[s,e,p],..], "lockout":[i,..]}, ..]}
//! Link k of the descriptor (0-based) is link index k+1 of the network; missing keys default to
//! "none" (0 / empty); a missing "elevs" becomes a flat two-point profile.
use serde_json::{json, Value};

pub fn scale(d: &Value, k: &str) -> f64 {
    d.get(k).and_then(|x| x.as_f64()).unwrap_or(1.0)
}

fn idx(l: &Value, k: &str) -> i64 {
    l.get(k).and_then(|x| x.as_i64()).unwrap_or(0)
}

pub const LIMIT_TYPES: [&str; 3] = ["MassTotal", "MassPerBrake", "AxleCount"];
pub const COMPARE_TYPES: [&str; 5] = [
    "TpEqualRp",
    "TpGreaterThanRp",
    "TpLessThanRp",
    "TpGreaterThanEqualRp",
    "TpLessThanEqualRp",
];

pub fn speed_set_json(l: &Value, os: f64, vs: f64) -> Value {
    let limits: Vec<Value> = l
        .get("rs")
        .and_then(|x| x.as_array())
        .map(|rs| {
            rs.iter()
                .map(|r| {
                    json!({"offset_start": r[0].as_f64().unwrap()/os,
                           "offset_end": r[1].as_f64().unwrap()/os,
                           "speed": r[2].as_f64().unwrap()/vs})
                })
                .collect()
        })
        .unwrap_or_default();
    let params: Vec<Value> = l
        .get("params")
        .and_then(|x| x.as_array())
        .map(|ps| {
            ps.iter()
                .map(|p| {
                    json!({"limit_type": LIMIT_TYPES[p[0].as_u64().unwrap() as usize],
                           "compare_type": COMPARE_TYPES[p[1].as_u64().unwrap() as usize],
                           "limit_val": p[2].as_f64().unwrap()})
                })
                .collect()
        })
        .unwrap_or_default();
    json!({"speed_limits": limits, "speed_params": params,
           "is_head_end": l.get("head").and_then(|x| x.as_bool()).unwrap_or(false)})
}

/// JSON value of the whole network (dummy link 0 included), in the current file layout.
pub fn network_json(d: &Value) -> Value {
    let os = scale(d, "oscale");
    let vs = scale(d, "vscale");
    let es = scale(d, "escale");
    let mut links = vec![json!({
        "idx_curr":0,"idx_flip":0,"idx_next":0,"idx_next_alt":0,"idx_prev":0,"idx_prev_alt":0,
        "length":0.0,"elevs":[],"headings":[],"speed_sets":{},"speed_set":null,
        "cat_power_limits":[],"link_idxs_lockout":[]
    })];
    for (k, l) in d["links"].as_array().unwrap().iter().enumerate() {
        let len = l["len"].as_f64().unwrap() / os;
        let elevs: Vec<Value> = match l.get("elevs").and_then(|x| x.as_array()) {
            Some(es_) => es_
                .iter()
                .map(|e| json!({"offset": e[0].as_f64().unwrap()/os, "elev": e[1].as_f64().unwrap()/es}))
                .collect(),
            None => vec![
                json!({"offset":0.0,"elev":0.0}),
                json!({"offset":len,"elev":0.0}),
            ],
        };
        let headings: Vec<Value> = l
            .get("headings")
            .and_then(|x| x.as_array())
            .map(|hs| {
                hs.iter()
                    .map(|h| json!({"offset": h[0].as_f64().unwrap()/os,
                                    "heading": h[1].as_f64().unwrap() * std::f64::consts::PI / 180.0}))
                    .collect()
            })
            .unwrap_or_default();
        let cat: Vec<Value> = l
            .get("cat")
            .and_then(|x| x.as_array())
            .map(|cs| {
                cs.iter()
                    .map(|c| json!({"offset_start": c[0].as_f64().unwrap()/os,
                                    "offset_end": c[1].as_f64().unwrap()/os,
                                    "power_limit": c[2].as_f64().unwrap(),
                                    "district_id": null}))
                    .collect()
            })
            .unwrap_or_default();
        let lockout: Vec<Value> = l
            .get("lockout")
            .and_then(|x| x.as_array())
            .cloned()
            .unwrap_or_default();
        links.push(json!({
            "idx_curr": k+1,
            "idx_flip": idx(l,"flip"),
            "idx_next": idx(l,"next"),
            "idx_next_alt": idx(l,"next_alt"),
            "idx_prev": idx(l,"prev"),
            "idx_prev_alt": idx(l,"prev_alt"),
            "length": len,
            "elevs": elevs,
            "headings": headings,
            "speed_sets": {},
            "speed_set": speed_set_json(l, os, vs),
            "cat_power_limits": cat,
            "link_idxs_lockout": lockout,
        }));
    }
    Value::Array(links)
}
