//! Canonical value trees of serialisable objects and what the Checkpoint (C17) and Determinism
//! (C18) harnesses derive from them: digests, the state/history projection, distances.
//! Included by both binaries with `#[path = "../canon.rs"] mod canon;` (it is not part of the
//! `avh` library: these two groups own it).
#![allow(dead_code)]
use avh::common::INF;
use serde::Serialize;
use serde_json::{json, Value};
use std::collections::HashMap;


#[derive(Clone, Debug, PartialEq)]
pub enum Node {
    Null,
    B(bool),
    I(i64),
    U(u64),
    F(u64),
    S(String),
    Seq(Vec<Node>),
    Map(Vec<(String, Node)>),
}

pub fn fbits(x: f64) -> u64 {
    if x.is_nan() {
        f64::NAN.to_bits()
    } else {
        x.to_bits()
    }
}


/// Direct serde serializer into the canonical tree (no intermediate text, no hashing of keys):
/// struct / map keys sorted, integers by value (non-negative -> U), floats by bit pattern with one
/// canonical NaN, unit variants as strings, data-carrying variants as one-entry maps.
pub fn tree<T: Serialize + ?Sized>(x: &T) -> Node {
    match x.serialize(NodeSer) {
        Ok(n) => n,
        Err(e) => Node::S(format!("<<unserialisable: {}>>", e.0)),
    }
}

#[derive(Debug)]
pub struct NodeErr(String);
impl std::fmt::Display for NodeErr {
    fn fmt(&self, f: &mut std::fmt::Formatter<'_>) -> std::fmt::Result {
        f.write_str(&self.0)
    }
}
impl std::error::Error for NodeErr {}
impl serde::ser::Error for NodeErr {
    fn custom<T: std::fmt::Display>(msg: T) -> Self {
        NodeErr(msg.to_string())
    }
}

fn int(i: i64) -> Node {
    if i >= 0 {
        Node::U(i as u64)
    } else {
        Node::I(i)
    }
}
fn key_of(n: Node) -> String {
    match n {
        Node::S(s) => s,
        Node::U(u) => u.to_string(),
        Node::I(i) => i.to_string(),
        Node::B(b) => b.to_string(),
        Node::F(b) => format!("{:e}", f64::from_bits(b)),
        o => format!("{o:?}"),
    }
}
fn sorted(mut m: Vec<(String, Node)>) -> Node {
    m.sort_by(|a, b| a.0.cmp(&b.0));
    Node::Map(m)
}

struct NodeSer;
pub struct SeqB(Vec<Node>, Option<&'static str>);
pub struct MapB(Vec<(String, Node)>, Option<String>, Option<&'static str>);

impl serde::Serializer for NodeSer {
    type Ok = Node;
    type Error = NodeErr;
    type SerializeSeq = SeqB;
    type SerializeTuple = SeqB;
    type SerializeTupleStruct = SeqB;
    type SerializeTupleVariant = SeqB;
    type SerializeMap = MapB;
    type SerializeStruct = MapB;
    type SerializeStructVariant = MapB;
    fn serialize_bool(self, v: bool) -> Result<Node, NodeErr> {
        Ok(Node::B(v))
    }
    fn serialize_i8(self, v: i8) -> Result<Node, NodeErr> {
        Ok(int(v as i64))
    }
    fn serialize_i16(self, v: i16) -> Result<Node, NodeErr> {
        Ok(int(v as i64))
    }
    fn serialize_i32(self, v: i32) -> Result<Node, NodeErr> {
        Ok(int(v as i64))
    }
    fn serialize_i64(self, v: i64) -> Result<Node, NodeErr> {
        Ok(int(v))
    }
    fn serialize_u8(self, v: u8) -> Result<Node, NodeErr> {
        Ok(Node::U(v as u64))
    }
    fn serialize_u16(self, v: u16) -> Result<Node, NodeErr> {
        Ok(Node::U(v as u64))
    }
    fn serialize_u32(self, v: u32) -> Result<Node, NodeErr> {
        Ok(Node::U(v as u64))
    }
    fn serialize_u64(self, v: u64) -> Result<Node, NodeErr> {
        Ok(Node::U(v))
    }
    fn serialize_f32(self, v: f32) -> Result<Node, NodeErr> {
        Ok(Node::F(fbits(v as f64)))
    }
    fn serialize_f64(self, v: f64) -> Result<Node, NodeErr> {
        Ok(Node::F(fbits(v)))
    }
    fn serialize_char(self, v: char) -> Result<Node, NodeErr> {
        Ok(Node::S(v.to_string()))
    }
    fn serialize_str(self, v: &str) -> Result<Node, NodeErr> {
        Ok(Node::S(v.to_string()))
    }
    fn serialize_bytes(self, v: &[u8]) -> Result<Node, NodeErr> {
        Ok(Node::Seq(v.iter().map(|b| Node::U(*b as u64)).collect()))
    }
    fn serialize_none(self) -> Result<Node, NodeErr> {
        Ok(Node::Null)
    }
    fn serialize_some<T: ?Sized + Serialize>(self, v: &T) -> Result<Node, NodeErr> {
        v.serialize(NodeSer)
    }
    fn serialize_unit(self) -> Result<Node, NodeErr> {
        Ok(Node::Null)
    }
    fn serialize_unit_struct(self, _n: &'static str) -> Result<Node, NodeErr> {
        Ok(Node::Null)
    }
    fn serialize_unit_variant(self, _n: &'static str, _i: u32, var: &'static str) -> Result<Node, NodeErr> {
        Ok(Node::S(var.to_string()))
    }
    fn serialize_newtype_struct<T: ?Sized + Serialize>(self, _n: &'static str, v: &T) -> Result<Node, NodeErr> {
        v.serialize(NodeSer)
    }
    fn serialize_newtype_variant<T: ?Sized + Serialize>(
        self,
        _n: &'static str,
        _i: u32,
        var: &'static str,
        v: &T,
    ) -> Result<Node, NodeErr> {
        Ok(Node::Map(vec![(var.to_string(), v.serialize(NodeSer)?)]))
    }
    fn serialize_seq(self, len: Option<usize>) -> Result<SeqB, NodeErr> {
        Ok(SeqB(Vec::with_capacity(len.unwrap_or(0)), None))
    }
    fn serialize_tuple(self, len: usize) -> Result<SeqB, NodeErr> {
        Ok(SeqB(Vec::with_capacity(len), None))
    }
    fn serialize_tuple_struct(self, _n: &'static str, len: usize) -> Result<SeqB, NodeErr> {
        Ok(SeqB(Vec::with_capacity(len), None))
    }
    fn serialize_tuple_variant(self, _n: &'static str, _i: u32, var: &'static str, len: usize) -> Result<SeqB, NodeErr> {
        Ok(SeqB(Vec::with_capacity(len), Some(var)))
    }
    fn serialize_map(self, len: Option<usize>) -> Result<MapB, NodeErr> {
        Ok(MapB(Vec::with_capacity(len.unwrap_or(0)), None, None))
    }
    fn serialize_struct(self, _n: &'static str, len: usize) -> Result<MapB, NodeErr> {
        Ok(MapB(Vec::with_capacity(len), None, None))
    }
    fn serialize_struct_variant(self, _n: &'static str, _i: u32, var: &'static str, len: usize) -> Result<MapB, NodeErr> {
        Ok(MapB(Vec::with_capacity(len), None, Some(var)))
    }
}
impl SeqB {
    fn done(self) -> Node {
        match self.1 {
            Some(var) => Node::Map(vec![(var.to_string(), Node::Seq(self.0))]),
            None => Node::Seq(self.0),
        }
    }
}
impl serde::ser::SerializeSeq for SeqB {
    type Ok = Node;
    type Error = NodeErr;
    fn serialize_element<T: ?Sized + Serialize>(&mut self, v: &T) -> Result<(), NodeErr> {
        self.0.push(v.serialize(NodeSer)?);
        Ok(())
    }
    fn end(self) -> Result<Node, NodeErr> {
        Ok(self.done())
    }
}
impl serde::ser::SerializeTuple for SeqB {
    type Ok = Node;
    type Error = NodeErr;
    fn serialize_element<T: ?Sized + Serialize>(&mut self, v: &T) -> Result<(), NodeErr> {
        self.0.push(v.serialize(NodeSer)?);
        Ok(())
    }
    fn end(self) -> Result<Node, NodeErr> {
        Ok(self.done())
    }
}
impl serde::ser::SerializeTupleStruct for SeqB {
    type Ok = Node;
    type Error = NodeErr;
    fn serialize_field<T: ?Sized + Serialize>(&mut self, v: &T) -> Result<(), NodeErr> {
        self.0.push(v.serialize(NodeSer)?);
        Ok(())
    }
    fn end(self) -> Result<Node, NodeErr> {
        Ok(self.done())
    }
}
impl serde::ser::SerializeTupleVariant for SeqB {
    type Ok = Node;
    type Error = NodeErr;
    fn serialize_field<T: ?Sized + Serialize>(&mut self, v: &T) -> Result<(), NodeErr> {
        self.0.push(v.serialize(NodeSer)?);
        Ok(())
    }
    fn end(self) -> Result<Node, NodeErr> {
        Ok(self.done())
    }
}
impl MapB {
    fn done(self) -> Node {
        let m = sorted(self.0);
        match self.2 {
            Some(var) => Node::Map(vec![(var.to_string(), m)]),
            None => m,
        }
    }
}
impl serde::ser::SerializeMap for MapB {
    type Ok = Node;
    type Error = NodeErr;
    fn serialize_key<T: ?Sized + Serialize>(&mut self, k: &T) -> Result<(), NodeErr> {
        self.1 = Some(key_of(k.serialize(NodeSer)?));
        Ok(())
    }
    fn serialize_value<T: ?Sized + Serialize>(&mut self, v: &T) -> Result<(), NodeErr> {
        let k = self.1.take().unwrap_or_default();
        self.0.push((k, v.serialize(NodeSer)?));
        Ok(())
    }
    fn end(self) -> Result<Node, NodeErr> {
        Ok(self.done())
    }
}
impl serde::ser::SerializeStruct for MapB {
    type Ok = Node;
    type Error = NodeErr;
    fn serialize_field<T: ?Sized + Serialize>(&mut self, k: &'static str, v: &T) -> Result<(), NodeErr> {
        self.0.push((k.to_string(), v.serialize(NodeSer)?));
        Ok(())
    }
    fn end(self) -> Result<Node, NodeErr> {
        Ok(self.done())
    }
}
impl serde::ser::SerializeStructVariant for MapB {
    type Ok = Node;
    type Error = NodeErr;
    fn serialize_field<T: ?Sized + Serialize>(&mut self, k: &'static str, v: &T) -> Result<(), NodeErr> {
        self.0.push((k.to_string(), v.serialize(NodeSer)?));
        Ok(())
    }
    fn end(self) -> Result<Node, NodeErr> {
        Ok(self.done())
    }
}

pub struct Fnv(pub u64);
impl Fnv {
    pub fn new() -> Self {
        Fnv(0xcbf29ce484222325)
    }
    pub fn b(&mut self, bytes: &[u8]) {
        for x in bytes {
            self.0 ^= *x as u64;
            self.0 = self.0.wrapping_mul(0x100000001b3);
        }
    }
}
pub fn hash_node(n: &Node, h: &mut Fnv) {
    match n {
        Node::Null => h.b(&[0]),
        Node::B(b) => h.b(&[1, *b as u8]),
        Node::I(i) => {
            h.b(&[2]);
            h.b(&i.to_le_bytes())
        }
        Node::U(u) => {
            h.b(&[3]);
            h.b(&u.to_le_bytes())
        }
        Node::F(f) => {
            h.b(&[4]);
            h.b(&f.to_le_bytes())
        }
        Node::S(s) => {
            h.b(&[5]);
            h.b(&(s.len() as u64).to_le_bytes());
            h.b(s.as_bytes())
        }
        Node::Seq(a) => {
            h.b(&[6]);
            h.b(&(a.len() as u64).to_le_bytes());
            for x in a {
                hash_node(x, h)
            }
        }
        Node::Map(m) => {
            h.b(&[7]);
            h.b(&(m.len() as u64).to_le_bytes());
            for (k, x) in m {
                h.b(&(k.len() as u64).to_le_bytes());
                h.b(k.as_bytes());
                hash_node(x, h)
            }
        }
    }
}
/// 60 bits of FNV-1a as two integers below 2^30
pub fn dig(n: &Node) -> Value {
    let mut h = Fnv::new();
    hash_node(n, &mut h);
    json!([(h.0 >> 34) as i64, ((h.0 >> 4) & ((1 << 30) - 1)) as i64])
}

pub const KEEP: [&str; 3] = ["state", "history", "i"];
/// every `state` / `history` / `i` sub-tree, with the path that leads to it
pub fn proj(n: &Node) -> Option<Node> {
    match n {
        Node::Map(m) => {
            let mut out = vec![];
            for (k, v) in m {
                if KEEP.contains(&k.as_str()) {
                    out.push((k.clone(), v.clone()));
                } else if let Some(p) = proj(v) {
                    out.push((k.clone(), p));
                }
            }
            if out.is_empty() {
                None
            } else {
                Some(Node::Map(out))
            }
        }
        Node::Seq(a) => {
            let ps: Vec<Option<Node>> = a.iter().map(proj).collect();
            if ps.iter().all(|p| p.is_none()) {
                None
            } else {
                Some(Node::Seq(ps.into_iter().map(|p| p.unwrap_or(Node::Null)).collect()))
            }
        }
        _ => None,
    }
}

/// the complement of `proj`: the object without its `state` / `history` / `i` sub-trees (its inputs)
pub fn inputs(n: &Node) -> Node {
    match n {
        Node::Map(m) => Node::Map(
            m.iter()
                .filter(|(k, _)| !KEEP.contains(&k.as_str()))
                .map(|(k, v)| (k.clone(), inputs(v)))
                .collect(),
        ),
        Node::Seq(a) => Node::Seq(a.iter().map(inputs).collect()),
        o => o.clone(),
    }
}

pub fn class_of(key: &str) -> &str {
    key.split('_').next().unwrap_or(key)
}
pub fn scales(n: &Node, key: &str, sc: &mut HashMap<String, f64>) {
    match n {
        Node::F(b) => {
            let x = f64::from_bits(*b).abs();
            if x.is_finite() {
                let e = sc.entry(class_of(key).to_string()).or_insert(0.0);
                if x > *e {
                    *e = x;
                }
            }
        }
        Node::Seq(a) => a.iter().for_each(|x| scales(x, key, sc)),
        Node::Map(m) => m.iter().for_each(|(k, x)| scales(x, k, sc)),
        _ => {}
    }
}
/// largest class-relative deviation of the float leaves; +inf when anything else differs
pub fn deviation(a: &Node, b: &Node, key: &str, sc: &HashMap<String, f64>) -> f64 {
    match (a, b) {
        (Node::F(x), Node::F(y)) => {
            if x == y {
                return 0.0;
            }
            let (fx, fy) = (f64::from_bits(*x), f64::from_bits(*y));
            if !fx.is_finite() || !fy.is_finite() {
                return f64::INFINITY;
            }
            let s = sc.get(class_of(key)).copied().unwrap_or(0.0);
            if s == 0.0 {
                f64::INFINITY
            } else {
                (fx - fy).abs() / s
            }
        }
        (Node::Seq(x), Node::Seq(y)) => {
            if x.len() != y.len() {
                return f64::INFINITY;
            }
            x.iter().zip(y).map(|(p, q)| deviation(p, q, key, sc)).fold(0.0, f64::max)
        }
        (Node::Map(x), Node::Map(y)) => {
            if x.len() != y.len() {
                return f64::INFINITY;
            }
            x.iter()
                .zip(y)
                .map(|((k1, p), (k2, q))| if k1 != k2 { f64::INFINITY } else { deviation(p, q, k1, sc) })
                .fold(0.0, f64::max)
        }
        (p, q) => {
            if p == q {
                0.0
            } else {
                f64::INFINITY
            }
        }
    }
}
pub fn q_dev(d: f64) -> i64 {
    if !d.is_finite() {
        return INF;
    }
    let q = (d * (1u64 << 40) as f64).ceil();
    if q >= INF as f64 {
        INF
    } else {
        q as i64
    }
}
pub fn ord(bits: u64) -> i128 {
    if bits >> 63 == 1 {
        -((bits & 0x7fff_ffff_ffff_ffff) as i128)
    } else {
        bits as i128
    }
}
/// largest ulp distance between corresponding float leaves; INF on any other difference
pub fn ulps(a: &Node, b: &Node) -> i64 {
    match (a, b) {
        (Node::F(x), Node::F(y)) => {
            if x == y {
                return 0;
            }
            if f64::from_bits(*x).is_nan() || f64::from_bits(*y).is_nan() {
                return INF;
            }
            let d = (ord(*x) - ord(*y)).abs();
            if d >= INF as i128 {
                INF
            } else {
                d as i64
            }
        }
        (Node::Seq(x), Node::Seq(y)) => {
            if x.len() != y.len() {
                return INF;
            }
            x.iter().zip(y).map(|(p, q)| ulps(p, q)).max().unwrap_or(0)
        }
        (Node::Map(x), Node::Map(y)) => {
            if x.len() != y.len() {
                return INF;
            }
            x.iter()
                .zip(y)
                .map(|((k1, p), (k2, q))| if k1 != k2 { INF } else { ulps(p, q) })
                .max()
                .unwrap_or(0)
        }
        (p, q) => {
            if p == q {
                0
            } else {
                INF
            }
        }
    }
}
pub fn has(m: &[(String, Node)], k: &str) -> bool {
    m.iter().any(|(x, _)| x == k)
}
/// number of structs whose `skip_serializing_if` field is actually absent from the serialisation
/// (state next to a history; Link.osm_id; TrainConfig.cd_area_vec; Heading.Lat/Lon)
pub fn count_skipped(n: &Node) -> i64 {
    match n {
        Node::Map(m) => {
            let mut c = 0;
            if has(m, "history") && !has(m, "state") {
                c += 1;
            }
            if has(m, "idx_curr") && has(m, "elevs") && !has(m, "osm_id") {
                c += 1;
            }
            if has(m, "n_cars_by_type") && !has(m, "cd_area_vec") {
                c += 1;
            }
            if has(m, "heading") && has(m, "offset") && !(has(m, "Lat") && has(m, "Lon")) {
                c += 1;
            }
            c + m.iter().map(|(_, x)| count_skipped(x)).sum::<i64>()
        }
        Node::Seq(a) => a.iter().map(count_skipped).sum(),
        _ => 0,
    }
}
/// number of structs whose serialised `state` and `history` do not have the same field names (a HistoryVec is
/// derived field by field from its state struct: a field saved in one and not in the other is lost on reload)
pub fn count_colmis(n: &Node) -> i64 {
    match n {
        Node::Map(m) => {
            let st = m.iter().find(|(k, _)| k == "state").map(|(_, v)| v);
            let hi = m.iter().find(|(k, _)| k == "history").map(|(_, v)| v);
            let own = match (st, hi) {
                (Some(Node::Map(a)), Some(Node::Map(b))) => {
                    (a.len() != b.len() || a.iter().zip(b).any(|(x, y)| x.0 != y.0)) as i64
                }
                _ => 0,
            };
            own + m.iter().map(|(_, x)| count_colmis(x)).sum::<i64>()
        }
        Node::Seq(a) => a.iter().map(count_colmis).sum(),
        _ => 0,
    }
}
pub fn count_nonfinite(n: &Node) -> i64 {
    match n {
        Node::F(b) => (!f64::from_bits(*b).is_finite()) as i64,
        Node::Map(m) => m.iter().map(|(_, x)| count_nonfinite(x)).sum(),
        Node::Seq(a) => a.iter().map(count_nonfinite).sum(),
        _ => 0,
    }
}
/// number of `Location` records (their `deserialize_with = as_bool` needs deserialize_any)
pub fn count_locations(n: &Node) -> i64 {
    match n {
        Node::Map(m) => (has(m, "Location ID") as i64) + m.iter().map(|(_, x)| count_locations(x)).sum::<i64>(),
        Node::Seq(a) => a.iter().map(count_locations).sum(),
        _ => 0,
    }
}

/// paths (at most `cap`) at which two trees differ, with both values — diagnostics only
pub fn diff_paths(a: &Node, b: &Node, path: &str, out: &mut Vec<String>, cap: usize) {
    if out.len() >= cap {
        return;
    }
    match (a, b) {
        (Node::Seq(x), Node::Seq(y)) if x.len() == y.len() => {
            for (i, (p, q)) in x.iter().zip(y).enumerate() {
                diff_paths(p, q, &format!("{path}[{i}]"), out, cap);
            }
        }
        (Node::Map(x), Node::Map(y)) if x.len() == y.len() && x.iter().zip(y).all(|(p, q)| p.0 == q.0) => {
            for ((k, p), (_, q)) in x.iter().zip(y) {
                diff_paths(p, q, &format!("{path}.{k}"), out, cap);
            }
        }
        (Node::F(x), Node::F(y)) => {
            if x != y {
                out.push(format!("{path}: {:e} vs {:e}", f64::from_bits(*x), f64::from_bits(*y)));
            }
        }
        (p, q) => {
            if p != q {
                let sh = |n: &Node| match n {
                    Node::Map(m) => format!("map{:?}", m.iter().map(|e| e.0.as_str()).collect::<Vec<_>>()),
                    Node::Seq(s) => format!("seq[{}]", s.len()),
                    o => format!("{o:?}"),
                };
                out.push(format!("{path}: {} vs {}", sh(p), sh(q)).chars().take(240).collect());
            }
        }
    }
}
pub fn diff_of(a: &Node, b: &Node) -> Vec<String> {
    let mut v = vec![];
    diff_paths(a, b, "", &mut v, 4);
    v
}

