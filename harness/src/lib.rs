//! avh — altrios verification harness: drives real altrios objects from TLC-emitted cases and
//! seeded generators, and projects their state to NDJSON traces that TLC validates.
pub mod common;
pub mod netgen;
pub mod build;
