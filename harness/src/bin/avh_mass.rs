//! MassLedger harness (C20): applies setter sequences (mass / mu / force_max x every side-effect
//! option, expunge) to real components, locomotives-in-a-consist and the train built around them,
//! and loads files with redundant mass data; after every call it logs Ok/Err, the private fields
//! (through serde) and every getter's answer. Nothing is judged here.
//!
//! Numbers: every quantity is logged as round(x * 64); None = -1, Err = -2. Masses kg, specific
//! power W/kg (specific energy J/kg), ratings W (J), force as force / g (so that
//! force_max = mu * mass * g reads force = mu * mass).
//!
//! Case descriptor (emitted by MassLedger.tla):
//!   {"mode":"comp","st":{"mass":q,"spec":q,"ext":q},"ops":[[name,arg,opt,k]..]}
//!       run against FuelConverter, Generator and ReversibleEnergyStorage
//!   {"mode":"loco","st":{"units":[{"t":"conv"|"bel"|"hyb","mass","mu","force","base","ball",
//!                                  "comps":[{"mass","spec","ext"}..]}..],
//!                        "cars":{"types":[[base,freight,count]..],"override":q}},"ops":[..]}
//!       names: SetMass(arg = mass | -1, opt = None|Extensive|Intensive), SetMu(arg, opt =
//!       Mass|ForceMax|SetMassToNone), SetForce(arg, opt = Mass|UpdateMu|SetMuToNone|
//!       SetMassToNone|SetMassAndMuToNone), Expunge; k = unit addressed (1-based)
//!   {"mode":"loadcomp"|"loadloco","st":..,"ops":[["Load",0,"",0]]}   from_json and from_yaml
use altrios_core::consist::locomotive::{ForceMaxSideEffect, MuSideEffect};
use altrios_core::prelude::*;
use altrios_core::traits::*;
use altrios_core::uc;
use avh::build;
use avh::common::*;
use serde_json::{json, Value};
use std::collections::HashMap;

const K: f64 = 64.0;
const NONE: i64 = -1;
const ERR: i64 = -2;
/// known, but not a multiple of 1/64 (e.g. the specific power an Intensive side effect computes
/// for a near-equal mass): logged as this sentinel, never rounded onto the grid
const OFFGRID: i64 = -3;

fn g() -> f64 {
    uc::ACC_GRAV.value
}
thread_local! { static EXACT: std::cell::Cell<bool> = const { std::cell::Cell::new(true) }; }
/// round(x * 64); clears the record's `exact` flag when x is not a multiple of 1/64 (up to the
/// last-ulp noise of `* g / g`)
fn enc(x: f64) -> i64 {
    let y = x * K;
    if !y.is_finite() || y < 0.0 || (y - y.round()).abs() > 1e-9 * y.abs().max(1.0) || y.abs() >= INF as f64 {
        EXACT.with(|e| e.set(false));
        return OFFGRID;
    }
    y.round() as i64
}
/// adds the `exact` flag accumulated since the last record and emits
fn put(tr: &mut Tracer, mut v: Value) {
    v["exact"] = json!(EXACT.with(|e| e.replace(true)));
    tr.emit(v);
}
fn enc_opt(v: &Value) -> i64 {
    match v.as_f64() {
        Some(x) => enc(x),
        None => NONE,
    }
}
fn dec(q: i64) -> Value {
    if q < 0 {
        Value::Null
    } else {
        json!(q as f64 / K)
    }
}
fn enc_res(r: anyhow::Result<Option<f64>>) -> i64 {
    match r {
        Ok(Some(x)) => enc(x),
        Ok(None) => NONE,
        Err(_) => ERR,
    }
}
fn side(opt: &str) -> MassSideEffect {
    match opt {
        "Extensive" => MassSideEffect::Extensive,
        "Intensive" => MassSideEffect::Intensive,
        _ => MassSideEffect::None,
    }
}

// ---------------------------------------------------------------------------------------------
// components

#[derive(Clone)]
enum Comp {
    Fc(FuelConverter),
    Gen(Generator),
    Res(ReversibleEnergyStorage),
}
const SPEC: [&str; 3] = ["specific_pwr", "specific_pwr", "specific_energy"];
const EXT: [&str; 3] = ["pwr_out_max_watts", "pwr_out_max_watts", "energy_capacity_joules"];
fn cidx(ctype: &str) -> usize {
    match ctype {
        "fc" => 0,
        "gen" => 1,
        _ => 2,
    }
}

/// serialised toy locomotive of each kind (built once)
fn base_loco(t: &str) -> &'static Value {
    static CONV: std::sync::OnceLock<Value> = std::sync::OnceLock::new();
    static BEL: std::sync::OnceLock<Value> = std::sync::OnceLock::new();
    static HYB: std::sync::OnceLock<Value> = std::sync::OnceLock::new();
    let make = |k: &str| serde_json::to_value(build::loco(&json!({"kind": k})).expect("toy loco")).unwrap();
    match t {
        "conv" => CONV.get_or_init(|| make("conv")),
        // altrios' own default hybrid (PowertrainType::HybridLoco); its mass fields are overwritten
        "hyb" => HYB.get_or_init(|| {
            let mut l = Locomotive::default_hybrid_electric_loco();
            l.set_save_interval(None);
            serde_json::to_value(l).unwrap()
        }),
        _ => BEL.get_or_init(|| make("bel")),
    }
}

fn comp_json(ctype: &str, st: &Value) -> anyhow::Result<Value> {
    let mut v = match ctype {
        "fc" => base_loco("conv")["loco_type"]["ConventionalLoco"]["fc"].clone(),
        "gen" => base_loco("conv")["loco_type"]["ConventionalLoco"]["gen"].clone(),
        _ => base_loco("bel")["loco_type"]["BatteryElectricLoco"]["res"].clone(),
    };
    let i = cidx(ctype);
    v["mass"] = dec(gi(st, "mass"));
    v[SPEC[i]] = dec(gi(st, "spec"));
    v[EXT[i]] = dec(gi(st, "ext"));
    Ok(v)
}

impl Comp {
    fn from_value(ctype: &str, v: Value) -> anyhow::Result<Comp> {
        Ok(match ctype {
            "fc" => Comp::Fc(serde_json::from_value(v)?),
            "gen" => Comp::Gen(serde_json::from_value(v)?),
            _ => Comp::Res(serde_json::from_value(v)?),
        })
    }
    fn load(ctype: &str, text: &str, yaml: bool) -> anyhow::Result<Comp> {
        Ok(match (ctype, yaml) {
            ("fc", false) => Comp::Fc(FuelConverter::from_json(text)?),
            ("fc", true) => Comp::Fc(FuelConverter::from_yaml(text)?),
            ("gen", false) => Comp::Gen(Generator::from_json(text)?),
            ("gen", true) => Comp::Gen(Generator::from_yaml(text)?),
            (_, false) => Comp::Res(ReversibleEnergyStorage::from_json(text)?),
            (_, true) => Comp::Res(ReversibleEnergyStorage::from_yaml(text)?),
        })
    }
    fn ctype(&self) -> &'static str {
        match self {
            Comp::Fc(_) => "fc",
            Comp::Gen(_) => "gen",
            Comp::Res(_) => "res",
        }
    }
    fn value(&self) -> Value {
        match self {
            Comp::Fc(c) => serde_json::to_value(c).unwrap(),
            Comp::Gen(c) => serde_json::to_value(c).unwrap(),
            Comp::Res(c) => serde_json::to_value(c).unwrap(),
        }
    }
    fn st(&self) -> Value {
        comp_st(&self.value(), self.ctype())
    }
    fn obs(&self) -> Value {
        let (m, d) = match self {
            Comp::Fc(c) => (c.mass(), c.derived_mass()),
            Comp::Gen(c) => (c.mass(), c.derived_mass()),
            Comp::Res(c) => (c.mass(), c.derived_mass()),
        };
        json!({"mass": enc_res(m.map(|o| o.map(|x| x.value))),
               "derived": enc_res(d.map(|o| o.map(|x| x.value)))})
    }
    fn call(&mut self, name: &str, arg: i64, opt: &str) -> anyhow::Result<()> {
        let m = if arg < 0 { None } else { Some(uc::KG * (arg as f64 / K)) };
        match (name, self) {
            ("SetMass", Comp::Fc(c)) => c.set_mass(m, side(opt)),
            ("SetMass", Comp::Gen(c)) => c.set_mass(m, side(opt)),
            ("SetMass", Comp::Res(c)) => c.set_mass(m, side(opt)),
            ("Expunge", Comp::Fc(c)) => {
                c.expunge_mass_fields();
                Ok(())
            }
            ("Expunge", Comp::Gen(c)) => {
                c.expunge_mass_fields();
                Ok(())
            }
            ("Expunge", Comp::Res(c)) => {
                c.expunge_mass_fields();
                Ok(())
            }
            _ => anyhow::bail!("unknown component call {name}"),
        }
    }
}

fn comp_st(v: &Value, ctype: &str) -> Value {
    let i = cidx(ctype);
    json!({"mass": enc_opt(&v["mass"]), "spec": enc_opt(&v[SPEC[i]]), "ext": enc_opt(&v[EXT[i]])})
}

// ---------------------------------------------------------------------------------------------
// locomotives, consist, train

fn comp_names(t: &str) -> &'static [&'static str] {
    match t {
        "conv" => &["fc", "gen"],
        "hyb" => &["fc", "gen", "res"],
        _ => &["res"],
    }
}
fn variant(t: &str) -> &'static str {
    match t {
        "conv" => "ConventionalLoco",
        "hyb" => "HybridLoco",
        _ => "BatteryElectricLoco",
    }
}

/// JSON of a toy locomotive whose redundant fields are those of the unit record
fn unit_json(u: &Value) -> anyhow::Result<Value> {
    let t = gs(u, "t");
    let mut v = base_loco(t).clone();
    v["mass"] = dec(gi(u, "mass"));
    v["mu"] = dec(gi(u, "mu"));
    v["force_max"] = json!(gi(u, "force") as f64 / K * g());
    v["baseline_mass"] = dec(gi(u, "base"));
    v["ballast_mass"] = dec(gi(u, "ball"));
    for (j, c) in ga(u, "comps").iter().enumerate() {
        let name = comp_names(t)[j];
        let i = cidx(name);
        let o = &mut v["loco_type"][variant(t)][name];
        o["mass"] = dec(gi(c, "mass"));
        o[SPEC[i]] = dec(gi(c, "spec"));
        o[EXT[i]] = dec(gi(c, "ext"));
    }
    Ok(v)
}

fn unit_st(l: &Locomotive) -> Value {
    let v = serde_json::to_value(l).unwrap();
    let t = if v["loco_type"].get("ConventionalLoco").is_some() {
        "conv"
    } else if v["loco_type"].get("HybridLoco").is_some() {
        "hyb"
    } else {
        "bel"
    };
    let comps: Vec<Value> = comp_names(t)
        .iter()
        .map(|n| comp_st(&v["loco_type"][variant(t)][*n], n))
        .collect();
    json!({"t": t, "mass": enc_opt(&v["mass"]), "mu": enc_opt(&v["mu"]),
           "force": v["force_max"].as_f64().map(|f| enc(f / g())).unwrap_or(NONE),
           "base": enc_opt(&v["baseline_mass"]), "ball": enc_opt(&v["ballast_mass"]), "comps": comps})
}

struct Scene {
    con: Consist,
    cars: Value,
}

impl Scene {
    fn new(st: &Value) -> anyhow::Result<Scene> {
        let locos: Vec<Locomotive> = ga(st, "units")
            .iter()
            .map(|u| Ok(serde_json::from_value(unit_json(u)?)?))
            .collect::<anyhow::Result<_>>()?;
        Ok(Scene { con: consist_of(locos)?, cars: st["cars"].clone() })
    }
    fn st(&self) -> Value {
        json!({"units": self.con.loco_vec.iter().map(unit_st).collect::<Vec<_>>(), "cars": self.cars})
    }
    fn train_static(&self) -> i64 {
        let types = ga(&self.cars, "types");
        let mut rvs = vec![];
        let mut n = HashMap::new();
        for (j, t) in types.iter().enumerate() {
            let name = format!("T{j}");
            let mut rv = build::rail_vehicle(&json!({}), &name);
            rv.mass_static_base = uc::KG * (t[0].as_f64().unwrap() / K);
            rv.mass_freight = uc::KG * (t[1].as_f64().unwrap() / K);
            n.insert(name, t[2].as_u64().unwrap() as u32);
            rvs.push(rv);
        }
        let ov = gi(&self.cars, "override");
        let tc = match TrainConfig::new(
            rvs,
            n,
            TrainType::Freight,
            None,
            if ov < 0 { None } else { Some(uc::KG * (ov as f64 / K)) },
            None,
        ) {
            Ok(tc) => tc,
            Err(_) => return -3,
        };
        let tsb = TrainSimBuilder::new(
            "t".into(),
            tc,
            self.con.clone(),
            Some("A".into()),
            Some("B".into()),
            None,
        );
        match tsb.make_speed_limit_train_sim(&build::location_map(&[1], &[1]), None, None, None) {
            Ok(sim) => enc(sim.state.mass_static.value),
            Err(_) => ERR,
        }
    }
    fn obs(&self) -> Value {
        let ls = &self.con.loco_vec;
        json!({
            "mass": ls.iter().map(|l| enc_res(l.mass().map(|o| o.map(|x| x.value)))).collect::<Vec<_>>(),
            "mu": ls.iter().map(|l| enc_res(l.mu().map(|o| o.map(|x| x.value)))).collect::<Vec<_>>(),
            "force": ls.iter().map(|l| enc_res(l.force_max().map(|f| Some(f.value / g())))).collect::<Vec<_>>(),
            "cmass": enc_res(self.con.mass().map(|o| o.map(|x| x.value))),
            "cforce": enc_res(self.con.force_max().map(|f| Some(f.value / g()))),
            "tstatic": self.train_static(),
        })
    }
    fn call(&mut self, name: &str, arg: i64, opt: &str, k: usize) -> anyhow::Result<()> {
        let l = &mut self.con.loco_vec[k - 1];
        let x = arg as f64 / K;
        match name {
            "SetMass" => l.set_mass(if arg < 0 { None } else { Some(uc::KG * x) }, side(opt)),
            "SetMu" => l.set_mu(
                uc::R * x,
                match opt {
                    "Mass" => MuSideEffect::Mass,
                    "ForceMax" => MuSideEffect::ForceMax,
                    _ => MuSideEffect::SetMassToNone,
                },
            ),
            "SetForce" => l.set_force_max(
                uc::N * (x * g()),
                match opt {
                    "Mass" => ForceMaxSideEffect::Mass,
                    "UpdateMu" => ForceMaxSideEffect::UpdateMu,
                    "SetMuToNone" => ForceMaxSideEffect::SetMuToNone,
                    "SetMassToNone" => ForceMaxSideEffect::SetMassToNone,
                    _ => ForceMaxSideEffect::SetMassAndMuToNone,
                },
            ),
            "Expunge" => {
                l.expunge_mass_fields();
                Ok(())
            }
            _ => anyhow::bail!("unknown locomotive call {name}"),
        }
    }
}

/// Consist around the units without Consist::init (which would refuse a mixed known/unknown one)
fn consist_of(locos: Vec<Locomotive>) -> anyhow::Result<Consist> {
    let mut base = Consist::default();
    base.set_save_interval(None);
    let mut v = serde_json::to_value(&base)?;
    v["loco_vec"] = serde_json::to_value(&locos)?;
    v["pdct"] = json!({"Proportional": null});
    Ok(serde_json::from_value(v)?)
}

/// number of per-unit getters (mass / mu / force_max) that answer Err
fn getter_errs(obs: &Value) -> usize {
    ["mass", "mu", "force"]
        .iter()
        .map(|f| ga(obs, f).iter().filter(|x| x.as_i64() == Some(ERR)).count())
        .sum()
}

fn kn(q: i64) -> &'static str {
    if q >= 0 {
        "K"
    } else {
        "U"
    }
}
/// (setter, option, known-ness pattern of the addressed unit before the call): the key known
/// findings are filed under
fn key(name: &str, opt: &str, u: &Value) -> String {
    format!(
        "{name}/{opt}/mass={},mu={},der={}",
        kn(gi(u, "mass")),
        kn(gi(u, "mu")),
        if gi(u, "base") >= 0 && gi(u, "ball") >= 0 { "K" } else { "U" }
    )
}

// ---------------------------------------------------------------------------------------------

fn run_comp(ctype: &str, st: &Value, ops: &[Value], tr: &mut Tracer) -> anyhow::Result<()> {
    let mut c = Comp::from_value(ctype, comp_json(ctype, st)?)?;
    put(tr, json!({"ev":"State","mode":"comp","what":ctype,"st":c.st(),"obs":c.obs()}));
    for o in ops {
        let (name, arg, opt) = (o[0].as_str().unwrap_or(""), o[1].as_i64().unwrap_or(0), o[2].as_str().unwrap_or(""));
        let keep = c.clone();
        let r = c.call(name, arg, opt);
        put(tr, json!({"ev":"Call","op":[name,arg,opt,1],"ok":r.is_ok(),"st":c.st(),"obs":c.obs(),
                       "key":format!("{name}/{opt}/comp"),
                       "msg":r.as_ref().err().map(errtxt).unwrap_or_default().chars().take(100).collect::<String>()}));
        // a rejected call, or an accepted one after which mass() errs, is followed by putting the
        // pre-call object back: every anomaly is recorded once, the rest of the sequence runs on
        // a sound object
        if r.is_err() || c.obs()["mass"] == json!(ERR) {
            c = keep;
            put(tr, json!({"ev":"Restore","st":c.st(),"obs":c.obs()}));
        }
    }
    Ok(())
}

fn run_loco(st: &Value, ops: &[Value], tr: &mut Tracer) -> anyhow::Result<()> {
    let mut s = Scene::new(st)?;
    put(tr, json!({"ev":"State","mode":"loco","what":"consist","st":s.st(),"obs":s.obs()}));
    for o in ops {
        let (name, arg, opt, k) = (
            o[0].as_str().unwrap_or(""),
            o[1].as_i64().unwrap_or(0),
            o[2].as_str().unwrap_or(""),
            o[3].as_u64().unwrap_or(1) as usize,
        );
        let keep = s.con.clone();
        let errs_before = getter_errs(&s.obs());
        let before = unit_st(&s.con.loco_vec[k - 1]);
        let r = s.call(name, arg, opt, k);
        put(tr, json!({"ev":"Call","op":[name,arg,opt,k],"ok":r.is_ok(),"st":s.st(),"obs":s.obs(),
                       "key":key(name, opt, &before),
                       "msg":r.as_ref().err().map(errtxt).unwrap_or_default().chars().take(100).collect::<String>()}));
        if r.is_err() || getter_errs(&s.obs()) > errs_before {
            s.con = keep;
            put(tr, json!({"ev":"Restore","st":s.st(),"obs":s.obs()}));
        }
    }
    Ok(())
}

fn run_load(mode: &str, st: &Value, tr: &mut Tracer) -> anyhow::Result<()> {
    for yaml in [false, true] {
        let fmt = if yaml { "yaml" } else { "json" };
        if mode == "loadcomp" {
            for ctype in ["fc", "gen", "res"] {
                let v = comp_json(ctype, st)?;
                let text = if yaml { serde_yaml::to_string(&v)? } else { v.to_string() };
                match Comp::load(ctype, &text, yaml) {
                    Ok(c) => put(tr, json!({"ev":"Load","mode":"comp","what":ctype,"fmt":fmt,"ok":true,
                        "file":st,"st":c.st(),"obs":c.obs(),"key":format!("Load/{ctype}")})),
                    Err(e) => put(tr, json!({"ev":"Load","mode":"comp","what":ctype,"fmt":fmt,"ok":false,
                        "file":st,"st":st,"obs":{"mass":ERR,"derived":ERR},"key":format!("Load/{ctype}"),
                        "msg":errtxt(&e).chars().take(100).collect::<String>()})),
                }
            }
        } else {
            let u = &ga(st, "units")[0];
            let v = unit_json(u)?;
            let text = if yaml { serde_yaml::to_string(&v)? } else { v.to_string() };
            let r = if yaml { Locomotive::from_yaml(&text) } else { Locomotive::from_json(&text) };
            let k = key("Load", gs(u, "t"), u);
            match r {
                Ok(l) => {
                    let s = Scene { con: consist_of(vec![l])?, cars: st["cars"].clone() };
                    put(tr, json!({"ev":"Load","mode":"loco","what":"loco","fmt":fmt,"ok":true,
                        "file":st,"st":s.st(),"obs":s.obs(),"key":k}));
                }
                Err(e) => put(tr, json!({"ev":"Load","mode":"loco","what":"loco","fmt":fmt,"ok":false,
                    "file":st,"st":st,"key":k,
                    "obs":{"mass":[ERR],"mu":[ERR],"force":[ERR],"cmass":ERR,"cforce":ERR,"tstatic":ERR},
                    "msg":errtxt(&e).chars().take(100).collect::<String>()})),
            }
        }
    }
    Ok(())
}

fn exec(desc: &Value, tr: &mut Tracer) -> anyhow::Result<()> {
    let mode = gs(desc, "mode");
    let st = &desc["st"];
    let ops = ga(desc, "ops");
    match mode {
        "comp" => {
            for ctype in ["fc", "gen", "res"] {
                run_comp(ctype, st, ops, tr)?;
            }
            Ok(())
        }
        "loco" => run_loco(st, ops, tr),
        "loadcomp" | "loadloco" => run_load(mode, st, tr),
        _ => anyhow::bail!("unknown mode {mode}"),
    }
}

/// Seeded longer random walks over the same alphabet (depth 6-10, both units addressed)
fn gen(seed: u64, n: usize, _tier: &str) -> Vec<Value> {
    let q = |num: i64, den: i64| num * 64 / den;
    let mut out = vec![];
    for k in 0..n {
        let mut r = Rng::new(seed.wrapping_mul(1_000_003).wrapping_add(k as u64));
        let depth = r.range(5, 9);
        if r.chance(1, 3) {
            let mass = *r.pick(&[NONE, q(1, 1), q(2, 1), q(4, 1)]);
            let spec = *r.pick(&[NONE, q(1, 2), q(1, 1), q(2, 1)]);
            let ext = if mass >= 0 && spec >= 0 { mass * spec / 64 } else { *r.pick(&[q(1, 1), q(4, 1)]) };
            let ops: Vec<Value> = (0..depth)
                .map(|_| {
                    if r.chance(1, 8) {
                        json!(["Expunge", 0, "", 1])
                    } else {
                        json!(["SetMass", *r.pick(&[NONE, q(1, 1), q(2, 1), q(4, 1)]),
                               *r.pick(&["None", "Extensive", "Intensive"]), 1])
                    }
                })
                .collect();
            out.push(json!({"src":"gen","seed":seed,"k":k,"mode":"comp",
                            "st":{"mass":mass,"spec":spec,"ext":ext},"ops":ops}));
        } else {
            let nu = r.range(1, 2);
            let units: Vec<Value> = (0..nu)
                .map(|_| {
                    let t = *r.pick(&["conv", "bel", "hyb"]);
                    let mass = *r.pick(&[NONE, q(1, 1), q(2, 1), q(4, 1)]);
                    let mu = *r.pick(&[NONE, q(1, 4), q(1, 2)]);
                    let force = if mass >= 0 && mu >= 0 { mass * mu / 64 } else { *r.pick(&[q(1, 2), q(2, 1)]) };
                    let comps: Vec<Value> = comp_names(t).iter().map(|_| json!({"mass":NONE,"spec":NONE,"ext":q(2,1)})).collect();
                    json!({"t":t,"mass":mass,"mu":mu,"force":force,"base":NONE,"ball":NONE,"comps":comps})
                })
                .collect();
            let ops: Vec<Value> = (0..depth)
                .map(|_| {
                    let k = r.range(1, nu);
                    match r.range(0, 9) {
                        0 => json!(["Expunge", 0, "", k]),
                        1 | 2 => json!(["SetMass", *r.pick(&[NONE, q(1, 1), q(2, 1), q(4, 1)]), "None", k]),
                        3..=5 => json!(["SetMu", *r.pick(&[q(1, 4), q(1, 2)]),
                                        *r.pick(&["Mass", "ForceMax", "SetMassToNone"]), k]),
                        _ => json!(["SetForce", *r.pick(&[q(1, 2), q(1, 1), q(2, 1)]),
                                    *r.pick(&["Mass", "UpdateMu", "SetMuToNone", "SetMassToNone", "SetMassAndMuToNone"]), k]),
                    }
                })
                .collect();
            let cars = if r.chance(1, 2) {
                json!({"types":[[q(8,1),0,r.range(1,3)],[q(4,1),q(4,1),r.range(0,2)]],"override":NONE})
            } else {
                json!({"types":[[q(8,1),0,2]],"override":q(32,1)})
            };
            out.push(json!({"src":"gen","seed":seed,"k":k,"mode":"loco",
                            "st":{"units":units,"cars":cars},"ops":ops}));
        }
    }
    out
}

fn main() {
    main_with(gen, exec);
}
