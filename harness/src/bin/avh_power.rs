//! PowerFlow harness (C01, C08, C09): replays a behaviour <<engine word, dt, demand class>> into a real
//! `Locomotive` call by call exactly like `LocomotiveSimulation::solve_step`
//! (set_pwr_aux, set_cur_pwr_max_out, read the published limits, materialise the demand class,
//! solve_energy_consumption, step; a clone is restored after an Err), then runs the accepted steps through a
//! real `LocomotiveSimulation::walk` with a `PowerTrace` built from them and logs the histories.
//! The harness never judges: it projects component states to integers (Q-encoding) and TLC evaluates
//! PowerFlow.tla's invariants on them (PowerFlowTrace.tla).
//!
//! Case descriptor (emitted by MCPowerFlow.tla or by `gen`), every quantity Q-encoded:
//! ("assert" = Locomotive.assert_limits: false = the unit runs without limit checking)
//! {"cfg":{"kind":"conv"|"bel","rfc","rgen","redrv","rres","floor","lag","aux","auxkd","idle",
//!         "kf","kg","ke","kr","flat","cap","smin","slo","shi","smax","delta","ps","ds","lat","assert",
//!         "pb0","haux","split2","gssr","gssk"},   kind "hyb" = HybridLoco (fc + gen + res + edrv)
//!  "soc0":..,"steps":[{"eng":bool,"dt":dtq,"cls":"pub"},..],
//!  "maps":{..build::loco map parameters, floats..}?, "temp":..?}
//! power = q/ps W, dt = dtq/ds s, energy = q/(ps*ds) J, soc = soc_q/cap_q.
//!
//! A case with "train":{"cars","car_mass","v0","dv":[..]} is run at train level instead (exec_train): the unit alone in
//! a consist pulls a train through SetSpeedTrainSim over a speed trace with the non-uniform time steps of "steps".
//! Events: Pub{k,eng,dtq,pub{..},exact}  Solve{k,cls,req,acc,p{..},e{..},eta{..},soc,i,exact,msg}
//!         WalkBegin, then one Pub + Solve pair per history entry ("walk":true), WalkEnd{ok,n,want};  Nan / Overflow{at}
use altrios_core::consist::locomotive::loco_sim::{LocomotiveSimulation, PowerTrace};
use altrios_core::consist::locomotive::powertrain::electric_drivetrain::ElectricDrivetrainState;
use altrios_core::consist::locomotive::powertrain::fuel_converter::FuelConverterState;
use altrios_core::consist::locomotive::powertrain::generator::GeneratorState;
use altrios_core::consist::locomotive::powertrain::reversible_energy_storage::ReversibleEnergyStorageState;
use altrios_core::consist::locomotive::{LocomotiveState, PowertrainType};
use altrios_core::consist::LocoTrait;
use altrios_core::prelude::*;
use altrios_core::traits::SerdeAPI;
use altrios_core::uc;
use avh::build;
use avh::common::*;
use serde_json::{json, Map, Value};

struct Sc {
    ps: f64,
    es: f64,
    ds: f64,
    cap_j: f64,
}

/// The component states a record is projected from (live state or one history entry).
struct Snap {
    loco: LocomotiveState,
    fc: Option<FuelConverterState>,
    gen: Option<GeneratorState>,
    edrv: ElectricDrivetrainState,
    res: Option<ReversibleEnergyStorageState>,
}

fn snap_live(l: &Locomotive) -> Option<Snap> {
    match &l.loco_type {
        PowertrainType::ConventionalLoco(c) => Some(Snap {
            loco: l.state,
            fc: Some(c.fc.state),
            gen: Some(c.gen.state),
            edrv: c.edrv.state,
            res: None,
        }),
        PowertrainType::BatteryElectricLoco(b) => Some(Snap {
            loco: l.state,
            fc: None,
            gen: None,
            edrv: b.edrv.state,
            res: Some(b.res.state),
        }),
        PowertrainType::HybridLoco(h) => Some(Snap {
            loco: l.state,
            fc: Some(h.fc.state),
            gen: Some(h.gen.state),
            edrv: h.edrv.state,
            res: Some(h.res.state),
        }),
        _ => None,
    }
}

fn snaps_hist(l: &Locomotive) -> Vec<Snap> {
    let ls = l.history.state_vec();
    match &l.loco_type {
        PowertrainType::ConventionalLoco(c) => {
            let (f, g, e) = (c.fc.history.state_vec(), c.gen.history.state_vec(), c.edrv.history.state_vec());
            let n = ls.len().min(f.len()).min(g.len()).min(e.len());
            (0..n).map(|k| Snap { loco: ls[k], fc: Some(f[k]), gen: Some(g[k]), edrv: e[k], res: None }).collect()
        }
        PowertrainType::BatteryElectricLoco(b) => {
            let (r, e) = (b.res.history.state_vec(), b.edrv.history.state_vec());
            let n = ls.len().min(r.len()).min(e.len());
            (0..n).map(|k| Snap { loco: ls[k], fc: None, gen: None, edrv: e[k], res: Some(r[k]) }).collect()
        }
        PowertrainType::HybridLoco(h) => {
            let (f, g, r, e) = (
                h.fc.history.state_vec(),
                h.gen.history.state_vec(),
                h.res.history.state_vec(),
                h.edrv.history.state_vec(),
            );
            let n = ls.len().min(f.len()).min(g.len()).min(r.len()).min(e.len());
            (0..n).map(|k| Snap { loco: ls[k], fc: Some(f[k]), gen: Some(g[k]), edrv: e[k], res: Some(r[k]) }).collect()
        }
        _ => vec![],
    }
}

struct Proj {
    q: Q,
    nan: bool,
}
impl Proj {
    fn new() -> Self {
        Proj { q: Q::new(), nan: false }
    }
    fn v(&mut self, x: f64, s: f64) -> Value {
        if x.is_nan() {
            self.nan = true;
        }
        // -0.0 and 0.0 are the same integer
        self.q.q(x, s)
    }
    fn exact(&self) -> bool {
        self.q.exact && !self.q.overflow
    }
}

fn rec(pairs: Vec<(&str, Value)>) -> Value {
    let mut m = Map::new();
    for (k, v) in pairs {
        m.insert(k.to_string(), v);
    }
    Value::Object(m)
}

fn proj_pub(s: &Snap, sc: &Sc, pr: &mut Proj) -> Value {
    let z = 0.0;
    let (fc, gen, gprop) = match (&s.fc, &s.gen) {
        (Some(f), Some(g)) => (f.pwr_out_max.value, g.pwr_elec_out_max.value, g.pwr_elec_prop_out_max.value),
        _ => (z, z, z),
    };
    let (disch, charge, propmax, regenout) = match &s.res {
        Some(r) => (r.pwr_disch_max.value, r.pwr_charge_max.value, r.pwr_prop_out_max.value, r.pwr_regen_out_max.value),
        None => (z, z, z, z),
    };
    rec(vec![
        ("fc", pr.v(fc, sc.ps)),
        ("gen", pr.v(gen, sc.ps)),
        ("gprop", pr.v(gprop, sc.ps)),
        ("loco", pr.v(s.loco.pwr_out_max.value, sc.ps)),
        ("regen", pr.v(s.loco.pwr_regen_max.value, sc.ps)),
        ("disch", pr.v(disch, sc.ps)),
        ("charge", pr.v(charge, sc.ps)),
        ("propmax", pr.v(propmax, sc.ps)),
        ("regenout", pr.v(regenout, sc.ps)),
        ("aux", pr.v(s.loco.pwr_aux.value, sc.ps)),
    ])
}

/// (p, e, eta, soc)
fn proj_state(s: &Snap, sc: &Sc, pr: &mut Proj) -> (Value, Value, Value, Value) {
    let z = 0.0;
    let f = s.fc.as_ref();
    let g = s.gen.as_ref();
    let r = s.res.as_ref();
    let d = &s.edrv;
    let pw: Vec<(&str, f64)> = vec![
        ("fuel", f.map_or(z, |x| x.pwr_fuel.value)),
        ("brake", f.map_or(z, |x| x.pwr_brake.value)),
        ("lossf", f.map_or(z, |x| x.pwr_loss.value)),
        ("idle", f.map_or(z, |x| x.pwr_idle_fuel.value)),
        ("mech", g.map_or(z, |x| x.pwr_mech_in.value)),
        ("gprop", g.map_or(z, |x| x.pwr_elec_prop_out.value)),
        ("gaux", g.map_or(z, |x| x.pwr_elec_aux.value)),
        ("lossg", g.map_or(z, |x| x.pwr_loss.value)),
        ("chem", r.map_or(z, |x| x.pwr_out_chemical.value)),
        ("elec", r.map_or(z, |x| x.pwr_out_electrical.value)),
        ("rprop", r.map_or(z, |x| x.pwr_out_propulsion.value)),
        ("raux", r.map_or(z, |x| x.pwr_aux.value)),
        ("lossr", r.map_or(z, |x| x.pwr_loss.value)),
        ("ine", d.pwr_elec_prop_in.value),
        ("oute", d.pwr_mech_prop_out.value),
        ("dyn", d.pwr_mech_dyn_brake.value),
        ("edyn", d.pwr_elec_dyn_brake.value),
        ("losse", d.pwr_loss.value),
        ("out", s.loco.pwr_out.value),
        ("aux", s.loco.pwr_aux.value),
    ];
    let en: Vec<(&str, f64)> = vec![
        ("fuel", f.map_or(z, |x| x.energy_fuel.value)),
        ("brake", f.map_or(z, |x| x.energy_brake.value)),
        ("lossf", f.map_or(z, |x| x.energy_loss.value)),
        ("idle", f.map_or(z, |x| x.energy_idle_fuel.value)),
        ("mech", g.map_or(z, |x| x.energy_mech_in.value)),
        ("gprop", g.map_or(z, |x| x.energy_elec_prop_out.value)),
        ("gaux", g.map_or(z, |x| x.energy_elec_aux.value)),
        ("lossg", g.map_or(z, |x| x.energy_loss.value)),
        ("chem", r.map_or(z, |x| x.energy_out_chemical.value)),
        ("elec", r.map_or(z, |x| x.energy_out_electrical.value)),
        ("rprop", r.map_or(z, |x| x.energy_out_propulsion.value)),
        ("raux", r.map_or(z, |x| x.energy_aux.value)),
        ("lossr", r.map_or(z, |x| x.energy_loss.value)),
        ("ine", d.energy_elec_prop_in.value),
        ("oute", d.energy_mech_prop_out.value),
        ("dyn", d.energy_mech_dyn_brake.value),
        ("edyn", d.energy_elec_dyn_brake.value),
        ("losse", d.energy_loss.value),
        ("out", s.loco.energy_out.value),
        ("aux", s.loco.energy_aux.value),
    ];
    let p = rec(pw.into_iter().map(|(k, x)| (k, pr.v(x, sc.ps))).collect());
    let e = rec(en.into_iter().map(|(k, x)| (k, pr.v(x, sc.es))).collect());
    // efficiencies at 2^-16, rounded up: eta > 1 by any margin shows as 65537, eta <= 0 as <= 0
    let mut et = |x: Option<f64>| -> Value {
        match x {
            Some(v) if v.is_nan() => {
                pr.nan = true;
                json!("nan")
            }
            Some(v) => q_ceil(v, 65536.0),
            None => json!(65536),
        }
    };
    let eta = rec(vec![
        ("f", et(f.map(|x| x.eta.value))),
        ("g", et(g.map(|x| x.eta.value))),
        ("e", et(Some(d.eta.value))),
        ("r", et(r.map(|x| x.eta.value))),
    ]);
    let soc = pr.v(r.map_or(z, |x| x.soc.value * sc.cap_j), sc.es);
    (p, e, eta, soc)
}

/// Where the operating point of each efficiency lookup of an accepted step lies relative to the grid of its map:
/// -1 below the first grid point, 0 inside, +1 above the last (flat units have no grid: 0).  fc: pwr_brake / rating,
/// gen: |pwr_elec_prop_out| / rating, edrv: |pwr_out_req| / rating, battery: temperature, SOC before the step and
/// C-rate of the electrical power (reversible_energy_storage.rs:550).  Projection of inputs only; counted by TLC.
fn oog(sn: &Snap, soc_prev: f64, desc: &Value, sc: &Sc) -> Value {
    let c = &desc["cfg"];
    let side = |x: f64, g: Option<&Value>| -> i64 {
        match g.and_then(|v| v.as_array()) {
            Some(a) if !a.is_empty() => {
                let lo = a[0].as_f64().unwrap_or(f64::NEG_INFINITY);
                let hi = a[a.len() - 1].as_f64().unwrap_or(f64::INFINITY);
                if x < lo {
                    -1
                } else if x > hi {
                    1
                } else {
                    0
                }
            }
            _ => 0,
        }
    };
    let m = desc.get("maps");
    let g = |k: &str| m.and_then(|v| v.get(k));
    let rt = |k: &str| gf(c, k) / sc.ps;
    let f = sn.fc.as_ref().map_or(0, |x| side(x.pwr_brake.value / rt("rfc"), g("frac_fc")));
    let ge = sn.gen.as_ref().map_or(0, |x| side((x.pwr_elec_prop_out.value / rt("rgen")).abs(), g("frac_gen")));
    let e = side((sn.edrv.pwr_out_req.value / rt("redrv")).abs(), g("frac_edrv"));
    let (t, so, cr) = match (&sn.res, g("res_grid").and_then(|v| v.as_array())) {
        (Some(r), Some(ax)) if ax.len() == 3 => (
            side(r.temperature_celsius, Some(&ax[0])),
            side(soc_prev, Some(&ax[1])),
            side(r.pwr_out_electrical.value / (sc.cap_j / 3600.0), Some(&ax[2])),
        ),
        _ => (0, 0, 0),
    };
    json!({"f": f, "g": ge, "e": e, "rt": t, "rs": so, "rc": cr})
}

fn loco_params(desc: &Value) -> (Value, Sc) {
    let c = &desc["cfg"];
    let ps = gf(c, "ps");
    let ds = gf(c, "ds");
    let es = ps * ds;
    let cap_q = gf(c, "cap");
    let cap_j = cap_q / es;
    let mut p = Map::new();
    let kind = gs(c, "kind");
    p.insert("kind".into(), json!(kind));
    for k in ["kf", "kg", "ke", "kr"] {
        p.insert(k.into(), json!(gf(c, k)));
    }
    p.insert("rfc".into(), json!(gf(c, "rfc") / ps));
    p.insert("rgen".into(), json!(gf(c, "rgen") / ps));
    p.insert("redrv".into(), json!(gf(c, "redrv") / ps));
    p.insert("rres".into(), json!(gf(c, "rres") / ps));
    p.insert("fc_init".into(), json!(gf(c, "floor") / ps));
    p.insert("lag".into(), json!(gf(c, "lag")));
    p.insert("idle".into(), json!(gf(c, "idle") / ps));
    p.insert("aux".into(), json!(gf(c, "aux") / ps));
    let akd = gf(c, "auxkd");
    p.insert("auxk".into(), json!(if akd > 0.0 { 1.0 / akd } else { 0.0 }));
    if kind != "conv" {
        p.insert("cap".into(), json!(cap_j));
        p.insert("min_soc".into(), json!(gf(c, "smin") / cap_q));
        p.insert("max_soc".into(), json!(gf(c, "smax") / cap_q));
        p.insert("lo_ramp".into(), json!(gf(c, "slo") / cap_q));
        p.insert("hi_ramp".into(), json!(gf(c, "shi") / cap_q));
        p.insert("soc".into(), json!(gf(desc, "soc0") / cap_q));
    }
    p.insert("assert_limits".into(), json!(gb(c, "assert")));
    if let Some(t) = desc.get("temp").and_then(|x| x.as_f64()) {
        p.insert("temp".into(), json!(t));
    }
    if let Some(m) = desc.get("maps").and_then(|x| x.as_object()) {
        for (k, v) in m {
            p.insert(k.clone(), v.clone());
        }
    }
    (Value::Object(p), Sc { ps, es, ds, cap_j })
}

/// Builds the unit of a case.  conv / bel through avh::build::loco; a hybrid is assembled from the components of
/// a conv and a bel unit built from the same parameters (HybridLoco = fc + gen + res + edrv) with the fixed split
/// `cfg.split2 / 2` (fuel_res_ratio = None) or, for generated cases, the golden-section mode
/// (cfg.gssr = 2 * fuel_res_ratio, cfg.gssk = gss_interval).  `cfg.pb0` = shaft power before the first step (a warmed-up engine).
fn build_unit(desc: &Value, params: &Value, sc: &Sc) -> anyhow::Result<Locomotive> {
    let c = &desc["cfg"];
    let kind = gs(c, "kind");
    let mut l = if kind == "hyb" {
        let mut pc = params.clone();
        pc["kind"] = json!("conv");
        let mut pb = params.clone();
        pb["kind"] = json!("bel");
        let conv = build::loco(&pc)?;
        let bel = build::loco(&pb)?;
        let mut v = serde_json::to_value(&conv)?;
        let cv = v["loco_type"]["ConventionalLoco"].clone();
        let bv = serde_json::to_value(&bel)?["loco_type"]["BatteryElectricLoco"]["res"].clone();
        // cfg.gssr = 2 * fuel_res_ratio (0 = None: fixed split), cfg.gssk = gss_interval (0 = None)
        let gssr = c.get("gssr").and_then(|x| x.as_f64()).unwrap_or(0.0);
        let gssk = c.get("gssk").and_then(|x| x.as_i64()).unwrap_or(0);
        let ratio = if gssr > 0.0 { json!(gssr / 2.0) } else { Value::Null };
        let gss = if gssk > 0 { json!(gssk) } else { Value::Null };
        v["loco_type"] = json!({"HybridLoco": {"fc": cv["fc"], "gen": cv["gen"], "res": bv, "edrv": cv["edrv"],
            "fuel_res_split": gf(c, "split2") / 2.0, "fuel_res_ratio": ratio, "gss_interval": gss, "dt": 0.0, "i": 1}});
        let mut l: Locomotive = serde_json::from_value(v)?;
        l.init()?;
        l
    } else {
        build::loco(params)?
    };
    let pb0 = c.get("pb0").and_then(|x| x.as_f64()).unwrap_or(0.0) / sc.ps;
    match &mut l.loco_type {
        PowertrainType::ConventionalLoco(x) => x.fc.state.pwr_brake = uc::W * pb0,
        PowertrainType::HybridLoco(x) => x.fc.state.pwr_brake = uc::W * pb0,
        _ => {}
    }
    Ok(l)
}

/// Demand classes relative to the limits just published (same table as PowerFlow!ReqOf); generator-only
/// classes: "f<k>" = k/8 of the published limit, "r<k>" = -k/8 of the published regen limit,
/// "b<k>" = -k/4 of the drivetrain rating.
fn materialise(cls: &str, l: &Locomotive, redrv: f64, delta: f64) -> f64 {
    let pb = l.state.pwr_out_max.value;
    let rg = l.state.pwr_regen_max.value;
    match cls {
        "zero" => 0.0,
        "half" => pb / 2.0,
        "pubm" => pb - delta,
        "pub" => pb,
        "pubp" => pb + delta,
        "over" => pb + pb / 64.0,
        "o2" => pb + pb / 32.0, // further above the published limit: + 3 %, + 6 %, + 12 %
        "o4" => pb + pb / 16.0,
        "o8" => pb + pb / 8.0,
        "dbl" => 2.0 * pb, // twice the published limit: what a unit without limit checking may be driven with
        "regenm" => -rg + delta,
        "regen" => -rg,
        "regenp" => -rg - delta,
        "dyn" => -redrv,
        "dynp" => -redrv - delta,
        "rate" => redrv,
        "ratep" => redrv + delta,
        _ => {
            let (h, t) = cls.split_at(1);
            let k: f64 = t.parse().unwrap_or_else(|_| panic!("unknown demand class {cls}"));
            match h {
                "f" => pb * k / 8.0,
                "r" => -rg * k / 8.0,
                "b" => -redrv * k / 4.0,
                _ => panic!("unknown demand class {cls}"),
            }
        }
    }
}

fn exec(desc: &Value, tr: &mut Tracer) -> anyhow::Result<()> {
    let (params, sc) = loco_params(desc);
    let c = &desc["cfg"];
    let redrv = gf(c, "redrv") / sc.ps;
    let delta = gf(c, "delta") / sc.ps;
    let mut l = build_unit(desc, &params, &sc)?;
    if desc.get("train").map_or(false, |t| t.is_object()) {
        return exec_train(desc, tr, l, &sc);
    }
    let fresh = l.clone();
    let base = tr.lines; // events of this case are at line(begin) + (tr.lines - base) + 1 when emitted
    // ---- call by call, like LocomotiveSimulation::solve_step (loco_sim.rs:226)
    let mut accepted: Vec<(f64, f64, bool, i64, u64)> = vec![]; // (dt, req, eng, dtq, line offset of the Solve record)
    for (k, s) in ga(desc, "steps").iter().enumerate() {
        let eng = gb(s, "eng");
        let dtq = gi(s, "dt");
        let dt = dtq as f64 / sc.ds;
        let cls = gs(s, "cls");
        l.set_pwr_aux(Some(eng));
        if let Err(e) = l.set_cur_pwr_max_out(None, uc::S * dt) {
            tr.emit(json!({"ev":"PubErr","k":k+1,"msg":errtxt(&e)}));
            continue;
        }
        let mut pr = Proj::new();
        let sn = snap_live(&l).ok_or_else(|| anyhow::anyhow!("unsupported powertrain"))?;
        let pb = proj_pub(&sn, &sc, &mut pr);
        if pr.nan || pr.q.overflow {
            tr.emit(json!({"ev": if pr.nan {"Nan"} else {"Overflow"}, "at":"Pub","k":k+1}));
            return Ok(());
        }
        tr.emit(json!({"ev":"Pub","walk":false,"tr":false,"k":k+1,"eng":eng,"dtq":dtq,"pub":pb,"exact":pr.exact()}));
        let req = materialise(cls, &l, redrv, delta);
        let soc_prev = snap_live(&l).and_then(|x| x.res.map(|r| r.soc.value)).unwrap_or(0.0);
        let save = l.clone();
        let r = l.solve_energy_consumption(uc::W * req, uc::S * dt, Some(eng));
        let mut pr = Proj::new();
        let reqq = pr.v(req, sc.ps);
        match r {
            Ok(()) => {
                let sn = snap_live(&l).unwrap();
                let (p, e, eta, soc) = proj_state(&sn, &sc, &mut pr);
                l.step();
                if pr.nan || pr.q.overflow {
                    tr.emit(json!({"ev": if pr.nan {"Nan"} else {"Overflow"}, "at":"Solve","k":k+1}));
                    return Ok(());
                }
                accepted.push((dt, req, eng, dtq, tr.lines - base + 1));
                tr.emit(json!({"ev":"Solve","walk":false,"tr":false,"k":k+1,"ref":0,"cls":cls,"req":reqq,"acc":true,"oog":oog(&sn, soc_prev, desc, &sc),"p":p,"e":e,"eta":eta,
                               "soc":soc,"i":l.state.i,"exact":pr.exact()}));
            }
            Err(e) => {
                // the components are half-updated: continue from the clone, as a caller that keeps the
                // locomotive after a failed step would have to (walk simply stops)
                l = save;
                if pr.nan || pr.q.overflow {
                    tr.emit(json!({"ev": if pr.nan {"Nan"} else {"Overflow"}, "at":"Req","k":k+1}));
                    return Ok(());
                }
                tr.emit(json!({"ev":"Solve","walk":false,"tr":false,"k":k+1,"cls":cls,"req":reqq,"acc":false,"i":l.state.i,
                               "exact":pr.exact(),"msg":errtxt(&e)}));
            }
        }
    }
    // ---- the same accepted steps through LocomotiveSimulation::walk; the histories are the trace
    let mut t = vec![0.0];
    let mut pw = vec![0.0];
    let mut eo = vec![Some(true)];
    for (dt, req, eng, _, _) in &accepted {
        t.push(t.last().unwrap() + dt);
        pw.push(*req);
        eo.push(Some(*eng));
    }
    let mut sim = LocomotiveSimulation::new(fresh, PowerTrace::new(t, pw, eo), Some(1));
    let wr = sim.walk();
    tr.emit(json!({"ev":"WalkBegin"}));
    let hs = snaps_hist(&sim.loco_unit);
    for (k, sn) in hs.iter().enumerate().skip(1) {
        if k > accepted.len() {
            break;
        }
        let (_, req, eng, dtq, rf) = accepted[k - 1];
        let mut pr = Proj::new();
        let pb = proj_pub(sn, &sc, &mut pr);
        let (p, e, eta, soc) = proj_state(sn, &sc, &mut pr);
        let reqq = pr.v(req, sc.ps);
        if pr.nan || pr.q.overflow {
            tr.emit(json!({"ev": if pr.nan {"Nan"} else {"Overflow"}, "at":"Hist","k":k}));
            return Ok(());
        }
        tr.emit(json!({"ev":"Pub","walk":true,"tr":false,"k":k,"eng":eng,"dtq":dtq,"pub":pb,"exact":pr.exact()}));
        let soc_prev = hs[k - 1].res.as_ref().map_or(0.0, |r| r.soc.value);
        tr.emit(json!({"ev":"Solve","walk":true,"tr":false,"k":k,"ref":rf,"cls":"hist","req":reqq,"acc":true,"oog":oog(sn, soc_prev, desc, &sc),"p":p,"e":e,"eta":eta,
                       "soc":soc,"i":sn.loco.i,"exact":pr.exact()}));
    }
    tr.emit(json!({"ev":"WalkEnd","ok":wr.is_ok(),"n":hs.len().saturating_sub(1),"want":accepted.len(),
                   "msg": wr.err().map(|e| errtxt(&e)).unwrap_or_default()}));
    Ok(())
}

/// Train-level pass: the unit alone in a consist, pulling a train through a real `SetSpeedTrainSim` over a speed trace
/// whose time column has NON-UNIFORM steps (desc.steps[k].dt; speed rising by desc.train.dv[k]/64 m/s per step).
/// After every `sim.step()` the unit's live component states still hold the limits published for that step and the
/// powers solved in it: logged as a Pub + Solve pair like one entry of a walk's history ("tr":true).  `dtq` is the step
/// size taken from the trace's TIME COLUMN, not from any state field of the simulation.
fn exec_train(desc: &Value, tr: &mut Tracer, l: Locomotive, sc: &Sc) -> anyhow::Result<()> {
    let t = &desc["train"];
    let steps = ga(desc, "steps");
    let dv = ga(t, "dv");
    let mut time = vec![0.0];
    let mut speed = vec![gf(t, "v0") / 64.0];
    for (k, s) in steps.iter().enumerate() {
        time.push(time[k] + gi(s, "dt") as f64 / sc.ds);
        speed.push((speed[k] + dv[k].as_f64().unwrap_or(0.0) / 64.0).max(0.0));
    }
    let net = build::network(&json!({"links":[{"len":8192,"next":2,"rs":[[0,8192,64]]},
                                              {"len":8192,"prev":1,"rs":[[0,8192,64]]}]}))?;
    let tc = build::train_config(&json!({"n":gi(t,"cars"),"car_len":16.0,"car_mass":gf(t,"car_mass"),"axles":4,"brakes":1,
        "vmax":64.0,"braking_ratio":0.125,"bearing":64.0,"rolling":0.001953125}))?;
    let con = build::consist_of(vec![l], "Proportional", Some(1))?;
    let tsb = TrainSimBuilder::new("t".into(), tc, con, None, None, None);
    let mut sim = tsb.make_set_speed_train_sim(&net, [LinkIdx::new(1), LinkIdx::new(2)], SpeedTrace::new(time.clone(), speed, None), Some(1))?;
    tr.emit(json!({"ev":"TrainBegin"}));
    let mut done = 0;
    let mut msg = String::new();
    for k in 1..=steps.len() {
        let soc_prev = snap_live(&sim.loco_con.loco_vec[0]).and_then(|x| x.res.map(|r| r.soc.value)).unwrap_or(0.0);
        if let Err(e) = sim.step() {
            msg = errtxt(&e);
            break;
        }
        let lo = &sim.loco_con.loco_vec[0];
        let sn = snap_live(lo).ok_or_else(|| anyhow::anyhow!("unsupported powertrain"))?;
        let mut pr = Proj::new();
        let pb = proj_pub(&sn, sc, &mut pr);
        let (p, e, eta, soc) = proj_state(&sn, sc, &mut pr);
        let reqq = pr.v(lo.state.pwr_out.value, sc.ps);
        if pr.nan || pr.q.overflow {
            tr.emit(json!({"ev": if pr.nan {"Nan"} else {"Overflow"}, "at":"Train","k":k}));
            return Ok(());
        }
        let dtq = ((time[k] - time[k - 1]) * sc.ds).round() as i64;
        let off = tr.lines; // unused by the trace spec for train records (no call-by-call counterpart)
        let _ = off;
        tr.emit(json!({"ev":"Pub","walk":true,"tr":true,"k":k,"eng":true,"dtq":dtq,"pub":pb,"exact":pr.exact()}));
        tr.emit(json!({"ev":"Solve","walk":true,"tr":true,"k":k,"ref":0,"cls":"hist","req":reqq,"acc":true,"oog":oog(&sn, soc_prev, desc, sc),
                       "p":p,"e":e,"eta":eta,"soc":soc,"i":lo.state.i,"exact":pr.exact()}));
        done = k;
    }
    tr.emit(json!({"ev":"TrainEnd","ok":done == steps.len(),"n":done,"want":steps.len(),"msg":msg}));
    Ok(())
}

// ---------------------------------------------------------------------------------------------
// seeded generator

fn pick_eta(r: &mut Rng) -> f64 {
    *r.pick(&[0.25, 0.375, 0.5, 0.625, 0.75, 0.875, 1.0])
}

/// dyadic 1-D map.  Two thirds of the grids do NOT span the operating range [0, 1]: first point > 0 and last
/// point < 1, so that requests below / above the grid hit the clamps of interp1d on both sides.  Half of those
/// put eta = 1 on an end point with a lower neighbour: an extrapolating lookup leaves (0, 1] there at once.
/// `increasing`: x/eta strictly increasing (required by Generator / ElectricDrivetrain::set_pwr_in_frac_interp).
fn map1d(r: &mut Rng, increasing: bool, narrow: bool) -> (Vec<f64>, Vec<f64>) {
    // narrow: only grids ending at <= 3/4 (for the component that is driven up to its own rating)
    let xs: Vec<f64> = match if narrow { *r.pick(&[0i64, 2, 3]) } else { r.range(0, 5) } {
        0 => vec![0.25, 0.5, 0.75],
        1 => vec![0.125, 0.5, 0.875],
        2 => vec![0.25, 0.75],
        3 => vec![0.375, 0.5, 0.625],
        4 => vec![0.0, 0.25, 0.5, 1.0],
        _ => vec![0.0, 0.5, 1.0],
    };
    let n = xs.len();
    loop {
        let mut es: Vec<f64> = xs.iter().map(|_| pick_eta(r)).collect();
        match r.range(0, 3) {
            0 => {
                es[0] = 1.0;
                es[1] = *r.pick(&[0.5, 0.625, 0.75, 0.875]);
            }
            1 => {
                es[n - 1] = 1.0;
                es[n - 2] = *r.pick(&[0.75, 0.875]);
            }
            _ => {}
        }
        let xin: Vec<f64> = xs.iter().zip(&es).map(|(x, e)| x / e).collect();
        if !increasing || xin.windows(2).all(|w| w[0] < w[1]) {
            return (xs, es);
        }
    }
}

/// Largest slope dx/du of the drivetrain's attainable output fraction x over its input fraction u (x = u * eta(x)):
/// eta^2 / alpha per map segment, alpha = (eta_a x_b - eta_b x_a) / (x_b - x_a) > 0 because x/eta increases; 1 where
/// the lookup is clamped.  What a tolerance on the electrical side is worth at the wheel (PowerFlow!Slack).
fn edrv_gain(xs: &[f64], es: &[f64]) -> f64 {
    let mut g: f64 = 1.0;
    for i in 0..xs.len() - 1 {
        let alpha = (es[i] * xs[i + 1] - es[i + 1] * xs[i]) / (xs[i + 1] - xs[i]);
        let em = es[i].max(es[i + 1]);
        g = g.max(em * em / alpha);
    }
    g
}

/// drivetrain map whose efficiency falls (or rises) monotonically with load
fn map_monotone(r: &mut Rng, falling: bool) -> (Vec<f64>, Vec<f64>) {
    let xs: Vec<f64> = match r.range(0, 3) {
        0 => vec![0.0, 1.0],
        1 => vec![0.0, 0.5, 1.0],
        2 => vec![0.25, 0.5, 0.75],
        _ => vec![0.125, 0.875],
    };
    loop {
        let mut es: Vec<f64> = xs.iter().map(|_| pick_eta(r)).collect();
        es.sort_by(|a, b| if falling { b.partial_cmp(a).unwrap() } else { a.partial_cmp(b).unwrap() });
        let xin: Vec<f64> = xs.iter().zip(&es).map(|(x, e)| x / e).collect();
        if es[0] != es[es.len() - 1] && xin.windows(2).all(|w| w[0] < w[1]) && edrv_gain(&xs, &es) <= 8.0 {
            return (xs, es);
        }
    }
}

fn gen(seed: u64, n: usize, tier: &str) -> Vec<Value> {
    let mut out = vec![];
    let maxsteps = if tier == "quick" { 48 } else { 160 };
    // rating families <<fc, gen, edrv, res>>: base units and one where each component in turn is the binding one
    const TOY: [(i64, i64, i64, i64); 8] = [
        (256, 192, 128, 256), // base: engine while ramping, then generator or drivetrain
        (256, 256, 256, 256), // engine rating binds once warm (kg > 1) / battery = drivetrain
        (256, 48, 128, 256),  // generator binds from the first step
        (256, 192, 16, 256),  // drivetrain binds
        (64, 192, 128, 256),  // engine smallest
        (256, 192, 128, 64),  // battery rating below the drivetrain's
        (256, 192, 32, 256),  // drivetrain far below the battery
        (256, 96, 64, 128),
    ];
    const HYB: [(i64, i64, i64, i64); 5] = [
        (256, 192, 128, 128),
        (256, 128, 256, 64), // generator (minus its 50 kW) + battery below the drivetrain
        (128, 192, 64, 128), // drivetrain binds
        (256, 96, 128, 128), // generator barely above its hard-coded aux
        (128, 256, 256, 256), // engine binds
    ];
    for k in 0..n {
        let mut r = Rng::new(seed.wrapping_mul(1_000_003).wrapping_add(k as u64));
        // train-level cases: a real-sized flat conventional unit pulling a train through SetSpeedTrainSim over a speed
        // trace with NON-UNIFORM time steps (the limits of each step must be published for that step's own length)
        let train = k % 10 == 7 && (k / 10) % 2 == 0; // (every other case of one of the three mapped-conventional residues)
        let kind = if train { "conv" } else { ["conv", "bel", "conv", "bel", "hyb", "hyb", "conv", "conv", "conv", "bel"][k % 10] };
        let (bel, hyb) = (kind == "bel", kind == "hyb");
        let flat = train || k % 10 < 2 || k % 10 == 4; // flat unit (Level B comparable on the lattice) / mapped unit
        // limit checking off (Locomotive.assert_limits = false): a third of the flat conv / hybrid and of the mapped conv /
        // bel units; their traction phases demand well above what was published (the only place where the mode differs)
        let nolim = !train && (k / 10) % 3 == 1 && [0, 2, 3, 4, 6].contains(&(k % 10));
        // only the drivetrain has a (monotone) efficiency map, every other component is flat: the published wheel
        // limit is then a statement about ElectricDrivetrain::set_cur_pwr_max_out alone
        let eonly = k % 10 >= 8 && !train;
        let ds = 4i64;
        let big = hyb || train; // real-sized units: a hybrid's generator carries a hard-coded 50 kW; a train needs pulling
        let um = if big { 1024i64 } else { 1 };
        let steps_n = if big { r.range(6, maxsteps / 4 + 6) } else { r.range(8, maxsteps) };
        // ratings in watts
        let (rfc, rgen, redrv, rres) = if big {
            let f = *r.pick(&HYB);
            (f.0 * um, f.1 * um, f.2 * um, f.3 * um)
        } else if flat {
            *r.pick(&TOY)
        } else {
            // mapped units: random ratings, or one component far below the others so that it runs up to its own
            // rating (the top end of its efficiency map, beyond the last grid point of a non-spanning grid)
            let b = r.range(16, 64) * 16;
            match r.range(0, 5) {
                0 | 1 if !bel => (b, 4 * b, 4 * b, 2 * b), // engine binds
                2 | 3 if !bel => (4 * b, b, 4 * b, 2 * b), // generator binds
                0 | 1 | 2 => (4 * b, 4 * b, 4 * b, b),     // battery binds (C-rate axis beyond +-1/2 C)
                _ => (r.range(16, 256) * 16, r.range(16, 256) * 16, r.range(16, 256) * 16, r.range(16, 256) * 16),
            }
        };
        let bound = !flat && !hyb && (rfc * 4 == rgen || rgen * 4 == rfc || rres * 4 == redrv);
        let warm = !bel && (bound || r.chance(1, 3));
        let rmax = rfc.max(rres);
        let dts: &[i64] = if big { &[1, 2, 2, 4, 4, 8] } else { &[1, 2, 2, 4, 4, 8, 16] };
        // scale: cumulative fuel energy <= 4.2 * rating * dt_max * steps must stay below 2^28 units
        let emax = 4.2 * rmax as f64 * (if big { 2.0 } else { 4.0 }) * steps_n as f64 + 1.0;
        let mut ps = 65536i64;
        while (ps * ds) as f64 * emax >= (1u64 << 28) as f64 && ps > 1 {
            ps /= 2;
        }
        let es = ps * ds;
        let pick_k = |r: &mut Rng| *r.pick(&[1i64, 2, 4]);
        let (kf, kg, ke, kr) = (pick_k(&mut r), pick_k(&mut r), pick_k(&mut r), pick_k(&mut r));
        let lag = if train { *r.pick(&[8i64, 16, 32]) } else if flat { *r.pick(&[2i64, 4, 16]) } else if bound { r.range(1, 4) } else { r.range(1, 30) };
        let floor_w = if flat || r.chance(1, 2) { rfc as f64 / 4.0 } else { rfc as f64 / 10.0 };
        let aux_w = if train {
            *r.pick(&[0.0, 4096.0, 8192.0])
        } else if hyb {
            *r.pick(&[0.0, 8192.0, 50000.0])
        } else if flat {
            *r.pick(&[0.0, 2.0])
        } else if bound {
            r.range(0, 2) as f64
        } else {
            r.range(0, (rmax / 64).max(1)) as f64
        };
        let auxkd = if hyb { 0 } else { *r.pick(&[0i64, 0, 8, 32, 64]) };
        let idle_w = if big { 4096.0 } else if flat { 4.0 } else { r.range(0, rfc / 32) as f64 };
        // battery: capacity such that the derating ramps are W = width * cap joules wide
        let cap_j = if flat { 16.0 * rres as f64 } else { (rres * *r.pick(&[8i64, 16, 64])) as f64 };
        let (smin, slo, shi, smax) = if flat || r.chance(1, 2) { (2, 6, 10, 14) } else { (1, 3, 12, 15) };
        let cap_q = cap_j * es as f64;
        let soc16 = if r.chance(1, 4) { smin } else if r.chance(1, 6) { smax } else { r.range(smin, smax) };
        let mut maps = Map::new();
        let mut ends = ((0i64, 0i64), (0i64, 0i64), (0i64, 0i64));
        let bnd = if !bound { "n" } else if rfc * 4 == rgen { "f" } else if rgen * 4 == rfc { "g" } else { "r" };
        let mut keff = (kf, kg, ke, kr);
        let mut temp = 45.0;
        let mut ekx = 1i64;
        let mut lpub = 0i64;
        if eonly {
            let falling = k % 20 < 10 || r.chance(1, 2);
            let (xe, ee) = map_monotone(&mut r, falling);
            keff.2 = (1.0 / ee.iter().cloned().fold(1.0, f64::min)).ceil() as i64;
            ends.2 = ((xe[0] > 0.0) as i64, (xe[xe.len() - 1] < 1.0) as i64);
            ekx = edrv_gain(&xe, &ee).ceil() as i64;
            lpub = 1;
            maps.insert("frac_edrv".into(), json!(xe));
            maps.insert("eta_edrv".into(), json!(ee));
        } else if !flat {
            let (xf, ef) = map1d(&mut r, false, (bound && rfc * 4 == rgen) || (hyb && rfc < rgen));
            let (xg, eg) = map1d(&mut r, true, bound && rgen * 4 == rfc);
            let (xe, ee) = loop {
                let m = map1d(&mut r, true, false);
                if !bel || edrv_gain(&m.0, &m.1) <= 8.0 {
                    break m;
                }
            };
            if bel {
                // battery-electric: the source limit is on the electrical side, whatever the battery map does
                ekx = edrv_gain(&xe, &ee).ceil() as i64;
                lpub = 1;
            }
            let inv = |es: &[f64]| (1.0 / es.iter().cloned().fold(1.0, f64::min)).ceil() as i64;
            keff = (inv(&ef), inv(&eg), inv(&ee), kr);
            let e2 = |x: &[f64]| ((x[0] > 0.0) as i64, (x[x.len() - 1] < 1.0) as i64);
            ends = (e2(&xf), e2(&xg), e2(&xe));
            maps.insert("frac_fc".into(), json!(xf));
            maps.insert("eta_fc".into(), json!(ef));
            maps.insert("frac_gen".into(), json!(xg));
            maps.insert("eta_gen".into(), json!(eg));
            maps.insert("frac_edrv".into(), json!(xe));
            maps.insert("eta_edrv".into(), json!(ee));
            if bel || hyb {
                // 3-D battery map: temperature x SOC x C-rate (1 C = cap_j/3600 W); axes narrower than
                // the states visited, so that interp3d's clamping is exercised on every axis
                let c1 = rres as f64 / (cap_j / 3600.0);
                let grid = json!([[0.0, 20.0, 40.0], [0.25, 0.5, 0.75], [-c1 / 2.0, 0.0, c1 / 2.0]]);
                let vals: Vec<Vec<Vec<f64>>> =
                    (0..3).map(|_| (0..3).map(|_| (0..3).map(|_| pick_eta(&mut r)).collect()).collect()).collect();
                let mn = vals.iter().flatten().flatten().cloned().fold(1.0, f64::min);
                keff.3 = (1.0 / mn).ceil() as i64;
                maps.insert("res_grid".into(), grid);
                maps.insert("res_vals".into(), json!(vals));
                temp = *r.pick(&[-10.0, 0.0, 10.0, 25.0, 40.0, 60.0]);
            }
        }
        // hybrid control: fixed split (Level B comparable) or the golden-section search on fuel_res_ratio
        let split2 = r.range(0, 2);
        let gss = hyb && (!flat || r.chance(1, 3));
        let (gssr, gssk) = if gss { (*r.pick(&[1i64, 2, 6]), *r.pick(&[1i64, 3, 60])) } else { (0, 0) };
        // demand programme: phases of limit riding, partial load, braking / regen, engine-off idling
        let mut steps = vec![];
        let riding = bound || r.chance(1, 2);
        while steps.len() < steps_n as usize {
            let phase = r.range(0, 9);
            let len = r.range(1, 12);
            for _ in 0..len {
                let dt = *r.pick(dts);
                let (eng, cls): (bool, String) = match phase {
                    0..=4 if nolim => (true, r.pick(&["pub", "over", "o2", "o4", "o8", "dbl", "dbl", "rate", "ratep", "f7", "f4"]).to_string()),
                    0..=3 if lpub == 1 => (true, r.pick(&["pub", "pubp", "over", "o2", "o4", "o8", "o2", "f7"]).to_string()),
                    0..=3 if riding => (true, r.pick(&["pub", "pub", "pubm", "pubp", "f7"]).to_string()),
                    0..=3 => (true, format!("f{}", r.range(0, 8))),
                    4 => (true, r.pick(&["pub", "pubp", "over", "f8", "f4", "rate", "ratep"]).to_string()),
                    5 => (true, format!("r{}", r.range(1, 8))),
                    6 => (true, r.pick(&["regen", "regenm", "regenp", "dyn", "dynp", "b8", "b2"]).to_string()),
                    7 => (false, r.pick(&["zero", "zero", "b1", "b4", "f1", "regen"]).to_string()),
                    8 => (true, "zero".to_string()),
                    _ => (r.chance(1, 2), r.pick(&["zero", "half", "pub", "b3", "r8"]).to_string()),
                };
                steps.push(json!({"eng":eng,"dt":dt,"cls":cls}));
            }
        }
        steps.truncate(steps_n as usize);
        // train cases: the steps only carry the step sizes; the speed trace rises / holds / falls by dv[k]/64 m/s per step
        // (accelerations up to 1/8 m/s^2 on a 4 x 32 t .. 8 x 64 t train: part load up to the unit's limits)
        let mut trn = Value::Null;
        if train {
            let mut dv = vec![];
            for s in steps.iter_mut() {
                let dtq = s["dt"].as_i64().unwrap();
                *s = json!({"eng":true,"dt":dtq,"cls":"trn"});
                let a = *r.pick(&[0i64, 1, 2, 2, 4, 4, 8, -2, -4]); // acceleration in 1/64 m/s^2
                dv.push(json!(a * dtq / ds)); // dv in 1/64 m/s (dt = dtq/ds s), floored
            }
            trn = json!({"cars": *r.pick(&[4i64, 8]), "car_mass": *r.pick(&[32768i64, 65536]), "v0": r.range(0, 4) * 64, "dv": dv});
        }
        let q = |w: f64| (w * ps as f64).round() as i64;
        let delta = if big { 2 * ps } else { (ps / 16).max(1) };
        let cfg = json!({
            "kind": kind,
            "rfc": q(rfc as f64), "rgen": q(rgen as f64), "redrv": q(redrv as f64), "rres": q(rres as f64),
            "floor": q(floor_w), "lag": lag, "aux": q(aux_w), "auxkd": auxkd, "idle": q(idle_w),
            "kf": keff.0, "kg": keff.1, "ke": keff.2, "kr": keff.3, "flat": flat,
            "cap": cap_q as i64, "smin": (cap_q as i64 / 16) * smin, "slo": (cap_q as i64 / 16) * slo,
            "shi": (cap_q as i64 / 16) * shi, "smax": (cap_q as i64 / 16) * smax,
            "delta": delta, "ps": ps, "ds": ds, "lat": flat && !gss && (hyb || ps >= 16), "assert": !nolim,
            "pb0": if warm { q(rfc as f64) } else { 0 }, "haux": if hyb { 50000 * ps } else { 0 }, "split2": split2,
            "gssr": gssr, "gssk": gssk,
            // design facts of the maps (code-independent): grid of fc / gen / edrv does not reach 0 (lo) / 1 (hi); which
            // component is driven to its own rating; temperature below / above the battery grid
            "glo_f": ends.0 .0, "ghi_f": ends.0 .1, "glo_g": ends.1 .0, "ghi_g": ends.1 .1, "glo_e": ends.2 .0, "ghi_e": ends.2 .1,
            "lpub": lpub, "ekx": ekx,
            "bnd": bnd, "rtout": if maps.contains_key("res_grid") { if temp < 0.0 { -1 } else if temp > 40.0 { 1 } else { 0 } } else { 0 }});
        let mut d = json!({"src":"gen","seed":seed,"k":k,"cfg":cfg,
            "soc0": if bel || hyb { (cap_q as i64 / 16) * soc16 } else { 0 },"steps":steps});
        if train {
            d["train"] = trn;
        }
        if !flat {
            d["temp"] = json!(temp);
            d["maps"] = Value::Object(maps);
        }
        out.push(d);
    }
    out
}

fn main() {
    main_with(gen, exec);
}
