//! PathProfile harness (C06): builds a real `Network` and consumes a route by every composition
//! into `PathTpc::extend` calls; after every call the whole profile (link points, grades, curves,
//! catenary limits) is logged in integers. TLC compares it with the route's own geometry.
//!
//! Case descriptor (emitted by PathProfile.tla or by `gen`):
//! {"train":{"c0","c1","g16"},"unit":S,"exact":bool,
//!  "net":[{"len","elevs":[[off,elev]..],"heads":[[off,deg]..],"cat":[[s,e,p]..],"prev","palt"},..],
//!  "route":[link numbers, 0 = none]}          all geometry integers in units of 1/S (m, m, degree)
//! or {"kind":"shipped","file":<network under resources>,"route":[..] | "route_csv":<file>,"from":i,"to":j,"unit":S}
//!
//! Projection (abstraction function, documented in PathProfile.tla):
//!   grades[k] = [offset*S, res_coeff*run*S (= rise), res_net*S], run = distance to the next point (1/S for the last)
//!   curves[k] = [offset*S, 25*res_coeff*run/k1*S, 25*res_net/k1*S], k1 = 1 degree / 100 ft
//!   train curve coefficients: curve_coeff_0 = c0, curve_coeff_1 = c1, curve_coeff_2 = (g16/16)/k1
use altrios_core::prelude::*;
use altrios_core::track::TrainParams;
use altrios_core::traits::*;
use altrios_core::uc;
use avh::common::*;
use serde_json::{json, Value};

fn k1() -> f64 {
    (uc::DEG / (uc::FT * 100.0)).value
}

fn train_params(t: &Value) -> TrainParams {
    TrainParams {
        length: uc::M * 100.0,
        speed_max: uc::MPS * 20.0,
        towed_mass_static: uc::KG * 1.0e6,
        mass_per_brake: uc::KG * 1.0e4,
        axle_count: 400,
        train_type: TrainType::Freight,
        curve_coeff_0: uc::R * gf(t, "c0"),
        curve_coeff_1: uc::R * gf(t, "c1"),
        curve_coeff_2: uc::R * (gf(t, "g16") / 16.0 / k1()),
    }
}

/// network JSON (current layout) of the abstract description; next / next_alt are derived from prev / prev_alt
fn network_json(desc: &Value) -> Value {
    let s = gf(desc, "unit");
    let net = ga(desc, "net");
    let n = net.len();
    let mut next = vec![0usize; n + 1];
    let mut nalt = vec![0usize; n + 1];
    for (k, l) in net.iter().enumerate() {
        for f in ["prev", "palt"] {
            let p = gi(l, f) as usize;
            if p != 0 {
                if next[p] == 0 {
                    next[p] = k + 1;
                } else {
                    nalt[p] = k + 1;
                }
            }
        }
    }
    let mut links = vec![json!({
        "idx_curr":0,"idx_flip":0,"idx_next":0,"idx_next_alt":0,"idx_prev":0,"idx_prev_alt":0,
        "length":0.0,"elevs":[],"headings":[],"speed_sets":{},"speed_set":null,
        "cat_power_limits":[],"link_idxs_lockout":[]
    })];
    for (k, l) in net.iter().enumerate() {
        let len = gf(l, "len") / s;
        links.push(json!({
            "idx_curr": k + 1, "idx_flip": 0,
            "idx_next": next[k + 1], "idx_next_alt": nalt[k + 1],
            "idx_prev": gi(l, "prev"), "idx_prev_alt": gi(l, "palt"),
            "length": len,
            "elevs": ga(l, "elevs").iter().map(|e| json!({"offset": e[0].as_f64().unwrap()/s, "elev": e[1].as_f64().unwrap()/s})).collect::<Vec<_>>(),
            "headings": ga(l, "heads").iter().map(|h| json!({"offset": h[0].as_f64().unwrap()/s,
                                                             "heading": h[1].as_f64().unwrap()/s * uc::DEG.value})).collect::<Vec<_>>(),
            "speed_sets": {},
            "speed_set": {"speed_limits":[{"offset_start":0.0,"offset_end":len,"speed":10.0}],"speed_params":[],"is_head_end":false},
            "cat_power_limits": ga(l, "cat").iter().map(|c| json!({"offset_start": c[0].as_f64().unwrap()/s,
                                   "offset_end": c[1].as_f64().unwrap()/s, "power_limit": c[2].as_f64().unwrap(), "district_id": null})).collect::<Vec<_>>(),
            "link_idxs_lockout": [],
        }));
    }
    Value::Array(links)
}

/// Q-encoded description of the links of `route` in a loaded network (for shipped files): links are
/// renumbered 1.. in order of first appearance, references to links outside the route become 0.
fn source_of(network: &Network, route: &[u32], s: f64) -> (Vec<Value>, Vec<usize>, bool) {
    let mut local: std::collections::HashMap<u32, usize> = Default::default();
    let mut order: Vec<u32> = vec![];
    for r in route {
        if *r != 0 && !local.contains_key(r) {
            order.push(*r);
            local.insert(*r, order.len());
        }
    }
    let mut q = Q::new();
    let map = |x: usize| local.get(&(x as u32)).copied().unwrap_or(0);
    let net: Vec<Value> = order
        .iter()
        .map(|r| {
            let l = &network.0[*r as usize];
            json!({"len": q.q(l.length.value, s),
                   "elevs": l.elevs.iter().map(|e| json!([q.q(e.offset.value, s), q.q(e.elev.value, s)])).collect::<Vec<_>>(),
                   "heads": l.headings.iter().map(|h| json!([q.q(h.offset.value, s), q.q(h.heading.value / uc::DEG.value, s)])).collect::<Vec<_>>(),
                   "cat": l.cat_power_limits.iter().map(|c| json!([q.q(c.offset_start.value, s), q.q(c.offset_end.value, s), q.q(c.power_limit.value, 1.0)])).collect::<Vec<_>>(),
                   "prev": map(l.idx_prev.idx()), "palt": map(l.idx_prev_alt.idx())})
        })
        .collect();
    let lroute: Vec<usize> = route.iter().map(|r| if *r == 0 { 0 } else { local[r] }).collect();
    (net, lroute, q.exact && !q.overflow)
}

fn state_json(p: &PathTpc, s: f64, idmap: &dyn Fn(usize) -> usize) -> (Value, Value, Value, Value, bool) {
    let mut q = Q::new();
    let k1 = k1();
    let lp: Vec<Value> = p
        .link_points()
        .iter()
        .map(|x| json!([q.q(x.offset.value, s), x.grade_count, x.curve_count, x.cat_power_count, idmap(x.link_idx.idx())]))
        .collect();
    let run = |v: &[altrios_core::track::PathResCoeff], k: usize| -> f64 {
        match v.get(k + 1) {
            Some(n) if n.offset.value.is_finite() => n.offset.value - v[k].offset.value,
            _ => 1.0 / s,
        }
    };
    let g = p.grades();
    let grades: Vec<Value> = (0..g.len())
        .map(|k| json!([q.q(g[k].offset.value, s), q.q(g[k].res_coeff.value * run(g, k), s), q.q(g[k].res_net.value, s)]))
        .collect();
    let c = p.curves();
    let curves: Vec<Value> = (0..c.len())
        .map(|k| {
            json!([q.q(c[k].offset.value, s), q.q(25.0 * c[k].res_coeff.value * run(c, k) / k1, s), q.q(25.0 * c[k].res_net.value / k1, s)])
        })
        .collect();
    let cat: Vec<Value> = p
        .cat_power_limits()
        .iter()
        .map(|x| json!([q.q(x.offset_start.value, s), q.q(x.offset_end.value, s), q.q(x.power_limit.value, 1.0)]))
        .collect();
    (json!(lp), json!(grades), json!(curves), json!(cat), !q.overflow)
}

fn compositions(n: usize) -> Vec<Vec<usize>> {
    // all 2^(n-1) compositions of n, the one-shot composition first
    let mut out = vec![];
    for mask in 0..(1u32 << (n - 1)) {
        let mut parts = vec![];
        let mut cur = 1;
        for b in 0..(n - 1) {
            if mask & (1 << b) != 0 {
                parts.push(cur);
                cur = 1;
            } else {
                cur += 1;
            }
        }
        parts.push(cur);
        out.push(parts);
    }
    out
}

fn run_route(
    tr: &mut Tracer,
    network: &Network,
    tp: TrainParams,
    route: &[u32],
    s: f64,
    parts: &[Vec<usize>],
    every_call: bool,
    idmap: &dyn Fn(usize) -> usize,
) {
    let rt: Vec<LinkIdx> = route.iter().map(|r| LinkIdx::new(*r)).collect();
    let mut whole: Option<PathTpc> = None;
    for (pi, part) in parts.iter().enumerate() {
        let mut p = PathTpc::new(tp);
        let mut from = 0usize;
        let mut all_ok = true;
        for (ci, k) in part.iter().enumerate() {
            let r = p.extend(network, &rt[from..from + k]);
            let last = ci + 1 == part.len();
            if every_call || last || r.is_err() {
                let (lp, g, c, cat, fits) = state_json(&p, s, idmap);
                tr.emit(json!({"ev":"Extend","part":part,"call":ci+1,"from":from,"upto":from+k,"ok":r.is_ok(),
                               "lp":lp,"grades":g,"curves":c,"cat":cat,"fits":fits,
                               "msg": r.as_ref().err().map(|e| errtxt(e).chars().take(80).collect::<String>()).unwrap_or_default()}));
            }
            if r.is_err() {
                all_ok = false;
                break;
            }
            from += k;
        }
        if pi == 0 && all_ok {
            whole = Some(p.clone());
        }
        let eq_whole = match &whole {
            Some(w) => all_ok && *w == p,
            None => false,
        };
        // finish on a copy of the fully extended path
        let fin = if all_ok {
            let mut f = p.clone();
            f.finish();
            let (_, g, c, _, _) = state_json(&f, s, idmap);
            let (g, c) = (g.as_array().unwrap().clone(), c.as_array().unwrap().clone());
            json!({"finished": f.is_finished(), "ng": g.len(), "nc": c.len(),
                   "g_tail": g[g.len().saturating_sub(2)..].to_vec(), "c_tail": c[c.len().saturating_sub(2)..].to_vec()})
        } else {
            json!({"finished": false, "ng": 0, "nc": 0, "g_tail": [], "c_tail": []})
        };
        tr.emit(json!({"ev":"Final","part":part,"ok":all_ok,"eq_whole":eq_whole,"fin":fin}));
    }
}

fn exec(desc: &Value, tr: &mut Tracer) -> anyhow::Result<()> {
    if desc.get("kind").and_then(|k| k.as_str()) == Some("shipped") {
        let res = avh::build::resources_dir();
        // a shipped file that does not load is C16's business: the case is skipped (counted, see `vacuity`)
        let network = match Network::from_file(res.join(gs(desc, "file"))) {
            Ok(n) => n,
            Err(e) => {
                tr.emit(json!({"ev":"NetRejected","msg":errtxt(&e)}));
                return Ok(());
            }
        };
        let mut route: Vec<u32> = match desc.get("route_csv").and_then(|x| x.as_str()) {
            Some(f) => std::fs::read_to_string(res.join(f))?
                .lines()
                .skip(1)
                .filter(|l| !l.trim().is_empty())
                .map(|l| l.trim().parse::<u32>())
                .collect::<Result<_, _>>()?,
            None => ga(desc, "route").iter().map(|x| x.as_u64().unwrap() as u32).collect(),
        };
        if let (Some(a), Some(b)) = (desc.get("from").and_then(|x| x.as_u64()), desc.get("to").and_then(|x| x.as_u64())) {
            route = route[(a as usize).min(route.len())..(b as usize).min(route.len())].to_vec();
        }
        anyhow::ensure!(!route.is_empty(), "empty route");
        let s = gf(desc, "unit");
        let train = json!({"c0":1,"c1":2,"g16":0});
        let (net, lroute, _) = source_of(&network, &route, s);
        tr.emit(json!({"ev":"Source","train":train,"unit":s as i64,"exact":false,"net":net,"route":lroute}));
        let n = route.len();
        let parts: Vec<Vec<usize>> = if n <= 4 {
            compositions(n)
        } else {
            let mut r = Rng::new(n as u64 * 977 + desc.get("seed").and_then(|x| x.as_u64()).unwrap_or(0));
            let a = r.range(1, n as i64 - 1) as usize;
            let b = r.range(1, (n - a) as i64) as usize;
            let mut three = vec![a, b];
            if n - a - b > 0 {
                three.push(n - a - b);
            }
            vec![vec![n], vec![1; n], vec![n / 2, n - n / 2], three]
        };
        let mut local: std::collections::HashMap<usize, usize> = Default::default();
        for (r, l) in route.iter().zip(lroute.iter()) {
            local.insert(*r as usize, *l);
        }
        let idmap = move |x: usize| local.get(&x).copied().unwrap_or(0);
        run_route(tr, &network, train_params(&train), &route, s, &parts, n <= 4, &idmap);
        return Ok(());
    }
    let s = gf(desc, "unit");
    let network = match Network::from_json(network_json(desc).to_string()) {
        Ok(n) => n,
        Err(e) => {
            tr.emit(json!({"ev":"NetRejected","msg":errtxt(&e)}));
            return Ok(());
        }
    };
    tr.emit(json!({"ev":"Source","train":desc["train"],"unit":desc["unit"],"exact":desc["exact"],"net":desc["net"],"route":desc["route"]}));
    let route: Vec<u32> = ga(desc, "route").iter().map(|x| x.as_u64().unwrap() as u32).collect();
    let n = route.len();
    let parts = if n <= 5 { compositions(n) } else { vec![vec![n], vec![1; n], vec![n / 2, n - n / 2]] };
    run_route(tr, &network, train_params(&desc["train"]), &route, s, &parts, true, &|x| x);
    Ok(())
}

// ---------------------------------------------------------------------------------------------
// seeded generator: real-scale links on the 1/8 lattice (m, m, degree) + shipped networks

fn offsets(r: &mut Rng, len: i64, n: usize) -> Vec<i64> {
    let mut v = vec![0, len];
    let mut guard = 0;
    while v.len() < n && guard < 200 {
        let x = r.range(1, len - 1);
        if !v.contains(&x) {
            v.push(x);
        }
        guard += 1;
    }
    v.sort();
    v
}

fn gen_link(r: &mut Rng, prev: usize, palt: usize) -> Value {
    let len = r.range(50 * 8, 5000 * 8);
    let ne = r.range(2, 8) as usize;
    let mut e = r.range(0, 400 * 8);
    let elevs: Vec<Value> = offsets(r, len, ne)
        .iter()
        .map(|o| {
            e += r.range(-40, 40);
            json!([o, e])
        })
        .collect();
    let mut heads: Vec<Value> = vec![];
    if r.chance(3, 4) {
        let nh = r.range(2, 6) as usize;
        let offs = offsets(r, len, nh);
        let mut h = r.range(0, 360 * 8 - 1);
        for (i, o) in offs.iter().enumerate() {
            if i > 0 {
                // mostly gentle curves, sometimes sharp or a wrap through north
                let d = match r.range(0, 9) {
                    0 => r.range(-1400, 1400),
                    1 => r.range(-300, 300),
                    _ => r.range(-40, 40),
                };
                let mut nh_ = (h + d).rem_euclid(360 * 8);
                // keep clear of the exact knee 762 A = 25 R
                let run = o - offs[i - 1];
                let wrap = |x: i64| ((x + 180 * 8).rem_euclid(360 * 8) - 180 * 8).abs();
                if 762 * wrap(nh_ - h) == 25 * run && nh_ + 1 < 360 * 8 {
                    nh_ += 1;
                }
                h = nh_;
            }
            heads.push(json!([o, h]));
        }
    }
    let nc = r.range(0, 3) as usize;
    let mut cat = vec![];
    if nc > 0 {
        let offs = offsets(r, len, 2 * nc);
        for k in 0..offs.len() / 2 {
            cat.push(json!([offs[2 * k], offs[2 * k + 1], r.range(0, 8000) * 1000]));
        }
    }
    json!({"len":len,"elevs":elevs,"heads":heads,"cat":cat,"prev":prev,"palt":palt})
}

fn quad_fits(net: &[Value]) -> bool {
    for l in net {
        let h = l["heads"].as_array().unwrap();
        for w in h.windows(2) {
            let d = w[1][1].as_i64().unwrap() - w[0][1].as_i64().unwrap();
            let a = ((d + 180 * 8).rem_euclid(360 * 8) - 180 * 8).abs();
            let e = 762 * a - 25 * (w[1][0].as_i64().unwrap() - w[0][0].as_i64().unwrap());
            if e > 46340 {
                return false;
            }
        }
    }
    true
}

fn gen(seed: u64, n: usize, _tier: &str) -> Vec<Value> {
    let mut out = vec![];
    for k in 0..n {
        let mut r = Rng::new(seed.wrapping_mul(1_000_081).wrapping_add(k as u64));
        let nl = r.range(1, 6) as usize;
        let merge = nl >= 3 && r.chance(1, 3);
        let mut net = vec![];
        for i in 1..=nl {
            let (prev, palt) = if merge {
                match i {
                    1 | 2 => (0, 0),
                    3 => (1, 2),
                    _ => (i - 1, 0),
                }
            } else {
                (i - 1, 0)
            };
            net.push(gen_link(&mut r, prev, palt));
        }
        // a contiguous route ...
        let mut route: Vec<usize> = if merge {
            let start = *r.pick(&[1usize, 2, 3]);
            let mut v = vec![start];
            let mut c = if start <= 2 { 3 } else { 4 };
            while c <= nl {
                v.push(c);
                c += 1;
            }
            v
        } else {
            let a = r.range(1, nl as i64) as usize;
            (a..=nl).collect()
        };
        let cut = r.range(1, route.len() as i64) as usize;
        route.truncate(cut);
        // ... sometimes broken by one fault
        if r.chance(1, 4) {
            let i = r.range(0, route.len() as i64 - 1) as usize;
            match r.range(0, 4) {
                0 if route.len() >= 3 => {
                    route.remove(1);
                }
                1 if route.len() >= 2 => {
                    let j = i.min(route.len() - 2);
                    route.swap(j, j + 1)
                }
                2 => route.insert(i, route[i]),
                3 => route[i] = 0,
                _ => route.push(*r.pick(&(1..=nl).collect::<Vec<_>>())),
            }
        }
        let train = if quad_fits(&net) && r.chance(1, 2) { json!({"c0":2,"c1":1,"g16":1}) } else { json!({"c0":1,"c1":2,"g16":0}) };
        out.push(json!({"src":"gen","seed":seed,"k":k,"train":train,"unit":8,"exact":true,"net":net,"route":route}));
    }
    if n > 0 {
        let sc = "networks/simple_corridor_network.yaml";
        for rt in [vec![1, 2, 4], vec![1, 3, 4], vec![5, 7, 8], vec![5, 6, 8], vec![1, 4], vec![2, 4, 1]] {
            out.push(json!({"src":"gen","kind":"shipped","file":sc,"route":rt,"unit":32}));
        }
        let tc = "networks/Taconite.yaml";
        for (a, b) in [(0, 1000), (0, 12), (30, 60), (85, 92)] {
            out.push(json!({"src":"gen","kind":"shipped","file":tc,"route_csv":"demo_data/link_path.csv","from":a,"to":b,"unit":32,"seed":seed}));
        }
    }
    out
}

fn main() {
    main_with(gen, exec);
}
