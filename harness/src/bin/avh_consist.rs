//! ConsistSplit harness (C10; consist roll-ups of C01): builds real `Consist`s from dyadic toy units,
//! drives them exactly like `ConsistSimulation::solve_step` (set_pwr_aux, set_cur_pwr_max_out,
//! solve_energy_consumption, step; a clone is restored after an Err) and logs, after every step, the
//! request, the verdict of the code, every unit's published limits / drivetrain rating / assigned
//! power / drivetrain split, the consist aggregates and the cumulative energies. A second pass feeds
//! the accepted requests as a `PowerTrace` to a real `ConsistSimulation::walk` and logs its histories
//! in the same shape.
//!
//! Case descriptor (emitted by ConsistSplit.tla or by `gen`):
//! {"pdct":"RESGreedy"|"Proportional", "toy":bool,
//!  "units":[{"k":"C"|"B","c":1..3,"s":start class [, "g":{integer-coded parameters, see gen_params}]}, ..],
//!  "steps":["full","half",..]            demand classes, materialised from the published aggregates
//!  "dts":[2,2,..]                        optional, half-seconds per step (default 2 = 1 s)
//!  "engs":[true,false,..]                optional, engine_on per step (default true), handed to set_pwr_aux and
//!                                        solve_energy_consumption as Some(eng). ConsistSimulation::solve_step always
//!                                        passes Some(true), so only the API pass can command the engines off: a case
//!                                        with an engine-off step has no walk pass.
//!  "lim":bool                            optional, default true: false = Consist::set_assert_limits(false) (limit checking
//!                                        off in the consist and in every unit), in both passes
//!  "walk":bool                           optional, default false: second pass through ConsistSimulation::walk
//!  "negpub":bool                         optional, default false: go on when a unit publishes a NEGATIVE traction
//!                                        limit (battery unit whose discharge limit is below its aux load, i.e. at its
//!                                        minimum SOC). That input class is the known finding F-C10-1; it is kept out
//!                                        of the explored domain (the pass ends with an OutOfDomain event before the
//!                                        request is made) and is represented by the materialised inputs under known/.}
//! Toy unit (k,c,s) -> real parameters (the same table is written out in ConsistSplit.tla):
//!  every rating R = 64*c W, flat efficiencies 1, aux 1 W, dt 1 s;
//!  C: engine ramp lag 4 s (R/4 per step), floor R/4 (s=0 cold) | R/2 (s=1) | R (s=2 hot);
//!  B: capacity 16*R J, SOC window [1/8,7/8], ramps from 1/4 and 3/4,
//!     SOC(s) = 1/8 + X(s)/(8R) with X = R/2 (s=0), 3R (s=1), 11R/2 (s=2), R/16 (s=3), 6R (s=4), 0 (s=5).
//! All powers are logged at 1/16 W, energies at 1/16 J (QS): the lattice unit of ConsistSplit.tla.
use altrios_core::consist::locomotive::PowertrainType;
use altrios_core::consist::LocoTrait;
use altrios_core::prelude::*;
use altrios_core::uc;
use avh::build;
use avh::common::*;
use serde_json::{json, Value};

const QS: f64 = 16.0;
/// "just below / just above" offset of the demand classes [W] (= `Delta` of ConsistSplit.tla, two lattice units)
const DELTA: f64 = 0.125;

pub const CLASSES: [&str; 17] = [
    "full", "fullm", "fullp", "half", "rev", "revm", "revp", "low", "zero", "rgn", "rgnm", "rgnp", "rhalf",
    "dyn", "dynm", "dynp", "dmid",
];

fn toy_params(u: &Value) -> Value {
    let c = gi(u, "c") as f64;
    let s = gi(u, "s");
    let r = 64.0 * c;
    if gs(u, "k") == "B" {
        let x = match s {
            0 => r / 2.0,
            1 => 3.0 * r,
            2 => 5.5 * r,
            3 => r / 16.0,
            4 => 6.0 * r,
            _ => 0.0,
        };
        json!({"kind":"bel","rres":r,"redrv":r,"cap":16.0*r,"aux":1.0,"soc":0.125 + x/(8.0*r)})
    } else {
        let floor = match s {
            0 => r / 4.0,
            1 => r / 2.0,
            _ => r,
        };
        json!({"kind":"conv","rfc":r,"rgen":r,"redrv":r,"lag":4.0,"aux":1.0,"idle":1.0,"fc_init":floor})
    }
}

/// Generator units carry integers only (TLC reads the descriptors): powers in W, capacity in J,
/// k* = 1/efficiency, soc64 = SOC in 64ths, lag in s.
fn gen_params(g: &Value) -> Value {
    if gs(g, "kind") == "bel" {
        json!({"kind":"bel","rres":gf(g,"r"),"redrv":gf(g,"redrv"),"cap":gf(g,"cap"),"aux":gf(g,"aux"),
               "ke":gf(g,"ke"),"kr":gf(g,"kr"),"soc":gf(g,"soc64")/64.0})
    } else {
        json!({"kind":"conv","rfc":gf(g,"rfc"),"rgen":gf(g,"rgen"),"redrv":gf(g,"redrv"),"lag":gf(g,"lag"),
               "aux":gf(g,"aux"),"idle":1.0,"ke":gf(g,"ke"),"kg":gf(g,"kg"),"kf":gf(g,"kf"),"fc_init":gf(g,"floor")})
    }
}

fn unit_params(desc: &Value) -> Vec<Value> {
    ga(desc, "units")
        .iter()
        .map(|u| u.get("g").map(gen_params).unwrap_or_else(|| toy_params(u)))
        .collect()
}

fn edrv_of(l: &Locomotive) -> &ElectricDrivetrain {
    match &l.loco_type {
        PowertrainType::ConventionalLoco(x) => &x.edrv,
        PowertrainType::BatteryElectricLoco(x) => &x.edrv,
        PowertrainType::HybridLoco(x) => &x.edrv,
        PowertrainType::DummyLoco(_) => panic!("harness: DummyLoco not used"),
    }
}
fn kind_of(l: &Locomotive) -> &'static str {
    match &l.loco_type {
        PowertrainType::ConventionalLoco(_) => "C",
        PowertrainType::BatteryElectricLoco(_) => "B",
        PowertrainType::HybridLoco(_) => "H",
        PowertrainType::DummyLoco(_) => "D",
    }
}

/// The request of a demand class, from the aggregates the consist has just published.
fn materialise(cls: &str, s: &ConsistState) -> f64 {
    let om = s.pwr_out_max.value;
    let rv = s.pwr_out_max_reves.value;
    let rg = s.pwr_regen_max.value;
    let dy = s.pwr_dyn_brake_max.value;
    match cls {
        "full" => om,
        "fullm" => om - DELTA,
        "fullp" => om + DELTA,
        "half" => om / 2.0,
        "over" => om + om / 8.0, // far above the published consist limit: only a consist without limit checking takes these
        "dbl" => 2.0 * om,
        "rev" => rv,
        "revm" => rv - DELTA,
        "revp" => rv + DELTA,
        "low" => DELTA,
        "zero" => 0.0,
        "rgn" => -rg,
        "rgnm" => -rg + DELTA,
        "rgnp" => -rg - DELTA,
        "rhalf" => -rg / 2.0,
        "dyn" => -dy,
        "dynm" => -dy + DELTA,
        "dynp" => -dy - DELTA,
        "dmid" => -(rg + dy) / 2.0,
        _ => panic!("harness: unknown demand class {cls}"),
    }
}

/// One projected state: everything the trace spec binds. `k` = None reads the live state,
/// Some(k) reads entry k of the histories (after a walk).
fn project(c: &Consist, k: Option<usize>) -> Value {
    let mut q = Q::new();
    macro_rules! cs {
        ($f:ident) => {
            match k {
                None => c.state.$f.value,
                Some(k) => c.history.$f[k].value,
            }
        };
    }
    macro_rules! per_unit {
        ($get_live:expr, $get_hist:expr) => {{
            let v: Vec<Value> = c
                .loco_vec
                .iter()
                .map(|l| {
                    let x: f64 = match k {
                        None => $get_live(l),
                        Some(k) => $get_hist(l, k),
                    };
                    q.q(x, QS)
                })
                .collect();
            Value::Array(v)
        }};
    }
    let kind: Vec<&str> = c.loco_vec.iter().map(kind_of).collect();
    let rat = per_unit!(|l: &Locomotive| edrv_of(l).pwr_out_max.value, |l: &Locomotive, _k: usize| edrv_of(l)
        .pwr_out_max
        .value);
    let pubm = per_unit!(|l: &Locomotive| l.state.pwr_out_max.value, |l: &Locomotive, k: usize| l
        .history
        .pwr_out_max[k]
        .value);
    let rgn = per_unit!(|l: &Locomotive| l.state.pwr_regen_max.value, |l: &Locomotive, k: usize| l
        .history
        .pwr_regen_max[k]
        .value);
    let p = per_unit!(|l: &Locomotive| l.state.pwr_out.value, |l: &Locomotive, k: usize| l.history.pwr_out[k].value);
    let mpo = per_unit!(
        |l: &Locomotive| edrv_of(l).state.pwr_mech_prop_out.value,
        |l: &Locomotive, k: usize| edrv_of(l).history.pwr_mech_prop_out[k].value
    );
    let mdb = per_unit!(
        |l: &Locomotive| edrv_of(l).state.pwr_mech_dyn_brake.value,
        |l: &Locomotive, k: usize| edrv_of(l).history.pwr_mech_dyn_brake[k].value
    );
    let ue_out = per_unit!(|l: &Locomotive| l.state.energy_out.value, |l: &Locomotive, k: usize| l
        .history
        .energy_out[k]
        .value);
    let ue_fuel = per_unit!(
        |l: &Locomotive| l.fuel_converter().map(|f| f.state.energy_fuel.value).unwrap_or(0.0),
        |l: &Locomotive, k: usize| l.fuel_converter().map(|f| f.history.energy_fuel[k].value).unwrap_or(0.0)
    );
    let ue_res = per_unit!(
        |l: &Locomotive| l
            .reversible_energy_storage()
            .map(|r| r.state.energy_out_chemical.value)
            .unwrap_or(0.0),
        |l: &Locomotive, k: usize| l
            .reversible_energy_storage()
            .map(|r| r.history.energy_out_chemical[k].value)
            .unwrap_or(0.0)
    );
    let up_fuel = per_unit!(
        |l: &Locomotive| l.fuel_converter().map(|f| f.state.pwr_fuel.value).unwrap_or(0.0),
        |l: &Locomotive, k: usize| l.fuel_converter().map(|f| f.history.pwr_fuel[k].value).unwrap_or(0.0)
    );
    let up_res = per_unit!(
        |l: &Locomotive| l
            .reversible_energy_storage()
            .map(|r| r.state.pwr_out_chemical.value)
            .unwrap_or(0.0),
        |l: &Locomotive, k: usize| l
            .reversible_energy_storage()
            .map(|r| r.history.pwr_out_chemical[k].value)
            .unwrap_or(0.0)
    );
    // hidden state of a unit as Level B names it: C = engine shaft power of the step, B = X = (E - E_min) / 2 s
    let ust = per_unit!(
        |l: &Locomotive| match (l.fuel_converter(), l.reversible_energy_storage()) {
            (Some(f), _) => f.state.pwr_brake.value,
            (_, Some(r)) => (r.state.soc.value - r.min_soc.value) * r.energy_capacity.value / 2.0,
            _ => 0.0,
        },
        |l: &Locomotive, k: usize| match (l.fuel_converter(), l.reversible_energy_storage()) {
            (Some(f), _) => f.history.pwr_brake[k].value,
            (_, Some(r)) => (r.history.soc[k].value - r.min_soc.value) * r.energy_capacity.value / 2.0,
            _ => 0.0,
        }
    );
    let agg = json!({
        "out_max": q.q(cs!(pwr_out_max), QS), "reves": q.q(cs!(pwr_out_max_reves), QS),
        "non_reves": q.q(cs!(pwr_out_max_non_reves), QS), "regen_max": q.q(cs!(pwr_regen_max), QS),
        "dyn_max": q.q(cs!(pwr_dyn_brake_max), QS), "def_out": q.q(cs!(pwr_out_deficit), QS),
        "def_regen": q.q(cs!(pwr_regen_deficit), QS),
    });
    let tot = json!({
        "p_out": q.q(cs!(pwr_out), QS), "p_fuel": q.q(cs!(pwr_fuel), QS), "p_res": q.q(cs!(pwr_reves), QS),
        "e_out": q.q(cs!(energy_out), QS), "e_fuel": q.q(cs!(energy_fuel), QS), "e_res": q.q(cs!(energy_res), QS),
        "e_pos": q.q(cs!(energy_out_pos), QS), "e_neg": q.q(cs!(energy_out_neg), QS),
        "g_fuel": if k.is_none() { q.q(c.get_energy_fuel().value, QS) } else { json!(0) },
        "g_res": if k.is_none() { q.q(c.get_net_energy_res().value, QS) } else { json!(0) },
    });
    json!({"req": q.q(cs!(pwr_out_req), QS), "kind": kind, "rat": rat, "pub": pubm, "rgn": rgn, "p": p,
           "mpo": mpo, "mdb": mdb, "agg": agg, "tot": tot, "ue_out": ue_out, "ue_fuel": ue_fuel,
           "ue_res": ue_res, "up_fuel": up_fuel, "up_res": up_res, "ust": ust,
           "exact": q.exact && !q.overflow, "ovf": q.overflow})
}

fn exec(desc: &Value, tr: &mut Tracer) -> anyhow::Result<()> {
    let pdct = gs(desc, "pdct");
    let pars = unit_params(desc);
    let steps: Vec<String> = ga(desc, "steps").iter().map(|x| x.as_str().unwrap().to_string()).collect();
    let dts: Vec<f64> = match desc.get("dts").and_then(|x| x.as_array()) {
        Some(a) => a.iter().map(|x| x.as_f64().unwrap() / 2.0).collect(),
        None => vec![1.0; steps.len()],
    };
    let engs: Vec<bool> = match desc.get("engs").and_then(|x| x.as_array()) {
        Some(a) => a.iter().map(|x| x.as_bool().unwrap_or(true)).collect(),
        None => vec![true; steps.len()],
    };
    let all_on = engs.iter().all(|x| *x);
    let negpub = desc.get("negpub").and_then(|x| x.as_bool()).unwrap_or(false);
    let lim = desc.get("lim").and_then(|x| x.as_bool()).unwrap_or(true);
    let mut c = build::consist(&pars, pdct, None)?;
    if !lim {
        c.set_assert_limits(false);
    }
    let mut accepted: Vec<(f64, f64)> = vec![];
    // ---- pass 1: the public API, call by call (ConsistSimulation::solve_step + step)
    for (k, cls) in steps.iter().enumerate() {
        let dt = uc::S * dts[k];
        let eng = engs.get(k).copied().unwrap_or(true);
        c.set_pwr_aux(Some(eng))?;
        if let Err(e) = c.set_cur_pwr_max_out(None, dt) {
            tr.emit(json!({"ev":"PublishErr","i":k+1,"msg":errtxt(&e)}));
            break;
        }
        if !negpub && c.loco_vec.iter().any(|l| l.state.pwr_out_max.value < 0.0) {
            tr.emit(json!({"ev":"OutOfDomain","i":k+1,"why":"a unit published a negative traction limit (F-C10-1 class)"}));
            break;
        }
        let req = materialise(cls, &c.state);
        let keep = c.clone();
        let r = c.solve_energy_consumption(uc::W * req, dt, Some(eng));
        let mut rec = match &r {
            Ok(()) => project(&c, None),
            Err(_) => {
                // the step never happened (walk would stop here): the published limits stay, the rest is restored
                c = keep;
                project(&c, None)
            }
        };
        let o = rec.as_object_mut().unwrap();
        o.insert("ev".into(), json!("Step"));
        o.insert("via".into(), json!("api"));
        o.insert("i".into(), json!(k + 1));
        o.insert("cls".into(), json!(cls));
        o.insert("dt2".into(), json!((dts[k] * 2.0) as i64));
        o.insert("acc".into(), json!(r.is_ok()));
        o.insert("eng".into(), json!(eng));
        o.insert("req".into(), qi(req, QS));
        o.insert("sg".into(), json!(if req > 0.0 { 1 } else if req < 0.0 { -1 } else { 0 }));
        if let Err(e) = &r {
            o.insert("msg".into(), json!(errtxt(e)));
        }
        tr.emit(rec);
        if std::env::var("AVH_CONSIST_F64").is_ok() {
            // debug aid (stderr only, never part of the trace): the unrounded numbers of the step
            eprintln!("step {} {} req={:e} acc={} out_max={:e} reves={:e}", k + 1, cls, req, r.is_ok(),
                      c.state.pwr_out_max.value, c.state.pwr_out_max_reves.value);
            for (i, l) in c.loco_vec.iter().enumerate() {
                eprintln!("  unit {} {} pwr_out={:e} pwr_out_max={:e} diff={:e}", i, kind_of(l), l.state.pwr_out.value,
                          l.state.pwr_out_max.value, l.state.pwr_out.value - l.state.pwr_out_max.value);
            }
        }
        if r.is_ok() {
            accepted.push((req, dts[k]));
            c.step();
        }
    }
    // ---- pass 2: the accepted requests as a PowerTrace through a real ConsistSimulation::walk
    if all_on && desc.get("walk").and_then(|x| x.as_bool()).unwrap_or(false) && !accepted.is_empty() {
        let mut time = vec![0.0];
        let mut pwr = vec![0.0];
        for (req, dt) in &accepted {
            time.push(time.last().unwrap() + dt);
            pwr.push(*req);
        }
        let n = time.len();
        let pt = PowerTrace::new(time, pwr, vec![Some(true); n]);
        let mut cw = build::consist(&pars, pdct, Some(1))?;
        if !lim {
            cw.set_assert_limits(false);
        }
        let mut sim = ConsistSimulation::new(cw, pt, Some(1));
        tr.emit(json!({"ev":"Pass","via":"walk"}));
        let r = sim.walk();
        let done = sim.loco_con.history.len().saturating_sub(1);
        for k in 1..=done {
            let mut rec = project(&sim.loco_con, Some(k));
            let o = rec.as_object_mut().unwrap();
            o.insert("ev".into(), json!("Step"));
            o.insert("via".into(), json!("walk"));
            o.insert("i".into(), json!(k));
            o.insert("cls".into(), json!("trace"));
            o.insert("dt2".into(), json!((accepted[k - 1].1 * 2.0) as i64));
            o.insert("acc".into(), json!(true));
            let rq = accepted[k - 1].0;
            o.insert("sg".into(), json!(if rq > 0.0 { 1 } else if rq < 0.0 { -1 } else { 0 }));
            tr.emit(rec);
        }
        tr.emit(json!({"ev":"Walk","ok":r.is_ok(),"steps":done,"want":accepted.len(),
                       "msg": r.as_ref().err().map(errtxt).unwrap_or_default()}));
    }
    Ok(())
}

/// Seeded random mixed consists of 1..8 units (differing ratings, efficiencies, aux loads, ramp lags,
/// floors, capacities and SOC), both policies, random sequences over the demand classes with
/// dt in {1/2, 1, 2} s: the earlier steps are the ramp / SOC history of the later ones.
/// Domain: battery capacity >= 32 s of rated power (dt <= DtSafe of C09, the SOC stays inside its window),
/// engine floors >= rating/8 (above the code's rating/10, so the floor stays dyadic).
fn gen(seed: u64, n: usize, tier: &str) -> Vec<Value> {
    let mut out = vec![];
    let maxsteps = if tier == "quick" { 8 } else { 14 };
    // the nine demand classes of the design probe first, the remaining boundary classes less often
    let nine = ["full", "fullm", "half", "rev", "revp", "zero", "rgn", "rgnp", "dyn"];
    for k in 0..n {
        let mut r = Rng::new(seed.wrapping_mul(1_000_003).wrapping_add(k as u64).wrapping_add(77));
        let nu = r.range(1, 8);
        let mix = r.range(0, 3); // 0 any, 1 mostly conv, 2 mostly bel, 3 alternate
        let mut units = vec![];
        for j in 0..nu {
            let bel = match mix {
                1 => r.chance(1, 4),
                2 => r.chance(3, 4),
                3 => j % 2 == 0,
                _ => r.chance(1, 2),
            };
            let c = r.range(1, 3);
            let base = 64.0 * c as f64;
            let aux = *r.pick(&[0.0, 1.0, 2.0, 4.0]);
            let ke = *r.pick(&[1.0, 1.0, 2.0]);
            let redrv = base * *r.pick(&[0.5, 1.0, 1.0, 2.0]);
            if bel {
                // (a battery unit with an aux load next to its minimum SOC publishes a negative traction limit: that
                // class is F-C10-1, kept rare here and represented by the inputs under known/)
                let aux = if r.chance(1, 2) { 0.0 } else { aux };
                let soc64 = if r.chance(1, 4) { *r.pick(&[10i64, 12, 16, 32, 48, 52, 55, 56]) } else { r.range(10, 56) };
                units.push(json!({"k":"B","c":c,"s":9,"g":{"kind":"bel","r":base as i64,"redrv":redrv as i64,
                    "cap": (base * *r.pick(&[32.0, 64.0, 128.0])) as i64, "aux":aux as i64, "ke":ke as i64,
                    "kr": *r.pick(&[1i64, 1, 2]), "soc64": soc64}}));
            } else {
                units.push(json!({"k":"C","c":c,"s":9,"g":{"kind":"conv","rfc":(base * *r.pick(&[1.0, 1.0, 2.0])) as i64,
                    "rgen":(base * *r.pick(&[1.0, 1.0, 2.0])) as i64,"redrv":redrv as i64,"lag": *r.pick(&[2i64, 4, 8, 16]),
                    "aux":aux as i64,"ke":ke as i64,"kg": *r.pick(&[1i64, 1, 2]),"kf": *r.pick(&[1i64, 2, 4]),
                    "floor": (base / *r.pick(&[8.0, 4.0, 2.0, 1.0])) as i64}}));
            }
        }
        let ns = r.range(3, maxsteps);
        let style = r.range(0, 3); // 0 random, 1 ride the traction limit then brake, 2 brake hard then pull, 3 boundaries
        let mut steps = vec![];
        let mut dts = vec![];
        for j in 0..ns {
            let cls: &str = match style {
                1 if j < ns * 2 / 3 => *r.pick(&["full", "fullm", "half", "rev"]),
                2 if j < ns / 2 => *r.pick(&["dyn", "dynm", "rgn", "rgnp", "dmid"]),
                3 => *r.pick(&["rev", "revm", "revp", "rgn", "rgnm", "rgnp", "full", "dyn"]),
                _ => {
                    if r.chance(3, 4) {
                        *r.pick(&nine)
                    } else {
                        *r.pick(&CLASSES)
                    }
                }
            };
            steps.push(cls);
            dts.push(*r.pick(&[1i64, 2, 2, 4]));
        }
        let pdct = if r.chance(1, 2) { "RESGreedy" } else { "Proportional" };
        // every fifth case: limit checking off (Consist::set_assert_limits(false)), with demands far above the published
        // consist limit mixed in (that is where the mode differs)
        let nolim = k % 5 == 2;
        if nolim {
            for s in steps.iter_mut() {
                if r.chance(1, 3) {
                    *s = *r.pick(&["over", "dbl", "fullp", "full", "dynp"]);
                }
            }
        }
        // every fourth case: engines commanded off (engine_on = Some(false)) on most braking / coasting steps -
        // dynamic braking does not need the engine; only a direct caller of the Consist API can do this
        let offcase = k % 4 == 3;
        let engs: Vec<bool> = steps.iter()
            .map(|c| !(offcase && ["dyn", "dynm", "dynp", "dmid", "rgn", "rgnm", "rgnp", "rhalf", "zero"].contains(c) && r.chance(3, 4)))
            .collect();
        let mut d = json!({"src":"gen","seed":seed,"k":k,"toy":false,"pdct":pdct,
            "units":units,"steps":steps,"dts":dts,"walk":true});
        if engs.iter().any(|x| !*x) {
            d["engs"] = json!(engs);
        }
        if nolim {
            d["lim"] = json!(false);
        }
        out.push(d);
    }
    out
}

fn main() {
    main_with(gen, exec);
}
