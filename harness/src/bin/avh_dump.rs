//! Debug helper: builds the toy units and prints a few steps (not used by any check).
use altrios_core::consist::LocoTrait;
use altrios_core::prelude::*;
use altrios_core::uc;
use serde_json::json;
fn main() -> anyhow::Result<()> {
    let mut c = avh::build::loco(&json!({"kind":"conv","kf":2,"kg":2,"ke":2}))?;
    let mut b = avh::build::loco(&json!({"kind":"bel","kr":2,"ke":2,"soc":0.5}))?;
    for l in [&mut c, &mut b] {
        l.set_pwr_aux(Some(true));
        l.set_cur_pwr_max_out(None, uc::S * 1.0)?;
        println!("pub {} regen {}", l.state.pwr_out_max.value, l.state.pwr_regen_max.value);
        let r = l.solve_energy_consumption(uc::W * 100.0, uc::S * 1.0, Some(true));
        println!("{:?} out {}", r.is_ok(), l.state.pwr_out.value);
    }
    let mut con = avh::build::consist(&[json!({"kind":"conv"}), json!({"kind":"bel"})], "RESGreedy", None)?;
    con.set_pwr_aux(Some(true))?;
    con.set_cur_pwr_max_out(None, uc::S * 1.0)?;
    println!("consist pub {}", con.state.pwr_out_max.value);
    let tc = avh::build::train_config(&json!({"n":4}))?;
    println!("{:?}", tc.make_train_params()?);
    Ok(())
}
