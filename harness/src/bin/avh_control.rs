//! Control harness (C03): a speed-limited train never overspeeds, never reverses, stops inside its
//! path; the run ends Ok or with a descriptive error; the target speed is never above the limit.
//!
//! Case descriptor (kind "run", produced by `gen` or stored under known/):
//! {"kind":"run","oscale":1,"vscale":1,"escale":100,
//!  "links":[{"len":m,"head":bool,"params":[],"rs":[[s,e,v]..],"elevs":[[o,cm]..]},..],   route = links in order
//!  "train":{"cars":[{"type":..,"n":..,"car_len":..,"car_mass":..,"freight":..,"axles":..,"brakes":..,
//!                    "vmax":..,"braking_ratio":..,"mass_rot":..,"bearing":..,"rolling":..,"davis_b":..,
//!                    "cd_area":..,"c0":..,"c1":..,"c2":..},..]},
//!  "consist":{"kind":"default"} | {"kind":"mixed","locos":["conv"|"bel",..],"pdct":"RESGreedy"|"Proportional"},
//!  "t0":s, "ramp":s (optional brake build-up time, default 0 as TrainSimBuilder sets it),
//!  "sched":"whole"|"bylink"|"timed"|"esttimes"|"stopgo"|"timedwait",
//!  "look":m (bylink: extend when the end of authority is nearer), "tp":[[link,time_s]..] (timedwait)}
//!   stopgo    = extend_path + the library's walk() after each link (the train rests at every end of authority)
//!   timedwait = the library's walk_timed_path() on a hand-made timed path that makes the train wait at ends of
//!               authority before (short) links are released
//! Case descriptor (kind "table", emitted by BrakingCurve.tla): {"kind":"table","zones":[[o,v]..],"end":E}
//!  — unit-mass train with a 2 N brake on flat, resistance-free track: `BrakingPoints::recalc` then
//!  computes in exact small integers and can be compared with the model's table point by point.
//!
//! The harness never calls `walk()` blindly: it drives the sim with its own loop over the public
//! `step()` using `walk_internal`'s termination condition and a step cap, logs every step, and only
//! then calls `walk()` / `walk_timed_path()` on a clone (whose termination is then known).
//!
//! Trace records (all integers; offsets round(x*2^6), speeds floor/ceil(x*2^16), times round(x*2^3)):
//!  Header {dom:{short,light}, tlen, ncars, amin, sched}
//!  Build  {ok,msg,cls}                                                         cls = "internal" | "descriptive"
//!  Table  {ok,msg,cls,toy, sp:[[o,vceil]..], end, pts:[[o,lfloor,lceil,tfloor]..]}   after every extend_path
//!  Steps  {s:[[i,t,o,vfloor,vlfloor,vlceil,vtfloor,idx_curr]..]}              chunks of consecutive steps
//!  Ctrl   {ok,msg,cls,exact,s:[[k,2*o,v,idx_curr,fric,limit,target]..]}        a Controller.tla run in model units
//!  Stage  {}                                                                   a new leg starts (stop-and-go)
//!  stepcap{steps}
//!  Final  {ok,msg,steps,end,o,v}                                              end of the harness-driven run
//!  Walk   {api,ok,msg,i,o,v,end,same}                                         the library's own walk on a clone
//!  EstTimes{ok,msg,n}  Dispatch{ok,msg,n}
use altrios_core::meet_pass::dispatch::run_dispatch;
use altrios_core::prelude::*;
use altrios_core::uc;
use avh::common::*;
use avh::{build, netgen};
use serde_json::{json, Value};
use std::collections::HashMap;

const OS: f64 = 64.0;
const VS: f64 = 65536.0;
const TS: f64 = 8.0;
const CHUNK: usize = 256;
const G: f64 = 9.80665;
const FT1000: f64 = 304.8;

// ---------------------------------------------------------------------------------------------
// rolling stock (python/altrios/resources/rolling_stock/*.yaml)

struct RvT {
    name: &'static str,
    len: f64,
    mass: f64,
    freight: f64,
    br: f64,
    bearing: f64,
    rolling: f64,
    cd: f64,
    c: [f64; 3],
}
const CURVE: [f64; 3] = [0.056, 0.4387579, 0.01025485];
const RVS: [RvT; 6] = [
    RvT { name: "Manifest_Loaded", len: 18.0, mass: 28500.0, freight: 101500.0, br: 0.11, bearing: 40.26, rolling: 0.001546, cd: 4.087, c: CURVE },
    RvT { name: "Manifest_Empty", len: 18.0, mass: 28500.0, freight: 0.0, br: 0.25, bearing: 40.26, rolling: 0.001546, cd: 1.231, c: CURVE },
    RvT { name: "Unit_Loaded", len: 10.7, mass: 26500.0, freight: 90500.0, br: 0.11, bearing: 80.0, rolling: 0.00075, cd: 4.0, c: CURVE },
    RvT { name: "Unit_Empty", len: 10.7, mass: 26500.0, freight: 0.0, br: 0.25, bearing: 80.0, rolling: 0.00075, cd: 4.0, c: CURVE },
    RvT { name: "Intermodal_Loaded", len: 18.0, mass: 28500.0, freight: 101500.0, br: 0.11, bearing: 80.0, rolling: 0.00075, cd: 4.0, c: [0.0; 3] },
    RvT { name: "Intermodal_Empty", len: 18.0, mass: 28500.0, freight: 0.0, br: 0.25, bearing: 80.0, rolling: 0.00075, cd: 4.0, c: [0.0; 3] },
];
fn car_json(t: &RvT, n: i64, vmax: f64) -> Value {
    json!({"type":t.name,"n":n,"car_len":t.len,"car_mass":t.mass,"freight":t.freight,"axles":4,"brakes":1,
           "vmax":vmax,"braking_ratio":t.br,"mass_rot":750.0,"bearing":t.bearing,"rolling":t.rolling,
           "davis_b":0.0,"cd_area":t.cd,"c0":t.c[0],"c1":t.c[1],"c2":t.c[2]})
}

// ---------------------------------------------------------------------------------------------
// input-level domain predicates (pure functions of the descriptor; DESIGN.md C03)

fn cars(desc: &Value) -> &Vec<Value> {
    ga(&desc["train"], "cars")
}
fn ncars(desc: &Value) -> i64 {
    cars(desc).iter().map(|c| gi(c, "n")).sum()
}
fn train_len(desc: &Value) -> f64 {
    cars(desc).iter().map(|c| gi(c, "n") as f64 * gf(c, "car_len")).sum()
}
fn vmax(desc: &Value) -> f64 {
    cars(desc).iter().filter(|c| gi(c, "n") > 0).map(|c| gf(c, "vmax")).fold(f64::INFINITY, f64::min)
}
fn nlocos(desc: &Value) -> usize {
    match desc["consist"]["kind"].as_str() {
        Some("mixed") => ga(&desc["consist"], "locos").len(),
        _ => 5,
    }
}
/// steepest down grade (as a positive fraction) of any elevation segment of the route
fn worst_down(desc: &Value) -> f64 {
    let es = netgen::scale(desc, "escale");
    let os = netgen::scale(desc, "oscale");
    let mut w: f64 = 0.0;
    for l in ga(desc, "links") {
        if let Some(ev) = l.get("elevs").and_then(|x| x.as_array()) {
            for p in ev.windows(2) {
                let dx = (p[1][0].as_f64().unwrap() - p[0][0].as_f64().unwrap()) / os;
                let dz = (p[1][1].as_f64().unwrap() - p[0][1].as_f64().unwrap()) / es;
                if dx > 0.0 {
                    w = w.max(-dz / dx);
                }
            }
        }
    }
    w
}
/// lower bound of the deceleration the braking table assumes: friction brakes only
/// (g * mean braking ratio * towed mass, TrainSimBuilder::make_train_sim_parts) on the whole train
/// (locomotives bounded above by 200 t each) against the steepest down grade; other resistances only help
fn a_min(desc: &Value) -> f64 {
    let n = ncars(desc) as f64;
    let towed: f64 = cars(desc).iter().map(|c| gi(c, "n") as f64 * (gf(c, "car_mass") + gf(c, "freight"))).sum();
    let rot: f64 = cars(desc).iter().map(|c| gi(c, "n") as f64 * gf(c, "axles") * gf(c, "mass_rot")).sum();
    let br: f64 = cars(desc).iter().map(|c| gi(c, "n") as f64 * gf(c, "braking_ratio")).sum::<f64>() / n.max(1.0);
    let mloco = nlocos(desc) as f64 * 200_000.0;
    let af = G * towed * br / (towed + mloco + rot);
    af - G * worst_down(desc) * (towed + mloco) / (towed + mloco + rot)
}
/// The enforced profile as zones [(start, limit)], computed from the restrictions (minimum of the
/// train's own maximum and every restriction in force; tail-end sets extended by the train length).
fn profile(desc: &Value) -> (Vec<(f64, f64)>, Vec<f64>) {
    let os = netgen::scale(desc, "oscale");
    let vs = netgen::scale(desc, "vscale");
    let tl = train_len(desc);
    let vm = vmax(desc);
    let mut rs: Vec<(f64, f64, f64)> = vec![];
    let mut ends = vec![];
    let mut base = 0.0;
    for l in ga(desc, "links") {
        let head = l.get("head").and_then(|x| x.as_bool()).unwrap_or(false);
        for r in ga(l, "rs") {
            let s = r[0].as_f64().unwrap() / os + base;
            let e = r[1].as_f64().unwrap() / os + base + if head { 0.0 } else { tl };
            // a restriction may be written with a negative value: it restricts by its magnitude
            let v = (r[2].as_f64().unwrap() / vs).abs();
            if v < vm && s < e {
                rs.push((s, e, v));
            }
        }
        base += gf(l, "len") / os;
        ends.push(base);
    }
    let mut bk: Vec<f64> = vec![0.0];
    for r in &rs {
        bk.push(r.0);
        bk.push(r.1);
    }
    bk.retain(|x| *x < base);
    bk.sort_by(|a, b| a.partial_cmp(b).unwrap());
    bk.dedup();
    let mut zones: Vec<(f64, f64)> = vec![];
    for x in bk {
        let v = rs.iter().filter(|r| r.0 <= x && x < r.1).map(|r| r.2).fold(vm, f64::min);
        if zones.last().map(|z| z.1 != v).unwrap_or(true) {
            zones.push((x, v));
        }
    }
    (zones, ends)
}
/// ShortWindow: a speed increase followed — within 1.5 x the braking distance from the window's
/// highest limit down to the lower limit, plus three steps of travel — by a decrease of the limit or
/// by an end of authority (limit 0). `ends` = every path end the schedule creates.
fn short_window(zones: &[(f64, f64)], ends: &[f64], amin: f64) -> bool {
    if amin <= 0.02 {
        return true;
    }
    let total = *ends.last().unwrap();
    for i in 1..zones.len() {
        if zones[i].1 <= zones[i - 1].1 {
            continue;
        }
        let oi = zones[i].0;
        // decreases after the increase: zone boundaries with a lower limit, and ends of authority
        let mut vhi = zones[i].1;
        let mut drops: Vec<(f64, f64, f64)> = vec![]; // (offset, v_lo, v_hi up to there)
        for j in (i + 1)..zones.len() {
            if zones[j].1 < vhi {
                drops.push((zones[j].0, zones[j].1, vhi));
            }
            vhi = vhi.max(zones[j].1);
        }
        for e in ends {
            if *e > oi && *e <= total {
                let vh = zones.iter().enumerate().filter(|(j, z)| *j >= i && z.0 < *e).map(|(_, z)| z.1).fold(0.0, f64::max);
                drops.push((*e, 0.0, vh));
            }
        }
        for (od, vlo, vh) in drops {
            let need = 1.5 * (vh * vh - vlo * vlo) / (2.0 * amin) + 3.0 * vh + 10.0;
            if od - oi < need {
                return true;
            }
        }
    }
    false
}
/// Not a domain predicate, only generator steering: a decrease of the limit whose braking curve reaches
/// back to within a train length of the origin makes `recalc` return the descriptive error "Offset in
/// reverse direction smaller than first slice offset" (the curve is evaluated with the train's rear
/// before the start of the path) — allowed, but such a run tests nothing else.
fn near_origin(desc: &Value) -> bool {
    let (zones, _) = profile(desc);
    let amin = a_min(desc).max(0.02);
    let tl = train_len(desc);
    (1..zones.len()).any(|j| {
        let (vhi, vlo) = (zones[..j].iter().map(|z| z.1).fold(0.0, f64::max), zones[j].1);
        vlo < zones[j - 1].1 && zones[j].0 - (vhi * vhi - vlo * vlo) / (2.0 * amin) - 3.0 * vhi < tl + 5.0
    })
}
fn sched_ends(desc: &Value, ends: &[f64]) -> Vec<f64> {
    match desc["sched"].as_str() {
        Some("whole") => vec![*ends.last().unwrap()],
        _ => ends.to_vec(),
    }
}
fn dom_short(desc: &Value) -> bool {
    let (zones, ends) = profile(desc);
    short_window(&zones, &sched_ends(desc, &ends), a_min(desc))
}
/// LightTrain: fewer than 10 cars, or — the same mechanism stated on the input — a train whose
/// friction-only braking distance from its top speed exceeds the 1000 ft stopping window. Outside this
/// class a train that starts braking for the stop anywhere on the table's curve cannot come to rest
/// before the window, however hard it actually brakes.
fn dom_light(desc: &Value) -> bool {
    let v = vmax(desc);
    let a = a_min(desc);
    // with a brake build-up time the controller looks ahead by speed * ramp_up_time * ramp_up_coeff (0.6,
    // train_config.rs:515) and starts braking for the stop that much earlier
    let ramp = desc.get("ramp").and_then(|x| x.as_f64()).unwrap_or(0.0);
    ncars(desc) < 10 || a <= 0.02 || v * v / (2.0 * a) + v * ramp * 0.6 > FT1000
}

// ---------------------------------------------------------------------------------------------
// projection

fn table_event(sim: &SpeedLimitTrainSim, ok: bool, msg: &str) -> Value {
    let cls = errcls_txt(msg);
    let sp: Vec<Value> = sim
        .path_tpc
        .speed_points()
        .iter()
        // the signed value PathTpc stores (a negative value is an encoding, the limit is its magnitude:
        // track/link/speed/speed_limit.rs:3-9); magnitude rounded up, sign kept — the spec takes Abs
        .map(|p| {
            let v = p.speed_limit.value;
            let m = q_ceil(v.abs(), VS).as_i64().unwrap_or(INF);
            json!([qi(p.offset.value, OS), if v < 0.0 { -m } else { m }])
        })
        .collect();
    let bp = serde_json::to_value(&sim.braking_points).unwrap();
    let pts: Vec<Value> = bp["points"]
        .as_array()
        .cloned()
        .unwrap_or_default()
        .iter()
        .map(|p| {
            let o = p["offset"].as_f64().unwrap_or(f64::NAN);
            let l = p["speed_limit"].as_f64().unwrap_or(f64::NAN);
            let t = p["speed_target"].as_f64().unwrap_or(f64::NAN);
            json!([qi(o, OS), q_floor(l, VS), q_ceil(l, VS), q_floor(t, VS)])
        })
        .collect();
    // the bincode shortcut of idx_curr1 must agree with the JSON projection
    let ic_json = bp["idx_curr"].as_u64().map(|x| x + 1).unwrap_or(0);
    let ic_ok = pts.is_empty() || ic_json == idx_curr1(sim);
    json!({"ev":"Table","ok":ok,"msg":msg,"cls":cls,"toy":false,"sp":sp,"end":qi(sim.path_tpc.offset_end().value, OS),"pts":pts,
           "ic":ic_json,"ic_ok":ic_ok})
}
/// `BrakingPoints.idx_curr` (private; 1-based here, like the TLA+ side; 0 = unavailable). Serialising the whole
/// table to JSON at every step would dominate the run, so the index is read from the tail of the bincode image
/// (struct { points: Vec<_>, idx_curr: usize }: the last 8 bytes); `table_event` cross-checks it against the JSON.
fn idx_curr1(sim: &SpeedLimitTrainSim) -> u64 {
    match bincode::serialize(&sim.braking_points) {
        Ok(b) if b.len() >= 16 => {
            let mut a = [0u8; 8];
            a.copy_from_slice(&b[b.len() - 8..]);
            u64::from_le_bytes(a) + 1
        }
        _ => 0,
    }
}
fn step_rec(sim: &SpeedLimitTrainSim, i: usize) -> Value {
    let s = &sim.state;
    json!([i, qi(s.time.value, TS), qi(s.offset.value, OS), q_floor(s.speed.value, VS),
           q_floor(s.speed_limit.value, VS), q_ceil(s.speed_limit.value, VS), q_floor(s.speed_target.value, VS),
           idx_curr1(sim)])
}
struct Steps {
    buf: Vec<Value>,
    n: usize,
}
impl Steps {
    fn new() -> Self {
        Steps { buf: vec![], n: 0 }
    }
    fn push(&mut self, tr: &mut Tracer, sim: &SpeedLimitTrainSim) {
        self.buf.push(step_rec(sim, self.n));
        self.n += 1;
        if self.buf.len() >= CHUNK {
            self.flush(tr);
        }
    }
    fn flush(&mut self, tr: &mut Tracer) {
        if !self.buf.is_empty() {
            tr.emit(json!({"ev":"Steps","s":std::mem::take(&mut self.buf)}));
        }
    }
}
/// Class of an error text: "internal" = one of the solver's own consistency checks (`ensure!` on the power /
/// force bounds it has just computed, speed_limit_train_sim.rs:461-464, :608-617, :625-643) — an assertion
/// turned into an Err, not a description of the input; everything else is "descriptive".
fn errcls_txt(full: &str) -> &'static str {
    const INTERNAL: [&str; 4] = [
        "Power wheel out is larger than max positive power",
        "Power wheel out is larger than max negative power",
        "Too much force requested from friction brake",
        "pwr_pos_max >= si::Power::ZERO",
    ];
    if INTERNAL.iter().any(|k| full.contains(k)) {
        "internal"
    } else {
        "descriptive"
    }
}
fn errpair(e: &anyhow::Error) -> (String, &'static str) {
    (errtxt(e), errcls_txt(&format!("{e:#}")))
}
/// walk_internal's loop condition (speed_limit_train_sim.rs:335-337)
fn must_go_on(sim: &SpeedLimitTrainSim) -> bool {
    let end = sim.path_tpc.offset_end();
    sim.state.offset < end - 1000.0 * uc::FT || (sim.state.offset < end && sim.state.speed != uc::MPS * 0.0)
}
fn final_event(sim: &SpeedLimitTrainSim, ok: bool, msg: &str, cls: &str, steps: usize) -> Value {
    json!({"ev":"Final","ok":ok,"msg":msg,"cls":cls,"steps":steps,"end":qi(sim.path_tpc.offset_end().value, OS),
           "o":qi(sim.state.offset.value, OS),"v":q_floor(sim.state.speed.value, VS),
           "vc":q_ceil(sim.state.speed.value, VS)})
}
fn walk_event(api: &str, sim: &SpeedLimitTrainSim, r: &anyhow::Result<()>, mine: Option<&SpeedLimitTrainSim>) -> Value {
    let same = mine.map(|m| m.state.offset == sim.state.offset && m.state.speed == sim.state.speed && m.state.i == sim.state.i && m.state.time == sim.state.time);
    let (msg, cls) = r.as_ref().err().map(errpair).unwrap_or((String::new(), "descriptive"));
    json!({"ev":"Walk","api":api,"ok":r.is_ok(),"msg":msg,"cls":cls,
           "i":sim.state.i,"end":qi(sim.path_tpc.offset_end().value, OS),
           "o":qi(sim.state.offset.value, OS),"v":q_floor(sim.state.speed.value, VS),"vc":q_ceil(sim.state.speed.value, VS),
           "same":same.unwrap_or(true)})
}

// ---------------------------------------------------------------------------------------------
// object construction

fn chained(desc: &Value) -> Value {
    let mut d = desc.clone();
    let n = d["links"].as_array().unwrap().len();
    for (k, l) in d["links"].as_array_mut().unwrap().iter_mut().enumerate() {
        let o = l.as_object_mut().unwrap();
        o.insert("prev".into(), json!(k));
        o.insert("next".into(), json!(if k + 1 < n { k + 2 } else { 0 }));
    }
    d
}
fn make_consist(desc: &Value) -> anyhow::Result<Consist> {
    let c = &desc["consist"];
    let mut con = match c["kind"].as_str() {
        Some("mixed") => {
            let locos: Vec<Locomotive> = ga(c, "locos")
                .iter()
                .map(|k| match k.as_str() {
                    Some("bel") => Locomotive::default_battery_electric_loco(),
                    _ => Locomotive::default(),
                })
                .collect();
            build::consist_of(locos, c["pdct"].as_str().unwrap_or("RESGreedy"), None)?
        }
        _ => Consist::default(),
    };
    con.set_save_interval(None);
    Ok(con)
}
fn make_sim(desc: &Value, nlinks: usize) -> anyhow::Result<SpeedLimitTrainSim> {
    let mut rvs = vec![];
    let mut ncar = HashMap::new();
    for c in cars(desc) {
        let name = gs(c, "type");
        rvs.push(build::rail_vehicle(c, name));
        ncar.insert(name.to_string(), gi(c, "n") as u32);
    }
    let tc = TrainConfig::new(rvs, ncar, TrainType::Freight, None, None, None)?;
    let init = InitTrainState::new(Some(uc::S * gf(desc, "t0")), None, None);
    let tsb = TrainSimBuilder::new("t".into(), tc, make_consist(desc)?, Some("A".into()), Some("B".into()), Some(init));
    let lm = build::location_map(&[1], &[nlinks as u32]);
    let mut sim = tsb.make_speed_limit_train_sim(&lm, None, None, None)?;
    sim.set_save_interval(None);
    // brake build-up time (TrainSimBuilder hard-codes 0 s; FricBrake::default() has 60 s)
    if let Some(ramp) = desc.get("ramp").and_then(|x| x.as_f64()) {
        sim.fric_brake.ramp_up_time = uc::S * ramp;
    }
    Ok(sim)
}

// ---------------------------------------------------------------------------------------------
// the harness-driven run

struct Run<'a> {
    tr: &'a mut Tracer,
    steps: Steps,
    cap: usize,
}
enum Stop {
    Done,
    Cap,
    Err(String, &'static str),
}
impl<'a> Run<'a> {
    /// one guarded step; Some(stop) ends the run
    fn step(&mut self, sim: &mut SpeedLimitTrainSim) -> Option<Stop> {
        if self.steps.n == 0 {
            self.steps.push(self.tr, sim); // record 0 = the state before the first step
        }
        if self.steps.n > self.cap {
            return Some(Stop::Cap);
        }
        match sim.step() {
            Ok(()) => {
                self.steps.push(self.tr, sim);
                None
            }
            Err(e) => {
                let (m, c) = errpair(&e);
                Some(Stop::Err(m, c))
            }
        }
    }
    /// a new leg of a stop-and-go run starts from `sim`'s state: the step monitors restart there
    fn stage(&mut self, sim: &SpeedLimitTrainSim) {
        self.steps.flush(self.tr);
        self.tr.emit(json!({"ev":"Stage"}));
        self.steps.push(self.tr, sim);
    }
    fn extend(&mut self, sim: &mut SpeedLimitTrainSim, net: &Network, links: &[LinkIdx]) -> Option<Stop> {
        self.steps.flush(self.tr);
        match sim.extend_path(net.as_ref(), links) {
            Ok(()) => {
                self.tr.emit(table_event(sim, true, ""));
                None
            }
            Err(e) => {
                let (m, c) = errpair(&e);
                let mut ev = table_event(sim, false, &m);
                ev["cls"] = json!(c);
                self.tr.emit(ev);
                Some(Stop::Err(m, c))
            }
        }
    }
    fn finish(&mut self, sim: &SpeedLimitTrainSim, stop: Stop) -> bool {
        if self.steps.n == 0 && !matches!(stop, Stop::Err(..)) {
            self.steps.push(self.tr, sim);
        }
        self.steps.flush(self.tr);
        match stop {
            Stop::Done => {
                self.tr.emit(final_event(sim, true, "", "descriptive", self.steps.n));
                true
            }
            Stop::Cap => {
                self.tr.emit(json!({"ev":"stepcap","steps":self.steps.n}));
                self.tr.emit(final_event(sim, true, "stepcap", "descriptive", self.steps.n));
                false
            }
            Stop::Err(m, c) => {
                self.tr.emit(final_event(sim, false, &m, c, self.steps.n));
                false
            }
        }
    }
}

fn exec_run(desc: &Value, tr: &mut Tracer) -> anyhow::Result<()> {
    let sched = gs(desc, "sched").to_string();
    let tl = train_len(desc);
    tr.emit(json!({"ev":"Header","dom":{"short":dom_short(desc),"light":dom_light(desc)},
                   "tlen":qi(tl, OS),"ncars":ncars(desc),"amin":qi(a_min(desc), 1024.0),"sched":sched,
                   // look-ahead of calc_speeds: ramp_up_time (s) * ramp_up_coeff (tenths; 0.6 in TrainSimBuilder)
                   "ramp":desc.get("ramp").and_then(|x| x.as_i64()).unwrap_or(0),"coef10":6}));
    let net = match build::network(&chained(desc)) {
        Ok(n) => n,
        Err(e) => {
            tr.emit(json!({"ev":"NetRejected","msg":errtxt(&e)}));
            return Ok(());
        }
    };
    let n = ga(desc, "links").len();
    let route: Vec<LinkIdx> = (1..=n as u32).map(LinkIdx::new).collect();
    let sim0 = match make_sim(desc, n) {
        Ok(s) => {
            tr.emit(json!({"ev":"Build","ok":true,"msg":"","cls":"descriptive"}));
            tr.emit(table_event(&s, true, "")); // the empty path: one speed point (train's own maximum), no braking point
            s
        }
        Err(e) => {
            let (m, c) = errpair(&e);
            tr.emit(json!({"ev":"Build","ok":false,"msg":m,"cls":c}));
            return Ok(());
        }
    };
    let os = netgen::scale(desc, "oscale");
    let total: f64 = ga(desc, "links").iter().map(|l| gf(l, "len") / os).sum();
    let dt = sim0.state.dt.value;
    let cap = (8.0 * total / 1.0 / dt).ceil() as usize;

    // make_est_times: only its exit status is observed (a panic is caught by main_with)
    let mut est = None;
    if sched == "timed" || sched == "esttimes" {
        match make_est_times(sim0.clone(), &net) {
            Ok((etn, _con)) => {
                tr.emit(json!({"ev":"EstTimes","ok":true,"msg":"","cls":"descriptive","n":etn.val.len()}));
                est = Some(etn);
            }
            Err(e) => {
                let (m, c) = errpair(&e);
                tr.emit(json!({"ev":"EstTimes","ok":false,"msg":m,"cls":c,"n":0}))
            }
        }
        if sched == "esttimes" {
            return Ok(());
        }
    }

    let mut sim = sim0.clone();
    let mut run = Run { tr, steps: Steps::new(), cap };
    match sched.as_str() {
        "whole" => {
            if let Some(stop) = run.extend(&mut sim, &net, &route) {
                run.finish(&sim, stop);
                return Ok(());
            }
            let sim_ext = sim.clone();
            let stop = loop {
                if !must_go_on(&sim) {
                    break Stop::Done;
                }
                if let Some(s) = run.step(&mut sim) {
                    break s;
                }
            };
            if run.finish(&sim, stop) {
                // the library's own walk(), on a clone: its termination is now known
                let mut w = sim_ext;
                let r = w.walk();
                run.tr.emit(walk_event("walk", &w, &r, Some(&sim)));
            }
        }
        "bylink" => {
            let look = gf(desc, "look");
            let mut next = 0usize;
            let near = |sim: &SpeedLimitTrainSim| sim.state.offset.value >= sim.path_tpc.offset_end().value - look;
            let stop = loop {
                // extend as the train approaches the end of its authority (initially: until the end
                // of authority is more than `look` ahead of the front), or when it has stopped there
                if next < n && (next == 0 || near(&sim) || !must_go_on(&sim)) {
                    // the initial authority is the shortest prefix of the route that holds the train
                    let mut upto = next + 1;
                    if next == 0 {
                        let mut acc = 0.0;
                        upto = 0;
                        while upto < n && acc <= tl + 1.0 {
                            acc += gf(&ga(desc, "links")[upto], "len") / os;
                            upto += 1;
                        }
                    }
                    if let Some(s) = run.extend(&mut sim, &net, &route[next..upto]) {
                        break s;
                    }
                    next = upto;
                    continue;
                }
                if !must_go_on(&sim) {
                    break Stop::Done;
                }
                if let Some(s) = run.step(&mut sim) {
                    break s;
                }
            };
            run.finish(&sim, stop);
        }
        "timed" | "timedwait" => {
            let tp: Vec<LinkIdxTime> = if sched == "timedwait" {
                // a hand-made timed path: [[link, time_s], ..]; like the dispatcher's, its last entry is never
                // added to the path (walk_timed_path extends with entries idx_prev..idx_next, exclusive)
                ga(desc, "tp")
                    .iter()
                    .map(|x| LinkIdxTime::new(LinkIdx::new(x[0].as_u64().unwrap() as u32), uc::S * x[1].as_f64().unwrap()))
                    .collect()
            } else {
                let Some(etn) = est else {
                    return Ok(());
                };
                match run_dispatch(&net, &[sim0.clone()], vec![etn], false, false) {
                    Ok(mut v) if v.len() == 1 => {
                        let tp = v.pop().unwrap();
                        run.tr.emit(json!({"ev":"Dispatch","ok":true,"msg":"","cls":"descriptive","n":tp.len(),
                            "tp": tp.iter().map(|x| json!([x.link_idx.idx(), qi(x.time.value, TS)])).collect::<Vec<_>>() }));
                        tp
                    }
                    Ok(v) => {
                        run.tr.emit(json!({"ev":"Dispatch","ok":false,"msg":format!("{} plans for one train", v.len()),"cls":"descriptive","n":0,"tp":[]}));
                        return Ok(());
                    }
                    Err(e) => {
                        let (m, c) = errpair(&e);
                        run.tr.emit(json!({"ev":"Dispatch","ok":false,"msg":m,"cls":c,"n":0,"tp":[]}));
                        return Ok(());
                    }
                }
            };
            if tp.is_empty() {
                return Ok(());
            }
            // replica of walk_timed_path (speed_limit_train_sim.rs:362-398) over extend_path/step, with a step cap
            let mut idx_prev = 0usize;
            let stop = 'outer: loop {
                if idx_prev == tp.len() - 1 {
                    if !must_go_on(&sim) {
                        break Stop::Done;
                    }
                    if let Some(s) = run.step(&mut sim) {
                        break s;
                    }
                    continue;
                }
                let mut idx_next = idx_prev + 1;
                while idx_next + 1 < tp.len() - 1 && tp[idx_next].time < sim.state.time {
                    idx_next += 1;
                }
                let time_extend = tp[idx_next - 1].time;
                let links: Vec<LinkIdx> = tp[idx_prev..idx_next].iter().map(|x| x.link_idx).collect();
                if let Some(s) = run.extend(&mut sim, &net, &links) {
                    break s;
                }
                idx_prev = idx_next;
                while sim.state.time < time_extend {
                    if let Some(s) = run.step(&mut sim) {
                        break 'outer s;
                    }
                }
            };
            if run.finish(&sim, stop) {
                let mut w = sim0.clone();
                let r = w.walk_timed_path(&net, &tp);
                run.tr.emit(walk_event("walk_timed_path", &w, &r, Some(&sim)));
            }
        }
        "stopgo" => {
            // stop and go: extend_path + the LIBRARY's walk() after each link. Every leg is first driven by the
            // harness' own capped loop on a clone (logged step by step; shows that the leg terminates), then the
            // library call runs on the real object, whose state is what the next leg starts from.
            let mut lib = sim;
            let mut next = 0usize;
            while next < n {
                let mut upto = next + 1;
                if next == 0 {
                    let mut acc = 0.0;
                    upto = 0;
                    while upto < n && acc <= tl + 1.0 {
                        acc += gf(&ga(desc, "links")[upto], "len") / os;
                        upto += 1;
                    }
                }
                let mut probe = lib.clone();
                if let Some(s) = run.extend(&mut probe, &net, &route[next..upto]) {
                    run.finish(&probe, s);
                    return Ok(());
                }
                run.stage(&probe);
                let stop = loop {
                    if !must_go_on(&probe) {
                        break Stop::Done;
                    }
                    if let Some(s) = run.step(&mut probe) {
                        break s;
                    }
                };
                if !run.finish(&probe, stop) {
                    return Ok(());
                }
                let r = lib.extend_path(net.as_ref(), &route[next..upto]).and_then(|_| lib.walk());
                run.tr.emit(walk_event("walk", &lib, &r, Some(&probe)));
                if r.is_err() {
                    return Ok(());
                }
                next = upto;
            }
        }
        other => anyhow::bail!("unknown schedule {other}"),
    }
    Ok(())
}

// ---------------------------------------------------------------------------------------------
// BrakingCurve.tla cases on the real recalc: unit mass, 2 N brake, no resistance, dt = 1 s

fn exec_table(desc: &Value, tr: &mut Tracer) -> anyhow::Result<()> {
    let zones = ga(desc, "zones");
    let end = gi(desc, "end");
    // one link per zone, one full-length restriction each
    let links: Vec<Value> = zones
        .iter()
        .enumerate()
        .map(|(k, z)| {
            let o = z[0].as_i64().unwrap();
            let e = if k + 1 < zones.len() { zones[k + 1][0].as_i64().unwrap() } else { end };
            json!({"len": e - o, "head": true, "params": [], "rs": [[0, e - o, z[1]]]})
        })
        .collect();
    let nd = chained(&json!({"links": links}));
    let net = build::network(&nd)?;
    let n = zones.len();
    let car = json!({"n":1,"car_len":1.0,"car_mass":1.0,"vmax":64.0,"braking_ratio":0.0});
    let tc = build::train_config(&car)?;
    let mut con = Consist::default();
    con.set_save_interval(None);
    let tsb = TrainSimBuilder::new("t".into(), tc, con, Some("A".into()), Some("B".into()), None);
    let lm = build::location_map(&[1], &[n as u32]);
    let mut sim = tsb.make_speed_limit_train_sim(&lm, None, None, None)?;
    sim.state.mass_static = uc::KG * 1.0;
    sim.state.mass_rot = uc::KG * 0.0;
    sim.fric_brake.force_max = uc::N * 2.0;
    let route: Vec<LinkIdx> = (1..=n as u32).map(LinkIdx::new).collect();
    tr.emit(json!({"ev":"Header","dom":{"short":false,"light":false},"tlen":qi(1.0, OS),"ncars":1,"amin":0,"sched":"table","ramp":0,"coef10":6}));
    match sim.extend_path(net.as_ref(), &route) {
        Ok(()) => {
            let mut ev = table_event(&sim, true, "");
            ev["toy"] = json!(true);
            tr.emit(ev)
        }
        Err(e) => {
            let mut ev = table_event(&sim, false, &errtxt(&e));
            ev["toy"] = json!(true);
            tr.emit(ev)
        }
    }
    Ok(())
}

// ---------------------------------------------------------------------------------------------
// Controller.tla runs on the real SpeedLimitTrainSim: 1 kg train, friction brake 2 - r N, constant resistance r N
// (bearing resistance), brake build-up `ramp` s with ramp_up_coeff 1/2, dt = 1 s; before every step() the consist's
// force limit is set to the scripted value (Locomotive::set_force_max on the first unit, 0 N on the others).
// {"kind":"ctrl","zones":[[o,v]..],"end":E,"r":0|1,"ramp":0|2,"pol":[F..],"n":steps}

fn exec_ctrl(desc: &Value, tr: &mut Tracer) -> anyhow::Result<()> {
    use altrios_core::consist::locomotive::locomotive_model::ForceMaxSideEffect;
    let zones = ga(desc, "zones");
    let end = gi(desc, "end");
    let r = gi(desc, "r");
    let ramp = gi(desc, "ramp");
    let pol: Vec<f64> = ga(desc, "pol").iter().map(|x| x.as_f64().unwrap()).collect();
    let nsteps = gi(desc, "n") as usize;
    anyhow::ensure!(r >= 0 && !pol.is_empty(), "a ctrl case needs r >= 0 and a policy");
    let links: Vec<Value> = zones
        .iter()
        .enumerate()
        .map(|(k, z)| {
            let o = z[0].as_i64().unwrap();
            let e = if k + 1 < zones.len() { zones[k + 1][0].as_i64().unwrap() } else { end };
            json!({"len": e - o, "head": true, "params": [], "rs": [[0, e - o, z[1]]]})
        })
        .collect();
    let net = build::network(&chained(&json!({"links": links})))?;
    let n = zones.len();
    // bearing resistance = per axle * 4 axles * 1 car = r newtons
    let car = json!({"n":1,"car_len":1.0,"car_mass":1.0,"vmax":64.0,"braking_ratio":0.0,"bearing": r as f64 / 4.0});
    let tc = build::train_config(&car)?;
    let mut con = Consist::default();
    con.set_save_interval(None);
    let tsb = TrainSimBuilder::new("t".into(), tc, con, Some("A".into()), Some("B".into()), None);
    let lm = build::location_map(&[1], &[n as u32]);
    let mut sim = tsb.make_speed_limit_train_sim(&lm, None, None, None)?;
    sim.state.mass_static = uc::KG * 1.0;
    sim.state.mass_rot = uc::KG * 0.0;
    sim.fric_brake.force_max = uc::N * (2 - r) as f64;
    sim.fric_brake.ramp_up_time = uc::S * ramp as f64;
    sim.fric_brake.ramp_up_coeff = uc::R * 0.5;
    let route: Vec<LinkIdx> = (1..=n as u32).map(LinkIdx::new).collect();
    tr.emit(json!({"ev":"Header","dom":{"short":false,"light":false},"tlen":qi(1.0, OS),"ncars":1,"amin":0,"sched":"ctrl",
                   "ramp":ramp,"coef10":5}));
    if let Err(e) = sim.extend_path(net.as_ref(), &route) {
        let (m, c) = errpair(&e);
        let mut ev = table_event(&sim, false, &m);
        ev["toy"] = json!(true);
        ev["cls"] = json!(c);
        tr.emit(ev);
        return Ok(());
    }
    let mut ev = table_event(&sim, true, "");
    ev["toy"] = json!(true);
    tr.emit(ev);
    let mut steps = Steps::new();
    steps.push(tr, &sim);
    let mut q = Q::new();
    let mut rows: Vec<Value> = vec![];
    let mut res: (bool, String, &str) = (true, String::new(), "descriptive");
    for k in 0..nsteps {
        let f = pol[k % pol.len()];
        for (i, loco) in sim.loco_con.loco_vec.iter_mut().enumerate() {
            loco.set_force_max(uc::N * if i == 0 { f } else { 0.0 }, ForceMaxSideEffect::SetMuToNone)?;
        }
        match sim.step() {
            Ok(()) => {
                steps.push(tr, &sim);
                let st = &sim.state;
                rows.push(json!([k + 1, q.q(st.offset.value, 2.0), q.q(st.speed.value, 1.0), idx_curr1(&sim),
                                 q.q(sim.fric_brake.state.force.value, 1.0), q.q(st.speed_limit.value, 1.0),
                                 q.q(st.speed_target.value, 1.0)]));
            }
            Err(e) => {
                let (m, c) = errpair(&e);
                res = (false, m, c);
                break;
            }
        }
    }
    steps.flush(tr);
    // the run in the model's own units: [k, 2*offset, speed, idx_curr, friction force, limit, target]
    tr.emit(json!({"ev":"Ctrl","ok":res.0,"msg":res.1,"cls":res.2,"exact":q.exact && !q.overflow,"s":rows}));
    Ok(())
}

fn exec(desc: &Value, tr: &mut Tracer) -> anyhow::Result<()> {
    match desc.get("kind").and_then(|x| x.as_str()) {
        Some("table") => exec_table(desc, tr),
        Some("ctrl") => exec_ctrl(desc, tr),
        _ => exec_run(desc, tr),
    }
}

// ---------------------------------------------------------------------------------------------
// generator

fn gen_one(r: &mut Rng, tier: &str, want: &str) -> Value {
    let want_light = want == "light" || want == "light2";
    let mut tries = 0;
    loop {
        let d = gen_base(r, tier, want);
        tries += 1;
        if dom_light(&d) == want_light || tries > 200 {
            return d;
        }
    }
}
fn gen_base(r: &mut Rng, tier: &str, want: &str) -> Value {
    let thorough = tier != "quick";
    // train
    let nc = if want == "light" { r.range(3, 9) } else if want == "light2" { r.range(10, 16) } else { r.range(10, 85) };
    let vm = *r.pick(&[16.0, 18.0, 20.0, 20.0]);
    let mut cars = vec![];
    let t1 = r.range(0, 5) as usize;
    if r.chance(1, 3) && nc >= 4 {
        let mut t2 = r.range(0, 5) as usize;
        if t2 == t1 {
            t2 = (t1 + 1) % 6;
        }
        let n1 = r.range(1, nc - 1);
        let (a, b) = if RVS[t1].name < RVS[t2].name { (t1, t2) } else { (t2, t1) };
        cars.push(car_json(&RVS[a], if a == t1 { n1 } else { nc - n1 }, vm));
        cars.push(car_json(&RVS[b], if b == t1 { n1 } else { nc - n1 }, vm));
    } else {
        cars.push(car_json(&RVS[t1], nc, vm));
    }
    let tlen: f64 = cars.iter().map(|c| gi(c, "n") as f64 * gf(c, "car_len")).sum();
    let towed: f64 = cars.iter().map(|c| gi(c, "n") as f64 * (gf(c, "car_mass") + gf(c, "freight"))).sum();
    // grades
    let gmax_bp: i64 = if thorough { *r.pick(&[0, 50, 100, 150]) } else { *r.pick(&[0, 25, 50]) }; // 1/100 %
    // consist: enough tractive effort for the steepest grade
    let need = ((towed + 1.0e6) * G * (gmax_bp as f64 / 10000.0 + 0.004) / 500.0e3).ceil() as i64;
    let consist = if r.chance(1, 2) && need <= 5 {
        json!({"kind":"default"})
    } else {
        let nl = r.range(need.max(2), need.max(2) + 2);
        let locos: Vec<Value> = (0..nl).map(|_| if r.chance(1, 4) { json!("bel") } else { json!("conv") }).collect();
        json!({"kind":"mixed","locos":locos,"pdct": if r.chance(1,2) {"RESGreedy"} else {"Proportional"}})
    };
    // links
    let sched = match r.range(0, 99) {
        0..=27 => "whole",
        28..=47 => "bylink",
        48..=67 => "timed",
        68..=75 => "esttimes",
        76..=88 => "stopgo",
        _ => "timedwait",
    };
    // a path only a few hundred metres longer than the train: the front starts between 1000 ft and 1000 m
    // before the end of the path
    let short_path = sched == "whole" && r.chance(1, 5);
    let nl = if short_path { r.range(1, 2) } else { r.range(2, if thorough { 8 } else { 6 }) };
    let mut lens: Vec<i64> = (0..nl).map(|_| if r.chance(1, 4) { r.range(6, 20) * 50 } else { r.range(10, 120) * 50 }).collect();
    // the origin link usually holds the whole train (make_est_times and walk_timed_path start with it alone)
    if (lens[0] as f64) < tlen + 50.0 && r.chance(17, 20) {
        lens[0] = ((((tlen + 50.0) / 50.0).ceil() as i64) + r.range(0, 20)) * 50;
    }
    // make_est_times only moves the train while more than 5 miles of path lie ahead
    let min_total = if (sched == "timed" || sched == "esttimes") && r.chance(3, 4) { 10_000.0 } else { 0.0 };
    while (lens.iter().sum::<i64>() as f64) < (tlen + 1500.0).max(min_total) {
        let k = r.range(0, nl - 1) as usize;
        lens[k] = (lens[k] + 1000).min(6000);
        if lens.iter().all(|l| *l >= 6000) {
            break;
        }
    }
    if short_path {
        // total = train length + 350 .. 950 m
        let total = (((tlen + 350.0) / 50.0).ceil() as i64 + r.range(0, 12)) * 50;
        if nl == 1 {
            lens[0] = total;
        } else {
            lens[1] = r.range(6, 12) * 50;
            lens[0] = (total - lens[1]).max(300);
        }
    }
    if (sched == "stopgo" || sched == "timedwait") && r.chance(4, 5) {
        // short last link(s): after the previous leg the train rests within 1000 ft of the old end of authority
        // and 300 .. 1200 m before the new one
        let k = r.range(1, 2.min(nl - 1));
        for j in (nl - k)..nl {
            lens[j as usize] = r.range(6, 18) * 50;
        }
        while (lens.iter().sum::<i64>() as f64) < tlen + 1000.0 {
            lens[0] += 500;
        }
    }
    let look = *r.pick(&[400i64, 1000, 2000, 3000, 5000]);
    let t0 = *r.pick(&[0i64, 0, 60, 3600, 86400]);
    // brake build-up time: 0 s as TrainSimBuilder sets it, sometimes a few seconds (exercises the look-ahead)
    let ramp = *r.pick(&[0i64, 0, 0, 0, 0, 0, 4, 4, 8, 8]);
    let speeds_base = [8i64, 10, 12, 15, 18, 20, 22, 25];
    let speeds_in = [4i64, 5, 6, 8, 10, 12, 15, 18];
    let mut elev0 = 0i64;
    let mut links = vec![];
    for &len in &lens {
        let head = r.chance(1, 2);
        // elevation profile (cm), continuous across links
        let mut offs: Vec<i64> = (0..r.range(0, 3)).map(|_| r.range(1, len / 50 - 1) * 50).collect();
        offs.push(0);
        offs.push(len);
        offs.sort();
        offs.dedup();
        let mut elevs = vec![json!([0, elev0])];
        for w in offs.windows(2) {
            let g = if gmax_bp == 0 { 0 } else { r.range(-gmax_bp, gmax_bp) };
            elev0 += (w[1] - w[0]) * g / 100; // cm = m * (g/100 %) ... g in 1/100 %: dx[m]*g/10000 m = dx*g/100 cm
            elevs.push(json!([w[1], elev0]));
        }
        links.push(json!({"len":len,"head":head,"params":[],"rs":[],"elevs":elevs}));
    }
    // timedwait: entry j (link j+1) is released once the clock has reached the time of entry j-1; a "late" time
    // (the whole route so far at 2 m/s) makes the train wait at the end of its authority, an unchanged time
    // releases the next link at once. The last entry is a sentinel (never added to the path).
    let mut tp: Vec<Value> = vec![];
    if sched == "timedwait" {
        let mut t = t0 as f64;
        let mut cum = 0.0;
        for (j, len) in lens.iter().enumerate() {
            cum += *len as f64;
            if j > 0 {
                let last = j + 1 == lens.len();
                let late = if last { r.chance(1, 4) } else { r.chance(2, 3) };
                if late {
                    t = t.max(t0 as f64 + 180.0 + cum / 2.0);
                }
            }
            tp.push(json!([j + 1, t]));
        }
        tp.push(json!([lens.len(), t + 600.0]));
    }
    let mut desc = json!({"kind":"run","oscale":1,"vscale":1,"escale":100,"links":links,
        "train":{"cars":cars},"consist":consist,"t0":t0,"ramp":ramp,"sched":sched,"look":look});
    if sched == "timedwait" {
        desc["tp"] = Value::Array(tp);
    }
    // restrictions: a base limit per link + 0..3 nested / overlapping ones; re-drawn until the
    // profile is in the wanted class
    let draw = |r: &mut Rng, len: i64, simple: bool| -> Vec<Value> {
        let mut rs: Vec<(i64, i64, i64)> = vec![(0, len, *r.pick(&speeds_base))];
        if !simple {
            let pool: Vec<i64> = (0..r.range(2, 5)).map(|_| r.range(0, len / 50) * 50).chain([0, len]).collect();
            for _ in 0..r.range(0, 3) {
                let a = *r.pick(&pool);
                let b = *r.pick(&pool);
                let (s, e) = if a <= b { (a, b) } else { (b, a) };
                if s < e {
                    rs.push((s, e, *r.pick(&speeds_in)));
                }
            }
        }
        rs.sort();
        rs.dedup_by(|a, b| a.0 == b.0 && a.1 == b.1);
        rs.iter().map(|x| json!([x.0, x.1, x.2])).collect()
    };
    for k in 0..lens.len() {
        desc["links"][k]["rs"] = Value::Array(draw(r, lens[k], false));
    }
    // 1 network in 6 writes restrictions with NEGATIVE values (accepted by validation, used by magnitude
    // everywhere): a random subset, or all of them
    let neg_mode = if r.chance(1, 6) { if r.chance(1, 3) { 2 } else { 1 } } else { 0 };
    let want_short = want == "short";
    let allow_origin = r.chance(1, 12);
    let mut tries = 0;
    while dom_short(&desc) != want_short || (!allow_origin && near_origin(&desc)) {
        tries += 1;
        if tries > 400 {
            if want_short {
                break;
            }
            // fall back: one common base limit, no nested restrictions
            let v = *r.pick(&speeds_base);
            for k in 0..lens.len() {
                desc["links"][k]["rs"] = json!([[0, lens[k], v]]);
            }
            break;
        }
        let k = if near_origin(&desc) && !allow_origin { 0 } else { r.range(0, lens.len() as i64 - 1) as usize };
        let simple = tries > 200 && r.chance(1, 2);
        desc["links"][k]["rs"] = Value::Array(draw(r, lens[k], simple));
    }
    if neg_mode > 0 {
        for k in 0..lens.len() {
            let nr = desc["links"][k]["rs"].as_array().unwrap().len();
            for j in 0..nr {
                if neg_mode == 2 || r.chance(1, 2) {
                    let v = desc["links"][k]["rs"][j][2].as_i64().unwrap();
                    desc["links"][k]["rs"][j][2] = json!(-v.abs());
                }
            }
        }
    }
    desc
}

/// tiers: quick / thorough = random inputs outside the two known classes;
/// "xshort" / "xlight" / "xlight2" = inputs INSIDE one class (ShortWindow; LightTrain with < 10 cars; LightTrain
/// with 10-16 cars) — never used by the check, only to find and record the known inputs under known/.
fn gen(seed: u64, n: usize, tier: &str) -> Vec<Value> {
    let want = match tier {
        "xshort" => "short",
        "xlight" => "light",
        "xlight2" => "light2",
        _ => "",
    };
    (0..n)
        .map(|k| {
            let mut r = Rng::new(seed.wrapping_mul(1_000_003).wrapping_add(k as u64));
            let mut d = gen_one(&mut r, if want.is_empty() { tier } else { "thorough" }, want);
            d["src"] = json!("gen");
            d["seed"] = json!(seed);
            d["k"] = json!(k);
            d
        })
        .collect()
}

fn main() {
    main_with(gen, exec);
}
