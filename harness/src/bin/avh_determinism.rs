//! Determinism harness (C18): every input is executed several times — twice in this process, once
//! in a second process (fresh `RandomState` seeds for every HashMap: Link.speed_sets,
//! TrainConfig.n_cars_by_type, LocationMap), batches of locomotive simulations serially and under
//! rayon pools of 1, 2, 3, 8 and 16 threads — and the digest of every output is logged:
//!   Run   {id, how, ok, d}                      one execution of a whole input
//!   Solo  {j, ok, d, dinit, dinp}               element j of a batch walked alone (serial reference)
//!   Batch {how, threads, rep, ok, err_idx, elems:[[d, dinp]..]}   one walk of the whole batch
//! Digest = 60 bits of FNV-1a over the canonical value tree (sorted keys, floats by bit pattern):
//! the *byte* serialisation of an object holding a HashMap with >= 2 keys differs from run to run,
//! which is irrelevant to the property. `dinp` is the digest of an element without its `state`,
//! `history` and `i` sub-trees (its inputs); `err_idx` (1-based, 0 = none) is parsed from the
//! "loco_sim idx:<i>" context of the error the batch walk returns. A panic inside an execution is
//! an outcome like any other (it must be the same outcome every time).
//!
//! Descriptors:
//!  {"kind":"batch","n":N,"fail":k (0 = none),"len":L,"at":s,"units":[{loco params}..],"dem":[..]}
//!  {"kind":"esttimes","cars":[n1,n2],"dir":"AB"|"BA","depart":s,"locos":m}
//!  {"kind":"dispatch","trains":[{"cars":[n1,n2,n3,n4],"dir":..,"depart":s}..],"walk":bool}
//!  {"kind":"setspeed"|"speedlimit","scale":"toy"|"real","cars":n,"len":L}
//!  {"kind":"consist","n":3..7,"mix":m,"steps":S,"units":[{loco params}..],"pdct":..,"dem":[sixteenths of the limit..],"dt10":..}
//!      a consist of n locomotives with pairwise different non-dyadic ratings, stepped S times (set_pwr_aux,
//!      set_cur_pwr_max_out, solve_energy_consumption, step; positive and negative demands) — executed like every
//!      input and then inside rayon pools of 1, 2, 4, 7 workers: Run {cls:"pool", how:"pool<n>"}
//!  {"kind":"build","types":3..5,"mix":m,"reps":R,"cars":[{rail vehicle params + "n"}..],"sim":"setspeed"|"speedlimit"}
//!      a train of >= 3 car types with non-dyadic masses built by TrainSimBuilder from separately constructed equal
//!      inputs (fresh Vec<RailVehicle>, fresh n_cars_by_type map — new hasher — filled in another insertion order
//!      every time): Run {cls:"build", how:"build<k>"}
//! `units` / `cars` absent (TLC-emitted descriptors): derived from n / types and mix by fixed tables.
#[path = "../canon.rs"]
mod canon;
use altrios_core::consist::locomotive::loco_sim::LocomotiveSimulationVec;
use altrios_core::consist::LocoTrait;
use altrios_core::meet_pass::dispatch::run_dispatch;
use altrios_core::prelude::*;
use altrios_core::track::{import_locations, LocationMap};
use altrios_core::traits::*;
use altrios_core::uc;
use avh::build;
use avh::common::*;
use canon::*;
use serde_json::{json, Value};
use std::collections::HashMap;
use std::sync::OnceLock;

const POOLS: [usize; 5] = [1, 2, 3, 8, 16];
static POOL_SET: OnceLock<Vec<(usize, rayon::ThreadPool)>> = OnceLock::new();
fn pools() -> &'static Vec<(usize, rayon::ThreadPool)> {
    POOL_SET.get_or_init(|| {
        POOLS
            .iter()
            .map(|n| (*n, rayon::ThreadPoolBuilder::new().num_threads(*n).build().expect("rayon pool")))
            .collect()
    })
}

const CPOOLS: [usize; 4] = [1, 2, 4, 7];
static CPOOL_SET: OnceLock<Vec<(usize, rayon::ThreadPool)>> = OnceLock::new();
fn cpools() -> &'static Vec<(usize, rayon::ThreadPool)> {
    CPOOL_SET.get_or_init(|| {
        CPOOLS
            .iter()
            .map(|n| (*n, rayon::ThreadPoolBuilder::new().num_threads(*n).build().expect("rayon pool")))
            .collect()
    })
}

// ---------------------------------------------------------------------------------------------
// inputs

/// Locomotives of a "consist" input: pairwise different, non-dyadic ratings and efficiencies (so that sums of
/// three or more fuel / battery / output powers depend on the order of addition).
fn consist_units(desc: &Value) -> Vec<Value> {
    if let Some(u) = desc.get("units").and_then(|x| x.as_array()) {
        if !u.is_empty() {
            return u.clone();
        }
    }
    let n = desc.get("n").and_then(|x| x.as_u64()).unwrap_or(5) as usize;
    let mix = desc.get("mix").and_then(|x| x.as_u64()).unwrap_or(0);
    (0..n)
        .map(|j| {
            let bel = match mix % 3 { 0 => false, 1 => true, _ => j % 2 == 1 };
            let r = 3100.7 + 317.3 * j as f64;
            let x = j as f64;
            if bel {
                json!({"kind":"bel","rres":r,"redrv":r,"ke":1.3 + 0.07 * x,"kr":1.7 + 0.03 * x,"soc":0.43 + 0.031 * x,
                       "cap":61234.5 + 1777.7 * x,"aux":33.3 + 1.1 * x})
            } else {
                json!({"kind":"conv","rfc":r,"rgen":r,"redrv":r,"kf":2.7 + 0.11 * x,"kg":1.1 + 0.03 * x,"ke":1.3 + 0.07 * x,
                       "aux":33.3 + 1.1 * x,"idle":70.7 + 3.3 * x})
            }
        })
        .collect()
}

/// One execution of a "consist" input under whatever rayon pool is current.
fn run_consist(desc: &Value) -> anyhow::Result<(bool, Node)> {
    const D: [i64; 8] = [8, 12, -6, 14, -10, 3, 0, -12];
    let units = consist_units(desc);
    let pdct = desc.get("pdct").and_then(|x| x.as_str()).unwrap_or("Proportional");
    let mut con = build::consist(&units, pdct, Some(1))?;
    let steps = desc.get("steps").and_then(|x| x.as_u64()).unwrap_or(8) as usize;
    let dt = uc::S * (desc.get("dt10").and_then(|x| x.as_f64()).unwrap_or(10.0) / 10.0);
    let dem: Vec<i64> = match desc.get("dem").and_then(|x| x.as_array()) {
        Some(a) if !a.is_empty() => a.iter().map(|x| x.as_i64().unwrap_or(0)).collect(),
        _ => D.to_vec(),
    };
    let mut errs = vec![];
    for k in 0..steps {
        let f = dem[k % dem.len()].clamp(-15, 15) as f64 / 16.0;
        let keep = con.clone();
        let r = (|| -> anyhow::Result<()> {
            con.set_pwr_aux(Some(true))?;
            con.set_cur_pwr_max_out(None, dt)?;
            let p = if f >= 0.0 { con.state.pwr_out_max * f } else { con.state.pwr_dyn_brake_max * f };
            con.solve_energy_consumption(p, dt, Some(true))?;
            con.step();
            Ok(())
        })();
        if let Err(e) = r {
            errs.push(Node::S(format!("step {k}: {}", errtxt(&e))));
            con = keep;
        }
    }
    Ok((errs.is_empty(), Node::Seq(vec![tree(&con), Node::Seq(errs)])))
}

/// Car types of a "build" input: non-dyadic masses, rotating masses, resistances; different axle counts.
fn build_cars(desc: &Value) -> Vec<Value> {
    if let Some(u) = desc.get("cars").and_then(|x| x.as_array()) {
        if !u.is_empty() {
            return u.clone();
        }
    }
    const MASS: [f64; 5] = [31700.0, 27300.0, 19900.0, 23100.0, 35300.0];
    const N: [u32; 5] = [7, 11, 13, 5, 9];
    const AX: [u32; 5] = [4, 6, 4, 8, 6];
    const ROT: [f64; 5] = [683.7, 591.3, 712.9, 655.1, 701.3];
    let t = (desc.get("types").and_then(|x| x.as_u64()).unwrap_or(3) as usize).clamp(1, 5);
    let mix = desc.get("mix").and_then(|x| x.as_u64()).unwrap_or(0) as usize;
    (0..t)
        .map(|i| {
            let j = (i + mix) % 5;
            let x = j as f64;
            json!({"n":N[j],"car_mass":MASS[j] + 0.1 * x,"freight": if j % 2 == 0 { 48151.3 + 1010.1 * x } else { 0.0 },
                   "axles":AX[j],"brakes":1,"car_len":16.3 + 0.7 * x,"vmax":31.3,"mass_rot":ROT[j],
                   "bearing":40.3 + 1.7 * x,"rolling":0.00193 + 0.00011 * x,"davis_b":0.0011 + 0.0003 * x,
                   "cd_area":2.3 + 0.37 * x,"braking_ratio":0.113 + 0.007 * x})
        })
        .collect()
}

/// One construction of a "build" input. Everything the builder consumes is made afresh: the Vec<RailVehicle> (same
/// order: the order of the Vec is part of the input), the n_cars_by_type map (a new RandomState, keys inserted in the
/// `variant`-th rotation / reversal of the order), the consist, the network.
fn run_build(desc: &Value, variant: usize) -> anyhow::Result<(bool, Node)> {
    let cars = build_cars(desc);
    let t = cars.len();
    let rvs: Vec<RailVehicle> = cars.iter().enumerate().map(|(i, p)| build::rail_vehicle(p, &format!("T{i}"))).collect();
    let mut order: Vec<usize> = (0..t).collect();
    order.rotate_left(variant % t.max(1));
    if (variant / t.max(1)) % 2 == 1 {
        order.reverse();
    }
    let mut counts: HashMap<String, u32> = HashMap::new();
    for i in order {
        counts.insert(format!("T{i}"), cars[i].get("n").and_then(|x| x.as_u64()).unwrap_or(4) as u32);
    }
    let tc = match TrainConfig::new(rvs, counts, TrainType::Freight, None, None, None) {
        Ok(tc) => tc,
        Err(e) => return Ok((false, Node::S(format!("config: {}", errtxt(&e))))),
    };
    let con = build::consist(&[json!({"kind":"conv","rfc":3100.7,"rgen":3100.7,"redrv":3100.7}), json!({"kind":"bel","rres":3418.3,"redrv":3418.3})],
                             "RESGreedy", Some(1))?;
    let (net, route) = toy_net()?;
    let sim = match desc.get("sim").and_then(|x| x.as_str()) {
        Some(s) => s.to_string(),
        None => if desc.get("mix").and_then(|x| x.as_u64()).unwrap_or(0) % 2 == 0 { "setspeed".into() } else { "speedlimit".into() },
    };
    Ok(if sim == "setspeed" {
        let tsb = TrainSimBuilder::new("b".into(), tc, con, None, None, None);
        match tsb.make_set_speed_train_sim(&net, &route, ramp(20, 0.125, 1.0), Some(1)) {
            Ok(s) => (true, tree(&s)),
            Err(e) => (false, Node::S(errtxt(&e))),
        }
    } else {
        let tsb = TrainSimBuilder::new("b".into(), tc, con, Some("A".into()), Some("B".into()), None);
        let lm = build::location_map(&[1], &[route.len() as u32]);
        match tsb.make_speed_limit_train_sim(&lm, Some(1), None, None) {
            Ok(s) => (true, tree(&s)),
            Err(e) => (false, Node::S(errtxt(&e))),
        }
    })
}

fn dem_at(desc: &Value, j: usize, k: usize) -> f64 {
    const D: [i64; 8] = [4, 8, 2, 0, 6, 1, 3, 5];
    let v = match desc.get("dem").and_then(|x| x.as_array()) {
        Some(a) if !a.is_empty() => a[(k + 3 * j) % a.len()].as_i64().unwrap_or(4),
        _ => D[(k + 3 * j) % D.len()],
    };
    v.max(0) as f64 * 16.0
}

/// The batch of a descriptor: element j is a toy conventional (even j) or battery (odd j) unit with
/// its own trace length; element `fail` (1-based) demands 16 kW from a 4 kW unit at step `at`.
fn make_batch(desc: &Value) -> anyhow::Result<LocomotiveSimulationVec> {
    let n = gi(desc, "n") as usize;
    let fail = desc.get("fail").and_then(|x| x.as_u64()).unwrap_or(0) as usize;
    let len = desc.get("len").and_then(|x| x.as_u64()).unwrap_or(12) as usize;
    let at = desc.get("at").and_then(|x| x.as_u64()).unwrap_or(3) as usize;
    let units = desc.get("units").and_then(|x| x.as_array()).cloned().unwrap_or_default();
    let mut v = vec![];
    for j in 0..n {
        let mut p = units.get(j % units.len().max(1)).cloned().unwrap_or(json!({}));
        if p.get("kind").is_none() {
            p["kind"] = json!(if j % 2 == 0 { "conv" } else { "bel" });
        }
        let loco = build::loco(&p)?;
        let l = len + 2 * j; // different amounts of work per element
        let t: Vec<f64> = (0..=l).map(|k| k as f64).collect();
        let mut pw: Vec<f64> = (0..=l).map(|k| if k == 0 { 0.0 } else { dem_at(desc, j, k - 1) }).collect();
        if j + 1 == fail {
            let s = at.clamp(1, l);
            pw[s] = 16384.0;
        }
        v.push(LocomotiveSimulation::new(loco, PowerTrace::new(t, pw, vec![Some(true); l + 1]), Some(1)));
    }
    Ok(LocomotiveSimulationVec(v))
}

struct World {
    net: Network,
    lm: LocationMap,
    rv_loaded: RailVehicle,
    rv_empty: RailVehicle,
    rv_inter: RailVehicle,
}
impl World {
    /// Four car types with masses that are not round numbers: n_cars_by_type is a HashMap with four keys (a fresh
    /// map, hence a fresh hasher and iteration order, on every call — a clone would keep the order), and sums of
    /// three or more such terms depend on the order of addition. Every order-dependent float sum over the map or
    /// "first key" choice therefore differs between executions of the same input.
    fn train_config(&self, n: [u32; 4]) -> anyhow::Result<TrainConfig> {
        self.train_config_typed(n, TrainType::Freight)
    }
    fn train_config_typed(&self, n: [u32; 4], train_type: TrainType) -> anyhow::Result<TrainConfig> {
        let car = |rv: &RailVehicle, name: &str, base: f64, freight: f64| {
            let mut v = rv.clone();
            v.car_type = name.into();
            v.mass_static_base = uc::KG * base;
            v.mass_freight = uc::KG * freight;
            v
        };
        let rvs = vec![
            car(&self.rv_loaded, "Manifest_Loaded", 28500.1, 101500.3),
            car(&self.rv_empty, "Manifest_Empty", 28500.1, 0.0),
            car(&self.rv_inter, "Intermodal_Loaded", 26308.7, 48151.5),
            car(&self.rv_loaded, "Manifest_Partial", 31751.5, 48084.2),
        ];
        let counts: HashMap<String, u32> = rvs.iter().zip(n).map(|(rv, k)| (rv.car_type.clone(), k)).collect();
        TrainConfig::new(rvs, counts, train_type, None, None, None)
    }
}
static WORLD: OnceLock<Result<World, String>> = OnceLock::new();
fn world() -> anyhow::Result<&'static World> {
    WORLD
        .get_or_init(|| {
            (|| -> anyhow::Result<World> {
                let res = build::resources_dir();
                Ok(World {
                    net: Network::from_file(res.join("networks/simple_corridor_network.yaml"))?,
                    lm: import_locations(res.join("networks/simple_corridor_locations.csv"))?,
                    rv_loaded: RailVehicle::from_file(res.join("rolling_stock/Manifest_Loaded.yaml"))?,
                    rv_empty: RailVehicle::from_file(res.join("rolling_stock/Manifest_Empty.yaml"))?,
                    rv_inter: RailVehicle::from_file(res.join("rolling_stock/Intermodal_Loaded.yaml"))?,
                })
            })()
            .map_err(|e| errtxt(&e))
        })
        .as_ref()
        .map_err(|e| anyhow::anyhow!("world: {e}"))
}

fn corridor_train(t: &Value, id: &str) -> anyhow::Result<SpeedLimitTrainSim> {
    let w = world()?;
    let cars = t.get("cars").and_then(|x| x.as_array()).cloned().unwrap_or_default();
    let c = |i: usize, d: u32| cars.get(i).and_then(|x| x.as_u64()).map(|x| x as u32).unwrap_or(d);
    let tc = w.train_config([c(0, 20), c(1, 10), c(2, 5), c(3, 7)])?;
    let mut con = Consist::default();
    if let Some(m) = t.get("locos").and_then(|x| x.as_u64()) {
        con.loco_vec.truncate((m as usize).clamp(1, 5));
    }
    let (o, d) = if t.get("dir").and_then(|x| x.as_str()) == Some("BA") { ("B", "A") } else { ("A", "B") };
    let its = InitTrainState::new(
        Some(uc::S * t.get("depart").and_then(|x| x.as_f64()).unwrap_or(0.0)),
        None,
        None,
    );
    let tsb = TrainSimBuilder::new(id.into(), tc, con, Some(o.into()), Some(d.into()), Some(its));
    tsb.make_speed_limit_train_sim(&w.lm, Some(10), None, None)
}

fn toy_net() -> anyhow::Result<(Network, Vec<LinkIdx>)> {
    let n = 4;
    let links: Vec<Value> = (1..=n)
        .map(|k| json!({"len":1024,"prev":k-1,"next": if k < n { k + 1 } else { 0 },
                        "elevs":[[0, (k-1)*2],[1024, k*2]],
                        "rs":[[0,1024,16],[256,512,8]]}))
        .collect();
    let net = build::network(&json!({"oscale":1,"vscale":1,"escale":1,"links":links}))?;
    Ok((net, (1..=n as u32).map(LinkIdx::new).collect()))
}

/// A corridor whose links carry per-train-type speed sets (the `speed_sets` map layout, `speed_set` = None): every
/// link owns a HashMap with 2-3 keys, built afresh (new hasher, new iteration order) on every call.
fn typed_net(desc: &Value) -> anyhow::Result<(Network, Vec<LinkIdx>)> {
    let n = desc.get("links").and_then(|x| x.as_u64()).unwrap_or(4) as usize;
    let types = ga(desc, "types");
    let v = ga(desc, "v");
    let len = 5000.0;
    let mut links = vec![json!({
        "idx_curr":0,"idx_flip":0,"idx_next":0,"idx_next_alt":0,"idx_prev":0,"idx_prev_alt":0,
        "length":0.0,"elevs":[],"headings":[],"speed_sets":{},"speed_set":null,
        "cat_power_limits":[],"link_idxs_lockout":[]
    })];
    for k in 1..=n {
        let mut sets = serde_json::Map::new();
        for (t, ty) in types.iter().enumerate() {
            let speed = v[(t + k) % v.len()].as_f64().unwrap_or(10.0) + t as f64 * 3.0;
            sets.insert(
                ty.as_str().unwrap_or("Freight").to_string(),
                json!({"speed_limits":[{"offset_start":0.0,"offset_end":len,"speed":speed},
                                       {"offset_start":1000.0,"offset_end":2000.0,"speed":speed - 2.0}],
                       "speed_params":[],"is_head_end":false}),
            );
        }
        links.push(json!({
            "idx_curr":k,"idx_flip":0,"idx_next": if k < n { k + 1 } else { 0 },"idx_next_alt":0,
            "idx_prev":k-1,"idx_prev_alt":0,"length":len,
            "elevs":[{"offset":0.0,"elev":(k-1) as f64 * 2.5},{"offset":len,"elev":k as f64 * 2.5}],
            "headings":[],"speed_sets":sets,"speed_set":null,"cat_power_limits":[],"link_idxs_lockout":[]
        }));
    }
    let net = Network::from_json(Value::Array(links).to_string())?;
    Ok((net, (1..=n as u32).map(LinkIdx::new).collect()))
}

fn ramp(n: usize, dv: f64, vmax: f64) -> SpeedTrace {
    let mut v = vec![0.0];
    let mut cur: f64 = 0.0;
    for k in 1..=n {
        cur = if k * 3 < n * 2 { (cur + dv).min(vmax) } else { (cur - dv).max(0.0) };
        v.push(cur);
    }
    SpeedTrace::new((0..=n).map(|k| k as f64).collect(), v, None)
}

/// One execution of a whole input: (ok, canonical tree of the output)
fn execute(desc: &Value) -> anyhow::Result<(bool, Node)> {
    let kind = gs(desc, "kind");
    Ok(match kind {
        "batch" => {
            let mut b = make_batch(desc)?;
            let r = b.walk(false);
            (r.is_ok(), Node::Seq(vec![tree(&b), Node::S(r.err().map(|e| errtxt(&e)).unwrap_or_default())]))
        }
        "esttimes" => {
            let w = world()?;
            let slts = corridor_train(desc, "e")?;
            match make_est_times(slts, &w.net) {
                Ok((etn, con)) => (true, Node::Seq(vec![tree(&etn), tree(&con)])),
                Err(e) => (false, Node::S(errtxt(&e))),
            }
        }
        "fan" => {
            // trains with 2-3 usable origin links (merging) and 1-3 destination links (diverging): est-time
            // construction for every train, then dispatch of all of them; network, location map and trains are rebuilt
            // from the description on every execution
            let w = world()?;
            let no = gi(desc, "origs") as usize;
            let nd = gi(desc, "dests") as usize;
            let len = gi(desc, "llen");
            let v = gi(desc, "v");
            // links: origins 1..no; merge chain m_1..m_{no-1}; trunk t; split chain; destinations
            #[derive(Clone, Default)]
            struct L { next: usize, next_alt: usize, prev: usize, prev_alt: usize }
            let mut ls: Vec<L> = vec![L::default(); 1];
            let mut add = |ls: &mut Vec<L>| { ls.push(L::default()); ls.len() - 1 };
            let origs: Vec<usize> = (0..no).map(|_| add(&mut ls)).collect();
            // merge: first two origins join into m1, every further origin joins one link later
            let mut cur = add(&mut ls);
            ls[cur].prev = origs[0];
            ls[cur].prev_alt = origs[1];
            ls[origs[0]].next = cur;
            ls[origs[1]].next = cur;
            for o in origs.iter().skip(2) {
                let m = add(&mut ls);
                ls[m].prev = cur;
                ls[m].prev_alt = *o;
                ls[cur].next = m;
                ls[*o].next = m;
                cur = m;
            }
            // trunk link behind the last merge
            let t = add(&mut ls);
            ls[t].prev = cur;
            ls[cur].next = t;
            cur = t;
            // split: nd destinations, each further one leaves one link later
            let mut dests = vec![];
            for k in 0..nd {
                if k + 1 < nd {
                    let d = add(&mut ls);
                    let m = add(&mut ls);
                    ls[cur].next = m;
                    ls[cur].next_alt = d;
                    ls[d].prev = cur;
                    ls[m].prev = cur;
                    dests.push(d);
                    cur = m;
                } else {
                    dests.push(cur);
                }
            }
            let links: Vec<Value> = ls
                .iter()
                .skip(1)
                .enumerate()
                .map(|(k, l)| json!({"len": len + 100 * (k as i64 % 3), "next": l.next, "next_alt": l.next_alt,
                                     "prev": l.prev, "prev_alt": l.prev_alt,
                                     "elevs": [[0, 0], [len + 100 * (k as i64 % 3), (k as i64 % 4) - 1]],
                                     "rs": [[0, len + 100 * (k as i64 % 3), v + (k as i64 % 2)]]}))
                .collect();
            let net = match build::network(&json!({"oscale":1,"vscale":1,"escale":1,"links":links})) {
                Ok(n) => n,
                Err(e) => return Ok((false, Node::S(format!("net: {}", errtxt(&e))))),
            };
            let lm: LocationMap = HashMap::from([
                ("A".to_string(), origs.iter().map(|l| build::location("A", *l as u32)).collect()),
                ("B".to_string(), dests.iter().map(|l| build::location("B", *l as u32)).collect()),
            ]);
            let mut sims = vec![];
            for (k, t) in ga(desc, "trains").iter().enumerate() {
                let cars = ga(t, "cars");
                let c = |i: usize| cars.get(i).and_then(|x| x.as_u64()).unwrap_or(4) as u32;
                let tc = w.train_config([c(0), c(1), c(2), c(3)])?;
                let its = InitTrainState::new(Some(uc::S * t["depart"].as_f64().unwrap_or(0.0)), None, None);
                let tsb = TrainSimBuilder::new(format!("f{k}"), tc, Consist::default(), Some("A".into()), Some("B".into()), Some(its));
                sims.push(tsb.make_speed_limit_train_sim(&lm, Some(10), None, None)?);
            }
            let mut nets = vec![];
            let mut out = vec![];
            for s in &sims {
                match make_est_times(s.clone(), &net) {
                    Ok((etn, con)) => {
                        out.push(tree(&etn));
                        out.push(tree(&con));
                        nets.push(etn);
                    }
                    Err(e) => return Ok((false, Node::Seq(vec![Node::Seq(out), Node::S(format!("est: {}", errtxt(&e)))]))),
                }
            }
            match run_dispatch(&net, &sims, nets, false, false) {
                Ok(plans) => {
                    out.push(tree(&plans));
                    (true, Node::Seq(out))
                }
                Err(e) => (false, Node::Seq(vec![Node::Seq(out), Node::S(format!("dispatch: {}", errtxt(&e)))])),
            }
        }
        "dispatch" => {
            let w = world()?;
            let mut sims = vec![];
            for (k, t) in ga(desc, "trains").iter().enumerate() {
                sims.push(corridor_train(t, &format!("t{k}"))?);
            }
            let mut nets = vec![];
            for s in &sims {
                match make_est_times(s.clone(), &w.net) {
                    Ok((etn, _)) => nets.push(etn),
                    Err(e) => return Ok((false, Node::S(format!("est: {}", errtxt(&e))))),
                }
            }
            match run_dispatch(&w.net, &sims, nets.clone(), false, false) {
                Ok(plans) => {
                    let mut out = vec![tree(&nets), tree(&plans)];
                    if desc.get("walk").and_then(|x| x.as_bool()).unwrap_or(false) {
                        let mut s = sims[0].clone();
                        let r = s.walk_timed_path(&w.net, &plans[0]);
                        out.push(tree(&s));
                        out.push(Node::S(r.err().map(|e| errtxt(&e)).unwrap_or_default()));
                    }
                    (true, Node::Seq(out))
                }
                Err(e) => (false, Node::S(errtxt(&e))),
            }
        }
        "setspeed" => {
            let real = desc.get("scale").and_then(|x| x.as_str()) == Some("real");
            let len = desc.get("len").and_then(|x| x.as_u64()).unwrap_or(40) as usize;
            let mut s = if real {
                let w = world()?;
                let n = desc.get("cars").and_then(|x| x.as_u64()).unwrap_or(20) as u32;
                let tc = w.train_config([n, n / 2 + 1, n / 3 + 1, n / 4 + 3])?;
                let tsb = TrainSimBuilder::new("s".into(), tc, Consist::default(), None, None, None);
                let route: Vec<LinkIdx> = [1u32, 2, 4].iter().map(|l| LinkIdx::new(*l)).collect();
                tsb.make_set_speed_train_sim(&w.net, route, ramp(len, 0.05, 6.0), Some(1))?
            } else {
                let (net, route) = toy_net()?;
                let tc = build::train_config2(
                    &json!({"n": desc.get("cars").and_then(|x| x.as_u64()).unwrap_or(4)}),
                    &json!({"n": 2, "car_mass": 512.0}),
                )?;
                let con = build::consist(&[json!({"kind":"conv"}), json!({"kind":"bel"})], "RESGreedy", Some(1))?;
                let tsb = TrainSimBuilder::new("s".into(), tc, con, None, None, None);
                tsb.make_set_speed_train_sim(&net, &route, ramp(len, 0.125, 1.0), Some(1))?
            };
            let r = s.walk();
            (r.is_ok(), Node::Seq(vec![tree(&s), Node::S(r.err().map(|e| errtxt(&e)).unwrap_or_default())]))
        }
        "typed" => {
            // a train of one of the types the links know, on a network rebuilt from its description
            let w = world()?;
            let (net, route) = typed_net(desc)?;
            let tt: TrainType = serde_json::from_value(desc["ttype"].clone())?;
            let cars = ga(desc, "cars");
            let c = |i: usize| cars.get(i).and_then(|x| x.as_u64()).unwrap_or(5) as u32;
            let tc = w.train_config_typed([c(0), c(1), c(2), c(3)], tt)?;
            let len = desc.get("len").and_then(|x| x.as_u64()).unwrap_or(100) as usize;
            if gs(desc, "sim") == "setspeed" {
                let tsb = TrainSimBuilder::new("t".into(), tc, Consist::default(), None, None, None);
                match tsb.make_set_speed_train_sim(&net, &route, ramp(len, 0.05, 6.0), Some(1)) {
                    Ok(mut s) => {
                        let r = s.walk();
                        (r.is_ok(), Node::Seq(vec![tree(&s), Node::S(r.err().map(|e| errtxt(&e)).unwrap_or_default())]))
                    }
                    Err(e) => (false, Node::S(errtxt(&e))),
                }
            } else {
                let tsb = TrainSimBuilder::new("t".into(), tc, Consist::default(), Some("A".into()), Some("B".into()), None);
                let lm = build::location_map(&[1], &[route.len() as u32]);
                let mut s = tsb.make_speed_limit_train_sim(&lm, Some(5), None, None)?;
                if let Err(e) = s.extend_path(net.as_ref(), &route) {
                    return Ok((false, Node::Seq(vec![tree(&s.path_tpc), Node::S(format!("extend: {}", errtxt(&e)))])));
                }
                let mut r = Ok(());
                for _ in 0..len {
                    r = s.step();
                    if r.is_err() || s.state.offset >= s.path_tpc.offset_end() {
                        break;
                    }
                }
                (r.is_ok(), Node::Seq(vec![tree(&s), Node::S(r.err().map(|e| errtxt(&e)).unwrap_or_default())]))
            }
        }
        "speedlimit" => {
            let w = world()?;
            let mut s = corridor_train(desc, "l")?;
            let route: Vec<LinkIdx> = if desc.get("dir").and_then(|x| x.as_str()) == Some("BA") {
                [5u32, 6, 8].iter().map(|l| LinkIdx::new(*l)).collect()
            } else {
                [1u32, 2, 4].iter().map(|l| LinkIdx::new(*l)).collect()
            };
            if let Err(e) = s.extend_path(w.net.as_ref(), &route) {
                return Ok((false, Node::S(format!("extend: {}", errtxt(&e)))));
            }
            // own step loop with a cap (a walk that never returns is C03's business, not C18's)
            let cap = desc.get("len").and_then(|x| x.as_u64()).unwrap_or(2000);
            let mut r = Ok(());
            for _ in 0..cap {
                r = s.step();
                if r.is_err() || s.state.offset >= s.path_tpc.offset_end() {
                    break;
                }
            }
            (r.is_ok(), Node::Seq(vec![tree(&s), Node::S(r.err().map(|e| errtxt(&e)).unwrap_or_default())]))
        }
        "consist" => run_consist(desc)?,
        "build" => run_build(desc, 0)?,
        k => anyhow::bail!("unknown kind {k}"),
    })
}

/// first error / panic text inside an outcome tree (diagnostics only)
fn first_text(n: &Node) -> String {
    match n {
        Node::S(s) if !s.is_empty() => s.chars().take(200).collect(),
        Node::Seq(a) => a.iter().rev().map(first_text).find(|s| !s.is_empty()).unwrap_or_default(),
        _ => String::new(),
    }
}

/// `execute` with a panic turned into an outcome
fn outcome(desc: &Value) -> anyhow::Result<(bool, Value, String)> {
    outcome_of(|| execute(desc)).map(|(ok, d, msg, _)| (ok, d, msg))
}

/// an execution with a panic turned into an outcome; the outcome tree is handed back for diagnostics
fn outcome_of(f: impl FnOnce() -> anyhow::Result<(bool, Node)>) -> anyhow::Result<(bool, Value, String, Node)> {
    match std::panic::catch_unwind(std::panic::AssertUnwindSafe(f)) {
        Ok(Ok((ok, n))) => {
            let msg = if ok { String::new() } else { first_text(&n) };
            let t = Node::Seq(vec![Node::B(ok), n]);
            Ok((ok, dig(&t), msg, t))
        }
        Ok(Err(e)) => Err(e),
        Err(p) => {
            let m = format!("panic: {}", panic_msg(&p));
            let t = Node::S(m.clone());
            Ok((false, dig(&t), m.chars().take(200).collect(), t))
        }
    }
}

fn err_idx(e: &anyhow::Error) -> i64 {
    let s = format!("{e:#}");
    match s.find("loco_sim idx:") {
        Some(p) => {
            let d: String = s[p + 13..].chars().take_while(|c| c.is_ascii_digit()).collect();
            d.parse::<i64>().map(|x| x + 1).unwrap_or(0)
        }
        None => 0,
    }
}

fn exec(desc: &Value, tr: &mut Tracer) -> anyhow::Result<()> {
    let kind = gs(desc, "kind");
    // whole-input executions: twice here, once in a second process
    // (inputs with several origin links: four in-process executions)
    let hows: &[&str] = if kind == "fan" { &["inproc1", "inproc2", "inproc3", "inproc4"] } else { &["inproc1", "inproc2"] };
    let mut reference: Option<Node> = None;
    for how in hows {
        let (ok, d, msg, t) = outcome_of(|| execute(desc))?;
        reference.get_or_insert(t);
        tr.emit(json!({"ev":"Run","id":kind,"cls":"rep","how":how,"ok":ok,"d":d,"msg":msg}));
    }
    {
        let exe = std::env::current_exe()?;
        let out = std::process::Command::new(exe).arg("child").arg(desc.to_string()).output()?;
        let txt = String::from_utf8_lossy(&out.stdout);
        let v: Value = serde_json::from_str(txt.trim()).map_err(|e| {
            anyhow::anyhow!("second process gave no result (rc={:?}): {e}: {}", out.status.code(),
                String::from_utf8_lossy(&out.stderr).chars().take(200).collect::<String>())
        })?;
        tr.emit(json!({"ev":"Run","id":kind,"cls":"rep","how":"proc2","ok":v["ok"],"d":v["d"]}));
    }
    // where an execution differs from the first one (diagnostics only: TLC compares the digests)
    let differs = |t: &Node| -> Vec<String> {
        match &reference {
            Some(r) if r != t => diff_of(r, t).into_iter().take(6).collect(),
            _ => vec![],
        }
    };
    if kind == "consist" {
        // the same calls inside rayon pools of 1, 2, 4, 7 workers
        for (i, (threads, pool)) in cpools().iter().enumerate() {
            let (ok, d, msg, t) = pool.install(|| outcome_of(|| run_consist(desc)))?;
            tr.emit(json!({"ev":"Run","id":kind,"cls":"pool","first":i == 0,"how":format!("pool{threads}"),"threads":threads,
                           "ok":ok,"d":d,"msg":msg,"diff":differs(&t)}));
        }
        return Ok(());
    }
    if kind == "build" {
        // built again from separately constructed equal inputs
        let reps = desc.get("reps").and_then(|x| x.as_u64()).unwrap_or(8) as usize;
        for k in 1..=reps {
            let (ok, d, msg, t) = outcome_of(|| run_build(desc, k))?;
            tr.emit(json!({"ev":"Run","id":kind,"cls":"build","first":k == 1,"how":format!("build{k}"),"variant":k,
                           "ok":ok,"d":d,"msg":msg,"diff":differs(&t)}));
        }
        return Ok(());
    }
    if kind != "batch" {
        return Ok(());
    }
    // batches: every element alone, then the whole batch serially and under every pool
    let pristine = make_batch(desc)?;
    let n = pristine.0.len();
    for j in 0..n {
        let mut e = pristine.0[j].clone();
        let t0 = tree(&e);
        let r = e.walk();
        let t1 = tree(&e);
        let mut ev = json!({"ev":"Solo","j":j+1,"ok":r.is_ok(),"d":dig(&t1),"dinit":dig(&t0),"dinp":dig(&inputs(&t1)),
                       "dinp0":dig(&inputs(&t0))});
        if inputs(&t0) != inputs(&t1) {
            ev["diff_inp"] = json!(diff_of(&inputs(&t0), &inputs(&t1)));
        }
        tr.emit(ev);
    }
    let reps = desc.get("reps").and_then(|x| x.as_u64()).unwrap_or(2);
    let log = |how: &str, threads: usize, rep: u64, b: &LocomotiveSimulationVec, r: &anyhow::Result<()>, tr: &mut Tracer| {
        let elems: Vec<Value> = b
            .0
            .iter()
            .map(|e| {
                let t = tree(e);
                json!([dig(&t), dig(&inputs(&t))])
            })
            .collect();
        tr.emit(json!({"ev":"Batch","how":how,"threads":threads,"rep":rep,"ok":r.is_ok(),
                       "err_idx": r.as_ref().err().map(err_idx).unwrap_or(0),
                       "len": b.0.len(), "elems":elems,
                       "d": dig(&tree(b))}));
    };
    {
        let mut b = pristine.clone();
        let r = b.walk(false);
        log("serial", 0, 0, &b, &r, tr);
    }
    for (threads, pool) in pools() {
        for rep in 0..reps {
            let mut b = pristine.clone();
            let r = pool.install(|| b.walk(true));
            log("par", *threads, rep, &b, &r, tr);
        }
    }
    Ok(())
}

// ---------------------------------------------------------------------------------------------

fn gen(seed: u64, n: usize, tier: &str) -> Vec<Value> {
    let mut out = vec![];
    let heavy: i64 = if tier == "quick" { 1 } else { 4 };
    for k in 0..n {
        let mut r = Rng::new(seed.wrapping_mul(9_176_533).wrapping_add(k as u64));
        let cars = |r: &mut Rng| json!([r.range(5, 50), r.range(1, 30), r.range(1, 20), r.range(1, 25)]);
        let c = match k % 14 {
            0 | 1 | 2 | 3 => {
                // larger batches, random unit parameters, failing element at a random position (or none)
                let nb = r.range(2, 12);
                // half of the batches off the dyadic lattice: order-dependent float sums cannot hide in exact arithmetic
                let offl = r.chance(1, 2);
                let units: Vec<Value> = (0..r.range(1, 4))
                    .map(|_| {
                        if offl {
                            json!({"kf": *r.pick(&[3.0, 2.7]), "kg": *r.pick(&[1.1, 1.3]), "ke": *r.pick(&[1.3, 1.7]),
                                   "kr": *r.pick(&[1.7, 1.9]), "soc": *r.pick(&[0.3, 0.5, 0.7]), "aux": 33.3, "idle": 70.7})
                        } else {
                            json!({"kf": *r.pick(&[1, 2, 4]), "kg": *r.pick(&[1, 2]), "ke": *r.pick(&[1, 2]),
                                   "kr": *r.pick(&[1, 2]), "soc": *r.pick(&[0.25, 0.5, 0.75])})
                        }
                    })
                    .collect();
                let len = r.range(4, 60);
                json!({"kind":"batch","n":nb,"fail": if r.chance(2, 3) { r.range(1, nb) } else { 0 },
                       "len":len,"at":r.range(1, len),"units":units,
                       "dem":(0..8).map(|_| r.range(0, 8)).collect::<Vec<_>>(),"reps":3})
            }
            4 | 5 => json!({"kind":"esttimes","cars":cars(&mut r),"dir":*r.pick(&["AB","BA"]),
                            "depart":r.range(0, 20) * 60,"locos":r.range(2, 5)}),
            6 | 7 => {
                let nt = r.range(2, 4);
                let trains: Vec<Value> = (0..nt)
                    .map(|i| json!({"cars":cars(&mut r),"dir": if r.chance(1, 2) {"AB"} else {"BA"},
                                    "depart": i * r.range(0, 15) * 60, "locos": r.range(3, 5)}))
                    .collect();
                json!({"kind":"dispatch","trains":trains,"walk": r.chance(1, (4 / heavy) as u64)})
            }
            12 | 13 => {
                let nt = r.range(1, 2);
                let trains: Vec<Value> = (0..nt)
                    .map(|i| json!({"cars":[r.range(3, 15), r.range(1, 8), r.range(1, 6), r.range(1, 6)], "depart": i * r.range(1, 10) * 120}))
                    .collect();
                json!({"kind":"fan","origs":r.range(2, 3),"dests":*r.pick(&[1, 1, 2, 3]),"llen":r.range(15, 40) * 100,
                       "v":r.range(10, 18),"trains":trains})
            }
            10 | 11 => {
                // per-train-type speed sets on every link (2-3 types) and a train of one of those types
                let all = ["Freight", "Intermodal", "Passenger"];
                let nt = r.range(2, 3) as usize;
                let types: Vec<&str> = if nt == 3 { all.to_vec() } else { vec!["Freight", *r.pick(&["Intermodal", "Passenger"])] };
                let tt = *r.pick(&types);
                json!({"kind":"typed","sim": if k % 14 == 10 {"setspeed"} else {"speedlimit"},"ttype":tt,"types":types,
                       "v":(0..4).map(|_| r.range(7, 13)).collect::<Vec<_>>(),"links":r.range(2, 4),
                       "cars":[r.range(3, 20), r.range(1, 10), r.range(1, 8), r.range(1, 8)],
                       "len": r.range(40, 200) * heavy})
            }
            8 => json!({"kind":"setspeed","scale":*r.pick(&["toy","real"]),"cars":r.range(2, 30),"len":r.range(10, 200)}),
            _ => json!({"kind":"speedlimit","cars":cars(&mut r),"dir":*r.pick(&["AB","BA"]),"locos":r.range(3, 5),
                        "len": r.range(50, 600) * heavy}),
        };
        let mut c = c;
        c["src"] = json!("gen");
        c["seed"] = json!(seed);
        c["k"] = json!(k);
        out.push(c);
    }
    // reductions inside one element: consists under worker pools, trains built from fresh equal inputs
    let extra = (n / 5).max(2);
    for i in 0..extra {
        let k = n + i;
        let mut r = Rng::new(seed.wrapping_mul(9_176_533).wrapping_add(k as u64));
        // a non-dyadic number of about `base`, different for every draw position j
        let nd = |r: &mut Rng, base: f64, span: i64, j: usize| base + r.range(0, span) as f64 * 1.3 + 0.1 * r.range(1, 9) as f64 + 7.37 * j as f64;
        let mut c = if i % 2 == 0 {
            let nl = *r.pick(&[3, 4, 5, 5, 6, 6, 7, 7]) as usize;
            // all conventional / all battery / mixed (>= 3 of one kind whenever 5 or more)
            let pat = *r.pick(&[0, 0, 1, 1, 2, 3]);
            let units: Vec<Value> = (0..nl)
                .map(|j| {
                    let bel = match pat { 0 => false, 1 => true, 2 => j % 2 == 1, _ => r.chance(1, 2) };
                    let rate = nd(&mut r, 2000.0, 2000, j);
                    if bel {
                        json!({"kind":"bel","rres":rate,"redrv":rate,"ke":*r.pick(&[1.3, 1.7, 1.1]),"kr":*r.pick(&[1.7, 1.9, 1.3]),
                               "soc":0.3 + 0.01 * r.range(0, 40) as f64 + 0.003 * j as f64,"cap":nd(&mut r, 60000.0, 4000, j),
                               "aux":nd(&mut r, 20.0, 20, j)})
                    } else {
                        json!({"kind":"conv","rfc":rate,"rgen":rate,"redrv":rate,"kf":*r.pick(&[3.0, 2.7, 2.3]),"kg":*r.pick(&[1.1, 1.3]),
                               "ke":*r.pick(&[1.3, 1.7, 1.1]),"aux":nd(&mut r, 20.0, 20, j),"idle":nd(&mut r, 60.0, 20, j)})
                    }
                })
                .collect();
            let steps = r.range(4, 12);
            json!({"kind":"consist","n":nl,"units":units,"pdct":*r.pick(&["Proportional", "RESGreedy"]),"steps":steps,
                   "dt10":*r.pick(&[7, 10, 13]),
                   "dem":(0..steps).map(|s| if s % 3 == 2 { -r.range(1, 14) } else { r.range(1, 15) }).collect::<Vec<_>>()})
        } else {
            let nt = r.range(3, 5) as usize;
            let cars: Vec<Value> = (0..nt)
                .map(|j| {
                    json!({"n":*r.pick(&[7, 11, 13, 5, 9, 17, 3]),"car_mass":nd(&mut r, 19000.0, 12000, j),
                           "freight": if r.chance(1, 3) { 0.0 } else { nd(&mut r, 30000.0, 40000, j) },
                           "axles":*r.pick(&[4, 6, 8]),"brakes":1,"car_len":nd(&mut r, 14.0, 4, j) / 1.0,"vmax":31.3,
                           "mass_rot":nd(&mut r, 550.0, 150, j),"bearing":nd(&mut r, 30.0, 15, j),
                           "rolling":0.0015 + 0.00001 * r.range(1, 60) as f64,"davis_b":0.001 + 0.00001 * r.range(1, 90) as f64,
                           "cd_area":nd(&mut r, 1.0, 2, j) / 3.0,"braking_ratio":0.1 + 0.001 * r.range(1, 50) as f64})
                })
                .collect();
            json!({"kind":"build","types":nt,"cars":cars,"sim":*r.pick(&["setspeed", "speedlimit"]),"reps":8})
        };
        c["src"] = json!("gen");
        c["seed"] = json!(seed);
        c["k"] = json!(k);
        out.push(c);
    }
    out
}

fn main() {
    let a: Vec<String> = std::env::args().collect();
    if a.len() >= 3 && a[1] == "child" {
        // second process: one execution, result on stdout; its own watchdog so that it can never outlive a hang
        std::env::set_var("RUST_BACKTRACE", "0");
        std::panic::set_hook(Box::new(|_| {}));
        start_watchdog();
        arm(std::env::var("AVH_CHILD_MS").ok().and_then(|s| s.parse().ok()).unwrap_or(60_000));
        let desc: Value = serde_json::from_str(&a[2]).expect("child: bad descriptor");
        match outcome(&desc) {
            Ok((ok, d, _)) => println!("{}", json!({"ok":ok,"d":d})),
            Err(e) => {
                eprintln!("child: {}", errtxt(&e));
                std::process::exit(3);
            }
        }
        return;
    }
    main_with(gen, exec);
}
