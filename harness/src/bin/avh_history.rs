//! History harness (C19): runs a schedule of {set_save_interval, walk-with-nothing-to-do (the
//! initial save), step, failing step, walk} against the real simulation kinds and logs, after
//! every action, the step counter, save interval and history of EVERY history-bearing object
//! found in `serde_json::to_value(&sim)`.
//!
//! Case descriptor (emitted by History.tla or by `gen`):
//!   {"comp":["conv","bel",..], "sched":[["New",v0,u0,c0],["Relist",v],["Set",v],["Init",0],["Step",0],["Err",0],
//!                                        ["Walk",n],["WalkErr",k]], "kinds":[..]?}
//! intervals: 0 = None. "Walk" n = walk() over n further steps (trace kinds) / to the end of the
//! path (slts, timed); "WalkErr" k = walk() whose k-th step fails (trace kinds only).
//! comp: "conv" / "bel" = toy-builder units at realistic scale, "hyb" = altrios' default hybrid.
//! kinds: "loco" LocomotiveSimulation (first unit), "consist" ConsistSimulation,
//! "setspeed" SetSpeedTrainSim, "slts" SpeedLimitTrainSim (walk / step),
//! "timed" SpeedLimitTrainSim::walk_timed_path, "vec" SpeedLimitTrainSimVec of two equal simulations
//! (interval set through the vector, the trees of both elements recorded one after the other).
//!
//! Abstraction function (nothing is judged here):
//!   node   = every JSON object with a "history" object holding an "i" array
//!   i      = obj.state.i (state is omitted by serde when it equals its default, whose i is 1)
//!   iv     = obj.save_interval (null -> 0)
//!   hi     = obj.history.i ; lmin/lmax = shortest / longest column of obj.history
//!   lvl,k,c from the JSON path: root -> train, fric_brake -> fric, loco_con -> con,
//!   loco_unit | loco_vec[k] -> loco k, loco_type.<Variant>.<field> -> comp <field>
use altrios_core::consist::locomotive::loco_sim::{LocomotiveSimulation, PowerTrace};
use altrios_core::consist::consist_sim::ConsistSimulation;
use altrios_core::prelude::*;
use altrios_core::traits::SerdeAPI;
use altrios_core::train::LinkIdxTime;
use altrios_core::uc;
use avh::build;
use avh::common::*;
use serde_json::{json, Value};

const STEPS_MAX: usize = 64; // trace length of the stepped kinds

fn unit(kind: &str) -> Value {
    // realistic scale: the speed-limited simulation has absolute thresholds (0.1 mph, 1000 ft)
    if kind == "bel" {
        json!({"kind":"bel","rres":4.0e6,"redrv":4.0e6,"cap":2.0e10,"soc":0.75,
               "mass":131072.0,"force_max":4.0e5,"aux":4096.0})
    } else {
        json!({"kind":"conv","rfc":4.0e6,"rgen":4.0e6,"redrv":4.0e6,"idle":4096.0,"lag":16.0,
               "fc_init":1.0e6,"mass":131072.0,"force_max":4.0e5,"aux":4096.0})
    }
}

/// conventional / battery-electric toy-builder units at realistic scale, or altrios' own default
/// hybrid (fuel converter + generator + battery + drivetrain from the shipped default YAMLs)
fn make_unit(kind: &str, u0: Option<usize>) -> anyhow::Result<Locomotive> {
    let mut l = if kind == "hyb" {
        let mut l = Locomotive::default_hybrid_electric_loco();
        l.init()?;
        l
    } else {
        build::loco(&unit(kind))?
    };
    // the unit's own interval, set before it is handed to any consist / simulation
    l.set_save_interval(u0);
    Ok(l)
}

/// the library's own constructor (not the serde route of `build::consist_of`): the struct literal
/// stores `c0`, then `set_save_interval(c0)` carries it to the units
fn make_consist(units: Vec<Locomotive>, c0: Option<usize>) -> Consist {
    use altrios_core::consist::{PowerDistributionControlType, Proportional};
    Consist::new(units, c0, PowerDistributionControlType::Proportional(Proportional))
}

fn opt(v: i64) -> Option<usize> {
    if v <= 0 {
        None
    } else {
        Some(v as usize)
    }
}

fn net_desc() -> Value {
    // two flat links of 1024 m, 16 m/s everywhere
    json!({"links":[{"len":1024,"next":2,"rs":[[0,1024,16]]},
                    {"len":1024,"prev":1,"rs":[[0,1024,16]]}]})
}

fn train_cfg() -> anyhow::Result<TrainConfig> {
    build::train_config(&json!({"n":8,"car_len":16.0,"car_mass":65536.0,"axles":4,"brakes":1,
        "vmax":32.0,"braking_ratio":0.125,"bearing":64.0,"rolling":0.001953125}))
}

/// runs every call of the iterator and returns the first error (equal elements fail alike)
fn all_of(it: impl Iterator<Item = anyhow::Result<()>>) -> anyhow::Result<()> {
    let mut first = Ok(());
    for r in it {
        if first.is_ok() {
            first = r;
        }
    }
    first
}

enum Sim {
    Loco(Box<LocomotiveSimulation>),
    Con(Box<ConsistSimulation>),
    Ss(Box<SetSpeedTrainSim>),
    Sl {
        sim: Box<SpeedLimitTrainSim>,
        net: Network,
        extended: bool,
        timed: bool,
    },
    /// SpeedLimitTrainSimVec of two equal simulations driven in lockstep: the interval is set
    /// through the vector (SpeedLimitTrainSimVec::set_save_interval), everything else per element
    Vec {
        sims: altrios_core::train::SpeedLimitTrainSimVec,
        net: Network,
        extended: bool,
    },
}

fn power_trace(n: usize) -> PowerTrace {
    PowerTrace::new(
        (0..n).map(|x| x as f64).collect(),
        vec![65536.0; n],
        vec![Some(true); n],
    )
}
fn speed_trace(n: usize) -> SpeedTrace {
    // gentle start, then constant 2 m/s
    SpeedTrace::new(
        (0..n).map(|x| x as f64).collect(),
        (0..n).map(|x| (x as f64 * 0.125).min(2.0)).collect(),
        None,
    )
}

impl Sim {
    fn new(kind: &str, comp: &[Value], v0: Option<usize>, u0: Option<usize>, c0: Option<usize>) -> anyhow::Result<Sim> {
        let units = || -> anyhow::Result<Vec<Locomotive>> {
            comp.iter().map(|c| make_unit(c.as_str().unwrap_or("conv"), u0)).collect()
        };
        Ok(match kind {
            "loco" => Sim::Loco(Box::new(LocomotiveSimulation::new(
                units()?.remove(0),
                power_trace(STEPS_MAX),
                v0,
            ))),
            "consist" => Sim::Con(Box::new(ConsistSimulation::new(
                make_consist(units()?, c0),
                power_trace(STEPS_MAX),
                v0,
            ))),
            "setspeed" => {
                let net = build::network(&net_desc())?;
                let tsb = TrainSimBuilder::new(
                    "t".into(),
                    train_cfg()?,
                    make_consist(units()?, c0),
                    None,
                    None,
                    None,
                );
                let route = [LinkIdx::new(1), LinkIdx::new(2)];
                Sim::Ss(Box::new(tsb.make_set_speed_train_sim(
                    &net,
                    route,
                    speed_trace(STEPS_MAX),
                    v0,
                )?))
            }
            "slts" | "timed" => {
                let net = build::network(&net_desc())?;
                let tsb = TrainSimBuilder::new(
                    "t".into(),
                    train_cfg()?,
                    make_consist(units()?, c0),
                    Some("A".into()),
                    Some("B".into()),
                    None,
                );
                let lm = build::location_map(&[1], &[2]);
                Sim::Sl {
                    sim: Box::new(tsb.make_speed_limit_train_sim(&lm, v0, None, None)?),
                    net,
                    extended: false,
                    timed: kind == "timed",
                }
            }
            "vec" => {
                let mut v = vec![];
                let mut netk = None;
                for _ in 0..2 {
                    if let Sim::Sl { sim, net, .. } = Sim::new("slts", comp, v0, u0, c0)? {
                        v.push(*sim);
                        netk = Some(net);
                    }
                }
                Sim::Vec {
                    sims: altrios_core::train::SpeedLimitTrainSimVec(v),
                    net: netk.unwrap(),
                    extended: false,
                }
            }
            _ => anyhow::bail!("unknown kind {kind}"),
        })
    }

    fn counter(&self) -> usize {
        match self {
            Sim::Loco(s) => s.i,
            Sim::Con(s) => s.i,
            Sim::Ss(s) => s.state.i,
            Sim::Sl { sim, .. } => sim.state.i,
            Sim::Vec { sims, .. } => sims.0[1].state.i,
        }
    }

    fn set(&mut self, v: Option<usize>) {
        match self {
            Sim::Loco(s) => s.set_save_interval(v),
            Sim::Con(s) => s.set_save_interval(v),
            Sim::Ss(s) => s.set_save_interval(v),
            Sim::Sl { sim, .. } => sim.set_save_interval(v),
            Sim::Vec { sims, .. } => sims.set_save_interval(v),
        }
    }

    /// fresh units (carrying their own interval `u0`) replace the current ones, then the interval
    /// `v` is applied at the top of the tree - even when `v` is the interval already in force
    fn relist(&mut self, comp: &[Value], u0: Option<usize>, v: Option<usize>) -> anyhow::Result<()> {
        let mut units: Vec<Locomotive> = comp
            .iter()
            .map(|c| make_unit(c.as_str().unwrap_or("conv"), u0))
            .collect::<anyhow::Result<_>>()?;
        match self {
            Sim::Loco(s) => s.loco_unit = units.remove(0),
            Sim::Con(s) => s.loco_con.set_loco_vec(units),
            Sim::Ss(s) => s.loco_con.set_loco_vec(units),
            Sim::Sl { sim, .. } => sim.loco_con.set_loco_vec(units),
            Sim::Vec { sims, .. } => {
                sims.0[0].loco_con.set_loco_vec(units.clone());
                sims.0[1].loco_con.set_loco_vec(units);
            }
        }
        self.set(v);
        Ok(())
    }

    fn extend(&mut self) -> anyhow::Result<()> {
        if let Sim::Sl { sim, net, extended, .. } = self {
            if !*extended {
                sim.extend_path(net.as_ref(), &[LinkIdx::new(1), LinkIdx::new(2)])?;
                *extended = true;
            }
        }
        if let Sim::Vec { sims, net, extended } = self {
            if !*extended {
                for sim in sims.0.iter_mut() {
                    sim.extend_path(net.as_ref(), &[LinkIdx::new(1), LinkIdx::new(2)])?;
                }
                *extended = true;
            }
        }
        Ok(())
    }

    /// walk() with nothing left to do: exactly the initial `save_state()` of every walk
    fn init_save(&mut self) -> anyhow::Result<()> {
        match self {
            Sim::Loco(s) => {
                let keep = std::mem::replace(&mut s.power_trace, power_trace(s.i));
                let r = s.walk();
                s.power_trace = keep;
                r
            }
            Sim::Con(s) => {
                let keep = std::mem::replace(&mut s.power_trace, power_trace(s.i));
                let r = s.walk();
                s.power_trace = keep;
                r
            }
            Sim::Ss(s) => {
                let keep = std::mem::replace(&mut s.speed_trace, speed_trace(s.state.i));
                let r = s.walk();
                s.speed_trace = keep;
                r
            }
            Sim::Sl { sim, extended, .. } => {
                // before the first extend_path the path is empty: walk() saves and returns
                anyhow::ensure!(!*extended, "initial save after the path was extended");
                sim.walk()
            }
            Sim::Vec { sims, extended, .. } => {
                anyhow::ensure!(!*extended, "initial save after the path was extended");
                all_of(sims.0.iter_mut().map(|sim| sim.walk()))
            }
        }
    }

    fn step(&mut self, fail: bool) -> anyhow::Result<anyhow::Result<()>> {
        self.extend()?;
        Ok(match self {
            Sim::Loco(s) => {
                if fail {
                    let i = s.i;
                    s.power_trace.pwr[i] = uc::W * 1.0e12;
                }
                s.step()
            }
            Sim::Con(s) => {
                if fail {
                    let i = s.i;
                    s.power_trace.pwr[i] = uc::W * 1.0e12;
                }
                s.step()
            }
            Sim::Ss(s) => {
                if fail {
                    let i = s.state.i;
                    s.speed_trace.speed[i] = uc::MPS * -1.0;
                }
                s.step()
            }
            Sim::Sl { sim, .. } => {
                if fail {
                    sim.fric_brake.force_max = uc::N * -1.0e15;
                }
                sim.step()
            }
            // every element takes the call (lockstep), the first error is reported
            Sim::Vec { sims, .. } => all_of(sims.0.iter_mut().map(|sim| {
                if fail {
                    sim.fric_brake.force_max = uc::N * -1.0e15;
                }
                sim.step()
            })),
        })
    }

    /// walk() over `n` further steps, the `fail`-th of which (1-based, 0 = none) fails
    fn walk(&mut self, n: usize, fail: usize) -> anyhow::Result<anyhow::Result<()>> {
        if !matches!(self, Sim::Sl { timed: true, .. }) {
            self.extend()?;
        }
        Ok(match self {
            Sim::Loco(s) => {
                let mut pt = power_trace(s.i + n);
                if fail > 0 {
                    pt.pwr[s.i + fail - 1] = uc::W * 1.0e12;
                }
                s.power_trace = pt;
                s.walk()
            }
            Sim::Con(s) => {
                let mut pt = power_trace(s.i + n);
                if fail > 0 {
                    pt.pwr[s.i + fail - 1] = uc::W * 1.0e12;
                }
                s.power_trace = pt;
                s.walk()
            }
            Sim::Ss(s) => {
                let mut st = speed_trace(s.state.i + n);
                if fail > 0 {
                    st.speed[s.state.i + fail - 1] = uc::MPS * -1.0;
                }
                s.speed_trace = st;
                s.walk()
            }
            Sim::Sl { sim, net, timed, .. } => {
                if *timed {
                    // the last entry is only a sentinel of walk_timed_path; link 2 is added to
                    // the path once the clock has reached 16 s
                    let tp = [
                        LinkIdxTime::new(LinkIdx::new(1), uc::S * 0.0),
                        LinkIdxTime::new(LinkIdx::new(2), uc::S * 16.0),
                        LinkIdxTime::new(LinkIdx::new(2), uc::S * 1.0e6),
                    ];
                    sim.walk_timed_path(net.as_ref() as &[Link], tp)
                } else {
                    sim.walk()
                }
            }
            Sim::Vec { sims, .. } => all_of(sims.0.iter_mut().map(|sim| sim.walk())),
        })
    }

    fn value(&self) -> Value {
        match self {
            Sim::Loco(s) => serde_json::to_value(&**s).unwrap(),
            Sim::Con(s) => serde_json::to_value(&**s).unwrap(),
            Sim::Ss(s) => serde_json::to_value(&**s).unwrap(),
            Sim::Sl { sim, .. } => serde_json::to_value(&**sim).unwrap(),
            Sim::Vec { sims, .. } => serde_json::to_value(sims).unwrap(),
        }
    }
    fn simi(&self) -> i64 {
        match self {
            Sim::Loco(s) => s.i as i64,
            Sim::Con(s) => s.i as i64,
            _ => -1,
        }
    }
}

// ---------------------------------------------------------------------------------------------
// generic projection of the object tree

fn classify(path: &[String]) -> (String, i64, String) {
    // returns (lvl, k, c); anything unexpected keeps its raw path as `c` with lvl "other"
    let mut lvl = "train".to_string();
    let mut k = 0i64;
    let mut c = String::new();
    let mut it = path.iter().peekable();
    while let Some(seg) = it.next() {
        match seg.as_str() {
            "fric_brake" if lvl == "train" => lvl = "fric".into(),
            "loco_con" if lvl == "train" => lvl = "con".into(),
            "loco_unit" if lvl == "train" => {
                lvl = "loco".into();
                k = 1;
            }
            "loco_vec" if lvl == "con" => {
                if let Some(ix) = it.next().and_then(|s| s.parse::<i64>().ok()) {
                    lvl = "loco".into();
                    k = ix + 1;
                } else {
                    return ("other".into(), 0, path.join("/"));
                }
            }
            "loco_type" if lvl == "loco" => {
                it.next(); // enum variant name
                match it.next() {
                    Some(f) if it.peek().is_none() => {
                        lvl = "comp".into();
                        c = f.clone();
                    }
                    _ => return ("other".into(), 0, path.join("/")),
                }
            }
            _ => return ("other".into(), 0, path.join("/")),
        }
    }
    (lvl, k, c)
}

fn collect(v: &Value, path: &mut Vec<String>, out: &mut Vec<Value>) {
    match v {
        Value::Object(o) => {
            if let Some(h) = o.get("history").and_then(|h| h.as_object()) {
                if let Some(hi) = h.get("i").and_then(|x| x.as_array()) {
                    let i = o
                        .get("state")
                        .and_then(|s| s.get("i"))
                        .and_then(|x| x.as_i64())
                        .unwrap_or(1);
                    let iv = match o.get("save_interval") {
                        Some(Value::Null) => 0,
                        Some(x) => x.as_i64().unwrap_or(-1),
                        None => -1,
                    };
                    let lens: Vec<usize> = h.values().filter_map(|c| c.as_array().map(|a| a.len())).collect();
                    let (lvl, k, c) = classify(path);
                    out.push(json!({"lvl":lvl,"k":k,"c":c,"i":i,"iv":iv,
                        "hi": hi.iter().map(|x| x.as_i64().unwrap_or(-1)).collect::<Vec<_>>(),
                        "lmin": lens.iter().min().copied().unwrap_or(0),
                        "lmax": lens.iter().max().copied().unwrap_or(0)}));
                }
            }
            for (key, c) in o {
                if key == "history" {
                    continue;
                }
                path.push(key.clone());
                collect(c, path, out);
                path.pop();
            }
        }
        Value::Array(a) => {
            for (ix, c) in a.iter().enumerate() {
                path.push(ix.to_string());
                collect(c, path, out);
                path.pop();
            }
        }
        _ => {}
    }
}

fn rank(n: &Value) -> (i64, i64, i64) {
    let lvl = n["lvl"].as_str().unwrap_or("");
    let k = n["k"].as_i64().unwrap_or(0);
    let c = match n["c"].as_str().unwrap_or("") {
        "" => 0,
        "fc" => 1,
        "gen" => 2,
        "res" => 3,
        "edrv" => 4,
        _ => 9,
    };
    match lvl {
        "train" => (0, 0, 0),
        "fric" => (1, 0, 0),
        "con" => (2, 0, 0),
        "loco" | "comp" => (3, k, c),
        _ => (9, 0, 0),
    }
}

fn nodes(sim: &Sim) -> Value {
    let v = sim.value();
    // a vector of simulations: the trees of its elements one after the other
    let roots: Vec<&Value> = match (&v, sim) {
        (Value::Array(a), Sim::Vec { .. }) => a.iter().collect(),
        _ => vec![&v],
    };
    let mut all = vec![];
    for r in roots {
        let mut out = vec![];
        collect(r, &mut vec![], &mut out);
        out.sort_by_key(rank);
        all.extend(out);
    }
    Value::Array(all)
}

// ---------------------------------------------------------------------------------------------

fn run_kind(kind: &str, comp: &[Value], sched: &[Value], tr: &mut Tracer) -> anyhow::Result<()> {
    let new = sched.first().filter(|a| a[0] == "New");
    let arg_of = |k: usize| new.map(|a| a[k].as_i64().unwrap_or(0)).unwrap_or(0);
    // ["New", v0, u0, c0]: simulation's interval, the units' own, the one given to Consist::new
    let (v0, u0, c0) = (arg_of(1), arg_of(2), arg_of(3));
    let mut sim = Sim::new(kind, comp, opt(v0), opt(u0), opt(c0))?;
    tr.emit(json!({"ev":"Start","kind":kind,"comp":comp,"v0":v0,"u0":u0,"c0":c0,"simi":sim.simi(),"nodes":nodes(&sim)}));
    for a in sched.iter().skip(1) {
        let name = a[0].as_str().unwrap_or("");
        let arg = a[1].as_i64().unwrap_or(0);
        let before = sim.counter();
        let (ok, msg): (bool, String) = match name {
            "Set" => {
                sim.set(opt(arg));
                (true, String::new())
            }
            "Relist" => {
                sim.relist(comp, opt(u0), opt(arg))?;
                (true, String::new())
            }
            "Init" => match sim.init_save() {
                Ok(()) => (true, String::new()),
                Err(e) => (false, errtxt(&e)),
            },
            "Step" | "Err" => match sim.step(name == "Err")? {
                Ok(()) => (true, String::new()),
                Err(e) => (false, errtxt(&e)),
            },
            "Walk" | "WalkErr" => {
                let (n, fail) = if name == "Walk" { (arg as usize, 0) } else { (arg as usize + 2, arg as usize) };
                match sim.walk(n, fail)? {
                    Ok(()) => (true, String::new()),
                    Err(e) => (false, errtxt(&e)),
                }
            }
            _ => anyhow::bail!("unknown action {name}"),
        };
        // number of steps the simulation's own top-level counter advanced by (walks only)
        let adv = sim.counter() as i64 - before as i64;
        tr.emit(json!({"ev":"Op","kind":kind,"name":name,"arg":arg,"ok":ok,"adv":adv,
                       "msg":msg.chars().take(300).collect::<String>(),
                       "simi":sim.simi(),"nodes":nodes(&sim)}));
        if !ok {
            break; // as walk() would: a failed step ends the run
        }
    }
    Ok(())
}

fn exec(desc: &Value, tr: &mut Tracer) -> anyhow::Result<()> {
    let comp = ga(desc, "comp").clone();
    let sched = ga(desc, "sched").clone();
    let default_kinds = vec![json!("loco"), json!("consist"), json!("setspeed"), json!("slts"), json!("vec")];
    let kinds = desc.get("kinds").and_then(|x| x.as_array()).unwrap_or(&default_kinds);
    for k in kinds {
        run_kind(k.as_str().unwrap_or(""), &comp, &sched, tr)?;
    }
    Ok(())
}

/// Whole runs through the real walk()/walk_timed_path(): random consist, random constructor
/// interval, optional interval changes before the walk, random length, optional failing step.
fn gen(seed: u64, n: usize, _tier: &str) -> Vec<Value> {
    let mut out = vec![];
    for k in 0..n {
        let mut r = Rng::new(seed.wrapping_mul(1_000_003).wrapping_add(k as u64));
        let nl = r.range(1, 3);
        let comp: Vec<&str> = (0..nl).map(|_| *r.pick(&["conv", "bel", "hyb"])).collect();
        let ivs = [0i64, 1, 1, 2, 3, 4, 5, 7, 10];
        // units' own interval / interval given to Consist::new: mostly "nothing special" (0 = None)
        let v0 = *r.pick(&ivs);
        let u0 = if r.chance(1, 2) { 0 } else { *r.pick(&ivs) };
        let c0 = if r.chance(1, 3) { v0 } else if r.chance(1, 2) { 0 } else { *r.pick(&ivs) };
        let mut sched = vec![json!(["New", v0, u0, c0])];
        if r.chance(1, 4) {
            // re-listed units, then the interval re-applied (the one in force half of the time)
            sched.push(json!(["Relist", if r.chance(1, 2) { v0 } else { *r.pick(&ivs) }]));
        }
        for _ in 0..r.range(0, 2) {
            sched.push(json!(["Set", *r.pick(&ivs)]));
        }
        let kind = *r.pick(&["loco", "consist", "setspeed", "slts", "timed", "vec"]);
        if (kind == "slts" || kind == "timed" || kind == "vec") || r.chance(2, 3) {
            sched.push(json!(["Walk", r.range(1, 40)]));
        } else {
            sched.push(json!(["WalkErr", r.range(1, 30)]));
        }
        out.push(json!({"src":"gen","seed":seed,"k":k,"comp":comp,"sched":sched,"kinds":[kind]}));
    }
    out
}

fn main() {
    main_with(gen, exec);
}
