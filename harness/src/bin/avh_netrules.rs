//! NetworkRules harness (C16): renders an abstract network description (valid base or broken) as
//! YAML / JSON text in the three file layouts, loads it through every public loader of `Network`
//! and records accepted | rejected | panic. The harness never judges: TLC evaluates `Valid(net)`.
//!
//! Case descriptor (emitted by NetworkRules.tla or by `gen`):
//! {"base":name,"faults":[..],"oscale":1,"escale":1,"vscale":1,
//!  "net":[{"cur","flip","next","nalt","prev","palt": index (-1 = 2^32-1),
//!          "len": num, "elevs":[[off,elev]..], "heads":[[off,deg]..],
//!          "ss": [] | [{"lim":[[s,e,v]..],"par":[[ltype,ctype,val]..],"head":bool}],
//!          "cat":[[s,e,p]..], "lock":[index..]}, ..]}      (net[0] = entry 0 of the file)
//! num = integer (value = int / scale) or the sentinels INF = 2^30, -INF, NAN = 2^30+1.
//! or {"kind":"shipped_legacy","old":<path under resources>,"new":<path under resources>}.
//!
//! Layouts: "set" = `speed_set: {..}`; "map" = `speed_sets: {Freight: {..}}`; "legacy" =
//! `speed_sets: [{.., train_type: Freight}]` (NetworkOld, only reachable through from_file).
use altrios_core::prelude::*;
use altrios_core::traits::*;
use avh::common::*;
use avh::netgen::{COMPARE_TYPES, LIMIT_TYPES};
use serde_json::{json, Value};
use std::fmt::Write as _;

const NAN_S: i64 = INF + 1;

/// text of a number; `finite` is cleared when the value cannot be written in JSON
fn num(v: &Value, scale: f64, finite: &mut bool) -> String {
    let i = v.as_i64().unwrap_or_else(|| panic!("not an integer: {v}"));
    if i == NAN_S {
        *finite = false;
        ".nan".into()
    } else if i == INF {
        *finite = false;
        ".inf".into()
    } else if i == -INF {
        *finite = false;
        "-.inf".into()
    } else {
        format!("{:?}", i as f64 / scale)
    }
}

fn idx(v: &Value) -> String {
    let i = v.as_i64().unwrap_or_else(|| panic!("not an index: {v}"));
    if i == -1 {
        "4294967295".into()
    } else {
        i.to_string()
    }
}

fn heading(v: &Value, finite: &mut bool) -> String {
    let i = v.as_i64().unwrap();
    if i == NAN_S || i == INF || i == -INF {
        return num(v, 1.0, finite);
    }
    // degrees -> radians; 360 maps to exactly one revolution
    format!("{:?}", std::f64::consts::TAU * (i as f64 / 360.0))
}

fn speed_set_text(s: &Value, os: f64, vs: f64, legacy: bool, finite: &mut bool) -> String {
    let mut t = String::from("{\"speed_limits\": [");
    for (k, r) in ga(s, "lim").iter().enumerate() {
        if k > 0 {
            t.push_str(", ");
        }
        write!(
            t,
            "{{\"offset_start\": {}, \"offset_end\": {}, \"speed\": {}}}",
            num(&r[0], os, finite),
            num(&r[1], os, finite),
            num(&r[2], vs, finite)
        )
        .unwrap();
    }
    t.push_str("], \"speed_params\": [");
    for (k, p) in ga(s, "par").iter().enumerate() {
        if k > 0 {
            t.push_str(", ");
        }
        write!(
            t,
            "{{\"limit_val\": {}, \"limit_type\": \"{}\", \"compare_type\": \"{}\"}}",
            num(&p[2], 1.0, finite),
            LIMIT_TYPES[p[0].as_u64().unwrap() as usize],
            COMPARE_TYPES[p[1].as_u64().unwrap() as usize]
        )
        .unwrap();
    }
    t.push_str("], ");
    if legacy {
        t.push_str("\"train_type\": \"Freight\", ");
    }
    write!(t, "\"is_head_end\": {}}}", gb(s, "head")).unwrap();
    t
}

/// Flow-style text that is valid YAML, and valid JSON as long as every number is finite.
fn render(desc: &Value, layout: &str) -> (String, bool) {
    let os = avh::netgen::scale(desc, "oscale");
    let es = avh::netgen::scale(desc, "escale");
    let vs = avh::netgen::scale(desc, "vscale");
    let mut finite = true;
    let mut t = String::from("[");
    for (k, l) in ga(desc, "net").iter().enumerate() {
        if k > 0 {
            t.push_str(",\n ");
        }
        write!(
            t,
            "{{\"idx_curr\": {}, \"idx_flip\": {}, \"idx_next\": {}, \"idx_next_alt\": {}, \"idx_prev\": {}, \"idx_prev_alt\": {}, \"length\": {}, \"elevs\": [",
            idx(&l["cur"]), idx(&l["flip"]), idx(&l["next"]), idx(&l["nalt"]), idx(&l["prev"]), idx(&l["palt"]),
            num(&l["len"], os, &mut finite)
        )
        .unwrap();
        for (j, e) in ga(l, "elevs").iter().enumerate() {
            if j > 0 {
                t.push_str(", ");
            }
            write!(t, "{{\"offset\": {}, \"elev\": {}}}", num(&e[0], os, &mut finite), num(&e[1], es, &mut finite)).unwrap();
        }
        t.push_str("], \"headings\": [");
        for (j, h) in ga(l, "heads").iter().enumerate() {
            if j > 0 {
                t.push_str(", ");
            }
            write!(t, "{{\"offset\": {}, \"heading\": {}}}", num(&h[0], os, &mut finite), heading(&h[1], &mut finite)).unwrap();
        }
        t.push_str("], ");
        let ss = ga(l, "ss");
        match layout {
            "set" => {
                if let Some(s) = ss.first() {
                    write!(t, "\"speed_set\": {}, ", speed_set_text(s, os, vs, false, &mut finite)).unwrap();
                } else {
                    t.push_str("\"speed_set\": null, ");
                }
            }
            "map" => {
                if let Some(s) = ss.first() {
                    write!(t, "\"speed_sets\": {{\"Freight\": {}}}, \"speed_set\": null, ", speed_set_text(s, os, vs, false, &mut finite)).unwrap();
                } else {
                    t.push_str("\"speed_sets\": {}, \"speed_set\": null, ");
                }
            }
            _ => {
                if let Some(s) = ss.first() {
                    write!(t, "\"speed_sets\": [{}], ", speed_set_text(s, os, vs, true, &mut finite)).unwrap();
                } else {
                    t.push_str("\"speed_sets\": [], ");
                }
            }
        }
        t.push_str("\"cat_power_limits\": [");
        for (j, c) in ga(l, "cat").iter().enumerate() {
            if j > 0 {
                t.push_str(", ");
            }
            write!(
                t,
                "{{\"offset_start\": {}, \"offset_end\": {}, \"power_limit\": {}, \"district_id\": null}}",
                num(&c[0], os, &mut finite),
                num(&c[1], os, &mut finite),
                num(&c[2], 1.0, &mut finite)
            )
            .unwrap();
        }
        t.push_str("], \"link_idxs_lockout\": [");
        for (j, x) in ga(l, "lock").iter().enumerate() {
            if j > 0 {
                t.push_str(", ");
            }
            t.push_str(&idx(x));
        }
        t.push_str("]}");
    }
    t.push(']');
    (t, finite)
}

/// runs one loader, catching a panic of the code under test
fn load<F: FnOnce() -> anyhow::Result<Network>>(f: F) -> (String, String, Option<Network>) {
    match std::panic::catch_unwind(std::panic::AssertUnwindSafe(f)) {
        Ok(Ok(n)) => ("accepted".into(), String::new(), Some(n)),
        Ok(Err(e)) => ("rejected".into(), errtxt(&e).chars().take(160).collect(), None),
        Err(p) => ("panic".into(), panic_msg(&p).chars().take(160).collect(), None),
    }
}

struct TmpDir(std::path::PathBuf);
impl TmpDir {
    fn new() -> anyhow::Result<Self> {
        let d = std::env::temp_dir().join(format!("avh-netrules-{}", std::process::id()));
        std::fs::create_dir_all(&d)?;
        Ok(TmpDir(d))
    }
}
impl Drop for TmpDir {
    fn drop(&mut self) {
        let _ = std::fs::remove_dir_all(&self.0);
    }
}

fn load_file(dir: &TmpDir, text: &str, ext: &str) -> anyhow::Result<(String, String, Option<Network>)> {
    let p = dir.0.join(format!("net.{ext}"));
    std::fs::write(&p, text)?;
    let r = load(|| Network::from_file(&p));
    let _ = std::fs::remove_file(&p);
    Ok(r)
}

/// field-by-field comparison of two loaded networks through their serialised form
fn legacy_event(old: &(String, String, Option<Network>), new: &(String, String, Option<Network>)) -> Value {
    let mut fields = serde_json::Map::new();
    let mut same_len = false;
    let mut peq = false;
    if let (Some(a), Some(b)) = (&old.2, &new.2) {
        peq = a == b;
        let va = serde_json::to_value(a).unwrap();
        let vb = serde_json::to_value(b).unwrap();
        let (aa, ab) = (va.as_array().unwrap(), vb.as_array().unwrap());
        same_len = aa.len() == ab.len();
        let mut keys: Vec<String> = vec![];
        for l in aa.iter().chain(ab.iter()) {
            for k in l.as_object().unwrap().keys() {
                if !keys.contains(k) {
                    keys.push(k.clone());
                }
            }
        }
        for k in keys {
            let eq = aa.iter().zip(ab.iter()).all(|(x, y)| x.get(&k) == y.get(&k));
            fields.insert(k, json!(eq));
        }
    }
    json!({"ev":"Legacy","old":old.0,"new":new.0,"old_msg":old.1,"new_msg":new.1,
           "same_len":same_len,"partial_eq":peq,"fields":Value::Object(fields)})
}

fn exec(desc: &Value, tr: &mut Tracer) -> anyhow::Result<()> {
    if desc.get("kind").and_then(|k| k.as_str()) == Some("shipped_legacy") {
        let res = avh::build::resources_dir();
        let (po, pn) = (res.join(gs(desc, "old")), res.join(gs(desc, "new")));
        let old = load(|| Network::from_file(&po));
        let new = load(|| Network::from_file(&pn));
        tr.emit(legacy_event(&old, &new));
        return Ok(());
    }
    let dir = TmpDir::new()?;
    let mut legacy_yaml = None;
    let mut map_yaml = None;
    for layout in ["set", "map", "legacy"] {
        let (text, finite) = render(desc, layout);
        let emit = |tr: &mut Tracer, format: &str, r: &(String, String, Option<Network>)| {
            tr.emit(json!({"ev":"Load","format":format,"layout":layout,"outcome":r.0,"msg":r.1}));
        };
        if layout != "legacy" {
            let r = load(|| Network::from_yaml(&text));
            emit(tr, "yaml", &r);
            if finite {
                let r = load(|| Network::from_json(&text));
                emit(tr, "json", &r);
            }
        }
        let r = load_file(&dir, &text, "yaml")?;
        emit(tr, "file_yaml", &r);
        if layout == "legacy" {
            legacy_yaml = Some(r);
        } else if layout == "map" {
            map_yaml = Some(r);
        }
        if finite {
            let r = load_file(&dir, &text, "json")?;
            emit(tr, "file_json", &r);
        }
    }
    tr.emit(legacy_event(&legacy_yaml.unwrap(), &map_yaml.unwrap()));
    Ok(())
}

// ---------------------------------------------------------------------------------------------
// seeded generator: random valid corridors at 1/8 m resolution + 0..2 generic mutations

fn link(cur: usize) -> Value {
    json!({"cur":cur,"flip":0,"next":0,"nalt":0,"prev":0,"palt":0,"len":0,"elevs":[],"heads":[],"ss":[],"cat":[],"lock":[]})
}

fn sorted_offsets(r: &mut Rng, len: i64, n: usize) -> Vec<i64> {
    // n distinct offsets in 0..=len including both ends
    let mut v = vec![0, len];
    let mut guard = 0;
    while v.len() < n && guard < 100 {
        let x = r.range(1, len - 1);
        if !v.contains(&x) {
            v.push(x);
        }
        guard += 1;
    }
    v.sort();
    v
}

fn geometry(r: &mut Rng, l: &mut Value) {
    let len = r.range(40, 4000) * 8; // 1/8 m
    l["len"] = json!(len);
    let ne = r.range(2, 6) as usize;
    l["elevs"] = json!(sorted_offsets(r, len, ne).iter().map(|o| json!([o, r.range(-400, 4000)])).collect::<Vec<_>>());
    if r.chance(2, 3) {
        let nh = r.range(2, 5) as usize;
        l["heads"] = json!(sorted_offsets(r, len, nh).iter().map(|o| json!([o, r.range(0, 359)])).collect::<Vec<_>>());
    }
    let nl = r.range(1, 4) as usize;
    let mut lims: Vec<(i64, i64, i64)> = (0..nl)
        .map(|_| {
            let a = r.range(0, len);
            let b = r.range(0, len);
            (a.min(b), a.max(b), r.range(2, 40) * 8)
        })
        .collect();
    lims[0] = (0, len, r.range(10, 40) * 8);
    lims.sort();
    lims.dedup_by(|a, b| a.0 == b.0 && a.1 == b.1);
    let npar = r.range(0, 2) as usize;
    let mut pars: Vec<Value> = vec![];
    for k in 0..npar {
        pars.push(json!([k, r.range(0, 4), r.range(0, 200000)]));
    }
    l["ss"] = json!([{"lim": lims.iter().map(|x| json!([x.0, x.1, x.2])).collect::<Vec<_>>(), "par": pars, "head": r.chance(1, 2)}]);
    let nc = r.range(0, 3) as usize;
    if nc > 0 {
        let offs = sorted_offsets(r, len, 2 * nc);
        let mut cat = vec![];
        for k in 0..offs.len() / 2 {
            let s = offs[2 * k];
            let e = if r.chance(1, 4) && 2 * k + 2 < offs.len() { offs[2 * k + 2] } else { offs[2 * k + 1] };
            cat.push(json!([s, e, r.range(0, 8000) * 1000]));
        }
        l["cat"] = json!(cat);
    }
}

fn random_valid(r: &mut Rng, max_elems: i64) -> Vec<Value> {
    // forward chain of main links, interior non-adjacent elements may have a parallel alternate
    let k = r.range(1, max_elems) as usize;
    let mut has_alt = vec![false; k];
    for i in 1..k.saturating_sub(1) {
        if !has_alt[i - 1] && r.chance(1, 2) {
            has_alt[i] = true;
        }
    }
    let with_flips = r.chance(3, 4);
    let mut net = vec![link(0)];
    let mut main = vec![0usize; k];
    let mut alt = vec![0usize; k];
    for i in 0..k {
        main[i] = net.len();
        net.push(link(net.len()));
        if has_alt[i] {
            alt[i] = net.len();
            net.push(link(net.len()));
        }
    }
    for i in 0..k {
        if i + 1 < k {
            net[main[i]]["next"] = json!(main[i + 1]);
            net[main[i]]["nalt"] = json!(alt[i + 1]);
            net[main[i + 1]]["prev"] = json!(main[i]);
            net[main[i + 1]]["palt"] = json!(alt[i]);
            if has_alt[i] {
                net[alt[i]]["next"] = json!(main[i + 1]);
            }
            if has_alt[i + 1] {
                net[alt[i + 1]]["prev"] = json!(main[i]);
            }
        }
    }
    let nf = net.len() - 1;
    for p in 1..=nf {
        let mut l = net[p].clone();
        geometry(r, &mut l);
        net[p] = l;
    }
    if with_flips {
        for p in 1..=nf {
            let f = p + nf;
            let mut l = net[p].clone();
            let m = |x: &Value| if x.as_u64().unwrap() == 0 { json!(0) } else { json!(x.as_u64().unwrap() as usize + nf) };
            l["cur"] = json!(f);
            l["flip"] = json!(p);
            l["next"] = m(&net[p]["prev"]);
            l["nalt"] = m(&net[p]["palt"]);
            l["prev"] = m(&net[p]["next"]);
            l["palt"] = m(&net[p]["nalt"]);
            if r.chance(1, 2) {
                geometry(r, &mut l);
            }
            net.push(l);
        }
        for p in 1..=nf {
            net[p]["flip"] = json!(p + nf);
        }
    }
    // lockouts between parallel links
    let n = net.len();
    for i in 0..k {
        if has_alt[i] && r.chance(2, 3) {
            let mut a = vec![alt[i]];
            let mut b = vec![main[i]];
            if with_flips {
                a.push(alt[i] + nf);
                b.push(main[i] + nf);
            }
            net[main[i]]["lock"] = json!(a);
            net[alt[i]]["lock"] = json!(b);
        }
    }
    if r.chance(1, 6) {
        let p = r.range(1, n as i64 - 1) as usize;
        net[p]["lock"] = json!([r.range(0, n as i64 - 1)]);
    }
    net
}

const IDX_FIELDS: [&str; 6] = ["cur", "flip", "next", "nalt", "prev", "palt"];

fn mutate(r: &mut Rng, net: &mut Vec<Value>) -> String {
    let n = net.len() as i64;
    if n < 2 {
        return "none".into();
    }
    let p = if r.chance(1, 12) { 0 } else { r.range(1, n - 1) as usize };
    let len = net[p]["len"].as_i64().unwrap();
    match r.range(0, 9) {
        0 | 1 => {
            let f = *r.pick(&IDX_FIELDS);
            let (a, b) = (r.range(1, n - 1), r.range(1, n - 1));
            let v = *r.pick(&[0, a, b, n, n + 1, -1]);
            net[p][f] = json!(v);
            format!("idx:{f}")
        }
        2 => {
            let a = r.range(1, n - 1);
            let v = *r.pick(&[0, a, n, n + 1, -1]);
            net[p]["lock"].as_array_mut().unwrap().push(json!(v));
            "lock".into()
        }
        3 | 4 | 5 => {
            // poison / perturb one float
            let choices = [("elevs", 0usize), ("elevs", 1), ("heads", 0), ("heads", 1), ("cat", 0), ("cat", 1), ("cat", 2), ("lim", 0), ("lim", 1), ("lim", 2), ("len", 0), ("par", 2)];
            let (fld, c) = *r.pick(&choices);
            let special = [NAN_S, INF, -INF, -1, 0, len, len + 1, len - 1];
            if fld == "len" {
                net[p]["len"] = json!(*r.pick(&special));
                return "float:len".into();
            }
            let arr = if fld == "lim" || fld == "par" {
                match net[p]["ss"].get_mut(0) {
                    Some(s) => s[fld].as_array_mut().unwrap(),
                    None => return "none".into(),
                }
            } else {
                net[p][fld].as_array_mut().unwrap()
            };
            if arr.is_empty() {
                return "none".into();
            }
            let i = r.range(0, arr.len() as i64 - 1) as usize;
            let old = arr[i][c].as_i64().unwrap();
            let v = if r.chance(1, 2) {
                *r.pick(&special)
            } else {
                *r.pick(&[old + 1, old - 1, old + 8, -old, if i > 0 { arr[i - 1][c].as_i64().unwrap() } else { old }])
            };
            arr[i][c] = json!(v);
            format!("float:{fld}{c}")
        }
        6 | 7 => {
            // structural list edits
            let fld = *r.pick(&["elevs", "heads", "cat", "lim", "lock"]);
            let arr = if fld == "lim" {
                match net[p]["ss"].get_mut(0) {
                    Some(s) => s["lim"].as_array_mut().unwrap(),
                    None => return "none".into(),
                }
            } else {
                net[p][fld].as_array_mut().unwrap()
            };
            if arr.is_empty() {
                return "none".into();
            }
            let i = r.range(0, arr.len() as i64 - 1) as usize;
            match r.range(0, 3) {
                0 => {
                    arr.remove(i);
                }
                1 => {
                    let x = arr[i].clone();
                    arr.insert(i, x);
                }
                2 => {
                    let j = r.range(0, arr.len() as i64 - 1) as usize;
                    arr.swap(i, j);
                }
                _ => arr.clear(),
            }
            format!("list:{fld}")
        }
        8 => {
            net[p]["ss"] = json!([]);
            "ss_absent".into()
        }
        _ => {
            match r.range(0, 2) {
                0 => {
                    net.remove(0);
                }
                1 => {
                    net.truncate(1);
                }
                _ => {
                    net.pop();
                }
            }
            "whole".into()
        }
    }
}

fn gen(seed: u64, n: usize, tier: &str) -> Vec<Value> {
    let mut out = vec![];
    let max_elems = if tier == "quick" { 6 } else { 12 };
    for k in 0..n {
        let mut r = Rng::new(seed.wrapping_mul(1_000_033).wrapping_add(k as u64));
        let mut net = random_valid(&mut r, max_elems);
        let nm = *r.pick(&[0usize, 1, 1, 1, 2, 2]);
        let mut faults = vec![];
        for _ in 0..nm {
            faults.push(json!(mutate(&mut r, &mut net)));
        }
        out.push(json!({"src":"gen","seed":seed,"k":k,"base":"random","faults":faults,
                        "oscale":8,"escale":8,"vscale":8,"net":net}));
    }
    if n > 0 {
        out.push(json!({"src":"gen","kind":"shipped_legacy","old":"networks/Taconite_v0.1.6.yaml","new":"networks/Taconite.yaml"}));
    }
    out
}

fn main() {
    main_with(gen, exec);
}
