//! SpeedProfile harness (C02, C13): materialises a restriction layout as a real `Network` + train,
//! builds the enforced profile through every public construction path and logs `speed_points()`.
//!
//! Case descriptor (emitted by SpeedProfile.tla or by `gen`):
//! {"oscale":..,"vscale":..,"train":{"n":cars,"car_len":..,"car_mass":kg,"axles":per car,"vmax":..,
//!   "more":[{"n","car_len","car_mass","axles","vmax","brakes"}..],"len_ov":..,"mass_ov":..},
//!  "links":[{"len":..,"head":bool,"params":[[ltype,ctype,val]..],"rs":[[s,e,v]..]},..]}
//! The route is links 1..n in order (each link's prev is the one before it).
use altrios_core::prelude::*;
use altrios_core::traits::*;
use altrios_core::uc;
use avh::common::*;
use avh::netgen;
use serde_json::{json, Value};
use std::collections::HashMap;

fn pts_json(pts: &[Value], os: f64, vs: f64) -> (Value, bool) {
    let mut q = Q::new();
    let v: Vec<Value> = pts
        .iter()
        .map(|p| {
            json!([
                q.q(p["offset"].as_f64().unwrap_or(f64::NAN), os),
                q.q(p["speed_limit"].as_f64().unwrap_or(f64::NAN), vs)
            ])
        })
        .collect();
    (Value::Array(v), q.exact && !q.overflow)
}

fn speed_points_of<T: serde::Serialize>(obj: &T, path: &[&str]) -> Vec<Value> {
    let mut v = serde_json::to_value(obj).unwrap();
    for k in path {
        v = v[*k].take();
    }
    v.as_array().cloned().unwrap_or_default()
}

fn exec(desc: &Value, tr: &mut Tracer) -> anyhow::Result<()> {
    let os = netgen::scale(desc, "oscale");
    let vs = netgen::scale(desc, "vscale");
    // chain the links into a route
    let mut d = desc.clone();
    let n = d["links"].as_array().unwrap().len();
    for (k, l) in d["links"].as_array_mut().unwrap().iter_mut().enumerate() {
        let o = l.as_object_mut().unwrap();
        o.insert("prev".into(), json!(k));
        o.insert("next".into(), json!(if k + 1 < n { k + 2 } else { 0 }));
    }
    let net_json = netgen::network_json(&d);
    let network = match Network::from_json(net_json.to_string()) {
        Ok(n) => n,
        Err(e) => {
            tr.emit(json!({"ev":"NetRejected","msg":errtxt(&e)}));
            return Ok(());
        }
    };
    let t = &desc["train"];
    // the train's make-up: its first car type "X" and the further types of "more" (a type may be listed with 0 cars),
    // optional explicit train length / towed mass ("len_ov" / "mass_ov", 0 = none)
    let car = |name: &str, c: &Value, brakes: i64| {
        let mut rv = RailVehicle::default();
        rv.car_type = name.into();
        rv.length = uc::M * (gf(c, "car_len") / os);
        rv.axle_count = gi(c, "axles") as u8;
        rv.brake_count = brakes as u8;
        rv.mass_static_base = uc::KG * gf(c, "car_mass");
        rv.mass_freight = uc::KG * 0.0;
        rv.mass_rot_per_axle = uc::KG * 0.0;
        rv.speed_max = uc::MPS * (gf(c, "vmax") / vs);
        rv
    };
    let mut rvs = vec![car("X", t, 1)];
    let mut counts = HashMap::from([("X".to_string(), gi(t, "n") as u32)]);
    if let Some(more) = t.get("more").and_then(|m| m.as_array()) {
        for (k, c) in more.iter().enumerate() {
            let name = format!("Y{k}");
            rvs.push(car(&name, c, gi(c, "brakes")));
            counts.insert(name, gi(c, "n") as u32);
        }
    }
    let ov = |key: &str| t.get(key).and_then(|x| x.as_f64()).filter(|x| *x > 0.0);
    let tc = TrainConfig::new(
        rvs,
        counts,
        TrainType::Freight,
        ov("len_ov").map(|x| uc::M * (x / os)),
        ov("mass_ov").map(|x| uc::KG * x),
        None,
    )?;
    let tp = tc.make_train_params()?;
    let route: Vec<LinkIdx> = (1..=n as u32).map(LinkIdx::new).collect();

    // path 1: one call
    {
        let mut p = PathTpc::new(tp);
        let r = p.extend(&network, &route);
        let (pts, exact) = pts_json(&speed_points_of(&p, &["speed_points"]), os, vs);
        tr.emit(json!({"ev":"Profile","via":"whole","ok":r.is_ok(),"pts":pts,"exact":exact}));
    }
    // path 2: link by link
    {
        let mut p = PathTpc::new(tp);
        let mut ok = true;
        for l in &route {
            ok &= p.extend(&network, [*l]).is_ok();
        }
        let (pts, exact) = pts_json(&speed_points_of(&p, &["speed_points"]), os, vs);
        tr.emit(json!({"ev":"Profile","via":"bylink","ok":ok,"pts":pts,"exact":exact}));
    }
    // path 2b: split in two at every position (only the middle one is logged per split)
    if n >= 3 {
        let mut p = PathTpc::new(tp);
        let ok = p.extend(&network, &route[..1]).is_ok() && p.extend(&network, &route[1..]).is_ok();
        let (pts, exact) = pts_json(&speed_points_of(&p, &["speed_points"]), os, vs);
        tr.emit(json!({"ev":"Profile","via":"split1","ok":ok,"pts":pts,"exact":exact}));
    }
    // path 2c: the per-train-type layout (Link.speed_sets): the train's own type carries the restrictions, the other
    // types carry decoys (shifted / tighter restrictions, opposite head/tail flag) that must not influence the profile;
    // (PathTpc::recalc_speeds is not exercised: it has no caller and walks the trailing dummy link point, so it
    // errs on every per-type network — an observation outside the property's anchors)
    {
        let mut nj = net_json.clone();
        for (k, l) in nj.as_array_mut().unwrap().iter_mut().enumerate().skip(1) {
            let own = l["speed_set"].clone();
            let mut decoy = own.clone();
            if let Some(ls) = decoy["speed_limits"].as_array_mut() {
                for x in ls.iter_mut() {
                    x["speed"] = json!(x["speed"].as_f64().unwrap() * 0.5);
                }
            }
            decoy["is_head_end"] = json!(!own["is_head_end"].as_bool().unwrap_or(false));
            decoy["speed_params"] = json!([]);
            let mut m = serde_json::Map::new();
            m.insert("Freight".into(), own);
            m.insert(if k % 2 == 0 { "Passenger" } else { "Intermodal" }.into(), decoy.clone());
            m.insert("Commuter".into(), decoy);
            l["speed_sets"] = Value::Object(m);
            l["speed_set"] = Value::Null;
        }
        match Network::from_json(nj.to_string()) {
            Ok(net2) => {
                let mut p = PathTpc::new(tp);
                let r = p.extend(&net2, &route);
                let (pts, exact) = pts_json(&speed_points_of(&p, &["speed_points"]), os, vs);
                tr.emit(json!({"ev":"Profile","via":"bytype","ok":r.is_ok(),"pts":pts,"exact":exact}));
                // path 2d: the library's own selection of the train type's sets
                // (Network::set_speed_set_for_train_type), then the single-set layout again
                let mut net3 = net2.clone();
                match net3.set_speed_set_for_train_type(TrainType::Freight) {
                    Ok(()) => {
                        let mut p = PathTpc::new(tp);
                        let r = p.extend(&net3, &route);
                        let (pts, exact) = pts_json(&speed_points_of(&p, &["speed_points"]), os, vs);
                        tr.emit(json!({"ev":"Profile","via":"typeselected","ok":r.is_ok(),"pts":pts,"exact":exact}));
                    }
                    Err(e) => tr.emit(json!({"ev":"Profile","via":"typeselected","ok":false,"pts":[],"exact":true,"msg":errtxt(&e)})),
                }
            }
            Err(e) => tr.emit(json!({"ev":"Profile","via":"bytype","ok":false,"pts":[],"exact":true,"msg":errtxt(&e)})),
        }
    }
    // path 3: set-speed train sim builder
    {
        let tsb = TrainSimBuilder::new("t".into(), tc.clone(), Consist::default(), None, None, None);
        let st = SpeedTrace::new(vec![0.0, 1.0], vec![0.0, 0.0], None);
        match tsb.make_set_speed_train_sim(&network, &route, st, None) {
            Ok(sim) => {
                let (pts, exact) =
                    pts_json(&speed_points_of(&sim, &["path_tpc", "speed_points"]), os, vs);
                tr.emit(json!({"ev":"Profile","via":"setspeed","ok":true,"pts":pts,"exact":exact}));
            }
            Err(e) => tr.emit(json!({"ev":"Profile","via":"setspeed","ok":false,"pts":[],"exact":true,"msg":errtxt(&e)})),
        }
    }
    // path 4: speed-limit train sim, extend_path (also recalculates braking points; an Err from
    // that part is not this property's business, the profile is logged either way)
    if desc.get("slts").and_then(|x| x.as_bool()).unwrap_or(true) {
        let loc = |l: u32| altrios_core::track::Location {
            location_id: format!("L{l}"),
            offset: uc::M * 0.0,
            link_idx: LinkIdx::new(l),
            is_front_end: false,
            grid_emissions_region: "x".into(),
            electricity_price_region: "x".into(),
            liquid_fuel_price_region: "x".into(),
        };
        let lm: altrios_core::track::LocationMap = HashMap::from([
            ("A".to_string(), vec![loc(1)]),
            ("B".to_string(), vec![loc(n as u32)]),
        ]);
        let tsb = TrainSimBuilder::new(
            "t".into(),
            tc.clone(),
            Consist::default(),
            Some("A".into()),
            Some("B".into()),
            None,
        );
        match tsb.make_speed_limit_train_sim(&lm, None, None, None) {
            Ok(mut sim) => {
                let half = (n + 1) / 2;
                let r1 = sim.extend_path(network.as_ref(), &route[..half]);
                let r2 = if half < n {
                    sim.extend_path(network.as_ref(), &route[half..])
                } else {
                    Ok(())
                };
                let (pts, exact) =
                    pts_json(&speed_points_of(&sim.path_tpc, &["speed_points"]), os, vs);
                tr.emit(json!({"ev":"Profile","via":"slts","ok":true,"pts":pts,"exact":exact,
                               "bp_ok": r1.is_ok() && r2.is_ok()}));
            }
            Err(e) => tr.emit(json!({"ev":"Profile","via":"slts","ok":false,"pts":[],"exact":true,"msg":errtxt(&e)})),
        }
    }
    Ok(())
}

/// Random metre-scale layouts: 1..8 links, up to 6 restrictions per link, nested / abutting /
/// duplicate-bound / zero-length shapes favoured, head/tail sets, gated sets.
fn gen(seed: u64, n: usize, tier: &str) -> Vec<Value> {
    let mut out = vec![];
    let maxlinks = if tier == "quick" { 5 } else { 8 };
    for k in 0..n {
        let mut r = Rng::new(seed.wrapping_mul(1_000_003).wrapping_add(k as u64));
        let nl = r.range(1, maxlinks);
        let ncars = r.range(1, 40);
        let car_len = *r.pick(&[128i64, 160, 200]); // in 1/8 m
        let car_mass = *r.pick(&[30000i64, 60000, 120000]);
        let axles = *r.pick(&[4i64, 6]);
        let vmax = *r.pick(&[120i64, 160, 200, 240]); // 1/8 m/s
        let mut links = vec![];
        for _ in 0..nl {
            let len = r.range(20, 400) * 80; // 1/8 m: 200 m .. 4 km
            let nr = r.range(1, 6);
            // candidate breakpoints: a small pool so bounds coincide often
            let pool: Vec<i64> = (0..r.range(2, 5))
                .map(|_| r.range(0, len / 80) * 80)
                .chain([0, len])
                .collect();
            let mut rs: Vec<(i64, i64, i64)> = vec![];
            for _ in 0..nr {
                let a = *r.pick(&pool);
                let b = *r.pick(&pool);
                let (s, e) = if a <= b { (a, b) } else { (b, a) };
                // 1/8 m/s: 2..34 m/s, some above vmax; one in eight written with a negative value (sign-encoded)
                let v = r.range(2, 34) * 8 * if r.chance(1, 8) { -1 } else { 1 };
                rs.push((s, e, v));
            }
            rs.sort();
            rs.dedup_by(|a, b| a.0 == b.0 && a.1 == b.1);
            // a third of the sets are gated, by one to three conditions (all must hold)
            let params: Vec<Value> = if r.chance(1, 3) {
                (0..*r.pick(&[1usize, 1, 2, 3]))
                    .map(|_| {
                        let lt = r.range(0, 2);
                        let ct = r.range(0, 4);
                        let val = match lt {
                            0 => ncars * car_mass + r.range(-1, 1) * car_mass,
                            1 => car_mass + r.range(-1, 1) * 1000,
                            _ => (ncars * axles + r.range(-1, 1)).max(0),
                        };
                        json!([lt, ct, val.max(0)])
                    })
                    .collect()
            } else {
                vec![]
            };
            links.push(json!({"len":len,"head":r.chance(1,2),"params":params,
                "rs": rs.iter().map(|x| json!([x.0,x.1,x.2])).collect::<Vec<_>>() }));
        }
        // a third of the trains are mixed: one or two further car types (other length / maximum speed / brakes per car,
        // one in four listed with 0 cars), now and then an explicit train length or towed mass
        let mut more = vec![];
        if r.chance(1, 3) {
            for _ in 0..r.range(1, 2) {
                more.push(json!({"n": if r.chance(1, 4) { 0 } else { r.range(1, 20) },
                    "car_len": *r.pick(&[96i64, 128, 160, 240]), "car_mass": *r.pick(&[20000i64, 60000, 90000]),
                    "axles": *r.pick(&[4i64, 6]), "vmax": *r.pick(&[96i64, 120, 160, 200, 240, 280]), "brakes": r.range(1, 2)}));
            }
        }
        let len_ov = if r.chance(1, 10) { r.range(10, 600) * 8 } else { 0 };
        let mass_ov = if r.chance(1, 10) { r.range(1, 40) * 100000 } else { 0 };
        out.push(json!({"src":"gen","seed":seed,"k":k,"oscale":8,"vscale":8,
            "train":{"n":ncars,"car_len":car_len,"car_mass":car_mass,"axles":axles,"vmax":vmax,
                     "more":more,"len_ov":len_ov,"mass_ov":mass_ov},
            "links":links}));
    }
    out
}

fn main() {
    main_with(gen, exec);
}
