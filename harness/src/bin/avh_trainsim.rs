//! TrainSim harness (C12 kinematics / link location, C14 set-speed power, C07 resistance forces,
//! C11 cross-level ledger + trip getters): materialises a case as a real `Network`, `TrainConfig`,
//! `Consist` and `SetSpeedTrainSim` / `SpeedLimitTrainSim`, drives `step()` under a step cap and logs
//! the saved `TrainState` / `ConsistState` / per-locomotive totals after every step as integers.
//! The harness never judges: every relation is evaluated by TLC (specs/TrainSimTrace.tla).
//!
//! Case kinds (field "kind" of the descriptor):
//!  "locate"  TLC-emitted (TrainSim.tla, section Kinematics/Level B): {"lens":[1..3 ..] (x16 m),
//!            "pos":[..] (x8 m)} -> one-car set-speed run at 8 m/s whose front visits exactly `pos`
//!  "strap"   TLC-emitted (section Resistance/Level B): {"segs":[[dlen,de]..],"tl":..,"moves":[[dir,x2]..]}
//!            -> drives the real `path_res::Strap` (cached indices) directly
//!  "ss"      toy-scale dyadic set-speed run (seeded generator), all integers:
//!            links[{len m, elevs[[o m,e/64 m]], hd[[o m, h/256 rad]]}], cars[{n,len,mass,freight,axles,rot,
//!            bearing/4 N,rolling/1024,davis_b/4096 s/m,cda/16 m2}], train_mass?, c0, consist{units,pdct},
//!            t[] (1/4 s), v[] (1/2 m/s); optional res:"point" (TrainRes::Point instead of the builder's Strap); optional x0 [m] (front starts mid-route), tinit:"default" (initial clock 0 s
//!            instead of t[0]), vinit:"default" (initial speed 0 instead of v[0]: rolling start), days; consist units of kind conv | bel (avh::build toy units) | hybrid (shipped default)
//!            consist.units0 / consist.ctor ("new": Consist::new, then set_loco_vec with `units`) / consist.nolimits
//!            (set_assert_limits(false)); "hot" generated runs: unit ratings of 2-8 kW under 1 m/s2 demands
//!  "sl"      realistic-scale speed-limited run on a generated single line (tolerance mode); optional x0_extra [m]
//!            (mid-route start), t0 [s] (departure time of the initial state), dt4 (step size in 1/4 s: 2, 4, 8)
//!  "relist"  TLC-emitted (section Ledger / make-up): {"u0":[0 diesel | 1 battery ..],"u":[..],"d":1|2} -> set-speed run under
//!            a consist made by Consist::new(u0) and re-listed through set_loco_vec(u)
//!  "vec"     {"sims":[1..3 "ss" descriptors]}: each run recorded as usual, the finished ones read as one
//!            SpeedLimitTrainSimVec (event GetVec: per-simulation and vec-level outputs, plain / annualized)
//!
//! Projection (abstraction function) of the toy-scale records — divisions by constants / logged fields only:
//!  wg  = weight_static / g                      [kg]          rr  = res_rolling / weight * towed_mass   [x1024]
//!  db  = res_davis_b / weight * towed_mass      [x8192]       be  = res_bearing                          [x4]
//!  ae  = res_aero / rho_air                     [x64]         rgl = res_grade / weight * length          [x2^18]
//!  rcl = res_curve / weight * length            [x2^18]       pan = pwr_accel / (mass_static+mass_rot)   [x32]
//!  F[] = the six forces [x128], powers [x8], energies [x4], rate [x8], t [x4], v [x2], offsets [x16]
//!  ls  = sums over the locomotives (pwr_out, energy_out, fc.energy_fuel, res.energy_out_chemical, dyn = drivetrain ratings)
//! Realistic-scale ("sl") records: t [x4], v [x1024], offsets [x256], consist powers [x16], energies [/64],
//! forces / pwr_accel / pwr_res [x1]; getters as <<get(false), get(true), total>> at one common scale.
//! `StepErr.why` = "neg" when the refusal is the negative-speed guard of SetSpeedTrainSim::solve_step.
use altrios_core::lin_search_hint::Dir;
use altrios_core::prelude::*;
use altrios_core::track::PathResCoeff;
use altrios_core::traits::*;
use altrios_core::uc;
use avh::common::*;
use avh::{build, netgen};
use serde_json::{json, Value};
use std::collections::HashMap;

const ST: f64 = 4.0;
const SV: f64 = 2.0;
const SO: f64 = 16.0;
const S18: f64 = 262144.0;
const S14: f64 = 16384.0;
const SF: f64 = 128.0;
const SP: f64 = 8.0;
const SE: f64 = 4.0;
const STEP_CAP: usize = 6000;

fn iv(v: &Value, k: &str, d: i64) -> i64 {
    v.get(k).and_then(|x| x.as_i64()).unwrap_or(d)
}

// ---------------------------------------------------------------------------------------------
// network from the integer descriptor (netgen for topology / speed sets; headings patched in as
// dyadic radians so that the curve coefficients stay on the lattice)

fn make_network(links: &[Value], vmax: f64) -> anyhow::Result<(Network, Vec<LinkIdx>)> {
    let n = links.len();
    let mut nl = vec![];
    for (k, l) in links.iter().enumerate() {
        let len = gi(l, "len");
        let mut o = json!({"len": len, "prev": k, "next": if k + 1 < n { k + 2 } else { 0 },
                           "rs": [[0, len, vmax]]});
        if let Some(e) = l.get("elevs") {
            o["elevs"] = e.clone();
        }
        nl.push(o);
    }
    let d = json!({"oscale":1,"vscale":1,"escale":64,"links":nl});
    let mut nj = netgen::network_json(&d);
    for (k, l) in links.iter().enumerate() {
        if let Some(hd) = l.get("hd").and_then(|x| x.as_array()) {
            let hs: Vec<Value> = hd
                .iter()
                .map(|h| json!({"offset": h[0].as_f64().unwrap(), "heading": h[1].as_f64().unwrap() / 256.0}))
                .collect();
            nj[k + 1]["headings"] = Value::Array(hs);
        }
    }
    let net = Network::from_json(nj.to_string())?;
    let route: Vec<LinkIdx> = (1..=n as u32).map(LinkIdx::new).collect();
    Ok((net, route))
}

fn car_rv(c: &Value, name: &str, c0: f64, vmax: f64) -> RailVehicle {
    let p = json!({
        "car_len": iv(c, "len", 16), "axles": iv(c, "axles", 4), "brakes": 1,
        "car_mass": iv(c, "mass", 1024), "freight": iv(c, "freight", 0), "vmax": vmax,
        "mass_rot": iv(c, "rot", 0),
        "bearing": iv(c, "bearing", 0) as f64 / 4.0,
        "rolling": iv(c, "rolling", 0) as f64 / 1024.0,
        "davis_b": iv(c, "davis_b", 0) as f64 / 4096.0,
        "cd_area": iv(c, "cda", 0) as f64 / 16.0,
        "c0": c0, "c1": 0.0, "c2": 0.0,
    });
    build::rail_vehicle(&p, name)
}

/// The shipped default hybrid locomotive (MW scale: HybridLoco hard-codes a 50 kW generator aux load, so it cannot be
/// scaled down) with its top-level mass set to an integer so that the train stays toy scale.
fn hybrid_loco(p: &Value) -> anyhow::Result<Locomotive> {
    let mut patches = vec![
        ("mass", json!(iv(p, "mass", 1024) as f64)), ("ballast_mass", Value::Null), ("baseline_mass", Value::Null),
        ("mu", Value::Null), ("force_max", json!(1.0e6)),
    ];
    // "rres" [W]: a small battery rating, so that toy-scale braking exceeds the regeneration capability and the rest
    // goes to the hybrid's dynamic brake (engine, generator and drivetrain stay MW scale); its aux load is then set
    // by "aux" [W] (0: the hybrid publishes charge_max + aux as regeneration but charges with aux 0, which a small
    // battery asked for its full capability would refuse)
    if let Some(r) = p.get("rres").and_then(|x| x.as_f64()) {
        patches.push(("loco_type.HybridLoco.res.pwr_out_max_watts", json!(r)));
        patches.push(("pwr_aux_offset", json!(iv(p, "aux", 0) as f64)));
        patches.push(("pwr_aux_traction_coeff", json!(0.0)));
    }
    let mut l = build::patched(&Locomotive::default_hybrid_electric_loco(), &patches)?;
    // mid-window state of charge: the default sits at the top of the window where the hybrid refuses any regeneration
    if let altrios_core::consist::locomotive::PowertrainType::HybridLoco(h) = &mut l.loco_type {
        h.res.state.soc = uc::R * (iv(p, "soc_pct", 50) as f64 / 100.0);
    }
    l.set_save_interval(None);
    l.init()?;
    Ok(l)
}

fn toy_locos(units: &[Value]) -> anyhow::Result<Vec<Locomotive>> {
    units
        .iter()
        .map(|u| if u.get("kind").and_then(|x| x.as_str()) == Some("hybrid") { hybrid_loco(u) } else { build::loco(u) })
        .collect()
}

/// "units0" (optional): the consist is first constructed from that list and its locomotives are then replaced
/// through the public setter `set_loco_vec` (grown, shrunk, another make-up) before it is handed to the builder.
/// "ctor":"new": that first construction goes through the public constructor `Consist::new` (which fills the
/// consist's cached count of battery-equipped units) instead of deserialisation (cache empty).
/// "nolimits":true: `set_assert_limits(false)` (a demand beyond the published limits does not abort the run).
fn toy_consist(c: &Value) -> anyhow::Result<Consist> {
    let locos = toy_locos(ga(c, "units"))?;
    let mut con = match c.get("units0").and_then(|x| x.as_array()) {
        Some(u0) => {
            let mut con = if c.get("ctor").and_then(|x| x.as_str()) == Some("new") {
                let pdct: altrios_core::consist::PowerDistributionControlType =
                    serde_json::from_value(json!({ gs(c, "pdct"): null }))?;
                let mut con = Consist::new(toy_locos(u0)?, Some(1), pdct);
                con.init()?;
                con
            } else {
                build::consist_of(toy_locos(u0)?, gs(c, "pdct"), Some(1))?
            };
            con.set_loco_vec(locos);
            con.set_save_interval(Some(1));
            con
        }
        None => build::consist_of(locos, gs(c, "pdct"), Some(1))?,
    };
    if c.get("nolimits").and_then(|x| x.as_bool()) == Some(true) {
        con.set_assert_limits(false);
    }
    Ok(con)
}

/// mass [kg] a unit descriptor gives its locomotive: "parts" (baseline + ballast + the components its kind has) or "mass"
fn unit_mass(u: &Value) -> Value {
    match u.get("parts").filter(|x| x.is_object()) {
        Some(p) => {
            let g = |k: &str| p.get(k).and_then(|x| x.as_i64()).unwrap_or(0);
            let comps = if u.get("kind").and_then(|x| x.as_str()) == Some("bel") { g("res") } else { g("fc") + g("gen") };
            json!(g("base") + g("ball") + comps)
        }
        None => json!(u.get("mass").and_then(|x| x.as_i64()).unwrap_or(1024)),
    }
}

/// number of battery-equipped units of a descriptor's unit list
fn nres_of(units: &[Value]) -> usize {
    units.iter().filter(|u| matches!(u.get("kind").and_then(|x| x.as_str()), Some("bel") | Some("hybrid"))).count()
}

/// make-up of a consist as the kinds of its locomotives (read from the locomotives' own type tags)
fn kinds_of(c: &Consist) -> Value {
    Value::Array(c.loco_vec.iter().map(|l| {
        let v = serde_json::to_value(&l.loco_type).unwrap_or(Value::Null);
        let k = v.as_object().and_then(|o| o.keys().next().cloned()).unwrap_or_default();
        json!(match k.as_str() { "ConventionalLoco" => "conv", "BatteryElectricLoco" => "bel", "HybridLoco" => "hybrid", _ => "other" })
    }).collect())
}

fn train_config(desc: &Value, vmax: f64) -> anyhow::Result<TrainConfig> {
    let c0 = iv(desc, "c0", 0) as f64;
    let cars = ga(desc, "cars");
    let mut rvs = vec![];
    let mut n = HashMap::new();
    for (k, c) in cars.iter().enumerate() {
        let name = format!("T{k}");
        rvs.push(car_rv(c, &name, c0, vmax));
        n.insert(name, gi(c, "n") as u32);
    }
    let tm = desc.get("train_mass").and_then(|x| x.as_f64()).map(|x| uc::KG * x);
    TrainConfig::new(rvs, n, TrainType::Freight, None, tm, None)
}

// ---------------------------------------------------------------------------------------------
// projections

struct LocoSum {
    dynb: f64,
    out: f64,
    e: f64,
    ef: f64,
    er: f64,
}
fn loco_sum(c: &Consist) -> LocoSum {
    let mut s = LocoSum { dynb: 0.0, out: 0.0, e: 0.0, ef: 0.0, er: 0.0 };
    for l in &c.loco_vec {
        s.out += l.state.pwr_out.value;
        if let Some(e) = l.electric_drivetrain() {
            s.dynb += e.pwr_out_max.value;
        }
        s.e += l.state.energy_out.value;
        if let Some(fc) = l.fuel_converter() {
            s.ef += fc.state.energy_fuel.value;
        }
        if let Some(r) = l.reversible_energy_storage() {
            s.er += r.state.energy_out_chemical.value;
        }
    }
    s
}

/// consist + locomotive-sum part of a step record (powers x sp, energies x se, rate x sp)
fn ledger_json(q: &mut Q, c: &Consist, sp: f64, se: f64) -> (Value, Value) {
    let s = &c.state;
    let ls = loco_sum(c);
    let cj = json!({
        "max": q.q(s.pwr_out_max.value, sp), "rate": q.q(s.pwr_rate_out_max.value, sp),
        "dyn": q.q(s.pwr_dyn_brake_max.value, sp), "out": q.q(s.pwr_out.value, sp),
        "e": q.q(s.energy_out.value, se), "ep": q.q(s.energy_out_pos.value, se),
        "en": q.q(s.energy_out_neg.value, se), "ef": q.q(s.energy_fuel.value, se),
        "er": q.q(s.energy_res.value, se),
        "gef": q.q(c.get_energy_fuel().value, se), "ger": q.q(c.get_net_energy_res().value, se),
    });
    let lj = json!({"dyn": q.q(ls.dynb, sp), "out": q.q(ls.out, sp), "e": q.q(ls.e, se), "ef": q.q(ls.ef, se), "er": q.q(ls.er, se)});
    (cj, lj)
}

fn ss_step_json(k: usize, s: &TrainState, c: &Consist, towed: f64) -> Value {
    let mut q = Q::new();
    let w = s.weight_static.value;
    let len = s.length.value;
    let mc = s.mass_static.value + s.mass_rot.value;
    let nz = |x: f64| if w != 0.0 { x } else { 0.0 };
    let (cj, lj) = ledger_json(&mut q, c, SP, SE);
    let mut r = json!({
        "ev":"Step","k":k,
        "t": q.q(s.time.value, ST), "dt": q.q(s.dt.value, ST),
        "x": q.q(s.offset.value, SO), "xb": q.q(s.offset_back.value, SO),
        "dist": q.q(s.total_dist.value, SO), "link": s.link_idx_front,
        "xin": q.q(s.offset_in_link.value, SO), "v": q.q(s.speed.value, SV),
        "vlim": q.q(s.speed_limit.value, SV), "vtgt": q.q(s.speed_target.value, SV),
        "ms": q.q(s.mass_static.value, 1.0), "mr": q.q(s.mass_rot.value, 1.0), "mc": q.q(mc, 1.0),
        "wg": q.q(w / uc::ACC_GRAV.value, 1.0),
        "rr": q.q(nz(s.res_rolling.value / w * towed), 1024.0),
        "db": q.q(nz(s.res_davis_b.value / w * towed), 8192.0),
        "be": q.q(s.res_bearing.value, 4.0),
        "ae": q.q(s.res_aero.value / uc::rho_air().value, 64.0),
        "rgl": q.q(nz(s.res_grade.value / w * len), S18),
        "rcl": q.q(nz(s.res_curve.value / w * len), S18),
        "elev": q.q(s.elev_front.value, S18),
        "gf": q.q(s.grade_front.value, S14), "gb": q.q(s.grade_back.value, S14),
        "F": [q.q(s.res_rolling.value, SF), q.q(s.res_bearing.value, SF), q.q(s.res_davis_b.value, SF),
              q.q(s.res_aero.value, SF), q.q(s.res_grade.value, SF), q.q(s.res_curve.value, SF)],
        "pan": q.q(s.pwr_accel.value / mc, 32.0),
        "pa": q.q(s.pwr_accel.value, SP), "pr": q.q(s.pwr_res.value, SP), "pw": q.q(s.pwr_whl_out.value, SP),
        "e": q.q(s.energy_whl_out.value, SE), "ep": q.q(s.energy_whl_out_pos.value, SE),
        "en": q.q(s.energy_whl_out_neg.value, SE),
        "c": cj, "ls": lj,
    });
    r["ovf"] = json!(q.overflow);
    r
}

fn curves_of(simv: &Value, so: f64) -> Value {
    let mut q = Q::new();
    let v: Vec<Value> = simv["path_tpc"]["curves"]
        .as_array()
        .map(|a| {
            a.iter()
                .map(|p| json!([q.q(p["offset"].as_f64().unwrap_or(f64::NAN), so),
                                q.q(p["res_net"].as_f64().unwrap_or(f64::NAN), S18)]))
                .collect()
        })
        .unwrap_or_default();
    Value::Array(v)
}

// ---------------------------------------------------------------------------------------------
// set-speed runs

/// Returns the finished run as the SpeedLimitTrainSim its trip getters were read through (None: rejected / refused).
fn run_ss(desc: &Value, tr: &mut Tracer) -> anyhow::Result<Option<SpeedLimitTrainSim>> {
    let vmax = 64.0;
    let links = ga(desc, "links");
    let (net, route) = match make_network(links, vmax) {
        Ok(x) => x,
        Err(e) => {
            tr.emit(json!({"ev":"Rejected","what":"network","msg":errtxt(&e)}));
            return Ok(None);
        }
    };
    let tc = train_config(desc, vmax)?;
    let con = toy_consist(&desc["consist"])?;
    let con_mass = con.mass()?.map(|m| m.value).unwrap_or(0.0);
    let tq: Vec<i64> = ga(desc, "t").iter().map(|x| x.as_i64().unwrap()).collect();
    let vq: Vec<i64> = ga(desc, "v").iter().map(|x| x.as_i64().unwrap()).collect();
    let st = SpeedTrace::new(
        tq.iter().map(|x| *x as f64 / ST).collect(),
        vq.iter().map(|x| *x as f64 / SV).collect(),
        None,
    );
    // the initial state agrees with the first trace point in speed, and in time unless "tinit":"default" asks for
    // the default clock (0 s) under a trace whose clock starts elsewhere; "x0" [m] places the front mid-route
    // "vinit":"default": rolling start, the train state keeps the default speed 0 under a trace that starts at v[0] != 0
    let v0sync = desc.get("vinit").and_then(|x| x.as_str()) != Some("default");
    let t0sync = desc.get("tinit").and_then(|x| x.as_str()) != Some("default");
    let init = InitTrainState::new(
        if t0sync { Some(uc::S * (tq[0] as f64 / ST)) } else { None },
        desc.get("x0").and_then(|x| x.as_f64()).map(|x| uc::M * x),
        if v0sync { Some(uc::MPS * (vq[0] as f64 / SV)) } else { None },
    );
    let tsb = TrainSimBuilder::new("t".into(), tc.clone(), con, None, None, Some(init));
    let (mut sim, _tp, parts_path, parts_res, parts_brake) = match tsb.make_set_speed_train_sim_and_parts(&net, &route, st, Some(1)) {
        Ok(s) => s,
        Err(e) => {
            tr.emit(json!({"ev":"Rejected","what":"builder","msg":errtxt(&e)}));
            return Ok(None);
        }
    };
    // "res":"point": the same run under the other resistance method of the public API (TrainRes::Point: grade and curve
    // taken at the train's mid-point), assembled through SetSpeedTrainSim::new from the builder's parts; the Point
    // value is made from the builder's own bearing / rolling / Davis-B / aerodynamic parts and fresh path_res::Point caches
    let point = desc.get("res").and_then(|x| x.as_str()) == Some("point");
    if point {
        let trv = serde_json::to_value(&sim.train_res)?;
        let st = &trv["Strap"];
        let pr = serde_json::to_value(altrios_core::train::kind::path_res::Point::new(parts_path.grades(), &sim.state)?)?;
        let pc = serde_json::to_value(altrios_core::train::kind::path_res::Point::new(parts_path.curves(), &sim.state)?)?;
        let tp: TrainRes = serde_json::from_value(json!({"Point": {"bearing": st["bearing"], "rolling": st["rolling"],
            "davis_b": st["davis_b"], "aerodynamic": st["aerodynamic"], "grade": pr, "curve": pc}}))?;
        sim = SetSpeedTrainSim::new(sim.loco_con.clone(), sim.state, sim.speed_trace.clone(), tp, parts_path.clone(), Some(1));
    }
    let simv = serde_json::to_value(&sim)?;
    let towed = simv["path_tpc"]["train_params"]["towed_mass_static"].as_f64().unwrap_or(f64::NAN);
    // header: everything the spec needs to recompute E, Slopes, the aggregated coefficients and the trace
    let cars: Vec<Value> = ga(desc, "cars")
        .iter()
        .map(|c| json!([gi(c, "n"), iv(c, "mass", 1024) + iv(c, "freight", 0), iv(c, "axles", 4), iv(c, "rot", 0),
                        iv(c, "bearing", 0), iv(c, "rolling", 0), iv(c, "davis_b", 0), iv(c, "cda", 0), iv(c, "len", 16)]))
        .collect();
    let hl: Vec<Value> = links
        .iter()
        .enumerate()
        .map(|(k, l)| {
            let len = gi(l, "len");
            let el: Vec<Value> = match l.get("elevs").and_then(|x| x.as_array()) {
                Some(a) => a.iter().map(|p| json!([p[0].as_i64().unwrap() * SO as i64, p[1]])).collect(),
                None => vec![json!([0, 0]), json!([len * SO as i64, 0])],
            };
            json!({"idx": k + 1, "len": len * SO as i64, "el": el})
        })
        .collect();
    let mut q = Q::new();
    tr.emit(json!({
        "ev":"Hdr","mode":"ss","st":ST as i64,"sv":SV as i64,"so":SO as i64,
        "links":hl,"curves":curves_of(&simv, SO),"cars":cars,
        "override": desc.get("train_mass").and_then(|x| x.as_i64()).unwrap_or(-1),
        "con_mass": q.q(con_mass, 1.0), "towed": q.q(towed, 1.0),
        // the locomotives' masses as the descriptor gives them (explicit mass, or baseline + ballast + components when the
        // unit is described by its parts only): the spec sums them itself
        "umass": Value::Array(ga(&desc["consist"], "units").iter().map(unit_mass).collect()),
        "len": q.q(sim.state.length.value, SO),
        "tt": tq, "tv": vq, "exact": q.exact, "t0sync": t0sync, "v0sync": v0sync || vq[0] == 0,
        // the make-up the run was given (descriptor), whether it was installed through set_loco_vec after Consist::new,
        // whether the consist's limit assertions are switched off
        "units": Value::Array(ga(&desc["consist"], "units").iter().map(|u| json!(u.get("kind").and_then(|x| x.as_str()).unwrap_or("conv"))).collect()),
        "t0": tq[0], "res": if point { "point" } else { "strap" },
        "relist": desc["consist"].get("ctor").and_then(|x| x.as_str()) == Some("new"),
        "nolim": desc["consist"].get("nolimits").and_then(|x| x.as_bool()) == Some(true),
    }));
    tr.emit(ss_step_json(0, &sim.state, &sim.loco_con, towed));
    let mut steps = 0usize;
    let mut intact = true;
    while sim.state.i < sim.speed_trace.len() && steps < STEP_CAP {
        let i = sim.state.i;
        match sim.step() {
            Ok(()) => tr.emit(ss_step_json(i, &sim.state, &sim.loco_con, towed)),
            Err(e) => {
                // which check refused the step: the negative-speed guard or anything else (consist, path end)
                let msg = errtxt(&e);
                let why = if msg.contains("self.speed_trace.speed[self.state.i") && msg.contains(">= si::Velocity::ZERO") { "neg" } else { "other" };
                // the guard sits at the top of solve_step; any later Err leaves consist / locomotives half-updated
                intact = why == "neg";
                tr.emit(json!({"ev":"StepErr","k":i,"why":why,"msg":msg}));
                break;
            }
        }
        steps += 1;
    }
    // trip getters live on SpeedLimitTrainSim only: read them through one assembled from this run's final state
    let days = iv(desc, "days", 7) as i32;
    let mut slts = SpeedLimitTrainSim::new("t".into(), &[], &[], sim.loco_con.clone(), sim.state, parts_res, parts_path,
                                           parts_brake, Some(1), Some(days), None);
    if intact {
        tr.emit(get_json(&mut slts, days));
    }
    tr.emit(json!({"ev":"Done","steps":steps,"i":sim.state.i,"n":sim.speed_trace.len(),
                   "hist":sim.history.len(),"chist":sim.loco_con.history.len()}));
    Ok(if intact { Some(slts) } else { None })
}

/// "vec": {"sims":[<ss descriptor> x 1..3]}: every run is driven and recorded as usual, the finished ones are
/// collected into a SpeedLimitTrainSimVec and its outputs are recorded next to the per-simulation outputs
/// (plain and annualized), all values of one quantity at one common power-of-two scale
fn run_vec(desc: &Value, tr: &mut Tracer) -> anyhow::Result<()> {
    let mut sims = vec![];
    for d in ga(desc, "sims") {
        if let Some(s) = run_ss(d, tr)? {
            sims.push(s);
        }
    }
    if sims.is_empty() {
        return Ok(());
    }
    let n = sims.len();
    let mut v = SpeedLimitTrainSimVec(sims);
    fn row(parts: Vec<(f64, f64)>, vec: (f64, f64)) -> Value {
        let m = parts.iter().flat_map(|p| [p.0.abs(), p.1.abs()]).chain([vec.0.abs(), vec.1.abs()]).fold(0.0, f64::max);
        let sc = if m > 0.0 && m.is_finite() { 2f64.powi(26 - m.log2().floor() as i32) } else { 1.0 };
        json!([parts.iter().map(|p| qi(p.0, sc)).collect::<Vec<_>>(), parts.iter().map(|p| qi(p.1, sc)).collect::<Vec<_>>(),
               qi(vec.0, sc), qi(vec.1, sc)])
    }
    let fuel = row(v.0.iter().map(|s| (s.get_energy_fuel(false).value, s.get_energy_fuel(true).value)).collect(),
                   (v.get_energy_fuel(false).value, v.get_energy_fuel(true).value));
    let res = row(v.0.iter().map(|s| (s.get_net_energy_res(false).value, s.get_net_energy_res(true).value)).collect(),
                  (v.get_net_energy_res(false).value, v.get_net_energy_res(true).value));
    let mgkm = row(v.0.iter().map(|s| (s.get_megagram_kilometers(false), s.get_megagram_kilometers(true))).collect(),
                   (v.get_megagram_kilometers(false), v.get_megagram_kilometers(true)));
    let km = row(v.0.iter().map(|s| (s.get_kilometers(false), s.get_kilometers(true))).collect(),
                 (v.get_kilometers(false), v.get_kilometers(true)));
    let reskm = row(v.0.iter_mut().map(|s| (s.get_res_kilometers(false), s.get_res_kilometers(true))).collect(),
                    (v.get_res_kilometers(false), v.get_res_kilometers(true)));
    // a simulation whose own unit count wraps (see get_json) makes the vec-level sum meaningless: recorded as "wrap"
    let parts: Vec<Option<(f64, f64)>> = v.0.iter_mut().map(nonres_km).collect();
    let wrap = parts.iter().any(|p| p.is_none());
    let nonreskm = if wrap {
        row(vec![(0.0, 0.0); n], (0.0, 0.0))
    } else {
        row(parts.iter().map(|p| p.unwrap()).collect(), (v.get_non_res_kilometers(false), v.get_non_res_kilometers(true)))
    };
    tr.emit(json!({"ev":"GetVec","n":n,"wrap":wrap,"fuel":fuel,"res":res,"mgkm":mgkm,"km":km,"reskm":reskm,"nonreskm":nonreskm}));
    Ok(())
}

/// TLC-emitted (route, position sequence) -> one-car 8 m/s set-speed run visiting exactly those fronts
fn expand_locate(desc: &Value) -> Value {
    let lens: Vec<i64> = ga(desc, "lens").iter().map(|x| x.as_i64().unwrap()).collect();
    let pos: Vec<i64> = ga(desc, "pos").iter().map(|x| x.as_i64().unwrap()).collect();
    // each link carries a two-piece grade so that the resistance relations are exercised too
    let mut e = 0i64;
    let links: Vec<Value> = lens
        .iter()
        .enumerate()
        .map(|(k, l)| {
            let mut pts = vec![json!([0, e])];
            for j in 0..*l {
                e += [4, -2, 0, 2][((k as i64 + j) % 4) as usize];
                pts.push(json!([(j + 1) * 16, e]));
            }
            json!({"len": l * 16, "elevs": pts})
        })
        .collect();
    // variations derived from the case itself: clock origin (0 / 1 h with the default initial clock / negative),
    // the first front reached by initial placement instead of by a step (mid-route start), a hybrid in the consist
    let sel = pos.iter().sum::<i64>() + 7 * lens.len() as i64;
    let mid = pos.len() >= 3 && sel % 2 == 0;
    let pos: Vec<i64> = if mid { pos[1..].to_vec() } else { pos };
    let t0 = match sel % 3 { 0 => 0, 1 => 4 * 3600, _ => -4 * 1024 };
    let mut t = vec![t0];
    let mut v = vec![16i64];
    for w in pos.windows(2) {
        let d = w[1] - w[0]; // half units of 8 m at 8 m/s: d seconds
        t.push(t.last().unwrap() + d * ST as i64);
        v.push(16);
    }
    let mut units = vec![json!({"kind":"conv","rfc":65536,"rgen":65536,"redrv":65536,"mass":1024})];
    if sel % 5 == 0 {
        units.push(json!({"kind":"hybrid","mass":1024}));
    }
    let days = [1i64, 7, 365][(sel % 3) as usize];
    let mut d = json!({"kind":"ss","links":links,
           "cars":[{"n":1,"len":16,"mass":1024,"axles":4,"rot":16,"bearing":2,"rolling":4,"davis_b":1,"cda":8}],
           "c0":0,"consist":{"units":units,"pdct":"RESGreedy"},
           "t":t,"v":v,"days": days});
    if mid {
        d["x0"] = json!(pos[0] * 8);
    }
    if sel % 3 == 1 {
        d["tinit"] = json!("default");
    }
    if sel % 7 == 0 {
        d["consist"]["units0"] = json!([{"kind":"conv","rfc":16384,"rgen":16384,"redrv":16384,"mass":1024}]);
        // every fourth of them through Consist::new (with sel % 5 == 0: an all-diesel consist that is given a hybrid)
        if sel % 4 == 0 {
            d["consist"]["ctor"] = json!("new");
        }
    }
    if sel % 4 == 1 {
        d["vinit"] = json!("default"); // the 8 m/s replay as a rolling start under the default initial state
    }
    d
}

/// TLC-emitted (units handed to Consist::new, units handed to set_loco_vec, distance class) -> a set-speed run of
/// 4 x d steps (accelerating, cruising, braking) under that consist
fn expand_relist(desc: &Value) -> Value {
    let unit = |k: &Value| if k.as_i64() == Some(1) {
        json!({"kind":"bel","rres":65536,"redrv":65536,"cap":65536i64 * 4096,"soc":0.5,"mass":1024,"aux":32})
    } else {
        json!({"kind":"conv","rfc":65536,"rgen":65536,"redrv":65536,"mass":1024,"aux":32,"idle":64})
    };
    let d = gi(desc, "d");
    let mut dd = expand_locate(&json!({"lens":[3, 3, 3],"pos":[2, 3]}));
    let (mut t, mut v) = (vec![0i64], vec![0i64]);
    for k in 0..(4 * d) {
        t.push(t.last().unwrap() + 8);
        v.push(if k < 2 * d { v.last().unwrap() + 4 } else { v.last().unwrap() - 2 });
    }
    dd["t"] = json!(t);
    dd["v"] = json!(v);
    dd["consist"] = json!({"units": ga(desc, "u").iter().map(unit).collect::<Vec<_>>(),
                           "units0": ga(desc, "u0").iter().map(unit).collect::<Vec<_>>(),
                           "ctor":"new","pdct":"RESGreedy"});
    for k in ["x0", "tinit", "vinit"] {
        dd.as_object_mut().unwrap().remove(k);
    }
    dd["days"] = json!([1, 30, 1461][(d as usize + ga(desc, "u").len()) % 3]);
    dd
}

// ---------------------------------------------------------------------------------------------
// direct replay of the cached-index model into the real path_res::Strap

fn run_strap(desc: &Value, tr: &mut Tracer) -> anyhow::Result<()> {
    use altrios_core::train::kind::path_res::Strap;
    let segs = ga(desc, "segs");
    let tl = gi(desc, "tl");
    // unit = 16 m, elevation step = 1/4 m, positions in half units
    let mut vals = vec![PathResCoeff::default()];
    let (mut o, mut e) = (0.0f64, 0.0f64);
    let mut prof = vec![json!([0, 0])];
    let (mut oi, mut ei) = (0i64, 0i64);
    for s in segs {
        let dl = s[0].as_i64().unwrap();
        let de = s[1].as_i64().unwrap();
        let coeff = (de as f64 * 0.25) / (dl as f64 * 16.0);
        vals.last_mut().unwrap().res_coeff = uc::R * coeff;
        o += dl as f64 * 16.0;
        e += de as f64 * 0.25;
        oi += dl;
        ei += de;
        prof.push(json!([oi, ei]));
        vals.push(PathResCoeff { offset: uc::M * o, res_coeff: uc::R * 0.0, res_net: uc::M * e });
    }
    let len = tl as f64 * 16.0;
    let mut state = TrainState::new(uc::M * len, uc::KG * 1.0, uc::KG * 0.0, uc::KG * 0.0, None);
    state.weight_static = uc::N * 1.0;
    // as in make_train_sim_parts: the cache is created on the one-point path, then the path is extended
    let mut strap = Strap::new(&vals[..1], &state)?;
    tr.emit(json!({"ev":"StrapHdr","prof":prof,"tl":tl}));
    for m in ga(desc, "moves") {
        let d = m[0].as_i64().unwrap();
        let x2 = m[1].as_i64().unwrap();
        state.offset = uc::M * (x2 as f64 * 8.0);
        state.offset_back = state.offset - state.length;
        let dir = match d {
            0 => Dir::Fwd,
            1 => Dir::Bwd,
            _ => Dir::Unk,
        };
        let r = strap.calc_res(&vals, &state, &dir);
        let sv = serde_json::to_value(strap)?;
        let mut q = Q::new();
        match r {
            // model units: elevation step 1/4 m x 4096 (val, ef: metres x 16384); slope = rise step per half unit
            // (8 m) x 4096 (ratio x 131072)
            Ok(f) => tr.emit(json!({"ev":"Strap","dir":d,"x":x2,"ok":true,
                "val": q.q(f.value * len * 16384.0, 1.0),
                "gf": q.q(strap.res_coeff_front(&vals).value * 131072.0, 1.0),
                "gb": q.q(strap.res_coeff_back(&vals).value * 131072.0, 1.0),
                "ef": q.q(strap.res_net_front(&vals, &state).value * 16384.0, 1.0),
                "idf": sv["idx_front"], "idb": sv["idx_back"], "exact": q.exact})),
            Err(e) => tr.emit(json!({"ev":"Strap","dir":d,"x":x2,"ok":false,"msg":errtxt(&e)})),
        }
    }
    Ok(())
}

// ---------------------------------------------------------------------------------------------
// realistic-scale speed-limited runs (tolerance mode: kinematics, ledger, getters only)

const LT: f64 = 4.0;
const LV: f64 = 1024.0;
const LO: f64 = 256.0;
const LP: f64 = 16.0;
const LE: f64 = 1.0 / 64.0;

fn sl_step_json(k: usize, s: &TrainState, c: &Consist) -> Value {
    let mut q = Q::new();
    let (cj, lj) = ledger_json(&mut q, c, LP, LE);
    let mut r = json!({
        "ev":"Step","k":k,
        "t": q.q(s.time.value, LT), "dt": q.q(s.dt.value, LT),
        "x": q.q(s.offset.value, LO), "xb": q.q(s.offset_back.value, LO),
        "dist": q.q(s.total_dist.value, LO), "link": s.link_idx_front,
        "xin": q.q(s.offset_in_link.value, LO), "v": q.q(s.speed.value, LV),
        "vlim": q.q(s.speed_limit.value, LV), "vtgt": q.q(s.speed_target.value, LV),
        "ms": q.q(s.mass_static.value, 1.0), "mr": q.q(s.mass_rot.value, 1.0),
        "wg": q.q(s.weight_static.value / uc::ACC_GRAV.value, 1.0),
        "F": [q.q(s.res_rolling.value, 1.0), q.q(s.res_bearing.value, 1.0), q.q(s.res_davis_b.value, 1.0),
              q.q(s.res_aero.value, 1.0), q.q(s.res_grade.value, 1.0), q.q(s.res_curve.value, 1.0)],
        "elev": q.q(s.elev_front.value, 256.0), "gf": q.q(s.grade_front.value, S14), "gb": q.q(s.grade_back.value, S14),
        "pa": q.q(s.pwr_accel.value, 1.0), "pr": q.q(s.pwr_res.value, 1.0),
        "pw": q.q(s.pwr_whl_out.value, LP),
        "e": q.q(s.energy_whl_out.value, LE), "ep": q.q(s.energy_whl_out_pos.value, LE),
        "en": q.q(s.energy_whl_out_neg.value, LE),
        "c": cj, "ls": lj,
    });
    r["ovf"] = json!(q.overflow);
    r
}

/// (plain, annualized, raw) of one getter at a common power-of-two scale chosen so that raw is ~2^19
/// (the relations checked on them are homogeneous, so the scale itself need not be logged)
fn triple(plain: f64, ann: f64, raw: f64) -> Value {
    let m = raw.abs().max(plain.abs());
    let sc = if m > 0.0 && m.is_finite() { 2f64.powi(18 - m.log2().floor() as i32) } else { 1.0 };
    json!([qi(plain, sc), qi(ann, sc), qi(raw, sc)])
}

fn nonres_km(sim: &mut SpeedLimitTrainSim) -> Option<(f64, f64)> {
    let r = std::panic::catch_unwind(std::panic::AssertUnwindSafe(|| (sim.get_non_res_kilometers(false), sim.get_non_res_kilometers(true))));
    match r {
        Ok((a, b)) if a.abs() < 1e12 && b.abs() < 1e15 => Some((a, b)),
        _ => None,
    }
}

fn get_json(sim: &mut SpeedLimitTrainSim, days: i32) -> Value {
    let s = &sim.state;
    let km = s.total_dist.value / 1000.0;
    let mg = s.mass_freight.value / 1000.0;
    let fuel = sim.loco_con.state.energy_fuel.value;
    let res = sim.loco_con.state.energy_res.value;
    // battery-unit / other-unit kilometres: <<get(false), get(true), total distance>>; the unit counts are the spec's
    let reskm = triple(sim.get_res_kilometers(false), sim.get_res_kilometers(true), km);
    // (`number of units - cached count` is an unsigned difference in the code: a panic or a wrapped value is recorded
    // as "wrap", not as a number)
    let (nonreskm, wrap) = match nonres_km(sim) {
        Some((a, b)) => (triple(a, b, km), false),
        None => (triple(0.0, 0.0, km), true),
    };
    json!({"ev":"Get","days":days,"reskm":reskm,"nonreskm":nonreskm,"wrap":wrap,
        "fuel": triple(sim.get_energy_fuel(false).value, sim.get_energy_fuel(true).value, fuel),
        "res": triple(sim.get_net_energy_res(false).value, sim.get_net_energy_res(true).value, res),
        "km": triple(sim.get_kilometers(false), sim.get_kilometers(true), km),
        "mgkm": triple(sim.get_megagram_kilometers(false), sim.get_megagram_kilometers(true), 0.0),
        // Mg.km is a product of two saved quantities: the spec multiplies them itself
        "mg": qi(mg, 16.0), "kmq": qi(km, 64.0), "mgkmq": qi(sim.get_megagram_kilometers(false), 1024.0),
    })
}

fn run_sl(desc: &Value, tr: &mut Tracer) -> anyhow::Result<()> {
    let net = match build::network(&desc["net"]) {
        Ok(n) => n,
        Err(e) => {
            tr.emit(json!({"ev":"Rejected","what":"network","msg":errtxt(&e)}));
            return Ok(());
        }
    };
    let links = ga(&desc["net"], "links");
    let n = links.len();
    let route: Vec<LinkIdx> = (1..=n as u32).map(LinkIdx::new).collect();
    let rdir = build::resources_dir().join("rolling_stock");
    let mut rvs = vec![];
    let mut ncars = HashMap::new();
    for c in ga(desc, "cars") {
        let rv = RailVehicle::from_file(rdir.join(format!("{}.yaml", gs(c, "type"))))?;
        ncars.insert(rv.car_type.clone(), gi(c, "n") as u32);
        rvs.push(rv);
    }
    let tc = TrainConfig::new(rvs, ncars, TrainType::Freight, None, None, None)?;
    let mut con = Consist::default();
    con.set_save_interval(Some(1));
    let days = gi(desc, "days") as i32;
    let lm = build::location_map(&[1], &[n as u32]);
    // "x0_extra" [m]: the front starts that far beyond the train's own length (mid-route start)
    let tlen = tc.make_train_params()?.length;
    // "t0" [s]: departure time (the clock of the initial state)
    let x0 = desc.get("x0_extra").and_then(|x| x.as_f64()).map(|x| tlen + uc::M * x);
    let t0 = desc.get("t0").and_then(|x| x.as_f64()).map(|t| uc::S * t);
    let init = if x0.is_some() || t0.is_some() { Some(InitTrainState::new(t0, x0, None)) } else { None };
    let tsb = TrainSimBuilder::new("t".into(), tc, con, Some("A".into()), Some("B".into()), init);
    let mut sim = tsb.make_speed_limit_train_sim(&lm, Some(1), Some(days), None)?;
    // "dt4" (optional): simulation step in 1/4 s (TrainState::new always gives 1 s; the field is public), set before
    // the braking table is built from it
    if let Some(d4) = desc.get("dt4").and_then(|x| x.as_f64()) {
        sim.state.dt = uc::S * (d4 / LT);
    }
    if let Err(e) = sim.extend_path(net.as_ref(), &route) {
        tr.emit(json!({"ev":"Rejected","what":"extend_path","msg":errtxt(&e)}));
        return Ok(());
    }
    let os = netgen::scale(&desc["net"], "oscale");
    let hl: Vec<Value> = links
        .iter()
        .enumerate()
        .map(|(k, l)| json!({"idx": k + 1, "len": qi(gf(l, "len") / os, LO), "el": []}))
        .collect();
    tr.emit(json!({"ev":"Hdr","mode":"sl","st":LT as i64,"sv":LV as i64,"so":LO as i64,
        "links":hl,"curves":[],"cars":[],"override":-1,"con_mass":0,"towed":0,"umass":[],
        "len": qi(sim.state.length.value, LO),"tt":[],"tv":[],"exact":false,"t0sync":true,"v0sync":true,"days":days,
        "units": kinds_of(&sim.loco_con), "res": "strap", "relist": false, "nolim": false, "t0": iv(desc, "t0", 0)}));
    tr.emit(sl_step_json(0, &sim.state, &sim.loco_con));
    let cap = gi(desc, "cap") as usize;
    let mut steps = 0usize;
    let mut result = "arrived";
    // the loop condition of SpeedLimitTrainSim::walk_internal, with a step cap
    while sim.state.offset < sim.path_tpc.offset_end() - uc::FT * 1000.0
        || (sim.state.offset < sim.path_tpc.offset_end() && sim.state.speed != uc::MPS * 0.0)
    {
        if steps >= cap {
            result = "stepcap";
            break;
        }
        let i = sim.state.i;
        match sim.step() {
            Ok(()) => tr.emit(sl_step_json(i, &sim.state, &sim.loco_con)),
            Err(e) => {
                tr.emit(json!({"ev":"StepErr","k":i,"why":"other","msg":errtxt(&e)}));
                result = "err";
                break;
            }
        }
        steps += 1;
    }
    if result != "err" {
        tr.emit(get_json(&mut sim, days));
    }
    tr.emit(json!({"ev":"Done","steps":steps,"result":result,"hist":sim.history.len(),"chist":sim.loco_con.history.len()}));
    Ok(())
}

fn exec(desc: &Value, tr: &mut Tracer) -> anyhow::Result<()> {
    match desc.get("kind").and_then(|x| x.as_str()).unwrap_or("ss") {
        "locate" => run_ss(&expand_locate(desc), tr).map(|_| ()),
        "relist" => run_ss(&expand_relist(desc), tr).map(|_| ()),
        "vec" => run_vec(desc, tr),
        "strap" => run_strap(desc, tr),
        "sl" => run_sl(desc, tr),
        _ => run_ss(desc, tr).map(|_| ()),
    }
}

// ---------------------------------------------------------------------------------------------
// seeded generators

/// splits `len` (multiple of 16) into pieces drawn from `sizes` (powers of two times 16)
fn pieces(r: &mut Rng, len: i64, sizes: &[i64]) -> Vec<i64> {
    let mut out = vec![];
    let mut rest = len;
    while rest > 0 {
        let fit: Vec<i64> = sizes.iter().cloned().filter(|s| *s <= rest).collect();
        let p = *r.pick(&fit);
        out.push(p);
        rest -= p;
    }
    out
}

/// `hot`: small unit ratings under hard accelerations and hard braking (the demand exceeds the consist's published
/// traction limit and its dynamic-braking capability), half of them with the consist's limit assertions off
fn gen_ss(r: &mut Rng, neg: bool, hot: bool) -> Value {
    // train
    let two = r.chance(1, 2);
    let mut cars = vec![];
    let mut ncar = 0;
    let mut tlen = 0;
    let ovr = r.chance(1, 10);
    for k in 0..(if two { 2 } else { 1 }) {
        let n = r.range(1, if two { 6 } else { 12 });
        let len = if k == 1 && r.chance(1, 2) { 32 } else { 16 };
        ncar += n;
        tlen += n * len;
        cars.push(json!({"n": n, "len": len, "mass": if k == 0 { 1024 } else { 2048 },
            "freight": *r.pick(&[0i64, 0, 1024]), "axles": *r.pick(&[4i64, 4, 6]),
            "rot": *r.pick(&[0i64, 16, 32]), "bearing": *r.pick(&[0i64, 1, 2, 4]),
            "rolling": if ovr { 0 } else { *r.pick(&[0i64, 2, 4, 8]) },
            "davis_b": if ovr { 0 } else { *r.pick(&[0i64, 1, 2, 4]) },
            "cda": *r.pick(&[0i64, 4, 8])}));
    }
    let _ = ncar;
    // route: short and long links, grade changes every 16..256 m, lattice curves
    let nl = r.range(1, 6);
    let mut links = vec![];
    let mut e = r.range(-8, 8) * 64;
    let mut h = 512i64; // headings must be non-negative (validation): start at 2 rad
    let mut total = 0;
    for k in 0..nl {
        let len = 16 * if r.chance(1, 2) { r.range(1, 3) } else { r.range(4, 40) };
        // make sure the route is longer than the train
        let len = if k == nl - 1 && total + len < tlen + 64 { (tlen + 64 - total + 15) / 16 * 16 } else { len };
        total += len;
        let mut pts = vec![json!([0, e])];
        let mut o = 0;
        for p in pieces(r, len, &[16, 32, 64, 128, 256]) {
            // grade in 1/256 steps, |grade| <= 1/64
            let g = *r.pick(&[-4i64, -2, -1, 0, 0, 1, 2, 4]);
            e += g * p / 4; // de[1/64 m] = g/256 * p * 64
            o += p;
            pts.push(json!([o, e]));
        }
        let mut l = json!({"len": len, "elevs": pts});
        if r.chance(1, 2) {
            let mut hs = vec![json!([0, h])];
            let mut o = 0;
            for p in pieces(r, len, &[16, 32, 64]) {
                let mx = match p { 16 => 2, 32 => 4, _ => 9 };
                h = (h + r.range(-mx, mx)).max(0);
                o += p;
                hs.push(json!([o, h]));
            }
            l["hd"] = Value::Array(hs);
        }
        links.push(l);
    }
    // consist
    let nu = r.range(1, 3);
    let units: Vec<Value> = (0..nu)
        .map(|_| {
            let rt = if hot { *r.pick(&[2048i64, 4096, 8192]) } else { *r.pick(&[16384i64, 32768, 65536, 131072]) };
            if r.chance(1, if hot { 6 } else { 3 }) {
                // mostly a battery that outlasts the run; sometimes one that runs empty (the run is then refused)
                let cap = if r.chance(1, 4) { rt * 64 } else { rt * 4096 };
                json!({"kind":"bel","rres":rt,"redrv":rt,"cap": cap, "kr": *r.pick(&[1, 2]), "ke": *r.pick(&[1, 2]),
                       "soc": *r.pick(&[0.5, 0.75, 0.25]), "mass": 1024, "aux": 32})
            } else {
                json!({"kind":"conv","rfc":rt,"rgen":rt,"redrv":rt,"kf": *r.pick(&[1, 2, 4]), "kg": *r.pick(&[1, 2]),
                       "ke": *r.pick(&[1, 2]), "lag": *r.pick(&[2, 4, 8]), "idle": 64, "mass": 1024, "aux": 32})
            }
        })
        .collect();
    let mut units = units;
    // a quarter of the toy units are described by their parts only (locomotive-level mass unknown, mass = derived mass)
    for u in units.iter_mut() {
        if r.chance(1, 4) {
            let bel = u["kind"] == "bel";
            u.as_object_mut().unwrap().remove("mass");
            u["parts"] = if bel {
                json!({"base": *r.pick(&[256i64, 512]), "ball": *r.pick(&[0i64, 128]), "res": *r.pick(&[128i64, 256])})
            } else {
                json!({"base": *r.pick(&[256i64, 512]), "ball": *r.pick(&[0i64, 128]), "fc": *r.pick(&[64i64, 128]), "gen": *r.pick(&[32i64, 64])})
            };
        }
    }
    if !hot && r.chance(1, 4) {
        // a hybrid next to (or instead of) the toy units: battery energy then comes from two kinds of locomotive
        if units.len() >= 3 || r.chance(1, 3) {
            units.pop();
        }
        if r.chance(1, 2) {
            units.push(json!({"kind":"hybrid","mass":1024}));
        } else {
            units.push(json!({"kind":"hybrid","mass":1024,"rres": *r.pick(&[8192i64, 16384, 32768, 65536]),"aux":0}));
        }
    }
    // a quarter of the consists are first constructed from another list and then re-listed through set_loco_vec
    let units0: Option<Vec<Value>> = if r.chance(1, 4) {
        let small = json!({"kind":"conv","rfc":8192,"rgen":8192,"redrv":8192,"mass":1024});
        Some(if units.len() >= 2 && r.chance(1, 2) {
            units[..1].to_vec() // grown
        } else if r.chance(1, 2) {
            let mut u = units.clone(); // shrunk
            u.push(json!({"kind":"conv","rfc":262144,"rgen":262144,"redrv":262144,"mass":1024}));
            u
        } else {
            vec![small] // replaced
        })
    } else {
        None
    };
    // make-up changes through set_loco_vec on a consist made by Consist::new (which caches its count of battery units):
    // built all-diesel then given its battery units; built with a battery unit then made all-diesel; another unit count
    let conv_of = |u: &Value| json!({"kind":"conv","rfc":u.get("rres").or(u.get("rfc")).and_then(|x| x.as_i64()).unwrap_or(16384),
                                     "rgen":65536,"redrv":65536,"mass":1024});
    let bel0 = json!({"kind":"bel","rres":16384,"redrv":16384,"cap":16384 * 4096,"soc":0.5,"mass":1024,"aux":32});
    let (units0, ctor_new) = if r.chance(1, 8) {
        let nr = nres_of(&units);
        let u0: Vec<Value> = match r.range(0, 2) {
            0 if nr > 0 => units.iter().map(|u| if nres_of(std::slice::from_ref(u)) > 0 { conv_of(u) } else { u.clone() }).collect(),
            0 => { let mut u = units.clone(); u[0] = bel0.clone(); u }
            1 if nr > 0 => units.iter().filter(|u| nres_of(std::slice::from_ref(*u)) == 0).cloned().chain([conv_of(&units[0])]).collect(),
            1 => { let mut u = units.clone(); u.push(bel0.clone()); if u.len() > 2 { u.remove(0); } u }
            _ => match &units0 { Some(u) => u.clone(), None => vec![conv_of(&units[0])] },
        };
        (Some(u0), true)
    } else {
        (units0, false)
    };
    let has_hybrid = units.iter().any(|u| u["kind"] == "hybrid");
    // hard braking (up to 1 m/s2): beyond the regeneration capability of small batteries
    let hard = if has_hybrid { r.chance(2, 3) } else { hot || r.chance(1, 6) };
    // start: front at the train's own length (default) or mid-route
    let x0 = if r.chance(1, 3) { tlen + r.range(1, ((total - tlen - 16) / 2).max(1)) } else { tlen };
    // trace: irregular dyadic time stamps, |accel| <= 1/2 m/s2, speeds in 1/2 m/s, inside the path
    let room = (total - x0 - 8) * 16; // in 1/16 m
    // clock: starts near 0, at a large dyadic offset, or negative; the initial state follows it or keeps the default 0
    let t0 = match r.range(0, 5) { 0 | 1 => r.range(0, 8), 2 => 0, 3 => 4 * 3600 + r.range(0, 8), 4 => 4 * 4096 * r.range(1, 16), _ => -4 * r.range(1, 2048) };
    let tinit_default = r.chance(1, 2);
    let mut t = vec![t0];
    let mut v = vec![if r.chance(1, 2) { 0 } else { r.range(0, 24) }];
    let mut x = 0i64;
    let nsteps = r.range(6, 48);
    let cruise = r.chance(1, 3); // integer speeds and 1 / 2 s steps: fronts land on link boundaries often
    let mut target = r.range(4, 32);
    for _ in 0..nsteps {
        if r.chance(1, 6) {
            target = if r.chance(1, 4) { 0 } else { r.range(0, 32) };
        }
        let dtq = if cruise { *r.pick(&[4i64, 8]) } else { *r.pick(&[1i64, 2, 4, 4, 8, 8, 16]) };
        let amax = if hot { dtq / 2 } else { dtq / 4 }; // |dv| <= 1/2 m/s2 x dt (hot: 1 m/s2)
        let v0 = *v.last().unwrap();
        let bmax = if hard { dtq / 2 } else { amax };
        let mut dv = (target - v0).clamp(-bmax, amax);
        if cruise {
            dv = dv / 2 * 2;
        }
        let v1 = (v0 + dv).clamp(0, 32);
        let dx = (v0 + v1) * dtq;
        if x + dx > room {
            break;
        }
        x += dx;
        t.push(t.last().unwrap() + dtq);
        v.push(v1);
    }
    if v.len() < 2 {
        t.push(t[0] + 4);
        v.push(v[0].min(1));
    }
    if neg {
        let j = r.range(0, v.len() as i64 - 1) as usize;
        v[j] = -r.range(1, 8);
    }
    let mut d = json!({"kind":"ss","links":links,"cars":cars,"c0": *r.pick(&[0i64, 1, 2]),
        "consist":{"units":units,"pdct": *r.pick(&["RESGreedy", "Proportional"])},"t":t,"v":v});
    if ovr {
        d["train_mass"] = json!(r.range(4, 24) * 1024);
    }
    if let Some(u0) = units0 {
        d["consist"]["units0"] = Value::Array(u0);
        if ctor_new {
            d["consist"]["ctor"] = json!("new");
        }
    }
    if hot && r.chance(1, 2) {
        d["consist"]["nolimits"] = json!(true);
    }
    if x0 != tlen {
        d["x0"] = json!(x0);
    }
    if tinit_default {
        d["tinit"] = json!("default");
    }
    // rolling start under the default initial state (speed 0) in half of the traces that start moving
    if d["v"][0].as_i64().unwrap() > 0 && r.chance(1, 2) {
        d["vinit"] = json!("default");
    }
    d["days"] = json!(*r.pick(&[1i64, 7, 30, 365, 1461]));
    if !neg && r.chance(1, 8) {
        d["res"] = json!("point");
    }
    d
}

fn gen_sl(r: &mut Rng, tier: &str) -> Value {
    // single line, constant posted speed, gentle grades, >= 15 cars (outside the two known C03 classes)
    let nl = r.range(2, if tier == "quick" { 4 } else { 7 });
    let v = r.range(10, 18);
    let mut links = vec![];
    let mut e = 0i64;
    let mut hd = 180i64;
    for k in 0..nl {
        let len = if k == 0 { r.range(2500, 4000) } else if r.chance(1, 3) { r.range(150, 600) } else { r.range(900, 3500) };
        let mut pts = vec![json!([0, e])];
        let np = r.range(1, 4);
        let mut o = 0;
        for j in 0..np {
            let o1 = if j == np - 1 { len } else { o + (len - o) / (np - j) };
            // grade in 1/1000: within +-3 per mille (elevations in 1/100 m)
            let g = r.range(-3, 3);
            e += g * (o1 - o) / 10;
            o = o1;
            pts.push(json!([o, e]));
        }
        let mut l = json!({"len": len, "elevs": pts, "rs": [[0, len, v]], "prev": k, "next": if k + 1 < nl { k + 2 } else { 0 }});
        if r.chance(1, 2) {
            let h1 = (hd + r.range(-20, 20)).clamp(0, 359);
            l["headings"] = json!([[0, hd], [len, h1]]);
            hd = h1;
        }
        links.push(l);
    }
    let types = ["Manifest_Loaded", "Unit_Loaded", "Intermodal_Loaded", "Manifest_Empty"];
    let mut cars = vec![json!({"type": *r.pick(&types[..3]), "n": r.range(15, 45)})];
    if r.chance(1, 2) {
        let t2 = *r.pick(&types);
        if t2 != cars[0]["type"].as_str().unwrap() {
            cars.push(json!({"type": t2, "n": r.range(5, 25)}));
        }
    }
    let mut d = json!({"kind":"sl","net":{"oscale":1,"vscale":1,"escale":100,"links":links},"cars":cars,
           "days": *r.pick(&[1i64, 7, 30, 365, 1461]),"cap": if tier == "quick" { 2500 } else { 6000 }});
    if r.chance(1, 2) {
        d["x0_extra"] = json!(r.range(1, 800));
    }
    // departure time: 0 (default initial state) or a clock that started elsewhere
    if r.chance(2, 3) {
        d["t0"] = json!(*r.pick(&[1i64, 600, 3600, 86400]) * r.range(1, 3));
    }
    // step size 1/2, 1 or 2 s (default 1 s in a third of the runs)
    match r.range(0, 2) {
        0 => {
            d["dt4"] = json!(2);
            d["cap"] = json!(2 * d["cap"].as_i64().unwrap());
        }
        1 => d["dt4"] = json!(8),
        _ => {}
    }
    d
}

fn gen(seed: u64, n: usize, tier: &str) -> Vec<Value> {
    let mut out = vec![];
    for k in 0..n {
        let mut r = Rng::new(seed.wrapping_mul(1_000_003).wrapping_add(k as u64));
        let mut d = if k % 32 == 31 {
            gen_sl(&mut r, tier)
        } else if k % 16 == 5 {
            // 1..3 finished runs with make-ups / simulation_days of their own, read as a SpeedLimitTrainSimVec
            let n = 1 + (k / 16) % 3;
            json!({"kind":"vec","sims": (0..n).map(|_| gen_ss(&mut r, false, false)).collect::<Vec<_>>()})
        } else {
            gen_ss(&mut r, k % 4 == 3, k % 8 == 2)
        };
        d["src"] = json!("gen");
        d["seed"] = json!(seed);
        d["k"] = json!(k);
        out.push(d);
    }
    out
}

fn main() {
    main_with(gen, exec);
}
