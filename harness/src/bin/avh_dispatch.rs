//! Dispatch harness (C04, C05, C15): materialises a meet-pass scenario (corridor with sidings,
//! optional lockout foul links, trains in both directions), builds the estimated-time networks,
//! runs `run_dispatch` with the verification observer installed and records
//!   Hdr    — the network as the spec sees it (flip / lockout / next / prev tables, lengths)
//!   Net    — one per train: the EstTimeNet returned by make_est_times
//!   Snap   — one per train move + the final one: authority tables, blocked table, every train's plan
//!   Result — the value returned by run_dispatch
//! Times are integer milliseconds, +inf = INF (2^30); serde_json writes non-finite numbers as
//! null: the per-link sentinel authority (train_idx null, all -inf) is dropped, every other null
//! time is +inf (an event that has not happened yet).
//!
//! Scenario descriptor:
//! {"stages":[["M"|"S"|"J", len_100m], ..] (no two "S"/"J" adjacent; "J" = two-branch junction, only first or last), "lockouts":bool,
//!  "foul":len_100m, "v":[m/s per stage], "grade":[1e-4 units per stage],
//!  "trains":[{"dir":"E"|"W","depart":s,"ncars":n}, ..]}
//! General form ("topo":"graph"): {"segs":[[len_m, v, prev, prev_alt, next, next_alt, [locked segs]], ..] (forward
//!  ids 1..n, the reverse link of i is 2n+1-i; a lock covers both directions of both segments), "head":bool,
//!  "trains":[{"orig":[directed link ids],"dest":[..],"depart":s,"ncars":n,"vmax":m/s}, ..]}
use altrios_core::meet_pass::dispatch::{run_dispatch, verif_hook};
use altrios_core::prelude::*;
use altrios_core::train::InitTrainState;
use altrios_core::traits::SerdeAPI;
use altrios_core::uc;
use avh::build;
use avh::common::*;
use serde_json::{json, Value};
use std::cell::RefCell;
use std::rc::Rc;

const MS: f64 = 1000.0;

/// Builds the netgen descriptor of the corridor. Returns (desc, east_orig, east_dest, west_orig, west_dest)
/// (link indices, 1-based as in the network).
fn corridor(d: &Value) -> (Value, [u32; 2], [u32; 2], [u32; 2], [u32; 2]) {
    let lock = gb(d, "lockouts");
    let foul = d.get("foul").and_then(|x| x.as_i64()).unwrap_or(2);
    let vs = ga(d, "v");
    let gr = d.get("grade").and_then(|x| x.as_array()).cloned().unwrap_or_default();
    // stages: each a list of tracks, each a list of link lengths. "M" = single track, "S" = siding
    // (two parallel tracks; with lockouts each track is foul-in, body, foul-out)
    let mut stages: Vec<Vec<Vec<i64>>> = vec![];
    // all lengths below are METRES: stage lengths are given in 100 m plus, for "M", optional extra metres (stage[2]),
    // so that a link can be made a few metres longer than a train (two link events inside one simulation step)
    let foul = foul * 100;
    let mut track_v: Vec<[Option<i64>; 2]> = vec![];
    let mut xlock: Vec<usize> = vec![]; // "X" stages that declare lockouts
    for st in ga(d, "stages") {
        let is_x = st[0].as_str().unwrap() == "X";
        let len = st[1].as_i64().unwrap() * if is_x { 1 } else { 100 };
        if st[0].as_str().unwrap() == "M" {
            stages.push(vec![vec![len + st.get(2).and_then(|x| x.as_i64()).unwrap_or(0)]]);
            track_v.push([None, None]);
        } else if st[0].as_str().unwrap() == "J" {
            // junction: two plain branches (only as first or last stage): origins / destinations differ per train
            stages.push(vec![vec![len], vec![len + 100]]);
            track_v.push([None, None]);
        } else if st[0].as_str().unwrap() == "X" {
            // explicit siding, all in METRES: ["X", body_primary, body_alternate, foul, v_primary, v_alternate, lock]:
            // each track is foul-in, body, foul-out (the alternate's foul links 1 m longer); lockouts between the
            // foul links of the two tracks only when lock = 1 (per stage, independent of "lockouts")
            let g = |k: usize| st[k].as_i64().unwrap();
            stages.push(vec![vec![g(3), g(1), g(3)], vec![g(3) + 1, g(2), g(3) + 1]]);
            track_v.push([Some(g(4)), Some(g(5))]);
            if g(6) != 0 {
                xlock.push(stages.len() - 1);
            }
        } else {
            let track = |extra: i64| {
                if lock {
                    vec![foul, len + extra, foul]
                } else {
                    vec![len + extra + 2 * foul]
                }
            };
            stages.push(vec![track(0), track(100)]); // the two tracks differ by 100 m
            // optional per-track speeds ["S", len, v_primary, v_alternate]: a switch whose primary branch is the slow one
            track_v.push([st.get(2).and_then(|x| x.as_i64()), st.get(3).and_then(|x| x.as_i64())]);
        }
    }
    // forward links, numbered in order; fwd[stage][track][pos] = idx
    let mut fwd: Vec<Vec<Vec<usize>>> = vec![];
    let mut n = 0usize;
    for st in &stages {
        let mut a = vec![];
        for tr in st {
            let mut b = vec![];
            for _ in tr {
                n += 1;
                b.push(n);
            }
            a.push(b);
        }
        fwd.push(a);
    }
    let nf = n;
    let flip = |i: usize| -> usize { if i == 0 { 0 } else { 2 * nf + 1 - i } };
    #[derive(Clone, Default)]
    struct L {
        len: i64,
        next: usize,
        next_alt: usize,
        prev: usize,
        prev_alt: usize,
        lockout: Vec<usize>,
        stage: usize,
        track: usize,
    }
    let mut links = vec![L::default(); 2 * nf + 1];
    for (si, st) in stages.iter().enumerate() {
        for (ti, tr) in st.iter().enumerate() {
            for (pi, len) in tr.iter().enumerate() {
                let i = fwd[si][ti][pi];
                links[i].len = *len;
                links[i].stage = si;
                links[i].track = ti;
                if pi + 1 < tr.len() {
                    links[i].next = fwd[si][ti][pi + 1];
                } else if si + 1 < stages.len() {
                    links[i].next = fwd[si + 1][0][0];
                    if fwd[si + 1].len() > 1 {
                        links[i].next_alt = fwd[si + 1][1][0];
                    }
                }
                if pi > 0 {
                    links[i].prev = fwd[si][ti][pi - 1];
                } else if si > 0 {
                    links[i].prev = *fwd[si - 1][0].last().unwrap();
                    if fwd[si - 1].len() > 1 {
                        links[i].prev_alt = *fwd[si - 1][1].last().unwrap();
                    }
                }
            }
        }
        // lockouts between the foul links of the two tracks of a siding stage (both ends, both directions)
        let is_x = ga(d, "stages")[si][0].as_str().unwrap() == "X";
        if (if is_x { xlock.contains(&si) } else { lock }) && st.len() == 2 && st[0].len() == 3 {
            for pi in [0usize, 2] {
                let a = fwd[si][0][pi];
                let b = fwd[si][1][pi];
                links[a].lockout = vec![b, flip(b)];
                links[b].lockout = vec![a, flip(a)];
            }
        }
    }
    for i in 1..=nf {
        let r = flip(i);
        links[r] = L {
            len: links[i].len,
            next: flip(links[i].prev),
            next_alt: flip(links[i].prev_alt),
            prev: flip(links[i].next),
            prev_alt: flip(links[i].next_alt),
            lockout: links[i].lockout.iter().map(|x| flip(*x)).collect(),
            stage: links[i].stage,
            track: links[i].track,
        };
    }
    // speed sets apply to the head end unless "head": false (then each limit also covers the train's length behind it)
    let head = d.get("head").and_then(|x| x.as_bool()).unwrap_or(true);
    let mut out = vec![];
    for i in 1..=2 * nf {
        let l = &links[i];
        let v = track_v[l.stage][l.track % 2].unwrap_or(vs[l.stage % vs.len()].as_i64().unwrap());
        let g = gr.get(l.stage).and_then(|x| x.as_i64()).unwrap_or(0);
        // elevation in 1/100 m: grade in 1e-4, length in m => rise = g * len / 100 (cm); reverse links mirror it
        let rise = g * l.len / 100 * if i > nf { -1 } else { 1 };
        out.push(json!({"len": l.len, "flip": flip(i), "next": l.next, "next_alt": l.next_alt,
            "prev": l.prev, "prev_alt": l.prev_alt, "lockout": l.lockout,
            "elevs": [[0, 0], [l.len, rise]],
            "head": head, "rs": [[0, l.len, v]]}));
    }
    // [branch 0, branch 1] at either end (equal when the end is not a junction)
    let west: Vec<usize> = fwd[0].iter().map(|t| t[0]).collect();
    let east: Vec<usize> = fwd.last().unwrap().iter().map(|t| *t.last().unwrap()).collect();
    let w2 = [west[0] as u32, *west.last().unwrap() as u32];
    let e2 = [east[0] as u32, *east.last().unwrap() as u32];
    (
        // metres for offsets, m/s for speeds, centimetres for elevations
        json!({"oscale": 1, "vscale": 1, "escale": 100, "links": out}),
        w2,                                                         // east-bound origins
        e2,                                                         // east-bound destinations
        [flip(e2[0] as usize) as u32, flip(e2[1] as usize) as u32], // west-bound origins
        [flip(w2[0] as usize) as u32, flip(w2[1] as usize) as u32], // west-bound destinations
    )
}

/// Diamond crossing: two independent single-track lines A and B of three links each whose middle links cross
/// (declared mutually exclusive through link_idxs_lockout, both directions). Descriptor:
/// {"topo":"diamond","a":[l1,l2,l3],"b":[l1,l2,l3],"v":[va,vb],"trains":[{"line":0|1,"dir":..,..}]}
/// Returns (netdesc, per line [east orig, east dest, west orig, west dest]).
fn diamond(d: &Value) -> (Value, [[u32; 4]; 2]) {
    let a = ga(d, "a");
    let b = ga(d, "b");
    let vs = ga(d, "v");
    let flip = |i: usize| 13 - i;
    let mut out = vec![];
    for i in 1..=12usize {
        let f = if i <= 6 { i } else { flip(i) }; // forward twin
        let line = (f - 1) / 3;
        let pos = (f - 1) % 3;
        let len = if line == 0 { &a[pos] } else { &b[pos] }.as_i64().unwrap();
        let v = vs[line % vs.len()].as_i64().unwrap();
        let (next, prev) = if i <= 6 {
            (if pos < 2 { i + 1 } else { 0 }, if pos > 0 { i - 1 } else { 0 })
        } else {
            (if pos > 0 { flip(f - 1) } else { 0 }, if pos < 2 { flip(f + 1) } else { 0 })
        };
        // the two crossing links (2 and 5) and their flips lock each other out
        let lockout: Vec<usize> = if pos == 1 {
            let other = if line == 0 { 5 } else { 2 };
            vec![other, flip(other)]
        } else {
            vec![]
        };
        out.push(json!({"len": len, "flip": flip(i), "next": next, "next_alt": 0, "prev": prev, "prev_alt": 0,
            "lockout": lockout, "elevs": [[0, 0], [len, 0]], "head": true, "rs": [[0, len, v]]}));
    }
    (
        json!({"oscale": 0.01, "vscale": 1, "escale": 100, "links": out}),
        [[1, 3, flip(3) as u32, flip(1) as u32], [4, 6, flip(6) as u32, flip(4) as u32]],
    )
}


/// General network: forward segments with explicit linking; the reverse link of forward id i is 2n+1-i.
fn graph(d: &Value) -> Value {
    let segs = ga(d, "segs");
    let n = segs.len();
    let flip = |i: usize| -> usize { if i == 0 { 0 } else { 2 * n + 1 - i } };
    let head = d.get("head").and_then(|x| x.as_bool()).unwrap_or(true);
    let g = |s: &Value, k: usize| s[k].as_i64().unwrap() as usize;
    let mut out = vec![];
    for i in 1..=2 * n {
        let f = if i <= n { i } else { flip(i) };
        let s = &segs[f - 1];
        let (len, v) = (s[0].as_i64().unwrap(), s[1].as_i64().unwrap());
        let (prev, prev_alt, next, next_alt) = if i <= n {
            (g(s, 2), g(s, 3), g(s, 4), g(s, 5))
        } else {
            (flip(g(s, 4)), flip(g(s, 5)), flip(g(s, 2)), flip(g(s, 3)))
        };
        let mut lockout = vec![];
        for l in s[6].as_array().unwrap() {
            let l = l.as_i64().unwrap() as usize;
            lockout.push(l);
            lockout.push(flip(l));
        }
        out.push(json!({"len": len, "flip": flip(i), "next": next, "next_alt": next_alt, "prev": prev,
            "prev_alt": prev_alt, "lockout": lockout, "elevs": [[0, 0], [len, 0]], "head": head, "rs": [[0, len, v]]}));
    }
    json!({"oscale": 1, "vscale": 1, "escale": 100, "links": out})
}

/// Incremental builder of "graph" descriptors (forward segment ids, 1-based).
#[derive(Default)]
struct NB {
    segs: Vec<(i64, i64, usize, usize, usize, usize, Vec<usize>)>,
}
impl NB {
    fn add(&mut self, len: i64, v: i64) -> usize {
        self.segs.push((len, v, 0, 0, 0, 0, vec![]));
        self.segs.len()
    }
    /// links `a` -> `b` (b becomes a's next / next_alt, a becomes b's prev / prev_alt)
    fn connect(&mut self, a: usize, b: usize) {
        let sa = &mut self.segs[a - 1];
        if sa.4 == 0 { sa.4 = b } else { sa.5 = b }
        let sb = &mut self.segs[b - 1];
        if sb.2 == 0 { sb.2 = a } else { sb.3 = a }
    }
    fn ext(&mut self, a: usize, len: i64, v: i64) -> usize {
        let b = self.add(len, v);
        self.connect(a, b);
        b
    }
    fn lock(&mut self, a: usize, b: usize) {
        self.segs[a - 1].6.push(b);
        self.segs[b - 1].6.push(a);
    }
    /// passing siding after `a`: each track switch link (foul) + body + switch link, then a main link; returns the main
    fn siding(&mut self, a: usize, body_p: i64, body_a: i64, foul: i64, v_p: i64, v_a: i64, lock: bool, main: i64, v_m: i64) -> usize {
        let p1 = self.ext(a, foul, v_p);
        let a1 = self.ext(a, foul + 1, v_a);
        let p2 = self.ext(p1, body_p, v_p);
        let p3 = self.ext(p2, foul, v_p);
        let a2 = self.ext(a1, body_a, v_a);
        let a3 = self.ext(a2, foul + 1, v_a);
        let m = self.ext(p3, main, v_m);
        self.connect(a3, m);
        if lock {
            self.lock(p1, a1);
            self.lock(p3, a3);
        }
        m
    }
    fn flip(&self, i: usize) -> usize {
        2 * self.segs.len() + 1 - i
    }
    fn segs_json(&self) -> Value {
        Value::Array(self.segs.iter().map(|s| json!([s.0, s.1, s.2, s.3, s.4, s.5, s.6])).collect())
    }
}

fn t_ms(v: &Value) -> Value {
    match v.as_f64() {
        Some(x) => qi(x, MS),
        None => json!(INF), // null = non-finite
    }
}
fn kind_of(s: &str) -> i64 {
    match s {
        "Arrive" => 1,
        "Clear" => 2,
        _ => 3,
    }
}

fn project_snapshot(js: &str) -> Value {
    let v: Value = serde_json::from_str(js).unwrap_or(Value::Null);
    let auths = v[0].as_array().cloned().unwrap_or_default();
    let blocked = v[1].as_array().cloned().unwrap_or_default();
    let trains = v[2].as_array().cloned().unwrap_or_default();
    let auth: Vec<Value> = auths
        .iter()
        .skip(1)
        .map(|la| {
            Value::Array(
                la.as_array()
                    .unwrap()
                    .iter()
                    .filter(|a| !a["train_idx"].is_null())
                    .map(|a| {
                        json!([a["train_idx"], t_ms(&a["arrive_entry"]), t_ms(&a["arrive_exit"]),
                               t_ms(&a["clear_entry"]), t_ms(&a["clear_exit"]),
                               if a["offset_back"].is_null() {0} else {1}])
                    })
                    .collect(),
            )
        })
        .collect();
    let blk: Vec<Value> = blocked.iter().skip(1).map(|b| json!(b.as_u64().unwrap_or(0))).collect();
    let mut plan = vec![];
    let mut fixed = vec![];
    let mut free = vec![];
    let mut isblk = vec![];
    let mut blocking = vec![];
    for t in trains.iter().skip(1) {
        let p: Vec<Value> = t["disp_path"]
            .as_array()
            .unwrap()
            .iter()
            .map(|n| {
                json!([kind_of(n["link_event"]["est_type"].as_str().unwrap_or("Fake")),
                       n["link_event"]["link_idx"], t_ms(&n["time_pass"]), n["est_idx"]])
            })
            .collect();
        plan.push(Value::Array(p));
        fixed.push(json!(t["disp_node_idx_fixed"].as_u64().unwrap_or(0)));
        free.push(json!(t["disp_node_idx_free"].as_u64().unwrap_or(0)));
        isblk.push(json!(t["is_blocked"].as_bool().unwrap_or(false)));
        blocking.push(t["link_idxs_blocking"].clone());
    }
    json!({"auth": auth, "blocked": blk, "plan": plan, "fixed": fixed, "free": free,
           "isblk": isblk, "blocking": blocking})
}

fn exec(desc: &Value, tr: &mut Tracer) -> anyhow::Result<()> {
    let is_diamond = desc.get("topo").and_then(|x| x.as_str()) == Some("diamond");
    let is_graph = desc.get("topo").and_then(|x| x.as_str()) == Some("graph");
    let (netd, eo, ed, wo, wd, lines) = if is_graph {
        (graph(desc), [0u32; 2], [0u32; 2], [0u32; 2], [0u32; 2], [[0u32; 4]; 2])
    } else if is_diamond {
        let (n, l) = diamond(desc);
        (n, [0u32; 2], [0u32; 2], [0u32; 2], [0u32; 2], l)
    } else {
        let (n, eo, ed, wo, wd) = corridor(desc);
        (n, eo, ed, wo, wd, [[0u32; 4]; 2])
    };
    let network = match build::network(&netd) {
        Ok(n) => n,
        Err(e) => {
            tr.emit(json!({"ev":"NetRejected","msg":errtxt(&e)}));
            return Ok(());
        }
    };
    let links: &[Link] = network.as_ref();
    let nl = links.len() - 1;
    // header: the network as the spec sees it (link k at position k)
    {
        let v = serde_json::to_value(&network)?;
        let ls = v.as_array().unwrap();
        let col = |k: &str| -> Vec<Value> { ls.iter().skip(1).map(|l| l[k].clone()).collect() };
        tr.emit(json!({"ev":"Hdr","nl":nl,"flip":col("idx_flip"),"next":col("idx_next"),
            "next_alt":col("idx_next_alt"),"prev":col("idx_prev"),"prev_alt":col("idx_prev_alt"),
            "lock":col("link_idxs_lockout"),
            "len_dm": ls.iter().skip(1).map(|l| qi(l["length"].as_f64().unwrap(), 10.0)).collect::<Vec<_>>(),
            "spacing": (8.0*60.0*MS) as i64, "overlap": (30.0*MS) as i64}));
    }
    // trains
    let rv: RailVehicle = RailVehicle::from_file(build::resources_dir().join("rolling_stock/Manifest_Loaded.yaml"))?;
    let mut sims: Vec<SpeedLimitTrainSim> = vec![];
    let mut nets: Vec<EstTimeNet> = vec![];
    let mut tinfo = vec![];
    for (ti, t) in ga(desc, "trains").iter().enumerate() {
        let east = t.get("dir").and_then(|x| x.as_str()) != Some("W");
        // "bo" / "bd": branch at a junction end used as origin / destination: 0 | 1 | 2 = both branches
        // (a train with two origin / destination links; 0 when absent)
        let bo = t.get("bo").and_then(|x| x.as_u64()).unwrap_or(0) as usize;
        let bd = t.get("bd").and_then(|x| x.as_u64()).unwrap_or(0) as usize;
        let pickb = |two: [u32; 2], b: usize| -> Vec<u32> {
            if b >= 2 && two[0] != two[1] {
                vec![two[0], two[1]]
            } else {
                vec![two[b % 2]]
            }
        };
        let ids = |k: &str| -> Vec<u32> { ga(t, k).iter().map(|x| x.as_u64().unwrap() as u32).collect() };
        let (os_, ds_) = if is_graph {
            (ids("orig"), ids("dest"))
        } else if is_diamond {
            let l = lines[t.get("line").and_then(|x| x.as_u64()).unwrap_or(0) as usize % 2];
            if east { (vec![l[0]], vec![l[1]]) } else { (vec![l[2]], vec![l[3]]) }
        } else if east {
            (pickb(eo, bo), pickb(ed, bd))
        } else {
            (pickb(wo, bo), pickb(wd, bd))
        };
        // per-train maximum speed (m/s): slower leaders, faster followers
        let mut rv = rv.clone();
        if let Some(v) = t.get("vmax").and_then(|x| x.as_f64()) {
            rv.speed_max = uc::MPS * v;
        }
        let lm = build::location_map(&os_, &ds_);
        let tc = TrainConfig::new(
            vec![rv.clone()],
            std::collections::HashMap::from([(rv.car_type.clone(), gi(t, "ncars") as u32)]),
            TrainType::Freight,
            None,
            None,
            None,
        )?;
        let init = InitTrainState::new(Some(uc::S * gf(t, "depart")), None, None);
        let tsb = TrainSimBuilder::new(
            format!("T{}", ti + 1),
            tc,
            Consist::default(),
            Some("A".into()),
            Some("B".into()),
            Some(init),
        );
        let sim = tsb.make_speed_limit_train_sim(&lm, None, None, None)?;
        tinfo.push(json!({"origs":os_,"dests":ds_,"depart": qi(gf(t, "depart"), MS),
                          "len_dm": qi(sim.state.length.value, 10.0)}));
        sims.push(sim);
    }
    tr.emit(json!({"ev":"Trains","trains":tinfo}));
    for (ti, sim) in sims.iter().enumerate() {
        match make_est_times(sim.clone(), &network) {
            Ok((net, _)) => {
                let mut q = Q::new();
                let nodes: Vec<Value> = net
                    .val
                    .iter()
                    .map(|e| {
                        let ev = serde_json::to_value(e.link_event).unwrap();
                        json!([q.q(e.time_sched.value, MS), q.q(e.time_to_next.value, MS),
                               q.q(e.dist_to_next.value, 10.0), e.idx_next, e.idx_next_alt, e.idx_prev,
                               e.idx_prev_alt, ev["link_idx"], kind_of(ev["est_type"].as_str().unwrap_or("Fake")),
                               // start-up allowance the dispatcher adds at this node: speed / acc_startup (0.5 mph/s)
                               qi(e.speed.value / (0.5 * 0.44704), MS)])
                    })
                    .collect();
                tr.emit(json!({"ev":"Net","train":ti+1,"nodes":nodes,"exact":q.exact}));
                nets.push(net);
            }
            Err(e) => {
                tr.emit(json!({"ev":"EstErr","train":ti+1,"msg":errtxt(&e)}));
                return Ok(());
            }
        }
    }
    // dispatch with the observer
    tr.emit(json!({"ev":"Phase","p":"dispatch"}));
    tr.flush();
    let snaps: Rc<RefCell<Vec<(String, usize, String)>>> = Rc::new(RefCell::new(vec![]));
    let s2 = snaps.clone();
    verif_hook::set(Some(Box::new(move |ev, mover, js| {
        s2.borrow_mut().push((ev.to_string(), mover, js));
    })));
    let res = std::panic::catch_unwind(std::panic::AssertUnwindSafe(|| {
        run_dispatch(&network, &sims, nets, false, false)
    }));
    verif_hook::set(None);
    if matches!(res, Ok(Ok(_))) {
        tr.emit(json!({"ev":"Phase","p":"dispatch_ok"}));
    }
    for (ev, mover, js) in snaps.borrow().iter() {
        let mut p = project_snapshot(js);
        let o = p.as_object_mut().unwrap();
        o.insert("ev".into(), json!("Snap"));
        o.insert("kind".into(), json!(ev));
        o.insert("mover".into(), json!(mover));
        tr.emit(p);
    }
    match res {
        Ok(Ok(plan)) => {
            let p: Vec<Value> = plan
                .iter()
                .map(|tp| Value::Array(tp.iter().map(|x| json!([x.link_idx.idx(), qi(x.time.value, MS)])).collect()))
                .collect();
            tr.emit(json!({"ev":"Result","ok":true,"plan":p,"msg":""}));
        }
        Ok(Err(e)) => {
            let msg = errtxt(&e);
            // train indices named by the error
            let named: Vec<i64> = msg
                .split(|c: char| !c.is_ascii_digit())
                .filter_map(|s| s.parse::<i64>().ok())
                .filter(|x| *x >= 1 && (*x as usize) <= sims.len())
                .collect();
            tr.emit(json!({"ev":"Result","ok":false,"plan":[],"msg":msg,"named":named}));
        }
        Err(p) => std::panic::resume_unwind(p),
    }
    Ok(())
}


/// Composite networks in the general form. Families:
///  0 "yard lead": line X with a short crossing link xc, line Y whose ORIGIN link o (a yard lead) is declared mutually
///    exclusive with xc; Y trains depart around the time an X train holds xc
///  1 "converge": two branches A, B converging on a link shorter than the trains, then a crossing link (locked against a
///    crossing link of line Y), a main, an unlocked siding, a main; line Y: main, crossing, short link, LOCKED siding,
///    main; trains in all four relations (branch -> T end, T end -> branch, Y both ways)
///  2 "convoy": corridor with 2..4 sidings of three links per track; 3..4 trains following each other closely (long slow
///    ones ahead of a short fast one), sometimes an opposing train
fn gen_graph(r: &mut Rng, fam: i64, seed: u64, k: usize) -> Value {
    let mut nb = NB::default();
    let mut trains = vec![];
    let cars = [20i64, 40, 50, 80];
    let vm = [12i64, 20, 25, 30];
    let name;
    match fam {
        0 => {
            name = "yardlead";
            let vx = *r.pick(&[15i64, 20]);
            let x1 = nb.add(r.range(50, 120) * 100, vx);
            let xc = nb.ext(x1, r.range(2, 6) * 100, vx);
            let x3 = nb.ext(xc, r.range(50, 120) * 100, vx);
            let o = nb.add(r.range(16, 25) * 100, 20); // longer than the longest train (an origin link shorter than its train is rejected)
            let y2 = nb.ext(o, r.range(100, 140) * 100, 20);
            let y3 = nb.ext(y2, r.range(40, 80) * 100, 20);
            nb.lock(o, xc);
            // X trains (either direction), then Y trains departing while an X train is around the crossing
            let nx = r.range(1, 2);
            let mut t_cross = vec![];
            for i in 0..nx {
                let dep = 120 + i * *r.pick(&[0i64, 300, 600, 900]);
                let east = r.chance(2, 3);
                let n = *r.pick(&cars);
                let v = *r.pick(&[12i64, 20]);
                let run = nb.segs[if east { x1 } else { x3 } - 1].0 / v.min(vx);
                t_cross.push(dep + run);
                trains.push(if east {
                    json!({"orig":[x1],"dest":[x3],"depart":dep,"ncars":n,"vmax":v})
                } else {
                    json!({"orig":[nb.flip(x3)],"dest":[nb.flip(x1)],"depart":dep,"ncars":n,"vmax":v})
                });
            }
            for _ in 0..r.range(1, 2) {
                let dep = (*r.pick(&t_cross) + r.range(-60, 240)).max(120);
                let n = *r.pick(&cars);
                trains.push(if r.chance(3, 4) {
                    json!({"orig":[o],"dest":[y3],"depart":dep,"ncars":n,"vmax":*r.pick(&vm)})
                } else {
                    json!({"orig":[nb.flip(y3)],"dest":[nb.flip(o)],"depart":120 + r.range(0, 300),"ncars":n,"vmax":*r.pick(&vm)})
                });
            }
        }
        1 => {
            name = "converge";
            let a1 = nb.add(r.range(60, 100) * 100, 20);
            let a2 = nb.ext(a1, r.range(30, 50) * 100, 20);
            let b1 = nb.add(r.range(60, 90) * 100, 20);
            let b2 = nb.ext(b1, r.range(30, 50) * 100, *r.pick(&[15i64, 20]));
            let t1 = nb.ext(a2, r.range(2, 5) * 100, 20);
            nb.connect(b2, t1);
            let tc = nb.ext(t1, r.range(3, 5) * 100, 20);
            let t2 = nb.ext(tc, r.range(30, 60) * 100, 20);
            let t3 = nb.siding(t2, 2500, 2500, 150, 20, 12, false, 9000, 20);
            let y1 = nb.add(r.range(90, 120) * 100, 20);
            let yc = nb.ext(y1, 400, 20);
            let y2 = nb.ext(yc, r.range(3, 8) * 100, 20);
            let y3 = nb.siding(y2, 2500, 2500, 150, 20, 12, true, 9000, 20);
            nb.lock(tc, yc);
            let rel = [
                (vec![a1], vec![t3]), (vec![b1], vec![t3]),
                (vec![nb.flip(t3)], vec![nb.flip(a1)]), (vec![nb.flip(t3)], vec![nb.flip(b1)]),
                (vec![y1], vec![y3]), (vec![nb.flip(y3)], vec![nb.flip(y1)]),
            ];
            // sub = 0 (three in six): trains of both branches converging on the short link, sometimes one coming back;
            // sub = 1 (two in six): line Y only, two or three trains leaving the end next to the locked siding against
            // one coming the other way; sub = 2: any relation
            let sub = match r.range(0, 5) { 0..=2 => 0, 3..=4 => 1, _ => 2 };
            let nt = r.range(3, 4);
            for j in 0..nt {
                let i = match sub {
                    0 => if j + 1 == nt && r.chance(1, 3) { r.range(2, 3) } else { r.range(0, 1) },
                    1 => if j == 0 { 4 } else { 5 },
                    _ => r.range(0, 5),
                } as usize;
                let (o, d) = rel[i].clone();
                trains.push(json!({"orig":o,"dest":d,"depart":120 + 60 * r.range(0, 20),"ncars":*r.pick(&cars),"vmax":*r.pick(&vm)}));
            }
            if r.chance(1, 2) {
                let k = r.range(1, trains.len() as i64 - 1) as usize;
                trains.rotate_left(k);
            }
        }
        3 => {
            // two branches that take nearly the same time: one short and slow from its first metre on, the other long and
            // fast - the branch whose first event after the split comes later is not the one that needs the split earlier
            name = "race";
            let first = nb.add(r.range(80, 120) * 100, 20);
            let (vs, vf) = (*r.pick(&[6i64, 8, 10]), *r.pick(&[20i64, 25]));
            let ls = r.range(20, 40) * 100;
            // running time over the slow branch: its length (plus the train's own length when the restriction is a
            // tail-end one) at the restricted speed, plus braking into it / accelerating out of it; the fast branch is
            // sized to take that long give or take a few minutes
            let lf = ((ls / vs + r.range(-150, 350)) * vf).max(1500);
            let main = r.range(90, 140) * 100;
            let m = if r.chance(2, 3) {
                nb.siding(first, ls, lf, 150, vs, vf, false, main, 20)
            } else {
                nb.siding(first, lf, ls, 150, vf, vs, false, main, 20)
            };
            for i in 0..r.range(1, 2) {
                trains.push(json!({"orig":[first],"dest":[m],"depart":120 + i * *r.pick(&[240i64, 600]),
                                   "ncars":*r.pick(&cars),"vmax":*r.pick(&[25i64, 30])}));
            }
            if r.chance(1, 3) {
                trains.push(json!({"orig":[nb.flip(m)],"dest":[nb.flip(first)],"depart":120 + 60 * r.range(0, 20),"ncars":*r.pick(&cars),"vmax":25}));
            }
        }
        4 => {
            // a split directly behind a long link: primary branch short and restricted to 8 m/s, alternate branch long and
            // unrestricted, a run of plain links behind the join; the alternate's length sweeps the range in which the two
            // branches take about the same time for a long train
            name = "racesweep";
            let first = nb.add(8000, 40);
            let slow = nb.ext(first, 3000, 8);
            let fast = nb.ext(first, 9000 + 250 * (k as i64 % 48), 40);
            let mut m = nb.ext(slow, 3000, 40);
            nb.connect(fast, m);
            for _ in 0..3 {
                m = nb.ext(m, 3000, 40);
            }
            m = nb.ext(m, 25000, 40);
            trains.push(json!({"orig":[first],"dest":[m],"depart":*r.pick(&[120i64, 5000]),"ncars":*r.pick(&[80i64, 100]),"vmax":*r.pick(&[25i64, 30])}));
        }
        _ => {
            name = "convoy";
            let ks = *r.pick(&[2i64, 2, 3]);
            let lock = r.chance(1, 3);
            let first = nb.add(r.range(90, 140) * 100, 20);
            let mut m = first;
            for _ in 0..ks {
                let body = *r.pick(&[1500i64, 2500, 2500]);
                m = nb.siding(m, body, body, 150, 20, 12, lock, r.range(90, 140) * 100, 20);
            }
            let nf = r.range(3, 4);
            for i in 0..nf {
                // long slow trains ahead, a short fast one somewhere behind
                let slow = i + 1 < nf || r.chance(1, 4);
                let (n, v) = if slow { (*r.pick(&[60i64, 80, 80]), 12) } else { (*r.pick(&[20i64, 50]), *r.pick(&[20i64, 25])) };
                trains.push(json!({"orig":[first],"dest":[m],"depart":120 + i * *r.pick(&[120i64, 240, 240, 480]),"ncars":n,"vmax":v}));
            }
            if r.chance(1, 3) {
                trains.push(json!({"orig":[nb.flip(m)],"dest":[nb.flip(first)],"depart":120 + 60 * r.range(0, 20),"ncars":*r.pick(&cars),"vmax":20}));
            }
            if r.chance(1, 2) {
                let k = r.range(1, trains.len() as i64 - 1) as usize;
                trains.rotate_left(k);
            }
        }
    }
    json!({"src":"gen","seed":seed,"k":k,"topo":"graph","family":name,"head":r.chance(1, 2),
           "segs":nb.segs_json(),"trains":trains,"stages":[["M", 400]],"lockouts":true})
}

fn gen(seed: u64, n: usize, tier: &str) -> Vec<Value> {
    let mut out = vec![];
    let maxtr = if tier == "quick" { 5 } else { 7 };
    for k in 0..n {
        let mut r = Rng::new(seed.wrapping_mul(7_000_003).wrapping_add(k as u64));
        // eleven scenarios in twenty are composite networks (fixed quotas per block of twenty: 2 yard lead, 5 converging
        // junction + crossing, 2 convoy, 2 racing branches)
        let fam = match k % 20 { 0 | 1 => 0, 2..=6 => 1, 7 | 8 => 2, 9 | 10 => 3, _ => -1 };
        // AVH_ONLY_FAM=<n>: every generated scenario from one composite family (mutation trials of that family)
        let fam = std::env::var("AVH_ONLY_FAM").ok().and_then(|x| x.parse::<i64>().ok()).unwrap_or(fam);
        if fam >= 0 {
            out.push(gen_graph(&mut r, fam, seed, k));
            continue;
        }
        let sid = r.range(0, 3) as usize;
        let mut stages = vec![];
        for i in 0..=sid {
            // a main stretch of 1..2 links, 3..30 km each (the dispatcher commits 10-mile chunks: meets need long mains)
            for _ in 0..r.range(1, 2) {
                stages.push(json!(["M", if r.chance(1, 2) { r.range(30, 120) } else { r.range(120, 300) }]));
            }
            if i < sid {
                // 2..4.5 km; one siding in three has different speeds on its two tracks (often the PRIMARY one slower)
                if r.chance(1, 3) {
                    let (a, b) = (*r.pick(&[6i64, 8, 10]), *r.pick(&[16i64, 20, 24]));
                    if r.chance(2, 3) {
                        stages.push(json!(["S", r.range(20, 45), a, b]));
                    } else {
                        stages.push(json!(["S", r.range(20, 45), b, a]));
                    }
                } else {
                    stages.push(json!(["S", r.range(20, 45)]));
                }
            }
        }
        if stages.len() == 1 {
            stages.push(json!(["M", r.range(30, 150)]));
        }
        // routes of at most 5 miles + train length are the known class F-C15-3 (materialised in known/):
        // keep every route at least 10.5 km long
        let total: i64 = stages.iter().map(|s| s[1].as_i64().unwrap()).sum();
        if total < 105 {
            stages.push(json!(["M", 105 - total + r.range(0, 40)]));
        }
        let jw = r.chance(1, 4);
        let je = r.chance(1, 4);
        if jw {
            stages.insert(0, json!(["J", r.range(20, 60)]));
        }
        if je {
            stages.push(json!(["J", r.range(20, 60)]));
        }
        let v: Vec<i64> = (0..stages.len()).map(|_| r.range(8, 24)).collect();
        let grade: Vec<i64> = (0..stages.len()).map(|_| r.range(-30, 30)).collect(); // <= 0.3 %
        let nt = r.range(1, maxtr);
        let mut trains = vec![];
        let mut t = 0i64;
        for _ in 0..nt {
            // departures: ties, short gaps (below spacing), long gaps
            t += *r.pick(&[0i64, 0, 60, 240, 600, 1800, 3600]);
            if t < 120 { t = 120; } // departures near 0 are the known class F-C15-1 (materialised in known/)
            // one train in three is slow (5..12 m/s) and one in eight very long (up to 150 cars = 2.7 km)
            let ncars = if r.chance(1, 8) { r.range(100, 150) } else { r.range(15, 90) };
            let mut tr = json!({"dir": if r.chance(1,2) {"E"} else {"W"}, "depart": t, "ncars": ncars,
                                "bo": r.range(0, 2), "bd": r.range(0, 2), "line": r.range(0, 1)});
            if r.chance(1, 3) {
                tr["vmax"] = json!(*r.pick(&[5i64, 8, 12]));
            }
            trains.push(tr);
        }
        // one scenario in three: the train list is rotated, so that departure order differs from index order (the
        // planner indexes trains in list order; a higher-index train may finish before a lower-index one departs)
        if r.chance(1, 3) && trains.len() >= 2 {
            let k = r.range(1, trains.len() as i64 - 1) as usize;
            trains.rotate_left(k);
        }
        // one scenario in four: a single-track link only 0..15 m longer than one of the trains (its Clear event and the
        // Arrive event of the next link then fall into the same simulation step); never before a first / after a last "J"
        if r.chance(1, 4) && stages.len() >= 2 {
            let n = trains[r.range(0, trains.len() as i64 - 1) as usize]["ncars"].as_i64().unwrap();
            let lm = n * 18 + r.range(0, 15);
            let pos = r.range(1, stages.len() as i64 - 1) as usize;
            stages.insert(pos, json!(["M", lm / 100, lm % 100]));
        }
        if r.chance(1, 6) {
            // diamond crossing with a long crossing link; trains of the two lines arrive close together
            let mut ts = trains.clone();
            for (i, t) in ts.iter_mut().enumerate() {
                t["depart"] = json!(120 + (i as i64) * *r.pick(&[0i64, 40, 90, 300]));
            }
            let a1 = r.range(30, 80);
            out.push(json!({"src":"gen","seed":seed,"k":k,"topo":"diamond","stages":[["M", 400]],"lockouts":true,
                "a":[a1, r.range(15, 40), r.range(60, 120)],"b":[a1 + r.range(-6, 6), r.range(15, 40), r.range(60, 120)],
                "v":[r.range(8, 20), r.range(8, 20)],"trains":ts}));
            continue;
        }
        out.push(json!({"src":"gen","seed":seed,"k":k,"stages":stages,"lockouts":r.chance(1,2),"foul":2,
            "v":v,"grade":grade,"trains":trains}));
    }
    out
}

fn main() {
    main_with(gen, exec);
}
