//! Checkpoint harness (C17): every exported model type is taken through a *schedule* over
//! {step, yaml, json, bin} (emitted by Checkpoint.tla or by `gen`): `step` advances the real object
//! by one simulation step (static types: one *use*), a format name saves the object through the
//! public SerdeAPI and continues with the reloaded copy. The same case is first run without any
//! save/load (the reference trajectory). Logged, integers only:
//!   Ref      {traj:[[hi,lo]..], oks:[bool..]}       digests of the checkpoint-free run
//!   Step     {k, ok, d:[hi,lo], dev}                digest after step k, deviation from ref[k]
//!   SaveLoad {fmt, via, ok, stage, errclass, d0, d1, ok2, d2, eq_orig, eq_again, load_ulps,
//!             skipped, nonfinite}
//! Digest = 60 bits of the 64-bit FNV-1a hash of the canonical tree (sorted keys, floats by bit
//! pattern, NaN canonical) of serde_yaml::to_value(obj) — YAML values keep +-inf / NaN apart, which
//! serde_json::Value does not. `d` of a Step is the digest of the *observable projection*: every
//! `state`, `history` and `i` sub-tree (static types: the result of the use); d0/d1/d2 are digests
//! of the whole object before / after one / after two round trips.
//! `dev` = ceil(2^40 * max over float leaves |resumed - ref| / scale(class of the leaf)), scale =
//! the largest magnitude of that class (key prefix: pwr, energy, speed, ...) in the reference run;
//! INF when the trees differ in structure, in a non-float leaf or where the reference class is 0.
//! `load_ulps` = largest distance in units in the last place between a number of the saved object
//! and of the object deserialised *without* init() (serde level), INF on structural mismatch.
//!
//! Descriptor: {"kind":K, "sched":["step"|"yaml"|"json"|"bin" | [action, medium]..], "scale":"toy"|"real",
//!              "size":"small"|"large", "pre":steps before the schedule (default: what the size class means),
//!              "dem":[eighths of the published maximum..], "p":{builder parameters},
//!              "via":"mem"|"file"|"over"|"reader"|"alias"|"mix" (medium of the entries that name none)}
//! Media (Checkpoint.tla): "mem" to_str/from_str, to_bincode/from_bincode; "reader" the same bytes through
//! from_reader; "file" to_file/from_file at a fresh path; "alias" another advertised spelling of the format (yml, YAML,
//! .json, BIN.. as extension or format string); "over" to_file/from_file at the case's re-used path, which holds the
//! document of the object at the END of the checkpoint-free run (written with to_file before the first "over" of a
//! format). SaveLoad lines also carry bytes (file length after the write / serialised length), prev (file length
//! before the write), mem_bytes / mem_ok / dm (length, outcome, digest of the same object round-tripped in memory).
use altrios_core::consist::locomotive::locomotive_model::PowertrainType;
use altrios_core::consist::locomotive::loco_sim::LocomotiveSimulationVec;
use altrios_core::consist::LocoTrait;
use altrios_core::prelude::*;
use altrios_core::track::{import_locations, Location};
use altrios_core::traits::*;
use altrios_core::uc;
use avh::build;
use avh::common::*;
use serde::de::DeserializeOwned;
use serde_json::{json, Value};
use std::collections::HashMap;
use std::sync::OnceLock;

#[path = "../canon.rs"]
mod canon;
use canon::*;

// ---------------------------------------------------------------------------------------------
// one save/load through the public SerdeAPI

static TMP_N: std::sync::atomic::AtomicU64 = std::sync::atomic::AtomicU64::new(0);
fn tmp_path(ext: &str) -> std::path::PathBuf {
    let d = std::env::temp_dir().join(format!("avh-ckpt-{}", std::process::id()));
    let _ = std::fs::create_dir_all(&d);
    let n = TMP_N.fetch_add(1, std::sync::atomic::Ordering::Relaxed);
    d.join(format!("o{n}.{ext}"))
}
/// removes temp dirs left behind by harness processes that no longer exist (killed by the watchdog mid-case)
fn sweep_stale() {
    static ONCE: OnceLock<()> = OnceLock::new();
    ONCE.get_or_init(|| {
        if let Ok(rd) = std::fs::read_dir(std::env::temp_dir()) {
            for e in rd.flatten() {
                let name = e.file_name().to_string_lossy().to_string();
                if let Some(pid) = name.strip_prefix("avh-ckpt-") {
                    if pid.parse::<u32>().is_ok() && !std::path::Path::new(&format!("/proc/{pid}")).exists() {
                        let _ = std::fs::remove_dir_all(e.path());
                    }
                }
            }
        }
    });
}
fn tmp_cleanup() {
    let d = std::env::temp_dir().join(format!("avh-ckpt-{}", std::process::id()));
    let _ = std::fs::remove_dir_all(&d);
}

fn debug() -> bool {
    std::env::var("AVH_DEBUG").is_ok()
}

type Staged<T> = Result<T, (&'static str, anyhow::Error)>;

/// what one trip moved: serialised length, and the length of the file the document was written onto ("over")
#[derive(Default, Clone, Copy)]
struct Io {
    bytes: i64,
    prev: i64,
}
/// the path medium "over" re-uses within a case (one per format)
fn slot_path(fmt: &str) -> std::path::PathBuf {
    let d = std::env::temp_dir().join(format!("avh-ckpt-{}", std::process::id()));
    let _ = std::fs::create_dir_all(&d);
    d.join(format!("slot.{fmt}"))
}
/// the other advertised spellings of a format name
fn alias_of(fmt: &str, alt: u64) -> &'static str {
    match (fmt, alt % 3) {
        ("yaml", 0) => "yml",
        ("yaml", 1) => "YAML",
        ("yaml", _) => ".Yml",
        ("json", 0) => "JSON",
        ("json", 1) => ".json",
        ("json", _) => "Json",
        (_, 0) => "BIN",
        (_, 1) => ".bin",
        _ => "Bin",
    }
}
fn flen(p: &std::path::Path) -> i64 {
    std::fs::metadata(p).map(|m| m.len().min(1 << 29) as i64).unwrap_or(0)
}
fn file_trip<T: SerdeAPI>(x: &T, p: &std::path::Path, keep: bool, io: &mut Io) -> Staged<T> {
    io.prev = flen(p);
    let w = x.to_file(p).map_err(|e| ("ser", e));
    io.bytes = flen(p);
    let r = match w {
        Ok(()) => T::from_file(p).map_err(|e| ("de", e)),
        Err(e) => Err(e),
    };
    if !keep {
        let _ = std::fs::remove_file(p);
    }
    r
}
/// One save + load of `x` through the public SerdeAPI. `via`: "mem" (to_str / from_str, to_bincode / from_bincode),
/// "reader" (the same bytes read through from_reader), "file" (to_file / from_file at a fresh path), "over" (to_file /
/// from_file at the re-used path of the case, which already holds a document), "alias" (another advertised spelling of
/// the format: file extension when `alt` is even, format string of to_str / from_str / from_reader when odd).
fn rt_once<T: SerdeAPI>(x: &T, fmt: &str, via: &str, alt: u64, io: &mut Io) -> Staged<T> {
    match via {
        "file" => file_trip(x, &tmp_path(fmt), false, io),
        "over" => file_trip(x, &slot_path(fmt), true, io),
        "alias" if alt % 2 == 0 => file_trip(x, &tmp_path(alias_of(fmt, alt / 2).trim_start_matches('.')), false, io),
        "alias" | "reader" => {
            let (f1, f2) = if via == "alias" { (alias_of(fmt, alt / 2), alias_of(fmt, alt / 2 + 1)) } else { (fmt, fmt) };
            if fmt == "bin" {
                let b = x.to_bincode().map_err(|e| ("ser", e))?;
                io.bytes = b.len().min(1 << 29) as i64;
                T::from_reader(std::io::Cursor::new(b), f2).map_err(|e| ("de", e))
            } else {
                let s = x.to_str(f1).map_err(|e| ("ser", e))?;
                io.bytes = s.len().min(1 << 29) as i64;
                if via == "alias" {
                    <T as SerdeAPI>::from_str(&s, f2).map_err(|e| ("de", e))
                } else {
                    T::from_reader(std::io::Cursor::new(s.into_bytes()), f2).map_err(|e| ("de", e))
                }
            }
        }
        _ => {
            if fmt == "bin" {
                let b = x.to_bincode().map_err(|e| ("ser", e))?;
                io.bytes = b.len().min(1 << 29) as i64;
                T::from_bincode(&b).map_err(|e| ("de", e))
            } else {
                let s = x.to_str(fmt).map_err(|e| ("ser", e))?;
                io.bytes = s.len().min(1 << 29) as i64;
                <T as SerdeAPI>::from_str(&s, fmt).map_err(|e| ("de", e))
            }
        }
    }
}
/// deserialisation without init(): the serde level of the same format
fn raw_load<T: SerdeAPI + DeserializeOwned>(x: &T, fmt: &str) -> anyhow::Result<T> {
    Ok(match fmt {
        "yaml" => serde_yaml::from_str::<T>(&x.to_yaml()?)?,
        "json" => serde_json::from_str::<T>(&x.to_json()?)?,
        _ => bincode::deserialize::<T>(&x.to_bincode()?)?,
    })
}
fn errclass(msg: &str) -> &'static str {
    let m = msg.to_lowercase();
    if m.contains("deserialize_any") {
        "any"
    } else if m.contains("invalid type: null") {
        "null"
    } else if m.contains("unexpected end of file") || m.contains("failed to fill whole buffer") {
        "eof"
    } else if m.contains("invalid value") || m.contains("expected variant index") || m.contains("invalid tag") {
        "tag"
    } else if m.contains("sizelimit") || m.contains("size limit") {
        "limit"
    } else if m.contains("trailing characters") || m.contains("did not find expected") || m.contains("more than one document") {
        "trailing"
    } else if m.contains("utf-8") || m.contains("utf8") {
        "garbage"
    } else {
        "other"
    }
}

/// Two round trips of `x`; returns the event record and the once-reloaded object.
fn save_load<T: SerdeAPI + DeserializeOwned + PartialEq>(x: &T, fmt: &str, via: &str, alt: u64) -> (Value, Option<T>) {
    let t0 = tree(x);
    let mut io = Io::default();
    let first = rt_once(x, fmt, via, alt, &mut io);
    // the same document through memory: what is loaded must not depend on the medium
    let mut iom = io;
    let (mem_ok, dm) = if via == "mem" {
        (first.is_ok(), None)
    } else {
        iom = Io::default();
        match rt_once(x, fmt, "mem", alt, &mut iom) {
            Ok(v) => (true, Some(dig(&tree(&v)))),
            Err(_) => (false, None),
        }
    };
    let mut ev = json!({"ev":"SaveLoad","fmt":fmt,"via":via,"ok":false,"stage":"","errclass":"","msg":"",
        "bytes":io.bytes,"prev":io.prev,"mem_bytes":iom.bytes,"mem_ok":mem_ok,"dm":[0,0],
        "d0":dig(&t0),"d1":[0,0],"ok2":false,"d2":[0,0],"eq_orig":false,"eq_again":false,"load_ulps":INF,"again_ulps":INF,
        "raw_ok":false,"skipped":count_skipped(&t0),"nonfinite":count_nonfinite(&t0),"locations":count_locations(&t0),
        "colmis":count_colmis(&t0)});
    let x1 = match first {
        Ok(v) => v,
        Err((stage, e)) => {
            let m = errtxt(&e);
            ev["stage"] = json!(stage);
            ev["errclass"] = json!(errclass(&m));
            ev["msg"] = json!(m);
            return (ev, None);
        }
    };
    ev["ok"] = json!(true);
    let t1 = tree(&x1);
    ev["d1"] = dig(&t1);
    ev["dm"] = dm.unwrap_or_else(|| dig(&t1));
    ev["eq_orig"] = json!(*x == x1);
    if let Ok(raw) = raw_load(x, fmt) {
        ev["raw_ok"] = json!(true);
        let tr = tree(&raw);
        let u = ulps(&t0, &tr);
        ev["load_ulps"] = json!(u);
        if u > 0 && (fmt != "json" || u > 1 || debug()) {
            ev["diff_raw"] = json!(diff_of(&t0, &tr));
        }
    }
    match rt_once(&x1, fmt, via, alt + 1, &mut Io::default()) {
        Ok(x2) => {
            ev["ok2"] = json!(true);
            let t2 = tree(&x2);
            ev["d2"] = dig(&t2);
            ev["eq_again"] = json!(x1 == x2);
            ev["again_ulps"] = json!(ulps(&t1, &t2));
            if t1 != t2 {
                ev["diff_again"] = json!(diff_of(&t1, &t2));
            }
        }
        Err((stage, e)) => {
            let m = errtxt(&e);
            ev["stage"] = json!(format!("{stage}2"));
            ev["errclass"] = json!(errclass(&m));
            ev["msg"] = json!(m);
        }
    }
    (ev, Some(x1))
}

// ---------------------------------------------------------------------------------------------
// subjects

#[derive(Clone)]
struct Ctx {
    net: Network,
    route: Vec<LinkIdx>,
}

#[derive(Clone, Copy, PartialEq)]
enum Comp {
    Fc,
    Gen,
    Edrv,
    Res,
}

#[allow(clippy::large_enum_variant)]
#[derive(Clone)]
enum Subj {
    Comp(Locomotive, Comp),
    Loco(Locomotive),
    Con(Consist),
    LocoSim(LocomotiveSimulation),
    LocoSimVec(LocomotiveSimulationVec),
    ConSim(ConsistSimulation),
    Sss(SetSpeedTrainSim),
    Slts(Box<SpeedLimitTrainSim>),
    Tpc(PathTpc, Ctx),
    TpcFin(PathTpc),
    Pt(PowerTrace),
    St(SpeedTrace),
    Tc(TrainConfig),
    Tsb(TrainSimBuilder, Ctx),
    Net(Network, Ctx, TrainParams),
    Etn(EstTimeNet),
    Loc(Location),
    Tlp(TimedLinkPath),
    Rv(RailVehicle),
    Lp(LinkPath),
}

fn dem_at(desc: &Value, k: usize) -> i64 {
    const D: [i64; 8] = [4, 8, 2, 0, 6, -2, 1, 5];
    // a unit with a raised baseline transient limit is driven from cold with low demands, so that the baseline
    // (pwr_out_max_init), not the ramp from the last brake power, is what binds in the steps after a checkpoint
    const LOW: [i64; 8] = [1, 0, 2, 1, 0, 1, 3, 0];
    let low = desc["kind"].as_str().map(|k| k.ends_with(".init40")).unwrap_or(false);
    match desc.get("dem").and_then(|x| x.as_array()) {
        Some(a) if !a.is_empty() && !low => a[k % a.len()].as_i64().unwrap_or(4),
        _ if low => LOW[k % LOW.len()],
        _ => D[k % D.len()],
    }
}

/// `boost` > 1 asks for more than the published (transient) maximum: only a unit with
/// assert_limits = false tolerates that
fn loco_step(l: &mut Locomotive, e8: i64, dt: f64, boost: f64) -> anyhow::Result<()> {
    let dt = uc::S * dt;
    l.set_pwr_aux(Some(true));
    l.set_cur_pwr_max_out(None, dt)?;
    let req = if e8 >= 0 {
        l.state.pwr_out_max * (e8 as f64 / 8.0) * boost
    } else {
        l.state.pwr_regen_max * (e8 as f64 / 8.0)
    };
    l.solve_energy_consumption(req, dt, Some(true))?;
    l.save_state();
    l.step();
    Ok(())
}
fn consist_step(c: &mut Consist, e8: i64, dt: f64) -> anyhow::Result<()> {
    let dt = uc::S * dt;
    c.set_pwr_aux(Some(true))?;
    c.set_cur_pwr_max_out(None, dt)?;
    let req = if e8 >= 0 {
        c.state.pwr_out_max * (e8 as f64 / 8.0)
    } else {
        c.state.pwr_regen_max * (e8 as f64 / 8.0)
    };
    c.solve_energy_consumption(req, dt, Some(true))?;
    c.save_state();
    c.step();
    Ok(())
}

fn getter<T: serde::Serialize>(r: anyhow::Result<T>) -> Node {
    match r {
        Ok(v) => tree(&v),
        Err(e) => Node::S(errtxt(&e)),
    }
}
fn loco_getters(l: &Locomotive) -> Node {
    Node::Seq(vec![
        getter(l.force_max().map(|f| f.value)),
        getter(l.mu().map(|m| m.map(|x| x.value))),
        getter(l.mass().map(|m| m.map(|x| x.value))),
        Node::B(l.assert_limits),
        // the fuel converter's rating and baseline transient limit (public fields)
        match l.fuel_converter() {
            Some(fc) => Node::Seq(vec![Node::F(fbits(fc.pwr_out_max.value)), Node::F(fbits(fc.pwr_out_max_init.value))]),
            None => Node::Null,
        },
    ])
}
fn consist_getters(c: &Consist) -> Node {
    Node::Seq(vec![
        getter(c.force_max().map(|f| f.value)),
        getter(c.mass().map(|m| m.map(|x| x.value))),
        Node::Seq(c.loco_vec.iter().map(loco_getters).collect()),
    ])
}

impl Subj {
    /// One simulation step (static types: nothing happens here, the *use* is evaluated by `obs`).
    fn step(&mut self, k: usize, desc: &Value) -> anyhow::Result<()> {
        let dt = desc.get("dt").and_then(|x| x.as_f64()).unwrap_or(1.0);
        // an Err may leave the object half-updated: continue from the state before the call
        let save = self.clone();
        let r = match self {
            Subj::Comp(l, _) | Subj::Loco(l) => {
                let relaxed = desc["kind"].as_str().map(|k| k.ends_with(".relaxed")).unwrap_or(false);
                // every second positive demand of a relaxed unit lies 25 % above the published maximum
                let e8 = dem_at(desc, k);
                let boost = if relaxed && k % 2 == 1 { 10.0 / e8.max(1) as f64 } else { 1.0 };
                loco_step(l, e8, dt, boost)
            }
            Subj::Con(c) => consist_step(c, dem_at(desc, k), dt),
            Subj::LocoSim(s) => s.step(),
            Subj::LocoSimVec(v) => v.0.iter_mut().try_for_each(|s| s.step()),
            Subj::ConSim(s) => s.step(),
            Subj::Sss(s) => s.step(),
            Subj::Slts(s) => s.step(),
            Subj::Tpc(p, c) => {
                let n = p.link_points().len(); // 1 + links so far
                match c.route.get(n - 1) {
                    Some(l) => p.extend(&c.net, [*l]),
                    None => Err(anyhow::anyhow!("route exhausted")),
                }
            }
            _ => Ok(()),
        };
        if r.is_err() {
            *self = save;
        }
        r
    }

    /// the whole serialisable object this subject's SaveLoad acts on
    fn whole(&self) -> Node {
        match self {
            Subj::Comp(l, c) => match (c, &l.loco_type) {
                (Comp::Fc, PowertrainType::ConventionalLoco(x)) => tree(&x.fc),
                (Comp::Gen, PowertrainType::ConventionalLoco(x)) => tree(&x.gen),
                (Comp::Edrv, PowertrainType::ConventionalLoco(x)) => tree(&x.edrv),
                (Comp::Edrv, PowertrainType::BatteryElectricLoco(x)) => tree(&x.edrv),
                (Comp::Res, PowertrainType::BatteryElectricLoco(x)) => tree(&x.res),
                _ => Node::Null,
            },
            Subj::Loco(x) => tree(x),
            Subj::Con(x) => tree(x),
            Subj::LocoSim(x) => tree(x),
            Subj::LocoSimVec(x) => tree(x),
            Subj::ConSim(x) => tree(x),
            Subj::Sss(x) => tree(x),
            Subj::Slts(x) => tree(x.as_ref()),
            Subj::Tpc(x, _) | Subj::TpcFin(x) => tree(x),
            Subj::Pt(x) => tree(x),
            Subj::St(x) => tree(x),
            Subj::Tc(x) => tree(x),
            Subj::Tsb(x, _) => tree(x),
            Subj::Net(x, _, _) => tree(x),
            Subj::Etn(x) => tree(x),
            Subj::Loc(x) => tree(x),
            Subj::Tlp(x) => tree(x),
            Subj::Rv(x) => tree(x),
            Subj::Lp(x) => tree(x),
        }
    }

    /// what a step makes observable: the state/history projection of the stepped object, or for a
    /// static type the result of using it
    fn obs(&self) -> Node {
        let p = |n: Node| proj(&n).unwrap_or(Node::Null);
        match self {
            // public getters next to the state projection: traction limit, adhesion, mass
            Subj::Comp(l, _) | Subj::Loco(l) => Node::Seq(vec![p(tree(l)), loco_getters(l)]),
            Subj::Con(x) => Node::Seq(vec![p(tree(x)), consist_getters(x)]),
            Subj::LocoSim(x) => p(tree(x)),
            Subj::LocoSimVec(x) => p(tree(x)),
            Subj::ConSim(x) => p(tree(x)),
            Subj::Sss(x) => Node::Seq(vec![p(tree(x)), consist_getters(&x.loco_con)]),
            Subj::Slts(x) => Node::Seq(vec![p(tree(x.as_ref())), consist_getters(&x.loco_con)]),
            // the public getters expose what the serialisation may not (is_finished, extent)
            Subj::Tpc(x, _) | Subj::TpcFin(x) => Node::Seq(vec![
                tree(x),
                Node::B(x.is_finished()),
                Node::F(fbits(x.offset_begin().value)),
                Node::F(fbits(x.offset_end().value)),
                tree(&x.link_idx_last().copied()),
            ]),
            Subj::Tc(x) => Node::Seq(vec![
                tree(x),
                match x.make_train_params() {
                    Ok(tp) => tree(&tp),
                    Err(e) => Node::S(errtxt(&e)),
                },
            ]),
            Subj::Tsb(x, c) => {
                let st = SpeedTrace::new(vec![0.0, 1.0, 2.0], vec![0.0, 0.25, 0.5], None);
                match x.make_set_speed_train_sim(&c.net, &c.route, st, Some(1)) {
                    Ok(mut s) => {
                        let r = s.walk();
                        Node::Seq(vec![tree(&s), Node::B(r.is_ok())])
                    }
                    Err(e) => Node::S(errtxt(&e)),
                }
            }
            Subj::Net(x, c, tp) => {
                let mut p = PathTpc::new(*tp);
                let r = p.extend(x, &c.route);
                Node::Seq(vec![tree(&p), Node::B(r.is_ok())])
            }
            Subj::Etn(x) => Node::Seq(vec![
                tree(x),
                Node::F(fbits(match (x.val.first(), x.val.last()) {
                    (Some(a), Some(b)) => (b.time_sched - a.time_sched).value,
                    _ => 0.0,
                })),
            ]),
            o => o.whole(),
        }
    }

    /// writes the whole object to `path` with to_file (the document a re-used path already holds)
    fn write_file(&self, path: &std::path::Path) -> anyhow::Result<()> {
        match self {
            Subj::Comp(l, c) => match (*c, &l.loco_type) {
                (Comp::Fc, PowertrainType::ConventionalLoco(x)) => x.fc.to_file(path),
                (Comp::Gen, PowertrainType::ConventionalLoco(x)) => x.gen.to_file(path),
                (Comp::Edrv, PowertrainType::ConventionalLoco(x)) => x.edrv.to_file(path),
                (Comp::Edrv, PowertrainType::BatteryElectricLoco(x)) => x.edrv.to_file(path),
                (Comp::Res, PowertrainType::BatteryElectricLoco(x)) => x.res.to_file(path),
                _ => anyhow::bail!("component not present"),
            },
            Subj::Loco(x) => x.to_file(path),
            Subj::Con(x) => x.to_file(path),
            Subj::LocoSim(x) => x.to_file(path),
            Subj::LocoSimVec(x) => x.to_file(path),
            Subj::ConSim(x) => x.to_file(path),
            Subj::Sss(x) => x.to_file(path),
            Subj::Slts(x) => x.to_file(path),
            Subj::Tpc(x, _) | Subj::TpcFin(x) => x.to_file(path),
            Subj::Pt(x) => x.to_file(path),
            Subj::St(x) => x.to_file(path),
            Subj::Tc(x) => x.to_file(path),
            Subj::Tsb(x, _) => x.to_file(path),
            Subj::Net(x, _, _) => x.to_file(path),
            Subj::Etn(x) => x.to_file(path),
            Subj::Loc(x) => x.to_file(path),
            Subj::Tlp(x) => x.to_file(path),
            Subj::Rv(x) => x.to_file(path),
            Subj::Lp(x) => x.to_file(path),
        }
    }

    fn save_load(&mut self, fmt: &str, via: &str, alt: u64) -> Value {
        macro_rules! sl {
            ($x:expr) => {{
                let (ev, n) = save_load(&*$x, fmt, via, alt);
                if let Some(n) = n {
                    *$x = n;
                }
                ev
            }};
        }
        match self {
            Subj::Comp(l, c) => match (*c, &mut l.loco_type) {
                (Comp::Fc, PowertrainType::ConventionalLoco(x)) => sl!(&mut x.fc),
                (Comp::Gen, PowertrainType::ConventionalLoco(x)) => sl!(&mut x.gen),
                (Comp::Edrv, PowertrainType::ConventionalLoco(x)) => sl!(&mut x.edrv),
                (Comp::Edrv, PowertrainType::BatteryElectricLoco(x)) => sl!(&mut x.edrv),
                (Comp::Res, PowertrainType::BatteryElectricLoco(x)) => sl!(&mut x.res),
                _ => json!({"ev":"SaveLoad","fmt":fmt,"via":via,"ok":false,"stage":"harness","errclass":"other",
                    "msg":"component not present","d0":[0,0],"d1":[0,0],"ok2":false,"d2":[0,0],"eq_orig":false,
                    "eq_again":false,"load_ulps":INF,"again_ulps":INF,"raw_ok":false,"skipped":0,"nonfinite":0,"locations":0,"colmis":0,
                    "bytes":0,"prev":0,"mem_bytes":0,"mem_ok":false,"dm":[0,0]}),
            },
            Subj::Loco(x) => sl!(x),
            Subj::Con(x) => sl!(x),
            Subj::LocoSim(x) => sl!(x),
            Subj::LocoSimVec(x) => sl!(x),
            Subj::ConSim(x) => sl!(x),
            Subj::Sss(x) => sl!(x),
            Subj::Slts(x) => sl!(x.as_mut()),
            Subj::Tpc(x, _) | Subj::TpcFin(x) => sl!(x),
            Subj::Pt(x) => sl!(x),
            Subj::St(x) => sl!(x),
            Subj::Tc(x) => sl!(x),
            Subj::Tsb(x, _) => sl!(x),
            Subj::Net(x, _, _) => sl!(x),
            Subj::Etn(x) => sl!(x),
            Subj::Loc(x) => sl!(x),
            Subj::Tlp(x) => sl!(x),
            Subj::Rv(x) => sl!(x),
            Subj::Lp(x) => sl!(x),
        }
    }
}

// ---------------------------------------------------------------------------------------------
// builders

fn toy_net() -> anyhow::Result<Ctx> {
    toy_net_n(6)
}
/// `n` links in a row (n = 6: the toy corridor; thousands: a network whose documents exceed 1 MiB)
fn toy_net_n(n: i64) -> anyhow::Result<Ctx> {
    let links: Vec<Value> = (1..=n)
        .map(|k| json!({"len":1024,"prev":k-1,"next": if k < n { k + 1 } else { 0 },
                        "elevs":[[0, ((k-1)%64)*2],[1024, if k % 64 == 0 { 0 } else { (k%64)*2 }]],
                        "headings":[[0,0],[1024,0]],
                        "rs":[[0,1024,16],[256,512,8]]}))
        .collect();
    let net = build::network(&json!({"oscale":1,"vscale":1,"escale":1,"links":links}))?;
    Ok(Ctx {
        net,
        route: (1..=n.min(6) as u32).map(LinkIdx::new).collect(),
    })
}

struct Corridor {
    net: Network,
    slts: SpeedLimitTrainSim,
    etn: EstTimeNet,
    plan: Vec<LinkIdxTime>,
}
static CORRIDOR: OnceLock<Result<Corridor, String>> = OnceLock::new();
fn corridor() -> anyhow::Result<&'static Corridor> {
    CORRIDOR
        .get_or_init(|| {
            (|| -> anyhow::Result<Corridor> {
                let res = build::resources_dir();
                let net = Network::from_file(res.join("networks/simple_corridor_network.yaml"))?;
                let lm = import_locations(res.join("networks/simple_corridor_locations.csv"))?;
                let rv = RailVehicle::from_file(res.join("rolling_stock/Manifest_Loaded.yaml"))?;
                let tc = TrainConfig::new(
                    vec![rv.clone()],
                    HashMap::from([(rv.car_type.clone(), 20u32)]),
                    TrainType::Freight,
                    None,
                    None,
                    None,
                )?;
                let tsb = TrainSimBuilder::new("c".into(), tc, Consist::default(), Some("A".into()), Some("B".into()), None);
                let slts = tsb.make_speed_limit_train_sim(&lm, Some(1), None, None)?;
                let (etn, _c) = make_est_times(slts.clone(), &net)?;
                let plan = altrios_core::meet_pass::dispatch::run_dispatch(&net, &[slts.clone()], vec![etn.clone()], false, false)?
                    .into_iter()
                    .next()
                    .unwrap_or_default();
                Ok(Corridor { net, slts, etn, plan })
            })()
            .map_err(|e| errtxt(&e))
        })
        .as_ref()
        .map_err(|e| anyhow::anyhow!("corridor: {e}"))
}
fn corridor_route() -> Vec<LinkIdx> {
    [1u32, 2, 4].iter().map(|l| LinkIdx::new(*l)).collect()
}

fn real_tc(n: u32) -> anyhow::Result<TrainConfig> {
    let res = build::resources_dir();
    let rv = RailVehicle::from_file(res.join("rolling_stock/Manifest_Loaded.yaml"))?;
    let rv2 = RailVehicle::from_file(res.join("rolling_stock/Manifest_Empty.yaml"))?;
    TrainConfig::new(
        vec![rv.clone(), rv2.clone()],
        HashMap::from([(rv.car_type.clone(), n), (rv2.car_type.clone(), n / 2)]),
        TrainType::Freight,
        None,
        None,
        None,
    )
}

fn pwr_trace(desc: &Value, n: usize, unit: f64) -> PowerTrace {
    let t: Vec<f64> = (0..=n).map(|k| k as f64).collect();
    let p: Vec<f64> = (0..=n).map(|k| if k == 0 { 0.0 } else { dem_at(desc, k - 1).max(0) as f64 * unit }).collect();
    PowerTrace::new(t, p, vec![Some(true); n + 1])
}
fn speed_trace(n: usize, dv: f64, vmax: f64) -> SpeedTrace {
    // ramp up, hold, ramp down, stand
    let mut v = vec![0.0];
    let mut cur: f64 = 0.0;
    for k in 1..=n {
        let phase = (k - 1) / 4 % 3;
        cur = match phase {
            0 => (cur + dv).min(vmax),
            1 => cur,
            _ => (cur - dv).max(0.0),
        };
        v.push(cur);
    }
    SpeedTrace::new((0..=n).map(|k| k as f64).collect(), v, None)
}

/// the schedule of a case: "step" | format name (medium from the case's "via") | [action, medium] as Checkpoint.tla emits
fn sched_of(desc: &Value) -> Vec<(String, String)> {
    ga(desc, "sched")
        .iter()
        .map(|x| match x {
            Value::Array(a) => (
                a.first().and_then(|v| v.as_str()).unwrap_or("").to_string(),
                a.get(1).and_then(|v| v.as_str()).unwrap_or("").to_string(),
            ),
            v => (v.as_str().unwrap_or("").to_string(), String::new()),
        })
        .collect()
}
fn is_large(desc: &Value) -> bool {
    desc.get("size").and_then(|x| x.as_str()) == Some("large")
}
/// steps behind the object when the schedule starts: explicit "pre", else what the size class of the kind means
/// (large = a dense history long enough for every format to exceed 1 MiB)
fn pre_of(desc: &Value) -> usize {
    if let Some(p) = desc.get("pre").and_then(|x| x.as_u64()) {
        return p as usize;
    }
    if !is_large(desc) {
        return 0;
    }
    match desc["kind"].as_str().unwrap_or("") {
        "SetSpeedTrainSim.long" => 620,
        "SpeedLimitTrainSim.long" => 600,
        "ConsistSimulation.long" => 1400,
        "LocomotiveSimulation.long" => 3000,
        _ => 0,
    }
}

/// number of trace samples a toy simulation needs for this case (pre-run + schedule), rounded up so
/// that cases share built objects
fn run_len(desc: &Value) -> usize {
    let pre = pre_of(desc);
    let n = pre + desc["sched"].as_array().map(|a| a.len()).unwrap_or(0) + 2;
    (n + 63) / 64 * 64
}

thread_local! {
    static BUILT: std::cell::RefCell<HashMap<String, Subj>> = std::cell::RefCell::new(HashMap::new());
}
/// Builds (or clones the already built) fresh subject of a case; construction is a pure function
/// of (kind, scale, p, dem).
fn build_subject(desc: &Value) -> anyhow::Result<Subj> {
    let key = json!([desc["kind"], desc.get("scale"), desc.get("p"), desc.get("dem"), run_len(desc), is_large(desc)]).to_string();
    if let Some(s) = BUILT.with(|b| b.borrow().get(&key).cloned()) {
        return Ok(s);
    }
    let s = build_subject_uncached(desc)?;
    BUILT.with(|b| {
        let mut b = b.borrow_mut();
        if b.len() > 200 {
            b.clear();
        }
        b.insert(key, s.clone());
    });
    Ok(s)
}

fn build_subject_uncached(desc: &Value) -> anyhow::Result<Subj> {
    let kind = gs(desc, "kind");
    let real = desc.get("scale").and_then(|x| x.as_str()) == Some("real");
    let p = desc.get("p").cloned().unwrap_or(json!({}));
    let nmax = run_len(desc); // longest run this schedule asks for (pre + steps), never stepped past
    let mut lp = p.clone();
    let conv = |lp: &mut Value| -> anyhow::Result<Locomotive> {
        lp["kind"] = json!("conv");
        let mut l = if real { Locomotive::default() } else { build::loco(lp)? };
        l.set_save_interval(Some(1));
        Ok(l)
    };
    let bel = |lp: &mut Value| -> anyhow::Result<Locomotive> {
        lp["kind"] = json!("bel");
        let mut l = if real { Locomotive::default_battery_electric_loco() } else { build::loco(lp)? };
        l.set_save_interval(Some(1));
        Ok(l)
    };
    let toy_consist = |lp: &mut Value| -> anyhow::Result<Consist> {
        if real {
            return Ok(Consist::default());
        }
        let mut a = lp.clone();
        a["kind"] = json!("conv");
        let mut b = lp.clone();
        b["kind"] = json!("bel");
        build::consist(&[a, b], p.get("pdct").and_then(|x| x.as_str()).unwrap_or("RESGreedy"), Some(1))
    };
    Ok(match kind {
        "FuelConverter" => Subj::Comp(conv(&mut lp)?, Comp::Fc),
        "Generator" => Subj::Comp(conv(&mut lp)?, Comp::Gen),
        "ElectricDrivetrain" => Subj::Comp(conv(&mut lp)?, Comp::Edrv),
        "ElectricDrivetrain.bel" => Subj::Comp(bel(&mut lp)?, Comp::Edrv),
        "ReversibleEnergyStorage" => Subj::Comp(bel(&mut lp)?, Comp::Res),
        "Locomotive.conv" => Subj::Loco(conv(&mut lp)?),
        "Locomotive.bel" => Subj::Loco(bel(&mut lp)?),
        "FuelConverter.init40" | "Locomotive.init40" | "LocomotiveSimulation.init40" | "Consist.init40" => {
            // baseline transient limit raised to 40 % of the rating (unusual but valid; 0 -> 10 % in every default)
            let mk = |lp: &mut Value| -> anyhow::Result<Locomotive> {
                let mut l = if real {
                    let mut l = Locomotive::default();
                    let mut fc = l.fuel_converter().cloned().ok_or_else(|| anyhow::anyhow!("no fc"))?;
                    fc.pwr_out_max_init = fc.pwr_out_max * 0.4;
                    l.set_fuel_converter(fc)?;
                    l
                } else {
                    lp["kind"] = json!("conv");
                    lp["fc_init"] = json!(0.4 * lp.get("rfc").and_then(|x| x.as_f64()).unwrap_or(4096.0));
                    build::loco(lp)?
                };
                l.set_save_interval(Some(1));
                Ok(l)
            };
            match kind {
                "FuelConverter.init40" => Subj::Comp(mk(&mut lp)?, Comp::Fc),
                "Locomotive.init40" => Subj::Loco(mk(&mut lp)?),
                "LocomotiveSimulation.init40" => {
                    let pt = if real {
                        // low power first, then a jump to 1 MW that only the raised baseline allows
                        let pw: Vec<f64> = (0..=nmax).map(|k| if k % 16 < 12 { 5.0e4 } else { 1.0e6 }).collect();
                        PowerTrace::new((0..=nmax).map(|k| k as f64).collect(), pw, vec![Some(true); nmax + 1])
                    } else {
                        pwr_trace(desc, nmax, 16.0)
                    };
                    Subj::LocoSim(LocomotiveSimulation::new(mk(&mut lp)?, pt, Some(1)))
                }
                _ => {
                    let mut b = lp.clone();
                    b["kind"] = json!("bel");
                    let bel = if real { Locomotive::default_battery_electric_loco() } else { build::loco(&b)? };
                    Subj::Con(build::consist_of(vec![mk(&mut lp)?, bel], "RESGreedy", Some(1))?)
                }
            }
        }
        "Locomotive.relaxed" => {
            // advertised non-default setting: demands above the transient limit are tolerated
            let mut l = conv(&mut lp)?;
            l.assert_limits = false;
            Subj::Loco(l)
        }
        "Locomotive.mu" => {
            // adhesion coefficient known, set through the documented route mu = force_max / (mass g): for 350 kN on
            // the default 195 t unit mu*mass*g equals force_max only within the accepted tolerance, not bit for bit
            let mut l = Locomotive::default();
            l.set_force_max(
                uc::N * p.get("force_max").and_then(|x| x.as_f64()).unwrap_or(350.0e3),
                altrios_core::consist::locomotive::ForceMaxSideEffect::UpdateMu,
            )?;
            l.set_save_interval(Some(1));
            Subj::Loco(l)
        }
        "LocomotiveSimulation.relaxed" => {
            // default Tier-4 unit, assert_limits = false, load steps steeper than the engine ramp
            let mut l = Locomotive::default();
            l.assert_limits = false;
            const HEAD: [f64; 10] = [0.0, 3.0e5, 1.5e6, 1.6e6, 1.7e6, 1.8e6, 1.9e6, 2.0e6, 2.0e6, 2.0e6];
            const TAIL: [f64; 3] = [3.0e5, 2.0e6, 1.8e6];
            let pw: Vec<f64> = (0..=nmax).map(|k| if k < 10 { HEAD[k] } else { TAIL[(k - 10) % 3] }).collect();
            let pt = PowerTrace::new((0..=nmax).map(|k| k as f64).collect(), pw, vec![Some(true); nmax + 1]);
            Subj::LocoSim(LocomotiveSimulation::new(l, pt, Some(1)))
        }
        "SpeedLimitTrainSim.mu" => {
            // heavy train leaving standstill behind four units with known mu: traction-FORCE limited start
            use altrios_core::validate::Valid;
            let mut l = Locomotive::default();
            l.set_force_max(uc::N * 350.0e3, altrios_core::consist::locomotive::ForceMaxSideEffect::UpdateMu)?;
            let mut s = SpeedLimitTrainSim::valid();
            s.loco_con = Consist::new(vec![l; 4], Some(1), Default::default());
            s.set_save_interval(Some(1));
            Subj::Slts(Box::new(s))
        }
        "Locomotive.hybrid" => {
            let mut l = Locomotive::default_hybrid_electric_loco();
            l.set_save_interval(Some(1));
            Subj::Loco(l)
        }
        "RailVehicle" => Subj::Rv(RailVehicle::from_file(build::resources_dir().join("rolling_stock/Manifest_Loaded.yaml"))?),
        "LinkPath" => Subj::Lp(LinkPath(toy_net()?.route)),
        // boundary values of the link index newtype (custom Serialize / Deserialize): 0, 1, u32::MAX - 1, u32::MAX
        "LinkPath.bounds" => Subj::Lp(LinkPath([0, 1, u32::MAX - 1, u32::MAX].iter().map(|i| LinkIdx::new(*i)).collect())),
        "TimedLinkPath.bounds" => Subj::Tlp(TimedLinkPath(
            [0, 1, u32::MAX - 1, u32::MAX]
                .iter()
                .enumerate()
                .map(|(k, i)| LinkIdxTime::new(LinkIdx::new(*i), uc::S * (k as f64 * 7.5)))
                .collect(),
        )),
        "Location.bounds" => Subj::Loc(build::location("Z", u32::MAX)),
        "SetSpeedTrainSim.grades" | "SpeedLimitTrainSim.grades" => {
            // realistic train on a corridor with a grade break every kilometre: late in a run both ends of the train
            // sit inside the same grade segment with index >= 1 (the strap model's search hints are then non-zero)
            let n = 8;
            let links: Vec<Value> = (1..=n)
                .map(|k| {
                    let e = |j: i64| [0, 3, 1, 5, 2, 6, 3, 4, 1][j as usize];
                    json!({"len":1000,"prev":k-1,"next": if k < n { k + 1 } else { 0 },
                           "elevs":[[0, e(k-1)],[1000, e(k)]],
                           "headings":[[0, 0],[400, 10 * (k % 3)],[1000, 0]],
                           "rs":[[0,1000,12]]})
                })
                .collect();
            let net = build::network(&json!({"oscale":1,"vscale":1,"escale":1,"links":links}))?;
            let route: Vec<LinkIdx> = (1..=n as u32).map(LinkIdx::new).collect();
            let tc = real_tc(12)?;
            if kind.starts_with("SetSpeed") {
                let tsb = TrainSimBuilder::new("g".into(), tc, Consist::default(), None, None, None);
                let v: Vec<f64> = (0..=1200).map(|k| (0.05 * k as f64).min(9.0)).collect();
                let st = SpeedTrace::new((0..=1200).map(|k| k as f64).collect(), v, None);
                Subj::Sss(tsb.make_set_speed_train_sim(&net, &route, st, Some(5))?)
            } else {
                let tsb = TrainSimBuilder::new("g".into(), tc, Consist::default(), Some("A".into()), Some("B".into()), None);
                let mut s = tsb.make_speed_limit_train_sim(&build::location_map(&[1], &[n as u32]), Some(5), None, None)?;
                s.extend_path(net.as_ref(), &route)?;
                Subj::Slts(Box::new(s))
            }
        }
        "Consist" => Subj::Con(toy_consist(&mut lp)?),
        "LocomotiveSimulation" | "LocomotiveSimulation.bel" => {
            let l = if kind.ends_with(".bel") { bel(&mut lp)? } else { conv(&mut lp)? };
            let pt = if real { PowerTrace::default() } else { pwr_trace(desc, nmax, 16.0) };
            Subj::LocoSim(LocomotiveSimulation::new(l, pt, Some(1)))
        }
        "LocomotiveSimulationVec" => {
            let pt = if real { PowerTrace::default() } else { pwr_trace(desc, nmax, 16.0) };
            Subj::LocoSimVec(LocomotiveSimulationVec(vec![
                LocomotiveSimulation::new(conv(&mut lp)?, pt.clone(), Some(1)),
                LocomotiveSimulation::new(bel(&mut lp)?, pt, Some(1)),
            ]))
        }
        "ConsistSimulation" => {
            let pt = if real { PowerTrace::default() } else { pwr_trace(desc, nmax, 16.0) };
            Subj::ConSim(ConsistSimulation::new(toy_consist(&mut lp)?, pt, Some(1)))
        }
        "SetSpeedTrainSim" => {
            if real {
                let c = corridor()?;
                let tsb = TrainSimBuilder::new("s".into(), real_tc(20)?, Consist::default(), None, None, None);
                Subj::Sss(tsb.make_set_speed_train_sim(&c.net, corridor_route(), speed_trace(600, 0.05, 6.0), Some(1))?)
            } else {
                let c = toy_net()?;
                let tsb = TrainSimBuilder::new("s".into(), build::train_config(&p)?, toy_consist(&mut lp)?, None, None, None);
                Subj::Sss(tsb.make_set_speed_train_sim(&c.net, &c.route, speed_trace(nmax, 0.25, 1.0), Some(1))?)
            }
        }
        "SetSpeedTrainSim.default" => Subj::Sss(SetSpeedTrainSim::default()),
        // kinds with a size class: dense histories (save interval 1) over a run long enough for "large" to exceed 1 MiB
        "SetSpeedTrainSim.long" => {
            let mut s = SetSpeedTrainSim::default();
            s.set_save_interval(Some(1));
            Subj::Sss(s)
        }
        "SpeedLimitTrainSim.long" => {
            let c = corridor()?;
            let mut s = c.slts.clone();
            s.extend_path(c.net.as_ref(), &corridor_route())?;
            s.set_save_interval(Some(1));
            Subj::Slts(Box::new(s))
        }
        "ConsistSimulation.long" => Subj::ConSim(ConsistSimulation::new(toy_consist(&mut lp)?, pwr_trace(desc, nmax, 16.0), Some(1))),
        "LocomotiveSimulation.long" => Subj::LocoSim(LocomotiveSimulation::new(conv(&mut lp)?, pwr_trace(desc, nmax, 16.0), Some(1))),
        "SpeedLimitTrainSim" | "SpeedLimitTrainSim.finished" => {
            let mut s = if real {
                let c = corridor()?;
                let mut s = c.slts.clone();
                s.extend_path(c.net.as_ref(), &corridor_route())?;
                s
            } else {
                let c = toy_net()?;
                let tsb = TrainSimBuilder::new(
                    "s".into(),
                    build::train_config(&p)?,
                    toy_consist(&mut lp)?,
                    Some("A".into()),
                    Some("B".into()),
                    None,
                );
                let mut s = tsb.make_speed_limit_train_sim(&build::location_map(&[1], &[6]), Some(1), None, None)?;
                s.extend_path(c.net.as_ref(), &c.route)?;
                s
            };
            if kind.ends_with(".finished") {
                s.finish();
            }
            Subj::Slts(Box::new(s))
        }
        "PathTpc.unfinished" => {
            let c = toy_net()?;
            let tp = build::train_config(&p)?.make_train_params()?;
            Subj::Tpc(PathTpc::new(tp), c)
        }
        "PathTpc.finished" => {
            let c = if real {
                Ctx { net: corridor()?.net.clone(), route: corridor_route() }
            } else {
                toy_net()?
            };
            let tp = if real { real_tc(20)?.make_train_params()? } else { build::train_config(&p)?.make_train_params()? };
            let mut t = PathTpc::new(tp);
            t.extend(&c.net, &c.route)?;
            t.finish();
            Subj::TpcFin(t)
        }
        "PowerTrace" => Subj::Pt(if real { PowerTrace::default() } else { pwr_trace(desc, 8, 16.0) }),
        "SpeedTrace" => Subj::St(if real { SpeedTrace::default() } else { speed_trace(8, 0.25, 1.0) }),
        "TrainConfig" => Subj::Tc(if real { real_tc(20)? } else { build::train_config(&p)? }),
        "TrainSimBuilder" => {
            if real {
                let c = corridor()?;
                Subj::Tsb(
                    TrainSimBuilder::new("b".into(), real_tc(10)?, Consist::default(), None, None, None),
                    Ctx { net: c.net.clone(), route: corridor_route() },
                )
            } else {
                Subj::Tsb(
                    TrainSimBuilder::new("b".into(), build::train_config(&p)?, toy_consist(&mut lp)?, None, None, None),
                    toy_net()?,
                )
            }
        }
        "TrainSimBuilder.init" => {
            // with an explicit initial train state (finite offset)
            let its = InitTrainState::new(Some(uc::S * 8.0), Some(uc::M * 128.0), Some(uc::MPS * 0.0));
            Subj::Tsb(
                TrainSimBuilder::new("b".into(), build::train_config(&p)?, toy_consist(&mut lp)?, None, None, Some(its)),
                toy_net()?,
            )
        }
        "TrainSimBuilder.nan" => {
            // InitTrainState with the default (NaN) offset, as InitTrainState::new(Some(t), None, None) gives
            let its = InitTrainState::new(Some(uc::S * 8.0), None, None);
            Subj::Tsb(
                TrainSimBuilder::new("b".into(), build::train_config(&p)?, toy_consist(&mut lp)?, None, None, Some(its)),
                toy_net()?,
            )
        }
        "Network" => {
            if real {
                let c = corridor()?;
                Subj::Net(c.net.clone(), Ctx { net: Network::default(), route: corridor_route() }, real_tc(20)?.make_train_params()?)
            } else {
                let c = if is_large(desc) { toy_net_n(4000)? } else { toy_net()? };
                Subj::Net(c.net.clone(), Ctx { net: Network::default(), route: c.route }, build::train_config(&p)?.make_train_params()?)
            }
        }
        "EstTimeNet" => Subj::Etn(corridor()?.etn.clone()),
        "TimedLinkPath" => Subj::Tlp(TimedLinkPath(corridor()?.plan.clone())),
        "Location" => Subj::Loc(build::location("A", 1)),
        k => anyhow::bail!("unknown kind {k}"),
    })
}

fn exec(desc: &Value, tr: &mut Tracer) -> anyhow::Result<()> {
    sweep_stale();
    let sched = sched_of(desc);
    let nsteps = sched.iter().filter(|a| a.0 == "step").count();
    let pre = pre_of(desc);
    let via_mode = desc.get("via").and_then(|x| x.as_str()).unwrap_or("mix");
    let h0 = {
        let mut h = Fnv::new();
        h.b(desc["kind"].to_string().as_bytes());
        h.b(desc["sched"].to_string().as_bytes());
        h.0
    };

    // reference: the same case without any save/load
    let mut r = build_subject(desc)?;
    for k in 0..pre {
        let _ = r.step(k, desc);
    }
    let start_d = dig(&r.obs());
    let mut ref_nodes = vec![];
    let mut ref_oks = vec![];
    let mut ref_msgs = vec![];
    for k in 0..nsteps {
        let res = r.step(pre + k, desc);
        ref_msgs.push(res.as_ref().err().map(errtxt).unwrap_or_default());
        ref_oks.push(res.is_ok());
        ref_nodes.push(r.obs());
    }
    let mut sc = HashMap::new();
    ref_nodes.iter().for_each(|n| scales(n, "", &mut sc));
    tr.emit(json!({"ev":"Ref","traj": ref_nodes.iter().map(dig).collect::<Vec<_>>(), "oks": ref_oks, "msgs": ref_msgs,
                   "start": start_d, "w": dig(&r.whole())}));
    // `r` is now the object at the end of the checkpoint-free run: the checkpoint an earlier run of the same case left
    // at the re-used path (written there with to_file before the first "over" of a format)
    let mut prefilled: Vec<String> = vec![];

    // the schedule
    let mut s = build_subject(desc)?;
    for k in 0..pre {
        let _ = s.step(k, desc);
    }
    tr.emit(json!({"ev":"Start","d":dig(&s.obs()),"pre":pre}));
    let mut k = 0usize;
    for (idx, (a, med)) in sched.iter().enumerate() {
        if a == "step" {
            let res = s.step(pre + k, desc);
            let o = s.obs();
            let dev = q_dev(deviation(&o, &ref_nodes[k], "", &sc));
            k += 1;
            let mut ev = json!({"ev":"Step","k":k,"ok":res.is_ok(),"d":dig(&o),"dev":dev});
            if dev > 1100 || (dev > 0 && debug()) {
                ev["diff"] = json!(diff_of(&o, &ref_nodes[k - 1]));
            }
            if let Err(e) = res {
                ev["msg"] = json!(errtxt(&e));
            }
            tr.emit(ev);
        } else {
            let via = match if med.is_empty() { via_mode } else { med.as_str() } {
                "mem" => "mem",
                "file" => "file",
                "over" => "over",
                "reader" => "reader",
                "alias" => "alias",
                _ => {
                    if (h0 >> 7).wrapping_add(idx as u64) % 16 == 0 {
                        "file"
                    } else {
                        "mem"
                    }
                }
            };
            if via == "over" && !prefilled.contains(a) {
                prefilled.push(a.clone());
                let _ = std::fs::remove_file(slot_path(a));
                // (a failing prefill shows as prev = 0 on the SaveLoad line)
                let _ = r.write_file(&slot_path(a));
            }
            let mut ev = s.save_load(a, via, (h0 >> 11).wrapping_add(idx as u64));
            ev["large"] = json!(is_large(desc));
            tr.emit(ev);
        }
    }
    tmp_cleanup();
    Ok(())
}

// ---------------------------------------------------------------------------------------------
// generator: pinned (kind x format) cases through files, realistic-scale cases, long random schedules

const DEEP: [&str; 16] = [
    "Locomotive.init40",
    "Locomotive.relaxed",
    "FuelConverter",
    "Generator",
    "ElectricDrivetrain",
    "ReversibleEnergyStorage",
    "Locomotive.conv",
    "Locomotive.bel",
    "Consist",
    "LocomotiveSimulation",
    "ConsistSimulation",
    "SetSpeedTrainSim",
    "SpeedLimitTrainSim",
    "PathTpc.unfinished",
    "ElectricDrivetrain.bel",
    "LocomotiveSimulation.bel",
];
const SHALLOW: [&str; 20] = [
    "FuelConverter.init40",
    "LocomotiveSimulation.init40",
    "Consist.init40",
    "Locomotive.mu",
    "LocomotiveSimulation.relaxed",
    "SpeedLimitTrainSim.mu",
    "TrainSimBuilder.nan",
    "PowerTrace",
    "SpeedTrace",
    "TrainConfig",
    "TrainSimBuilder",
    "TrainSimBuilder.init",
    "PathTpc.finished",
    "Network",
    "EstTimeNet",
    "Location",
    "SpeedLimitTrainSim.finished",
    "LocomotiveSimulationVec",
    "TimedLinkPath",
    "SetSpeedTrainSim.default",
];
const REAL: [&str; 22] = [
    "FuelConverter.init40",
    "Locomotive.init40",
    "LocomotiveSimulation.init40",
    "Locomotive.mu",
    "LocomotiveSimulation.relaxed",
    "SpeedLimitTrainSim.mu",
    "FuelConverter",
    "Generator",
    "ElectricDrivetrain",
    "ReversibleEnergyStorage",
    "Locomotive.conv",
    "Locomotive.bel",
    "Consist",
    "LocomotiveSimulation",
    "LocomotiveSimulation.bel",
    "ConsistSimulation",
    "SetSpeedTrainSim",
    "SpeedLimitTrainSim",
    "SpeedLimitTrainSim.finished",
    "TrainSimBuilder",
    "Network",
    "PathTpc.finished",
];

fn gen(seed: u64, n: usize, tier: &str) -> Vec<Value> {
    let mut out = vec![];
    // pinned: every kind, every format, default state and mid-run, through files
    const EXTRA: [&str; 6] = ["Locomotive.hybrid", "RailVehicle", "LinkPath", "LinkPath.bounds", "TimedLinkPath.bounds", "Location.bounds"];
    for kind in DEEP.iter().chain(SHALLOW.iter()).chain(EXTRA.iter()) {
        for fmt in ["yaml", "json", "bin"] {
            out.push(json!({"src":"gen","kind":kind,"scale":"toy","via":"file",
                            "sched":[fmt,"step",fmt,"step","step",fmt,"step"]}));
        }
    }
    // pinned: every kind, every format, written over the longer checkpoint an earlier run left at the same path
    // (the first save happens 4 steps before the end of that run), and through from_reader / the other spellings
    for kind in DEEP.iter().chain(SHALLOW.iter()).chain(EXTRA.iter()) {
        for fmt in ["yaml", "json", "bin"] {
            out.push(json!({"src":"gen","kind":kind,"scale":"toy","via":"over",
                            "sched":[fmt,"step",fmt,"step","step",fmt,"step"]}));
            out.push(json!({"src":"gen","kind":kind,"scale":"toy",
                            "sched":[[fmt,"reader"],["step","-"],[fmt,"alias"],["step","-"],[fmt,"alias"]]}));
        }
    }
    // pinned: documents above 1 MiB (dense histories late in a run, a 4000-link network) through files and readers
    for (kind, sched) in [
        ("SetSpeedTrainSim.long", json!([["bin","file"],["step","-"],["bin","reader"]])),
        ("ConsistSimulation.long", json!([["step","-"],["bin","over"],["step","-"],["json","over"]])),
        ("LocomotiveSimulation.long", json!([["bin","alias"],["step","-"],["json","file"]])),
        ("SpeedLimitTrainSim.long", json!([["json","file"],["step","-"]])),
        ("Network", json!([["json","over"],["step","-"]])),
    ] {
        out.push(json!({"src":"gen","kind":kind,"scale":"toy","size":"large","sched":sched}));
    }
    // pinned: checkpoints spread over a whole train run (first, middle and last third) on a multi-grade corridor
    for kind in ["SetSpeedTrainSim.grades", "SpeedLimitTrainSim.grades"] {
        for pre in [30, 180, 330, 480, 630] {
            out.push(json!({"src":"gen","kind":kind,"scale":"real","via":"mem","pre":pre,
                            "sched":["yaml","step","step","json","step","step","bin","step"]}));
        }
    }
    // realistic scale: default objects, shipped corridor; checkpoints deep inside a run
    let fm = ["yaml", "json", "bin"];
    let maxpre = if tier == "quick" { 40 } else { 400 };
    for k in 0..n {
        let mut r = Rng::new(seed.wrapping_mul(7_368_787).wrapping_add(k as u64));
        let real = r.chance(1, 2);
        let kind = if real { *r.pick(&REAL) } else { *r.pick(&DEEP) };
        let len = r.range(3, 12) as usize;
        let mut sched = vec![];
        for _ in 0..len {
            sched.push(if r.chance(1, 2) { "step" } else { *r.pick(&fm) });
        }
        if !sched.contains(&"step") {
            sched.push("step");
        }
        let pre = if r.chance(1, 3) { 0 } else { r.range(1, maxpre) };
        let dem: Vec<i64> = (0..8).map(|_| *r.pick(&[0i64, 1, 2, 4, 6, 8, 8, -2, -4, -8])).collect();
        let p = json!({"kf": *r.pick(&[1, 2, 4]), "kg": *r.pick(&[1, 2]), "ke": *r.pick(&[1, 2]), "kr": *r.pick(&[1, 2]),
                       "soc": *r.pick(&[0.25, 0.5, 0.75]), "n": r.range(1, 6),
                       "pdct": *r.pick(&["RESGreedy", "Proportional"])});
        out.push(json!({"src":"gen","seed":seed,"k":k,"kind":kind,"scale": if real {"real"} else {"toy"},
                        "pre": if kind.starts_with("PathTpc") { 0 } else { pre },
                        "dem":dem,"p":p,"sched":sched,
                        "dt": *r.pick(&[0.5, 1.0, 1.0, 2.0])}));
    }
    out
}

/// `prof <kind>`: rough timing of the building blocks (developer aid)
fn prof(kind: &str) {
    let desc = json!({"kind":kind,"sched":[]});
    let t = std::time::Instant::now();
    let n = 200;
    for _ in 0..n {
        let _ = build_subject(&desc).unwrap();
    }
    println!("build   {:8.1} us", t.elapsed().as_micros() as f64 / n as f64);
    let mut s = build_subject(&desc).unwrap();
    for k in 0..3 {
        let _ = s.step(k, &desc);
    }
    let t = std::time::Instant::now();
    for _ in 0..n {
        let _ = s.clone();
    }
    println!("clone   {:8.1} us", t.elapsed().as_micros() as f64 / n as f64);
    let t = std::time::Instant::now();
    for _ in 0..n {
        let _ = s.whole();
    }
    println!("whole   {:8.1} us", t.elapsed().as_micros() as f64 / n as f64);
    let t = std::time::Instant::now();
    for _ in 0..n {
        let _ = dig(&s.obs());
    }
    println!("obs+dig {:8.1} us", t.elapsed().as_micros() as f64 / n as f64);
    for f in ["yaml", "json", "bin"] {
        let t = std::time::Instant::now();
        for _ in 0..n {
            let mut c = s.clone();
            let _ = c.save_load(f, "mem", 0);
        }
        println!("sl {f:5}{:8.1} us", t.elapsed().as_micros() as f64 / n as f64);
    }
    tmp_cleanup();
    let t = std::time::Instant::now();
    for k in 0..n {
        let _ = s.step(3 + k, &desc);
    }
    println!("step    {:8.1} us", t.elapsed().as_micros() as f64 / n as f64);
}

/// `size <kind> <small|large>`: document sizes and file round-trip times (developer aid)
fn sizes(kind: &str, size: &str) {
    let desc = json!({"kind":kind,"size":size,"sched":[]});
    let t = std::time::Instant::now();
    let mut s = build_subject(&desc).unwrap();
    let mut nerr = 0;
    for k in 0..pre_of(&desc) {
        if s.step(k, &desc).is_err() {
            nerr += 1;
        }
    }
    println!("build + {} steps ({nerr} err) {:.2} s", pre_of(&desc), t.elapsed().as_secs_f64());
    for f in ["yaml", "json", "bin"] {
        for via in ["mem", "file"] {
            let t = std::time::Instant::now();
            let mut c = s.clone();
            let ev = c.save_load(f, via, 0);
            println!("{f:5} {via:5} ok={} bytes={} mem_bytes={} errclass={} {:.2} s", ev["ok"], ev["bytes"], ev["mem_bytes"], ev["errclass"], t.elapsed().as_secs_f64());
        }
    }
    tmp_cleanup();
}

fn main() {
    let a: Vec<String> = std::env::args().collect();
    if a.len() >= 4 && a[1] == "size" {
        sizes(&a[2], &a[3]);
        return;
    }
    if a.len() >= 3 && a[1] == "prof" {
        prof(&a[2]);
        return;
    }
    main_with(gen, exec);
}
