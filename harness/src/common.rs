//! Shared plumbing: NDJSON trace writer, case runner with panic capture and a per-case watchdog,
//! Q-encoding of floats to integers, a tiny deterministic RNG, and a generic network builder.
use serde_json::{json, Value};
use std::fs::File;
use std::io::{BufRead, BufReader, BufWriter, Write};
use std::sync::atomic::{AtomicU64, Ordering};
use std::time::{SystemTime, UNIX_EPOCH};

/// INF sentinel shared with the TLA+ side (Quant.tla)
pub const INF: i64 = 1 << 30;

// ---------------------------------------------------------------------------------------------
// Q-encoding

/// Encodes `x` as `round(x * scale)`; non-finite values map to +-INF / the string "nan".
/// `exact` is cleared when `x*scale` was not already an integer.
pub struct Q {
    pub exact: bool,
    pub overflow: bool,
}
impl Default for Q {
    fn default() -> Self {
        Self::new()
    }
}
impl Q {
    pub fn new() -> Self {
        Q {
            exact: true,
            overflow: false,
        }
    }
    pub fn q(&mut self, x: f64, scale: f64) -> Value {
        if x.is_nan() {
            self.exact = false;
            return json!("nan");
        }
        if x.is_infinite() {
            return json!(if x > 0.0 { INF } else { -INF });
        }
        let y = x * scale;
        let r = y.round();
        if r != y {
            self.exact = false;
        }
        if r.abs() >= INF as f64 {
            self.overflow = true;
            return json!(if r > 0.0 { INF } else { -INF });
        }
        json!(r as i64)
    }
}
/// One-shot Q-encoding where exactness does not matter
pub fn qi(x: f64, scale: f64) -> Value {
    Q::new().q(x, scale)
}
/// floor / ceil variants for one-sided comparisons
pub fn q_floor(x: f64, scale: f64) -> Value {
    if !x.is_finite() {
        return qi(x, scale);
    }
    let r = (x * scale).floor();
    if r.abs() >= INF as f64 {
        return json!(if r > 0.0 { INF } else { -INF });
    }
    json!(r as i64)
}
pub fn q_ceil(x: f64, scale: f64) -> Value {
    if !x.is_finite() {
        return qi(x, scale);
    }
    let r = (x * scale).ceil();
    if r.abs() >= INF as f64 {
        return json!(if r > 0.0 { INF } else { -INF });
    }
    json!(r as i64)
}

// ---------------------------------------------------------------------------------------------
// deterministic RNG (splitmix64) — every random choice of the harness derives from VERIF_SEED

#[derive(Clone)]
pub struct Rng(pub u64);
impl Rng {
    pub fn new(seed: u64) -> Self {
        // scramble the seed: consecutive seeds must not give the same stream shifted by one
        let mut z = seed.wrapping_add(0x632BE59BD9B4E019);
        z = (z ^ (z >> 30)).wrapping_mul(0xBF58476D1CE4E5B9);
        z = (z ^ (z >> 27)).wrapping_mul(0x94D049BB133111EB);
        Rng(z ^ (z >> 31))
    }
    pub fn next(&mut self) -> u64 {
        self.0 = self.0.wrapping_add(0x9E3779B97F4A7C15);
        let mut z = self.0;
        z = (z ^ (z >> 30)).wrapping_mul(0xBF58476D1CE4E5B9);
        z = (z ^ (z >> 27)).wrapping_mul(0x94D049BB133111EB);
        z ^ (z >> 31)
    }
    /// uniform in lo..=hi
    pub fn range(&mut self, lo: i64, hi: i64) -> i64 {
        if hi <= lo {
            return lo;
        }
        lo + (self.next() % ((hi - lo + 1) as u64)) as i64
    }
    pub fn chance(&mut self, num: u64, den: u64) -> bool {
        self.next() % den < num
    }
    pub fn pick<'a, T>(&mut self, xs: &'a [T]) -> &'a T {
        &xs[(self.next() % xs.len() as u64) as usize]
    }
    pub fn f01(&mut self) -> f64 {
        (self.next() >> 11) as f64 / (1u64 << 53) as f64
    }
}

// ---------------------------------------------------------------------------------------------
// trace writer + case runner

pub struct Tracer {
    out: BufWriter<File>,
    pub case: u64,
    pub lines: u64,
}
impl Tracer {
    pub fn create(path: &str, append: bool) -> Self {
        let f = std::fs::OpenOptions::new()
            .create(true)
            .write(true)
            .append(append)
            .truncate(!append)
            .open(path)
            .unwrap_or_else(|e| panic!("cannot open trace {path}: {e}"));
        Tracer {
            out: BufWriter::new(f),
            case: 0,
            lines: 0,
        }
    }
    /// Writes one event of the current case; `case` is added to the record.
    pub fn emit(&mut self, mut v: Value) {
        v.as_object_mut()
            .expect("event must be an object")
            .insert("case".into(), json!(self.case));
        serde_json::to_writer(&mut self.out, &v).unwrap();
        self.out.write_all(b"\n").unwrap();
        self.lines += 1;
    }
    pub fn flush(&mut self) {
        self.out.flush().unwrap();
    }
}

static DEADLINE_MS: AtomicU64 = AtomicU64::new(0);
fn now_ms() -> u64 {
    SystemTime::now()
        .duration_since(UNIX_EPOCH)
        .unwrap()
        .as_millis() as u64
}
/// Starts the watchdog thread: when a case exceeds its deadline the process exits with code 97
/// (the driver writes a synthetic `timeout` event and restarts after the offending case).
pub fn start_watchdog() {
    std::thread::spawn(|| loop {
        std::thread::sleep(std::time::Duration::from_millis(50));
        let d = DEADLINE_MS.load(Ordering::Relaxed);
        if d != 0 && now_ms() > d {
            std::process::exit(97);
        }
    });
}
pub fn arm(ms: u64) {
    DEADLINE_MS.store(now_ms() + ms, Ordering::Relaxed);
}
pub fn disarm() {
    DEADLINE_MS.store(0, Ordering::Relaxed);
}

/// Reads case descriptors (one JSON object per line).
pub fn read_cases(path: &str) -> Vec<Value> {
    let f = File::open(path).unwrap_or_else(|e| panic!("cannot open cases {path}: {e}"));
    BufReader::new(f)
        .lines()
        .map(|l| l.unwrap())
        .filter(|l| !l.trim().is_empty())
        .map(|l| serde_json::from_str(&l).unwrap_or_else(|e| panic!("bad case line {l}: {e}")))
        .collect()
}

pub fn panic_msg(e: &Box<dyn std::any::Any + Send>) -> String {
    if let Some(s) = e.downcast_ref::<&str>() {
        s.to_string()
    } else if let Some(s) = e.downcast_ref::<String>() {
        s.clone()
    } else {
        "<non-string panic>".into()
    }
}

/// Truncated single-line error text
pub fn errtxt(e: &anyhow::Error) -> String {
    let s = format!("{e:#}").replace('\n', " ");
    s.chars().take(300).collect()
}

/// Standard entry point of every harness binary:
///   `<bin> gen <seed> <n> <tier>`            → case descriptors on stdout
///   `<bin> run <cases> <trace> [skip] [ms]`  → executes cases `skip..`, appending to `trace`
/// `gen` and `exec` are supplied by the subsystem module. Every case is bracketed by
/// begin/end events; a panic inside `exec` is recorded as a `panic` event.
pub fn main_with<G, E>(gen: G, exec: E)
where
    G: Fn(u64, usize, &str) -> Vec<Value>,
    E: Fn(&Value, &mut Tracer) -> anyhow::Result<()>,
{
    std::env::set_var("RUST_BACKTRACE", "0");
    std::env::set_var("RUST_LIB_BACKTRACE", "0");
    let args: Vec<String> = std::env::args().collect();
    if args.len() < 2 {
        eprintln!("usage: gen <seed> <n> <tier> | run <cases> <trace> [skip] [per-case-ms]");
        std::process::exit(2);
    }
    match args[1].as_str() {
        "gen" => {
            let seed: u64 = args.get(2).map(|s| s.parse().unwrap()).unwrap_or(0);
            let n: usize = args.get(3).map(|s| s.parse().unwrap()).unwrap_or(10);
            let tier = args.get(4).map(|s| s.as_str()).unwrap_or("quick");
            let out = std::io::stdout();
            let mut out = BufWriter::new(out.lock());
            for c in gen(seed, n, tier) {
                serde_json::to_writer(&mut out, &c).unwrap();
                out.write_all(b"\n").unwrap();
            }
        }
        "run" => {
            let cases = read_cases(&args[2]);
            let skip: usize = args.get(4).map(|s| s.parse().unwrap()).unwrap_or(0);
            let ms: u64 = args.get(5).map(|s| s.parse().unwrap()).unwrap_or(20_000);
            let mut tr = Tracer::create(&args[3], skip > 0);
            // silence the default panic printer; panics are data
            std::panic::set_hook(Box::new(|_| {}));
            start_watchdog();
            for (k, desc) in cases.iter().enumerate().skip(skip) {
                tr.case = k as u64;
                tr.emit(json!({"ev":"begin","desc":desc}));
                tr.flush();
                arm(ms);
                let res =
                    std::panic::catch_unwind(std::panic::AssertUnwindSafe(|| exec(desc, &mut tr)));
                disarm();
                match res {
                    Ok(Ok(())) => tr.emit(json!({"ev":"end","result":"ok"})),
                    Ok(Err(e)) => {
                        tr.emit(json!({"ev":"end","result":"harness_err","msg":errtxt(&e)}))
                    }
                    Err(p) => {
                        tr.emit(json!({"ev":"panic","msg":panic_msg(&p).chars().take(300).collect::<String>()}));
                        tr.emit(json!({"ev":"end","result":"panic"}));
                    }
                }
                tr.flush();
            }
        }
        _ => {
            eprintln!("unknown sub-command {}", args[1]);
            std::process::exit(2);
        }
    }
}

// ---------------------------------------------------------------------------------------------
// helpers to read descriptors

pub fn gi(v: &Value, k: &str) -> i64 {
    v[k].as_i64()
        .unwrap_or_else(|| panic!("descriptor field {k} missing or not an integer in {v}"))
}
pub fn gf(v: &Value, k: &str) -> f64 {
    v[k].as_f64()
        .unwrap_or_else(|| panic!("descriptor field {k} missing or not a number in {v}"))
}
pub fn gb(v: &Value, k: &str) -> bool {
    v[k].as_bool()
        .unwrap_or_else(|| panic!("descriptor field {k} missing or not a bool in {v}"))
}
pub fn gs<'a>(v: &'a Value, k: &str) -> &'a str {
    v[k].as_str()
        .unwrap_or_else(|| panic!("descriptor field {k} missing or not a string in {v}"))
}
pub fn ga<'a>(v: &'a Value, k: &str) -> &'a Vec<Value> {
    v[k].as_array()
        .unwrap_or_else(|| panic!("descriptor field {k} missing or not an array in {v}"))
}
