//! Builders for real altrios objects from small JSON parameter records (shared by all groups).
//! Objects are built by patching the serialised default and deserialising again, so private
//! fields (mass, specific_pwr, mu, ...) can be set without touching altrios.
use altrios_core::prelude::*;
use altrios_core::traits::SerdeAPI;
use serde::{de::DeserializeOwned, Serialize};
use serde_json::{json, Value};
use std::collections::HashMap;

/// Sets `obj[path] = val` where path is dot-separated ("loco_type.ConventionalLoco.fc.mass").
pub fn set_path(obj: &mut Value, path: &str, val: Value) {
    let mut cur = obj;
    let parts: Vec<&str> = path.split('.').collect();
    for (i, k) in parts.iter().enumerate() {
        if i + 1 == parts.len() {
            if let Ok(ix) = k.parse::<usize>() {
                cur[ix] = val;
            } else {
                cur[*k] = val;
            }
            return;
        }
        cur = if let Ok(ix) = k.parse::<usize>() {
            &mut cur[ix]
        } else {
            &mut cur[*k]
        };
    }
}

/// Serialise, patch, deserialise (does NOT call init()).
pub fn patched<T: Serialize + DeserializeOwned>(obj: &T, patches: &[(&str, Value)]) -> anyhow::Result<T> {
    let mut v = serde_json::to_value(obj)?;
    for (p, x) in patches {
        set_path(&mut v, p, x.clone());
    }
    Ok(serde_json::from_value(v)?)
}

fn f(p: &Value, k: &str, d: f64) -> f64 {
    p.get(k).and_then(|x| x.as_f64()).unwrap_or(d)
}
fn arr(p: &Value, k: &str, d: Vec<f64>) -> Value {
    p.get(k).cloned().unwrap_or_else(|| json!(d))
}

/// Toy / custom locomotive. `p.kind` = "conv" | "bel". Defaults give a dyadic toy unit:
/// ratings 4096 W, flat efficiencies 1/k (k = kf, kg, ke, kr in {1,2,4}), aux offset 32 W,
/// traction coefficient 0, ramp lag 4 s, idle fuel 64 W, battery 65536 J with SOC window
/// [1/8, 7/8] and ramps starting at 1/4 and 3/4, mass 1024 kg.
/// Non-flat maps: "frac_fc"/"eta_fc", "frac_gen"/"eta_gen", "frac_edrv"/"eta_edrv" arrays and
/// "res_grid" (3 axes) / "res_vals" (3-D) for the battery.
pub fn loco(p: &Value) -> anyhow::Result<Locomotive> {
    let kind = p.get("kind").and_then(|x| x.as_str()).unwrap_or("conv");
    let mut base = Locomotive::default();
    if kind == "bel" {
        base.loco_type = altrios_core::consist::locomotive::PowertrainType::BatteryElectricLoco(
            BatteryElectricLoco::default(),
        );
    }
    base.set_save_interval(None);
    let mut v = serde_json::to_value(&base)?;
    let ke = f(p, "ke", 1.0);
    let edrv = json!({
        "pwr_out_frac_interp": arr(p, "frac_edrv", vec![0.0, 1.0]),
        "eta_interp": arr(p, "eta_edrv", vec![1.0 / ke, 1.0 / ke]),
        "pwr_out_max_watts": f(p, "redrv", 4096.0),
        "save_interval": null,
    });
    if kind == "bel" {
        let kr = f(p, "kr", 1.0);
        let mut res = v["loco_type"]["BatteryElectricLoco"]["res"].clone();
        res["eta_interp_grid"] = p
            .get("res_grid")
            .cloned()
            .unwrap_or_else(|| json!([[0.0, 100.0], [0.0, 1.0], [-8.0, 8.0]]));
        res["eta_interp_values"] = p
            .get("res_vals")
            .cloned()
            .unwrap_or_else(|| json!(vec![vec![vec![1.0 / kr; 2]; 2]; 2]));
        res["pwr_out_max_watts"] = json!(f(p, "rres", 4096.0));
        res["energy_capacity_joules"] = json!(f(p, "cap", 65536.0));
        res["min_soc"] = json!(f(p, "min_soc", 0.125));
        res["max_soc"] = json!(f(p, "max_soc", 0.875));
        res["soc_lo_ramp_start"] = p.get("lo_ramp").cloned().unwrap_or(json!(0.25));
        res["soc_hi_ramp_start"] = p.get("hi_ramp").cloned().unwrap_or(json!(0.75));
        res["mass"] = Value::Null;
        res["specific_energy"] = Value::Null;
        v["loco_type"] = json!({"BatteryElectricLoco": {"res": res, "edrv": edrv}});
    } else {
        let kf = f(p, "kf", 1.0);
        let kg = f(p, "kg", 1.0);
        let fc = json!({
            "mass": null, "specific_pwr": null,
            "pwr_out_max_watts": f(p, "rfc", 4096.0),
            "pwr_out_max_init": f(p, "fc_init", 0.0),
            "pwr_ramp_lag_seconds": f(p, "lag", 4.0),
            "pwr_out_frac_interp": arr(p, "frac_fc", vec![0.0, 1.0]),
            "eta_interp": arr(p, "eta_fc", vec![1.0 / kf, 1.0 / kf]),
            "pwr_idle_fuel_watts": f(p, "idle", 64.0),
            "save_interval": null,
        });
        let gen = json!({
            "mass": null, "specific_pwr": null,
            "pwr_out_frac_interp": arr(p, "frac_gen", vec![0.0, 1.0]),
            "eta_interp": arr(p, "eta_gen", vec![1.0 / kg, 1.0 / kg]),
            "pwr_out_max_watts": f(p, "rgen", 4096.0),
            "save_interval": null,
        });
        v["loco_type"] = json!({"ConventionalLoco": {"fc": fc, "gen": gen, "edrv": edrv}});
    }
    v["pwr_aux_offset"] = json!(f(p, "aux", 32.0));
    v["pwr_aux_traction_coeff"] = json!(f(p, "auxk", 0.0));
    v["mass"] = p.get("mass").cloned().unwrap_or(json!(1024.0));
    v["mu"] = p.get("mu").cloned().unwrap_or(Value::Null);
    v["ballast_mass"] = Value::Null;
    v["baseline_mass"] = Value::Null;
    // optional "parts": {"base","ball","fc","gen","res"} [kg]: the locomotive-level mass stays unknown (null) and the
    // unit is described by its baseline, ballast and component masses only (its mass is then the derived one)
    if let Some(parts) = p.get("parts").filter(|x| x.is_object()) {
        v["mass"] = Value::Null;
        v["baseline_mass"] = json!(f(parts, "base", 0.0));
        v["ballast_mass"] = json!(f(parts, "ball", 0.0));
        let lt = if kind == "bel" { "BatteryElectricLoco" } else { "ConventionalLoco" };
        for (c, key) in [("fc", "fc"), ("gen", "gen"), ("res", "res")] {
            if v["loco_type"][lt].get(c).is_some() {
                v["loco_type"][lt][c]["mass"] = json!(f(parts, key, 0.0));
            }
        }
    }
    v["force_max"] = json!(f(p, "force_max", 1.0e6));
    v["assert_limits"] = json!(p.get("assert_limits").and_then(|x| x.as_bool()).unwrap_or(true));
    v["save_interval"] = Value::Null;
    let mut l: Locomotive = serde_json::from_value(v)?;
    if let altrios_core::consist::locomotive::PowertrainType::BatteryElectricLoco(b) = &mut l.loco_type {
        b.res.state.soc = altrios_core::uc::R * f(p, "soc", 0.5);
        b.res.state.temperature_celsius = f(p, "temp", 45.0);
    }
    l.init()?;
    Ok(l)
}

/// Consist from unit parameter records; `pdct` = "RESGreedy" | "Proportional".
pub fn consist(units: &[Value], pdct: &str, save_interval: Option<usize>) -> anyhow::Result<Consist> {
    let locos: Vec<Locomotive> = units.iter().map(loco).collect::<anyhow::Result<_>>()?;
    consist_of(locos, pdct, save_interval)
}

pub fn consist_of(locos: Vec<Locomotive>, pdct: &str, save_interval: Option<usize>) -> anyhow::Result<Consist> {
    let mut base = Consist::default();
    base.set_save_interval(None);
    let mut v = serde_json::to_value(&base)?;
    v["loco_vec"] = serde_json::to_value(&locos)?;
    v["pdct"] = json!({ pdct: null });
    let mut c: Consist = serde_json::from_value(v)?;
    c.init()?;
    c.set_save_interval(save_interval);
    Ok(c)
}

/// One-car-type train config; lengths in metres, masses in kg.
/// p: {"n":cars,"car_len":..,"car_mass":..,"freight":..,"axles":..,"brakes":..,"vmax":..,
///     "mass_rot":..,"bearing":..,"rolling":..,"davis_b":..,"cd_area":..,"braking_ratio":..,
///     "c0","c1","c2", "train_length":opt, "train_mass":opt}
pub fn rail_vehicle(p: &Value, name: &str) -> RailVehicle {
    use altrios_core::uc;
    let mut rv = RailVehicle::default();
    rv.car_type = name.into();
    rv.length = uc::M * f(p, "car_len", 16.0);
    rv.axle_count = f(p, "axles", 4.0) as u8;
    rv.brake_count = f(p, "brakes", 1.0) as u8;
    rv.mass_static_base = uc::KG * f(p, "car_mass", 1024.0);
    rv.mass_freight = uc::KG * f(p, "freight", 0.0);
    rv.speed_max = uc::MPS * f(p, "vmax", 32.0);
    rv.braking_ratio = uc::R * f(p, "braking_ratio", 0.125);
    rv.mass_rot_per_axle = uc::KG * f(p, "mass_rot", 0.0);
    rv.bearing_res_per_axle = uc::N * f(p, "bearing", 0.0);
    rv.rolling_ratio = uc::R * f(p, "rolling", 0.0);
    rv.davis_b = uc::S / uc::M * f(p, "davis_b", 0.0);
    rv.cd_area = uc::M2 * f(p, "cd_area", 0.0);
    rv.curve_coeff_0 = uc::R * f(p, "c0", 0.0);
    rv.curve_coeff_1 = uc::R * f(p, "c1", 0.0);
    rv.curve_coeff_2 = uc::R * f(p, "c2", 0.0);
    rv
}

pub fn train_config(p: &Value) -> anyhow::Result<TrainConfig> {
    use altrios_core::uc;
    let rv = rail_vehicle(p, "X");
    TrainConfig::new(
        vec![rv],
        HashMap::from([("X".to_string(), f(p, "n", 4.0) as u32)]),
        TrainType::Freight,
        p.get("train_length").and_then(|x| x.as_f64()).map(|x| uc::M * x),
        p.get("train_mass").and_then(|x| x.as_f64()).map(|x| uc::KG * x),
        None,
    )
}

/// Two car types (mixed make-up).
pub fn train_config2(p1: &Value, p2: &Value) -> anyhow::Result<TrainConfig> {
    let rv1 = rail_vehicle(p1, "X");
    let rv2 = rail_vehicle(p2, "Y");
    TrainConfig::new(
        vec![rv1, rv2],
        HashMap::from([
            ("X".to_string(), f(p1, "n", 4.0) as u32),
            ("Y".to_string(), f(p2, "n", 4.0) as u32),
        ]),
        TrainType::Freight,
        None,
        None,
        None,
    )
}

pub fn location(id: &str, link: u32) -> altrios_core::track::Location {
    use altrios_core::uc;
    altrios_core::track::Location {
        location_id: id.into(),
        offset: uc::M * 0.0,
        link_idx: LinkIdx::new(link),
        is_front_end: false,
        grid_emissions_region: "x".into(),
        electricity_price_region: "x".into(),
        liquid_fuel_price_region: "x".into(),
    }
}

/// Location map with origin "A" on `origs` and destination "B" on `dests`.
pub fn location_map(origs: &[u32], dests: &[u32]) -> altrios_core::track::LocationMap {
    HashMap::from([
        ("A".to_string(), origs.iter().map(|l| location("A", *l)).collect()),
        ("B".to_string(), dests.iter().map(|l| location("B", *l)).collect()),
    ])
}

/// Loads a network from an abstract descriptor through altrios' own JSON loader + validation.
pub fn network(desc: &Value) -> anyhow::Result<Network> {
    Network::from_json(crate::netgen::network_json(desc).to_string())
}

pub fn resources_dir() -> std::path::PathBuf {
    std::path::PathBuf::from(std::env::var("AVH_REPO").unwrap_or_else(|_| "/repo".into())).join("python/altrios/resources")
}
