SPECIFICATION Spec
CONSTANTS MaxTrains = 3
  Patterns <- P3
  Gaps <- G3
  Cars <- C3
  Speeds <- S3
  Rots <- R3
INVARIANT EmitRotated
CHECK_DEADLOCK FALSE
