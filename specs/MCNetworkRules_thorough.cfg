SPECIFICATION Spec
CONSTANTS
  Variant = "fixed"
  Bases <- T_Bases
  MaxFaults = 1
INVARIANT BaseValid
INVARIANT FaultInvalid
INVARIANT BenignValid
INVARIANT NonFiniteTable
INVARIANT Conforms
INVARIANT ImplNoPanic
INVARIANT Emit
CHECK_DEADLOCK FALSE
