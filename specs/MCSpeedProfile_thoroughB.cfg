SPECIFICATION Spec
CONSTANTS
  Variant = "fixed"
  Trains <- TB_Trains
  LinkLens <- TB_LinkLens
  Speeds <- TB_Speeds
  Gates <- TB_Gates
  MaxLinks = 3
  MaxR = 1
INVARIANT Safe
INVARIANT Exact
INVARIANT Canonical
INVARIANT Functional

CHECK_DEADLOCK FALSE
