---------------------------- MODULE MCPowerFlow ----------------------------
(* Model-checking shell for PowerFlow: the dyadic toy units of the bounded configs and the emission  *)
(* of every behaviour (unit, initial SOC, <<engine word, dt, demand class>>) as a replayable case.    *)
(* Lattice: 1 W = 65536 units (16 fractional bits), dt in half seconds, 1 J = 131072 units.           *)
(* Ratings 256 / 192 / 128 W (engine, generator, drivetrain), battery 256 W / 4096 J with the window  *)
(* [1/8, 7/8] and derating ramps of width 1/4 (slope 1/4 W per J: DtSafe = 4 s * eta_r / 1.001).      *)
EXTENDS PowerFlow, Json

W1 == 65536
J1 == 131072
Cap == 4096 * J1          \* 2^29

Unit(kind, kf, kg, ke, kr, lag, aux, auxkd) ==
  [kind |-> kind, rfc |-> 256 * W1, rgen |-> 192 * W1, redrv |-> 128 * W1, rres |-> 256 * W1,
   floor |-> 64 * W1, lag |-> lag, aux |-> aux * W1, auxkd |-> auxkd, idle |-> 4 * W1,
   kf |-> kf, kg |-> kg, ke |-> ke, kr |-> kr, flat |-> TRUE,
   cap |-> Cap, smin |-> Cap \div 8, slo |-> 3 * (Cap \div 8), shi |-> 5 * (Cap \div 8), smax |-> 7 * (Cap \div 8),
   delta |-> W1 \div 16, ps |-> W1, ds |-> 2, lat |-> TRUE, assert |-> TRUE]
ConvU(kf, kg, ke, lag, aux, auxkd) == Unit("conv", kf, kg, ke, 1, lag, aux, auxkd)
BelU(ke, kr, aux, auxkd) == Unit("bel", 1, 1, ke, kr, 4, aux, auxkd)

K == {1, 2, 4}
AllCls  == {"zero", "half", "pubm", "pub", "pubp", "over", "regenm", "regen", "regenp", "dyn", "dynp"}
ConvCls == {"zero", "half", "pubm", "pub", "pubp", "over", "dyn", "dynp"}    \* regen_pub = 0 for a conventional unit
ConvOff == {"zero", "half", "dyn", "dynp"}                                   \* any positive demand is rejected alike
BelOff  == {"zero", "pub", "regen"}
BelCls9 == AllCls \ {"half", "dynp"}
SocAll  == {3, 8, 13}          \* sixteenths: on the discharge ramp / mid / on the charge ramp
Dt3 == {1, 2, 4}
Dt2 == {1, 4}

\* ---- quick
QC_Cfgs == {ConvU(2, 4, 1, 4, 2, 0), ConvU(4, 1, 2, 16, 2, 8)}
QB_Cfgs == {BelU(2, 1, 2, 0), BelU(1, 4, 2, 8)}
\* ---- F-C01-1 corner: battery at its minimum SOC
MS_Cfgs == {BelU(2, 2, 2, 0)}
MS_Cls  == {"zero", "pub", "regen", "dyn"}
\* ---- thorough
\* depth 3, every efficiency combination, hist hidden by VIEW
TC_Cfgs == {ConvU(kf, kg, ke, 4, 2, 0) : kf \in K, kg \in K, ke \in K} \cup {ConvU(2, 2, 2, lag, 0, 8) : lag \in {2, 16}}
TB_Cfgs == {BelU(ke, kr, 2, 0) : ke \in K, kr \in K} \cup {BelU(2, 2, 0, 8)}
\* depth 4, emitted
T4C_Cfgs == {ConvU(2, 4, 1, 4, 2, 0), ConvU(1, 2, 4, 2, 0, 8)}
T4C_On  == {"zero", "half", "pubm", "pub", "pubp", "over", "dyn"}
T4B_Cfgs == {BelU(2, 4, 2, 0)}
T4B_On  == {"zero", "pubm", "pub", "pubp", "regen", "regenp", "dyn"}
\* depth 5, hist hidden by VIEW
T5C_Cfgs == {ConvU(2, 2, 2, 4, 2, 0)}
T5B_Cfgs == {BelU(2, 2, 2, 0)}
T5_ConvCls == {"zero", "half", "pubm", "pub", "pubp", "over", "dyn"}
T5_BelCls  == {"zero", "pubm", "pubp", "regen", "regenp", "dyn"}
OnOnly == {TRUE}
Bools == BOOLEAN
SocMin == {2}
ClsZero == {"zero"}
ClsZeroDyn == {"zero", "dyn"}
QC_Off == {"zero", "half", "dyn"}
QC_On == ConvCls \ {"dynp"}
QB_On == AllCls \ {"half", "regenm", "dynp"}
QB_Off == {"zero", "regen"}

Done == n = Depth /\ pc = "aux"
Emit == Done => PrintT(<<"REPLAY", ToJson([cfg |-> cfg, soc0 |-> soc0, steps |-> hist])>>)
=============================================================================
