---------------------------- MODULE MCPowerFlow ----------------------------
(* Model-checking shell for PowerFlow: the dyadic toy units of the bounded configs and the emission  *)
(* of every behaviour (unit, initial SOC, <<engine word, dt, demand class>>) as a replayable case.    *)
(* Toy lattice (conventional / battery-electric): 1 W = 65536 units (16 fractional bits), dt in half   *)
(* seconds, 1 J = 131072 units.  Base ratings 256 / 192 / 128 W (engine, generator, drivetrain),       *)
(* battery 256 W / 4096 J with the window [1/8, 7/8] and derating ramps of width 1/4 (slope 1/4 W per  *)
(* J: DtSafe = 4 s * eta_r / 1.001).  The rating variants make each component in turn the binding one. *)
(* Hybrid lattice: HybridLoco loads its generator with a hard-coded 50 kW, so the unit must be real-   *)
(* sized: 1 W = 64 units, ratings 256 / 192 / 128 / 128 kW (x 1.024), battery 2 MJ.                    *)
EXTENDS PowerFlow, Json

W1 == 65536
J1 == 131072

(* r = <<rfc, rgen, redrv, rres>> in watts, warm = engine already at its rating before the first step *)
Unit(kind, k, r, lag, aux, auxkd, warm) ==
  LET cap == 16 * r[4] * J1          \* ramps of width cap/4 = 4 s * rres
  IN [kind |-> kind, rfc |-> r[1] * W1, rgen |-> r[2] * W1, redrv |-> r[3] * W1, rres |-> r[4] * W1,
      floor |-> (r[1] \div 4) * W1, lag |-> lag, aux |-> aux * W1, auxkd |-> auxkd, idle |-> 4 * W1,
      kf |-> k[1], kg |-> k[2], ke |-> k[3], kr |-> k[4], flat |-> TRUE,
      cap |-> cap, smin |-> cap \div 8, slo |-> 3 * (cap \div 8), shi |-> 5 * (cap \div 8), smax |-> 7 * (cap \div 8),
      delta |-> W1 \div 16, ps |-> W1, ds |-> 2, lat |-> TRUE, assert |-> TRUE,
      pb0 |-> IF warm THEN r[1] * W1 ELSE 0, haux |-> 0, split2 |-> 1, gssr |-> 0, gssk |-> 0, lpub |-> 0, ekx |-> 1]
RBase == <<256, 192, 128, 256>>
ConvU(kf, kg, ke, lag, aux, auxkd) == Unit("conv", <<kf, kg, ke, 1>>, RBase, lag, aux, auxkd, FALSE)
BelU(ke, kr, aux, auxkd) == Unit("bel", <<1, 1, ke, kr>>, RBase, 4, aux, auxkd, FALSE)
(* binding-component variants *)
ConvGenBound(kg, ke)  == Unit("conv", <<2, kg, ke, 1>>, <<256, 48, 128, 256>>, 4, 2, 0, FALSE)   \* rgen < floor/kg: generator binds from step 1
ConvEdrvBound(kg, ke) == Unit("conv", <<2, kg, ke, 1>>, <<256, 192, 16, 256>>, 4, 2, 0, FALSE)   \* redrv < (floor/kg - aux)/ke: drivetrain binds
ConvWarm(kf, kg, ke)  == Unit("conv", <<kf, kg, ke, 1>>, <<256, 256, 256, 256>>, 4, 2, 0, TRUE)  \* engine at its rating: FcRating binds (kg > 1)
ConvWarmGen(ke)       == Unit("conv", <<2, 1, ke, 1>>, <<256, 192, 256, 256>>, 2, 2, 0, TRUE)    \* warmed engine, generator rating binds
BelResBound(ke, kr)   == Unit("bel", <<1, 1, ke, kr>>, <<256, 192, 128, 64>>, 4, 2, 0, FALSE)    \* rres < redrv: battery rating binds both ways
BelEdrvBound(kr)      == Unit("bel", <<1, 1, 1, kr>>, <<256, 192, 32, 256>>, 4, 2, 0, FALSE)     \* redrv << rres: drivetrain binds both ways

(* hybrid units: watts x 64; r in kW-ish units of 1024 W *)
H1 == 64
HybU(k, r, lag, aux, split2, warm) ==
  LET kw == 1024 * H1
      cap == 16 * r[4] * 1024 * (H1 * 2)
  IN [kind |-> "hyb", rfc |-> r[1] * kw, rgen |-> r[2] * kw, redrv |-> r[3] * kw, rres |-> r[4] * kw,
      floor |-> (r[1] \div 4) * kw, lag |-> lag, aux |-> aux * H1, auxkd |-> 0, idle |-> 4 * kw,
      kf |-> k[1], kg |-> k[2], ke |-> k[3], kr |-> k[4], flat |-> TRUE,
      cap |-> cap, smin |-> cap \div 8, slo |-> 3 * (cap \div 8), shi |-> 5 * (cap \div 8), smax |-> 7 * (cap \div 8),
      delta |-> 2 * H1, ps |-> H1, ds |-> 2, lat |-> TRUE, assert |-> TRUE,
      pb0 |-> IF warm THEN r[1] * kw ELSE 0, haux |-> 50000 * H1, split2 |-> split2, gssr |-> 0, gssk |-> 0, lpub |-> 0, ekx |-> 1]
RHyb == <<256, 192, 128, 128>>

K == {1, 2, 4}
AllCls  == {"zero", "half", "pubm", "pub", "pubp", "over", "regenm", "regen", "regenp", "dyn", "dynp"}
ConvCls == {"zero", "half", "pubm", "pub", "pubp", "over", "dyn", "dynp"}    \* regen_pub = 0 for a conventional unit
ConvOff == {"zero", "half", "dyn", "dynp"}                                   \* any positive demand is rejected alike
BelOff  == {"zero", "pub", "regen"}
SocAll  == {3, 8, 13}          \* sixteenths: on the discharge ramp / mid / on the charge ramp
Dt3 == {1, 2, 4}
Dt2 == {1, 4}
OnOnly == {TRUE}
Bools == BOOLEAN
SocMin == {2}
ClsZero == {"zero"}
ClsZeroDyn == {"zero", "dyn"}

\* ---- quick (depth 3, emitted, sampled): base units + one unit per binding component
QC_Cfgs == {ConvU(2, 4, 1, 4, 2, 0), ConvU(4, 1, 2, 16, 2, 8),
            ConvGenBound(1, 2), ConvEdrvBound(1, 1), ConvWarm(2, 2, 1), ConvWarmGen(1)}
QC_On  == {"zero", "half", "pubm", "pub", "pubp", "over", "dyn", "ratep"}
QC_Off == {"zero", "half", "dyn"}
QB_Cfgs == {BelU(2, 1, 2, 8), BelResBound(1, 2), BelEdrvBound(4)}
QB_On  == {"zero", "pubm", "pub", "pubp", "over", "regen", "regenp", "dyn"}
QB_Off == {"zero", "regen"}
QH_Cfgs == {HybU(<<2, 2, 2, 2>>, RHyb, 4, 8192, 1, FALSE), HybU(<<1, 2, 1, 4>>, RHyb, 2, 50000, 2, TRUE),
            HybU(<<2, 1, 2, 1>>, RHyb, 4, 8192, 0, TRUE)}
QH_On  == {"zero", "half", "pubm", "pub", "pubp", "regen", "regenp", "dyn"}
QH_Off == {"zero", "regen"}
\* ---- limit checking off (Locomotive.assert_limits = false; depth 3, emitted, sampled).  The mode differs from the
\* default only where the ENGINE is the component a demand runs into: above its transient limit while it ramps (base
\* unit, kg = 4), above its rating once warm (ConvWarm); where the generator binds (ConvGenBound) and on a battery unit
\* the same over-limit demands are still rejected (their ensure! do not look at the flag); hybrid: engine + battery.
NoLim(u) == [u EXCEPT !.assert = FALSE]
QN_Cfgs == {NoLim(ConvU(2, 4, 1, 4, 2, 0)), NoLim(ConvWarm(2, 2, 1)), NoLim(ConvGenBound(1, 2)),
            NoLim(BelU(2, 1, 2, 8)), NoLim(HybU(<<2, 2, 2, 2>>, RHyb, 4, 8192, 1, FALSE))}
QN_On  == {"zero", "pub", "over", "o8", "dbl", "rate", "regenp", "dyn"}
QN_Off == {"zero", "dyn"}
SocN == {3, 13}
\* ---- window edges: battery at its minimum SOC (F-C01-1 corner) and at its maximum SOC (charge limit must be 0 there)
MS_Cfgs == {BelU(2, 2, 2, 0), BelU(1, 1, 2, 0)}
MS_Cls  == {"zero", "pub", "regen", "regenp", "dyn"}
SocEdges == {2, 14}
\* ---- thorough
\* depth 3, every efficiency combination and every binding variant, hist hidden by VIEW
TC_Cfgs == {ConvU(kf, kg, ke, 4, 2, 0) : kf \in K, kg \in K, ke \in K} \cup {ConvU(2, 2, 2, lag, 0, 8) : lag \in {2, 16}}
           \cup {ConvGenBound(kg, ke) : kg \in {1, 2}, ke \in {1, 2}} \cup {ConvEdrvBound(kg, ke) : kg \in {1, 2}, ke \in {1, 2}}
           \cup {ConvWarm(kf, kg, ke) : kf \in {1, 4}, kg \in {2, 4}, ke \in {1, 2}} \cup {ConvWarmGen(ke) : ke \in {1, 2}}
TC_On  == ConvCls \cup {"rate", "ratep"}
TB_Cfgs == {BelU(ke, kr, 2, 0) : ke \in K, kr \in {1, 4}} \cup {BelU(2, 2, 0, 8)}
           \cup {BelResBound(ke, 2) : ke \in {1, 2}} \cup {BelEdrvBound(1)}
TH_Cfgs == {HybU(<<2, kg, 2, 2>>, RHyb, 4, aux, s2, FALSE) : kg \in {1, 2}, aux \in {8192, 50000}, s2 \in {0, 1, 2}}
           \cup {HybU(<<2, 2, 1, 1>>, RHyb, 4, 8192, s2, TRUE) : s2 \in {0, 1, 2}}
TH_On  == AllCls \ {"regenm", "dynp"}
\* depth 4, emitted
T4C_Cfgs == {ConvU(2, 4, 1, 4, 2, 0), ConvU(1, 2, 4, 2, 0, 8), ConvWarmGen(2)}
T4C_On  == {"zero", "half", "pubm", "pub", "pubp", "over", "dyn"}
T4B_Cfgs == {BelU(2, 4, 2, 0), BelResBound(2, 1)}
T4B_On  == {"zero", "pubm", "pub", "pubp", "regen", "regenp", "dyn"}
T4H_Cfgs == {HybU(<<2, 2, 2, 2>>, RHyb, 4, 8192, 1, TRUE)}
T4H_On  == {"zero", "pubm", "pub", "pubp", "regen", "regenp", "dyn"}
\* depth 5, hist hidden by VIEW
T5C_Cfgs == {ConvU(2, 2, 2, 4, 2, 0)}
T5B_Cfgs == {BelU(2, 2, 2, 0)}
T5_ConvCls == {"zero", "half", "pubm", "pub", "pubp", "over", "dyn"}
T5_BelCls  == {"zero", "pubm", "pubp", "regen", "regenp", "dyn"}
\* ---- fault models (bin/selftest): Level B with one deliberate defect must break the named invariant
FM_Conv == {ConvU(2, 2, 1, 4, 2, 0), ConvGenBound(1, 2)}
FM_Bel  == {BelU(2, 2, 2, 0)}

Done == n = Depth /\ pc = "aux"
Emit == Done => PrintT(<<"REPLAY", ToJson([cfg |-> cfg, soc0 |-> soc0, steps |-> hist])>>)
=============================================================================
