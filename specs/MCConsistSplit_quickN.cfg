SPECIFICATION Spec
CONSTANTS
  Recorded = FALSE
  Fault = "none"
  Lims <- LimOff
  Policies <- Both
  Ratings <- R123
  ConvStarts <- CS2
  BelStarts <- BS3
  MinUnits = 1
  MaxUnits = 2
  MaxSteps = 2
  WarmClasses <- NWarm
  Classes <- NClasses
  ThinMod = 2
INVARIANT TypeOK
INVARIANT Sum
INVARIANT RangePos
INVARIANT RangeNeg
INVARIANT Zero
INVARIANT NoOpposite
INVARIANT Regen
INVARIANT BatteryFirst
INVARIANT EmitThin
CHECK_DEADLOCK FALSE
