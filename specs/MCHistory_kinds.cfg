SPECIFICATION Spec
CONSTANTS
  Fault = "none"
  Kinds <- AllKinds
  Comps <- FewComps
  Intervals <- Iv4
  MaxActs = 6
  Cons <- Cons1
  MaxSets = 2
INVARIANT SameLength
INVARIANT SameStep
INVARIANT CountersEqual
INVARIANT StepIndex
INVARIANT SavedCount
INVARIANT Entries
INVARIANT DisabledEmpty
INVARIANT Propagated

CHECK_DEADLOCK FALSE
