SPECIFICATION Spec
CONSTANTS
  DeepKinds <- MC_LargeDeep
  ShallowKinds <- MC_LargeShallow
  StaticKinds <- MC_Static
  Depth = 2
  ShallowDepth = 2
  Media = {"mem", "reader", "file", "alias", "over"}
  Sizes = {"small", "large"}
  BigSaves = 1
  Variant = "size_cap"
INVARIANT TypeOK
INVARIANT Stutter
INVARIANT Idempotent
INVARIANT SaveLoadOk
INVARIANT MediumIndependent

PROPERTY StutterStep
CHECK_DEADLOCK FALSE
