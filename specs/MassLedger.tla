---------------------------- MODULE MassLedger ----------------------------
(***************************************************************************)
(* C20 - mass and traction-limit parameters stay mutually consistent under  *)
(* every update.                                                            *)
(*                                                                          *)
(* Numbers: every quantity is the integer round(x * K), K = 64 (masses kg,  *)
(* specific power W/kg / specific energy J/kg, ratings W / J, adhesion      *)
(* coefficient, force / g). N = -1 encodes None, E = -2 an Err from a       *)
(* getter. The lattice is dyadic, so every f64 operation of the code is     *)
(* exact on it; multiplicative relations are stated cross-multiplied        *)
(* (a * b = c * K) so Level A never divides.                                *)
(*                                                                          *)
(* mode "comp": st = [mass, spec, ext]     one FuelConverter / Generator /  *)
(*      ReversibleEnergyStorage (ext = pwr_out_max resp. energy_capacity)   *)
(*      obs = [mass |-> mass(), derived |-> derived_mass()]                 *)
(* mode "loco" (t = "conv" | "bel" | "hyb": comps = fc,gen | res | fc,gen,  *)
(*      res; derived mass = sum of comps + baseline + ballast):             *)
(*      st = [units |-> Seq([t, mass, mu, force, base, ball,                *)
(*                                   comps |-> Seq([mass, spec, ext])]),    *)
(*                    cars |-> [types |-> Seq(<<base, freight, count>>),    *)
(*                              override |-> mass | N]]                     *)
(*      a consist of locomotives (private fields as serialised) and the     *)
(*      cars of the train built around it                                   *)
(*      obs = [mass, mu, force |-> Seq(getter result per unit),             *)
(*             cmass |-> Consist::mass(), cforce |-> Consist::force_max(),  *)
(*             tstatic |-> TrainState.mass_static of the built train]       *)
(* mode "loadcomp" / "loadloco": st = the fields written to a JSON / YAML    *)
(*      file (component / one-unit consist); the Load action turns it into  *)
(*      mode "comp" / "loco" with last = [name |-> "Load", ok |-> accepted] *)
(*      and obs as above after from_json / from_yaml.                       *)
(*                                                                          *)
(* Level A: ComponentConsistent, LocoConsistent, Traction, ConsistMass,     *)
(*   ConsistForce, TrainStatic (state invariants over fields + getter       *)
(*   results), Atomic, OptionSemantics, Frame (relations between the state  *)
(*   before and after the last call, carried in pst / pobs / last).         *)
(* Level B: transcription of the setters (traits.rs:331, fuel_converter.rs  *)
(*   :113, generator.rs:127, reversible_energy_storage.rs:208,              *)
(*   locomotive_model.rs:606-770 and :1155-1190, consist_model.rs:181 and   *)
(*   :511, train_config.rs:155 and :407).                                   *)
(*   Variant = "repaired" is the code as it is now (after the fix commits   *)
(*   1bf0962, 95747c9, a97c5ca): the locomotive setters resolve whatever    *)
(*   can fail before they touch a field, expunge forgets baseline/ballast   *)
(*   too, init() runs check_force_max. All checked configs and the trace    *)
(*   config (drift counter) use it.                                         *)
(*   Variant = "ascoded" is the code as it WAS, kept as the fault model     *)
(*   (MCMassLedger_ascoded*.cfg, bin/selftest): setters that ASSIGN FIRST   *)
(*   and fail afterwards in mu()/mass() (F-C20-1, F-C20-3), expunge leaving *)
(*   baseline/ballast behind (F-C20-4), init() accepting a force_max that   *)
(*   disagrees with mu * mass * g (F-C20-5).                                *)
(* Deliberate looseness of Level A: Traction binds force_max to the         *)
(*   locomotive's OWN mass parameter; after an explicit ...ToNone option a  *)
(*   mass that is still derivable from components does not bind it. An      *)
(*   update the code refuses although it could have been resolved is fine   *)
(*   as long as the refusal is atomic ("rejected or resolved").             *)
(***************************************************************************)
EXTENDS Integers, Sequences, FiniteSets, TLC

CONSTANTS Variant        \* "repaired" | "ascoded"
Old == Variant = "ascoded"      \* the code as it was before the repair commits (fault model)

K == 64
N == -1
E == -2
Xq == -3                  \* "known, but not a multiple of 1/K": only the specific power / energy an Intensive
                         \* side effect computes for a near-equal mass (rating / mass) takes this value in the model
OFF == -9                \* left the lattice (inexact / out of range): such states are not explored
MaxQ == 32768
Known(x) == x >= 0
Idx(s) == 1..Len(s)

Mul(a, b) == IF a < 0 \/ b < 0 THEN OFF ELSE IF (a * b) % K = 0 THEN (a * b) \div K ELSE OFF
Div(a, b) == IF a < 0 \/ b <= 0 THEN OFF ELSE IF (a * K) % b = 0 THEN (a * K) \div b ELSE OFF
DivX(a, b) == IF a < 0 \/ b <= 0 THEN OFF ELSE IF (a * K) % b = 0 THEN (a * K) \div b ELSE Xq
RECURSIVE SumSeq(_)
SumSeq(s) == IF s = <<>> THEN 0 ELSE Head(s) + SumSeq(Tail(s))

VARIABLES mode, st, obs,
          last,          \* [name, arg, opt, k, ok] of the last call ("New" initially)
          pst, pobs,     \* st / obs before the last call
          ops,           \* calls so far (what is emitted for replay)
          st0            \* <<mode, st>> the case started from
vars == <<mode, st, obs, last, pst, pobs, ops, st0>>

----------------------------------------------------------------------------
(* getters as coded *)
(* spec = Xq arises only as rating / mass: the derived mass then IS the mass (up to the last ulp) *)
CDerived(c) == IF c.spec = Xq THEN c.mass ELSE IF Known(c.spec) THEN Div(c.ext, c.spec) ELSE N
CMass(c) == IF Known(c.mass) /\ Known(c.spec) /\ c.mass * c.spec # c.ext * K THEN E ELSE c.mass

(* inherent Locomotive::derived_mass (locomotive_model.rs:992) *)
LDerived(u) ==
  LET ms == [j \in Idx(u.comps) |-> CMass(u.comps[j])] IN
  IF \E j \in Idx(ms) : ms[j] = E THEN E
  ELSE IF Known(u.base) /\ Known(u.ball) THEN
         IF \A j \in Idx(ms) : Known(ms[j]) THEN SumSeq(ms) + u.base + u.ball ELSE E
  ELSE IF u.base = N /\ u.ball = N THEN
         IF \A j \in Idx(ms) : ms[j] = N THEN N ELSE E
  ELSE E
LMass(u) == LET d == LDerived(u) IN
            IF d = E THEN E
            ELSE IF Known(d) /\ Known(u.mass) THEN (IF d = u.mass THEN u.mass ELSE E)
            ELSE IF Known(u.mass) THEN u.mass ELSE d
ForceOk(u) == (Known(u.mu) /\ Known(u.mass)) => u.force * K = u.mu * u.mass
LMu(u) == IF ForceOk(u) THEN u.mu ELSE E
LForce(u) == IF ForceOk(u) THEN u.force ELSE E

CMassOf(ms) == IF \E k \in Idx(ms) : ms[k] = E THEN E                       \* consist_model.rs:511
               ELSE IF \A k \in Idx(ms) : ms[k] = N THEN N
               ELSE IF \A k \in Idx(ms) : Known(ms[k]) THEN SumSeq(ms) ELSE E
CForceOf(fs) == IF \E k \in Idx(fs) : fs[k] = E THEN E ELSE SumSeq(fs)      \* consist_model.rs:181
CarsMass(c) == IF Known(c.override) THEN c.override
               ELSE SumSeq([j \in Idx(c.types) |-> (c.types[j][1] + c.types[j][2]) * c.types[j][3]])
TStaticOf(c, cm) == IF cm = E THEN E ELSE CarsMass(c) + (IF Known(cm) THEN cm ELSE 0)   \* train_config.rs:407

ObserveComp(c) == [mass |-> CMass(c), derived |-> CDerived(c)]
ObserveLoco(s) ==
  LET ms == [k \in Idx(s.units) |-> LMass(s.units[k])]
      fs == [k \in Idx(s.units) |-> LForce(s.units[k])]
  IN [mass |-> ms, mu |-> [k \in Idx(s.units) |-> LMu(s.units[k])], force |-> fs,
      cmass |-> CMassOf(ms), cforce |-> CForceOf(fs), tstatic |-> TStaticOf(s.cars, CMassOf(ms))]
Observe(m, s) == IF m = "comp" THEN ObserveComp(s) ELSE ObserveLoco(s)

----------------------------------------------------------------------------
(* Level A *)
(* the state invariants speak about objects that exist: an initial object, the result of an accepted *)
(* call, an accepted file - not a file that was refused                                              *)
(* ... and about what accepted updates leave behind: the state after a REJECTED call is Atomic's business *)
Obj(m) == mode = m /\ (last.name = "New" \/ last.ok)
CompOk(c) == (Known(c.mass) /\ Known(c.spec)) => c.mass * c.spec = c.ext * K
(* the mass the components add up to, when every contribution is known *)
DerivedA(u) == IF Known(u.base) /\ Known(u.ball) /\ \A j \in Idx(u.comps) : Known(u.comps[j].mass)
               THEN SumSeq([j \in Idx(u.comps) |-> u.comps[j].mass]) + u.base + u.ball ELSE N

(* stated twice: on the fields, cross-multiplied, where they are on the grid; and on the getters        *)
(* (reported mass = derived mass), which also holds where a field is off the grid (Xq)                   *)
ComponentConsistent ==
  Obj("comp") => /\ CompOk(st)
                 /\ obs.mass = st.mass                                     \* mass() answers, with the set mass
                 /\ st.spec = N => obs.derived = N
                 /\ st.spec # N => obs.derived \notin {N, E}
                 /\ (Known(st.spec) /\ Known(st.ext) /\ Known(obs.derived)) => obs.derived * st.spec = st.ext * K
                 /\ (Known(st.mass) /\ Known(obs.derived)) => obs.derived = st.mass
UnitConsistent(u, m) == /\ \A j \in Idx(u.comps) : CompOk(u.comps[j])
                        /\ m # E
                        /\ Known(u.mass) => m = u.mass
                        /\ (Known(u.mass) /\ Known(DerivedA(u))) => u.mass = DerivedA(u)
                        /\ (~Known(u.mass) /\ Known(DerivedA(u))) => m = DerivedA(u)
UnitTraction(u, mu, f) == /\ mu = u.mu /\ f = u.force                      \* mu() / force_max() answer
                          /\ (Known(u.mu) /\ Known(u.mass)) => u.force * K = u.mu * u.mass
LocoConsistent == Obj("loco") => \A k \in Idx(st.units) : UnitConsistent(st.units[k], obs.mass[k])
Traction       == Obj("loco") => \A k \in Idx(st.units) : UnitTraction(st.units[k], obs.mu[k], obs.force[k])
ConsistMass == Obj("loco") =>
  /\ (\A k \in Idx(obs.mass) : Known(obs.mass[k])) => obs.cmass = SumSeq(obs.mass)
  /\ (\A k \in Idx(obs.mass) : obs.mass[k] = N) => obs.cmass = N
  /\ Known(obs.cmass) => \A k \in Idx(obs.mass) : Known(obs.mass[k])
ConsistForce == Obj("loco") =>
  /\ (\A k \in Idx(obs.force) : Known(obs.force[k])) => obs.cforce = SumSeq(obs.force)
  /\ Known(obs.cforce) => \A k \in Idx(obs.force) : Known(obs.force[k])
TrainStatic == Obj("loco") =>
  /\ Known(obs.tstatic) => /\ obs.cmass # E
                           /\ obs.tstatic = CarsMass(st.cars) + (IF Known(obs.cmass) THEN obs.cmass ELSE 0)
  /\ obs.cmass = E => obs.tstatic = E

(* a rejected update leaves every field and every getter's answer unchanged *)
Atomic == (last.name \notin {"New", "Load"} /\ ~last.ok) => (st = pst /\ obs = pobs)

(* an accepted update did what its side-effect option says *)
CompOption ==
  LET m == last.arg  d == pobs.derived IN
  CASE last.name = "SetMass" ->
         /\ st.mass = m
         /\ IF d = Xq \/ d = E THEN TRUE                          \* nothing exact to compare the new mass with
            ELSE IF Known(m) /\ Known(d) /\ d # m
            THEN CASE last.opt = "Extensive" -> /\ st.spec = pst.spec /\ obs.derived = m
                                                /\ (Known(st.ext) /\ Known(st.spec)) => st.ext * K = st.spec * m
                   [] last.opt = "Intensive" -> /\ st.ext = pst.ext /\ st.spec # N /\ obs.derived = m
                                                /\ (Known(st.ext) /\ Known(st.spec)) => st.spec * m = st.ext * K
                   [] OTHER -> st.ext = pst.ext /\ st.spec = N
            ELSE /\ st.ext = pst.ext
                 /\ Known(m) => st.spec = pst.spec
    [] last.name = "Expunge" -> st.mass = N /\ st.spec = N /\ st.ext = pst.ext
    [] OTHER -> TRUE
UnitOption(u, p, pm) ==          \* u after, p before, pm = mass() before
  LET a == last.arg IN
  CASE last.name = "SetMass" ->
         /\ last.opt = "None"                                   \* nothing else is allowed at this level
         /\ u.mu = p.mu /\ Known(u.mu)
         /\ IF Known(a) THEN u.mass = a ELSE (Known(DerivedA(p)) /\ u.mass = DerivedA(p))
         /\ u.force * K = u.mu * u.mass                         \* "Updating force_max to correspond to new mass"
    [] last.name = "SetMu" ->
         /\ u.mu = a
         /\ CASE last.opt = "Mass" -> u.force = p.force /\ u.mass * a = u.force * K
              [] last.opt = "ForceMax" -> u.mass = p.mass /\ Known(pm) /\ u.force * K = a * pm
              [] OTHER -> u.mass = N /\ u.force = p.force
    [] last.name = "SetForce" ->
         /\ u.force = a
         /\ CASE last.opt = "Mass" -> u.mu = p.mu /\ Known(u.mu) /\ u.mass * u.mu = a * K
              [] last.opt = "UpdateMu" -> u.mass = p.mass /\ (IF Known(p.mass) THEN u.mu * p.mass = a * K ELSE u.mu = N)
              [] last.opt = "SetMuToNone" -> u.mu = N /\ u.mass = p.mass
              [] last.opt = "SetMassToNone" -> u.mass = N /\ u.mu = p.mu
              [] OTHER -> u.mass = N /\ u.mu = N
    [] last.name = "Expunge" ->
         /\ \A j \in Idx(u.comps) : u.comps[j].mass = N /\ u.comps[j].spec = N
         /\ u.mass = p.mass /\ u.mu = p.mu /\ u.force = p.force
    [] OTHER -> TRUE
OptionSemantics ==
  (last.name # "New" /\ last.name # "Load" /\ last.ok) =>
     IF mode = "comp" THEN CompOption
     ELSE UnitOption(st.units[last.k], pst.units[last.k], pobs.mass[last.k])
(* a call on one unit touches no other unit and never the cars *)
Frame == (mode = "loco" /\ last.name \notin {"New", "Load"}) =>
           /\ st.cars = pst.cars /\ Len(st.units) = Len(pst.units)
           /\ \A k \in Idx(st.units) : k # last.k => st.units[k] = pst.units[k]
(* an accepted file is a consistent object (the state invariants above evaluate the loaded object); *)
(* LoadDecision is Level B: which files are accepted *)
(* SerdeAPI::init: components and locomotive consult mass(); since 1bf0962 the locomotive also runs  *)
(* check_force_max(), before that a file whose force_max disagreed with mu * mass * g was accepted    *)
LoadOkB(m, s) == IF m = "comp" THEN CMass(s) # E
                 ELSE \A k \in Idx(s.units) : /\ LMass(s.units[k]) # E
                                              /\ ~Old => ForceOk(s.units[k])

----------------------------------------------------------------------------
(* Level B: the setters *)
Ok(u) == [ok |-> TRUE, u |-> u]
Fail(u) == [ok |-> FALSE, u |-> u]

CSetMass(c, m, opt) ==                                  \* never fails
  LET d == CDerived(c) IN
  IF Known(d) /\ Known(m) THEN
     IF d # m THEN CASE opt = "Extensive" -> [c EXCEPT !.ext = Mul(c.spec, m), !.mass = m]
                     [] opt = "Intensive" -> [c EXCEPT !.spec = DivX(c.ext, m), !.mass = m]
                     [] OTHER -> [c EXCEPT !.spec = N, !.mass = m]
     ELSE [c EXCEPT !.mass = m]
  ELSE IF m = N THEN [c EXCEPT !.spec = N, !.mass = N]
  ELSE [c EXCEPT !.mass = m]
CExpunge(c) == [c EXCEPT !.mass = N, !.spec = N]

(* expunge_mass_fields: since 95747c9 it forgets baseline / ballast as well *)
LExpunge(u) == LET x == [u EXCEPT !.comps = [j \in Idx(u.comps) |-> CExpunge(u.comps[j])]]
               IN IF Old THEN x ELSE [x EXCEPT !.base = N, !.ball = N]

(* ---- the code as it is (a97c5ca): everything that can fail is resolved before a field is touched *)
(* set_mass (locomotive_model.rs:632): side effect, derived_mass(), the mu FIELD and "no mass given, *)
(* none derivable" are checked first; then expunge-if-different, mass, force_max = mu * mass * g     *)
LSetMassNew(u, m, opt) ==
  IF opt # "None" THEN Fail(u)
  ELSE LET d == LDerived(u) IN
       IF d = E THEN Fail(u)
       ELSE IF ~Known(u.mu) THEN Fail(u)
       ELSE IF m = N /\ d = N THEN Fail(u)
       ELSE LET u1 == IF Known(m) /\ Known(d) /\ d # m THEN LExpunge(u) ELSE u
                m1 == IF Known(m) THEN m ELSE d
            IN Ok([u1 EXCEPT !.mass = m1, !.force = Mul(u.mu, m1)])
(* set_force_max (:706): the side effect first (Mass: mu FIELD, then set_mass), force_max assigned last *)
LSetForceNew(u, f, opt) ==
  CASE opt = "Mass" -> IF ~Known(u.mu) THEN Fail(u)
                       ELSE LET r == LSetMassNew(u, Div(f, u.mu), "None")
                            IN IF r.ok THEN Ok([r.u EXCEPT !.force = f]) ELSE Fail(u)
    [] opt = "UpdateMu" -> Ok([u EXCEPT !.force = f, !.mu = IF Known(u.mass) THEN Div(f, u.mass) ELSE N])
    [] opt = "SetMuToNone" -> Ok([u EXCEPT !.force = f, !.mu = N])
    [] opt = "SetMassToNone" -> Ok([u EXCEPT !.force = f, !.mass = N])
    [] OTHER -> Ok([u EXCEPT !.force = f, !.mu = N, !.mass = N])
(* set_mu (:1160): Mass swaps mu in, calls set_mass and puts the old mu back on Err; ForceMax resolves *)
(* mass() before assigning                                                                             *)
LSetMuNew(u, mu, opt) ==
  CASE opt = "Mass" -> LET r == LSetMassNew([u EXCEPT !.mu = mu], Div(u.force, mu), "None")
                       IN IF r.ok THEN r ELSE Fail(u)
    [] opt = "ForceMax" -> IF ~Known(LMass(u)) THEN Fail(u)
                           ELSE Ok([u EXCEPT !.mu = mu, !.force = Mul(mu, LMass(u))])
    [] OTHER -> Ok([u EXCEPT !.mu = mu, !.mass = N])

(* ---- the setters as they were (Variant = "ascoded"): ASSIGN FIRST, fail afterwards *)
LSetMass(u, m, opt) ==                                  \* F-C20-1
  IF opt # "None" THEN Fail(u)
  ELSE LET d == LDerived(u) IN
       IF d = E THEN Fail(u)
       ELSE IF m = N /\ d = N THEN Fail(u)              \* `?` fires before the assignment
       ELSE LET u1 == IF Known(m) /\ Known(d) /\ d # m THEN LExpunge(u) ELSE u
                u2 == [u1 EXCEPT !.mass = IF Known(m) THEN m ELSE d]
            IN IF ~Known(LMu(u2)) THEN Fail(u2)         \* mu() errs on the stale force_max, or mu is None
               ELSE IF ~Known(LMass(u2)) THEN Fail(u2)
               ELSE Ok([u2 EXCEPT !.force = Mul(LMu(u2), LMass(u2))])
LSetForce(u, f, opt) ==                                 \* F-C20-1
  LET u1 == [u EXCEPT !.force = f] IN
  CASE opt = "Mass" -> IF ~Known(LMu(u1)) THEN Fail(u1) ELSE LSetMass(u1, Div(f, LMu(u1)), "None")
    [] opt = "UpdateMu" -> Ok([u1 EXCEPT !.mu = IF Known(u1.mass) THEN Div(f, u1.mass) ELSE N])
    [] opt = "SetMuToNone" -> Ok([u1 EXCEPT !.mu = N])
    [] opt = "SetMassToNone" -> Ok([u1 EXCEPT !.mass = N])
    [] OTHER -> Ok([u1 EXCEPT !.mu = N, !.mass = N])
LSetMu(u, mu, opt) ==                                   \* F-C20-3
  LET u1 == [u EXCEPT !.mu = mu] IN
  CASE opt = "Mass" -> LSetMass(u1, Div(u1.force, mu), "None")
    [] opt = "ForceMax" -> IF ~Known(LMass(u1)) THEN Fail(u1) ELSE Ok([u1 EXCEPT !.force = Mul(mu, LMass(u1))])
    [] OTHER -> Ok([u1 EXCEPT !.mass = N])

LCall(u, name, a, opt) ==
  CASE name = "SetMass" -> IF Old THEN LSetMass(u, a, opt) ELSE LSetMassNew(u, a, opt)
    [] name = "SetMu" -> IF Old THEN LSetMu(u, a, opt) ELSE LSetMuNew(u, a, opt)
    [] name = "SetForce" -> IF Old THEN LSetForce(u, a, opt) ELSE LSetForceNew(u, a, opt)
    [] OTHER -> Ok(LExpunge(u))
CCall(c, name, a, opt) == IF name = "SetMass" THEN Ok(CSetMass(c, a, opt)) ELSE Ok(CExpunge(c))

(* result of one call on the whole state *)
Apply(m, s, name, a, opt, k) ==
  IF m = "comp" THEN LET r == CCall(s, name, a, opt) IN [ok |-> r.ok, st |-> r.u]
  ELSE LET r == LCall(s.units[k], name, a, opt) IN [ok |-> r.ok, st |-> [s EXCEPT !.units[k] = r.u]]

----------------------------------------------------------------------------
(* the lattice *)
OnQ(x) == x = N \/ (x >= 1 /\ x <= MaxQ)
CompOn(c) == OnQ(c.mass) /\ (OnQ(c.spec) \/ c.spec = Xq) /\ OnQ(c.ext) /\ c.ext # N
UnitOn(u) == /\ OnQ(u.mass) /\ OnQ(u.mu) /\ OnQ(u.force) /\ u.force # N /\ OnQ(u.base) /\ OnQ(u.ball)
             /\ \A j \in Idx(u.comps) : CompOn(u.comps[j])
OnLattice(m, s) == IF m = "comp" THEN CompOn(s) ELSE \A k \in Idx(s.units) : UnitOn(s.units[k])

----------------------------------------------------------------------------
(* Level B as a transition system *)
CONSTANTS CompInits, LocoInits, LoadFiles,   \* sets of <<mode, st>>
          CompOps, LocoOps,                  \* sets of <<name, arg, opt>>
          Targets,                           \* units a call may address
          Near,                              \* BOOLEAN: near-equal mass updates are part of the component alphabet
          MaxOps

New == [name |-> "New", arg |-> 0, opt |-> "", k |-> 0, ok |-> TRUE]

Init == /\ \E ms \in CompInits \cup LocoInits \cup LoadFiles : mode = ms[1] /\ st = ms[2]
        /\ obs = (IF mode \in {"comp", "loco"} THEN Observe(mode, st) ELSE <<>>)
        /\ last = New /\ pst = st /\ pobs = obs /\ ops = <<>> /\ st0 = <<mode, st>>

(* near-equal updates: new mass = derived mass * (1 +- 2^-12), every side-effect option; on the grid only *)
(* where the derived mass is a multiple of 64 kg (the "big" component inits of the MC module)             *)
NearOps(c) == LET d == CDerived(c) IN
              IF Known(d) /\ d > 0 /\ d % 4096 = 0
              THEN {<<"SetMass", d + sg * (d \div 4096), o>> : sg \in {-1, 1}, o \in {"None", "Extensive", "Intensive"}}
              ELSE {}
Call == /\ mode \in {"comp", "loco"} /\ Len(ops) < MaxOps /\ last.name # "Load"     \* a file case ends with its Load
        /\ mode = "comp" => st.spec # Xq                                             \* nor does the model go on from an off-grid value
        /\ \E o \in (IF mode = "comp" THEN CompOps \cup (IF Near THEN NearOps(st) ELSE {}) ELSE LocoOps), k \in Targets :
             /\ (mode = "comp" => k = 1) /\ (mode = "loco" => k <= Len(st.units))
             /\ LET r == Apply(mode, st, o[1], o[2], o[3], k) IN
                /\ OnLattice(mode, r.st)
                /\ st' = r.st /\ obs' = Observe(mode, r.st)
                /\ last' = [name |-> o[1], arg |-> o[2], opt |-> o[3], k |-> k, ok |-> r.ok]
                /\ pst' = st /\ pobs' = obs
                /\ ops' = Append(ops, <<o[1], o[2], o[3], k>>)
        /\ UNCHANGED <<mode, st0>>

(* from_json / from_yaml of a file holding st: accepted iff the redundant data agree *)
Load == /\ mode \in {"loadcomp", "loadloco"} /\ ops = <<>>
        /\ LET m == IF mode = "loadcomp" THEN "comp" ELSE "loco" IN
           /\ mode' = m
           /\ last' = [name |-> "Load", arg |-> 0, opt |-> "", k |-> 0, ok |-> LoadOkB(m, st)]
           /\ obs' = Observe(m, st) /\ pobs' = Observe(m, st)
           /\ ops' = << <<"Load", 0, "", 0>> >>
        /\ UNCHANGED <<st, pst, st0>>

Next == Call \/ Load
Spec == Init /\ [][Next]_vars

=============================================================================
