SPECIFICATION Spec
CONSTANTS
  Recorded = FALSE
  Fault = "fuel_first"
  Lims <- LimOn
  Policies <- Both
  Ratings <- R123
  ConvStarts <- CS2
  BelStarts <- BS3
  MinUnits = 1
  MaxUnits = 2
  MaxSteps = 1
  WarmClasses <- WarmFew
  Classes <- AllClasses
  ThinMod = 1000000
INVARIANT TypeOK
INVARIANT Sum
INVARIANT RangePos
INVARIANT RangeNeg
INVARIANT Zero
INVARIANT NoOpposite
INVARIANT Regen
INVARIANT BatteryFirst
CHECK_DEADLOCK FALSE
