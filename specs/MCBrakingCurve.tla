--------------------------- MODULE MCBrakingCurve ---------------------------
(* Model-checking shell for BrakingCurve: constant sets of the bounded configs, and the emission  *)
(* of every admitted profile as a replayable "table" case (spec -> implementation: the harness     *)
(* runs the real BrakingPoints::recalc on a unit-mass train, where it is integer-exact).           *)
EXTENDS BrakingCurve, Json

\* pinned: the bounds of the design prototype; every profile, expected to FAIL (re-finds F-C03-1)
P_Lens == {3, 8, 20}
P_Lims == {2, 4, 8}

\* quick / thorough: long zones added so that the admitted class contains real windows
Q_Lens == {3, 8, 20, 60}
Q_Lims == {2, 4, 8}
\* sign-encoded limits: the same magnitudes, some written with a negative value
S_Lims == {2, 4, 8, -4, -8}
T_Lens == {3, 8, 20, 60, 90}
T_Lims == {2, 4, 8, 12}

\* number of admitted profiles that contain a window (increase followed by a decrease): vacuity guard
HasWindow == \E i \in 2..Len(sp) : V(sp, i) > V(sp, i-1) /\ \E j \in (i+1)..Len(sp) : V(sp, j) < V(sp, j-1)

Emit == (Admitted /\ ~under) => PrintT(<<"REPLAY", ToJson([kind |-> "table", zones |-> sp, end |-> end])>>)
=============================================================================
