SPECIFICATION Spec
CONSTANTS
  Variant = "fixed"
  Trains <- MkTrains
  LinkLens <- MK_LinkLens
  Speeds <- MK_Speeds
  Gates <- MK_Gates
  MaxLinks = 1
  MaxR = 2
INVARIANT Safe
INVARIANT Exact
INVARIANT Canonical
INVARIANT Functional
INVARIANT Emit
CHECK_DEADLOCK FALSE
