SPECIFICATION Spec
CONSTANTS
  N = 3
  W = 2
  Rounds = 2
  Variant = "maporder"
INVARIANT TypeOK
INVARIANT SingleAssignment
INVARIANT ElemSerial
INVARIANT InputsUntouched
INVARIANT ErrIsolated
INVARIANT AllWalked
INVARIANT Disjoint

CHECK_DEADLOCK FALSE
