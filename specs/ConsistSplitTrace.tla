------------------------- MODULE ConsistSplitTrace -------------------------
(* Implementation -> spec: every step the real Consist executed (driven call by call like         *)
(* ConsistSimulation::solve_step, and again through a real ConsistSimulation::walk) is bound to    *)
(* ConsistSplit's variables and ConsistSplit's own Level-A invariants are evaluated on it; only   *)
(* accepted steps are judged - consists with limit checking on and off (lim) alike, see the reading of *)
(* the statement next to ConsistSplit!InRangePos. Level-B disagreements (aggregates, accept/reject verdict, shares,   *)
(* published limits and hidden state of the toy units) are counted as drift and never decide.     *)
(* Failures do not block: they are appended to `viol` and the state re-synchronises to the        *)
(* recorded one, so every line of every case is examined in one pass.                             *)
EXTENDS ConsistSplit, Json, IOUtils

Rec == ndJsonDeserialize(IOEnv.TRACE)

VARIABLES l,        \* next line of Rec
          toy,      \* the units of the case are the toy units Level B knows
          viol,     \* <<line, case, invariant>> of every Level-A failure
          stats
tvars == <<lim, pol, units, ust, kind, rat, pub, rgn, agg, req, acc, p, mpo, mdb, den, phase, hist, l, toy, viol, stats>>

TInit == /\ l = 1 /\ viol = <<>> /\ toy = FALSE /\ lim = TRUE /\ phase = "trace" /\ hist = <<>>
         /\ stats = [cases |-> 0, steps |-> 0, accepted |-> 0, rejected |-> 0, walk_steps |-> 0, walk_short |-> 0,
                     pos |-> 0, neg |-> 0, zero |-> 0, regen_deficit |-> 0, out_deficit |-> 0, inexact |-> 0,
                     drift_agg |-> 0, drift_verdict |-> 0, drift_split |-> 0, drift_pub |-> 0, drift_ust |-> 0,
                     toy_steps |-> 0, nolim_cases |-> 0, nolim_steps |-> 0, nolim_over |-> 0, nolim_acc |-> 0, nolim_over_acc |-> 0, publish_err |-> 0, out_of_domain |-> 0, panics |-> 0]
         /\ pol = "Proportional" /\ units = <<>> /\ ust = <<>> /\ kind = <<>> /\ rat = <<>> /\ pub = <<>> /\ rgn = <<>>
         /\ agg = [out_max |-> 0, reves |-> 0, non_reves |-> 0, regen_max |-> 0, dyn_max |-> 0, def_out |-> 0, def_regen |-> 0]
         /\ req = 0 /\ acc = FALSE /\ p = <<>> /\ mpo = <<>> /\ mdb = <<>> /\ den = 1

Names(checks) == LET F == SelectSeq(checks, LAMBDA c : ~c[2]) IN [i \in 1..Len(F) |-> F[i][1]]
Report(names) == viol' = viol \o [i \in 1..Len(names) |-> <<l, Rec[l].case, names[i]>>]
B2N(b) == IF b THEN 1 ELSE 0

Begin == /\ Rec[l].ev = "begin"
         /\ pol' = Rec[l].desc.pdct /\ units' = Rec[l].desc.units /\ toy' = Rec[l].desc.toy
         /\ lim' = (IF "lim" \in DOMAIN Rec[l].desc THEN Rec[l].desc.lim ELSE TRUE)      \* Consist::set_assert_limits(lim)
         /\ ust' = [i \in 1..Len(units') |-> IF toy' THEN InitUst(units'[i]) ELSE 0]
         /\ acc' = FALSE
         /\ stats' = [stats EXCEPT !.cases = @ + 1, !.nolim_cases = @ + B2N(~lim')]
         /\ UNCHANGED <<kind, rat, pub, rgn, agg, req, p, mpo, mdb, den, viol>>

(* second pass of a case (the walk) starts from the initial units again *)
Pass == /\ Rec[l].ev = "Pass"
        /\ ust' = [i \in 1..Len(units) |-> IF toy THEN InitUst(units[i]) ELSE 0]
        /\ acc' = FALSE
        /\ UNCHANGED <<lim, pol, units, toy, kind, rat, pub, rgn, agg, req, p, mpo, mdb, den, viol, stats>>

Near(a, b, tol) == a - b <= tol /\ b - a <= tol
AggNear(a, b, tol) == /\ Near(a.out_max, b.out_max, tol) /\ Near(a.reves, b.reves, tol)
                      /\ Near(a.non_reves, b.non_reves, tol) /\ Near(a.regen_max, b.regen_max, tol)
                      /\ Near(a.dyn_max, b.dyn_max, tol)

Step == /\ Rec[l].ev = "Step"
        /\ UNCHANGED <<lim, pol, units, toy>>
        /\ LET r == Rec[l]
               n == Len(r.p)
               live == r.via = "api"
           IN
           /\ kind' = r.kind /\ rat' = r.rat /\ pub' = r.pub /\ rgn' = r.rgn /\ agg' = r.agg
           /\ req' = r.req /\ acc' = r.acc /\ p' = r.p /\ mpo' = r.mpo /\ mdb' = r.mdb /\ den' = 1
           /\ ust' = r.ust
           /\ Report(Names(<< <<"Sum", Sum'>>, <<"RangePos", RangePosOf(r.acc /\ InRangePos', r.req, r.p, r.pub, 1, IF r.exact THEN 0 ELSE 1)>>, <<"RangeNeg", RangeNeg'>>,
                              <<"Zero", (r.sg = 0) => Zero'>>, <<"NoOpposite", NoOpposite'>>, <<"Regen", Regen'>>,
                              <<"BatteryFirst", BatteryFirst'>>,
                              <<"KindsAsBuilt", r.kind = [i \in 1..Len(units) |-> units[i].k]>>,
                              <<"RollPwrOut", r.acc => RollPwrOut(r)>>,
                              <<"RollPwrFuel", r.acc => RollPwrFuel(r)>>,
                              <<"RollPwrRes", r.acc => RollPwrRes(r)>>,
                              <<"RollEnergyOut", RollEnergyOut(r)>>,
                              <<"RollEnergyFuel", RollEnergyFuel(r)>>,
                              <<"RollEnergyRes", RollEnergyRes(r)>>,
                              <<"RollGetFuel", live => RollGetFuel(r)>>,
                              <<"RollGetRes", live => RollGetRes(r)>> >>))
           /\ LET tol == (n \div 2) + 1
                  a   == AggOf(r.kind, r.rat, r.pub, r.rgn, r.agg)
                  sp  == SplitOf(pol, r.kind, r.rat, r.pub, r.rgn, WithDef(r.agg, r.req), r.req)
                  ok  == /\ Accepts(lim, pol, r.kind, r.rat, r.pub, r.rgn, r.agg, r.req)
                         /\ (toy /\ ~lim => UnitsOk(r.kind, r.rat, r.pub, sp))
                  dAgg == ~AggNear(a, r.agg, tol)
                  dVer == ok # r.acc
                  dSpl == r.acc /\ ok /\ \E i \in 1..n : ~Near(r.p[i] * sp.den, sp.num[i], 2 * sp.den)
                  dPub == toy /\ \E i \in 1..n : r.pub[i] # PubOf(units[i], ust[i]) \/ r.rgn[i] # RgnOf(units[i], ust[i])
                  dUst == toy /\ \E i \in 1..n :
                            ~Near(r.ust[i], IF r.acc THEN NextUst(units[i], ust[i], r.p[i]) ELSE ust[i], 1)
              IN stats' = [stats EXCEPT !.steps = @ + 1,
                             !.accepted = @ + B2N(r.acc), !.rejected = @ + B2N(~r.acc),
                             !.walk_steps = @ + B2N(~live),
                             !.pos = @ + B2N(r.acc /\ r.req > 0), !.neg = @ + B2N(r.acc /\ r.req < 0),
                             !.zero = @ + B2N(r.acc /\ r.req = 0),
                             !.regen_deficit = @ + B2N(r.acc /\ r.req < 0 /\ r.agg.def_regen > 0),
                             !.out_deficit = @ + B2N(r.acc /\ r.req > 0 /\ r.agg.def_out > 0),
                             !.inexact = @ + B2N(~r.exact),
                             !.toy_steps = @ + B2N(toy),
                             !.nolim_steps = @ + B2N(~lim /\ live), !.nolim_over = @ + B2N(~lim /\ live /\ r.req > r.agg.out_max),
                             !.nolim_acc = @ + B2N(~lim /\ r.acc), !.nolim_over_acc = @ + B2N(~lim /\ r.acc /\ r.req > r.agg.out_max),
                             !.drift_agg = @ + B2N(dAgg), !.drift_verdict = @ + B2N(dVer),
                             !.drift_split = @ + B2N(dSpl), !.drift_pub = @ + B2N(dPub), !.drift_ust = @ + B2N(dUst)]

(* the walk stopped before the end of a trace made of requests the API pass had accepted: a Level-B *)
(* disagreement between the two ways of driving the consist (counted, not decided)                  *)
Walk == /\ Rec[l].ev = "Walk"
        /\ stats' = [stats EXCEPT !.walk_short = @ + B2N(Rec[l].steps # Rec[l].want)]
        /\ acc' = FALSE
        /\ UNCHANGED <<lim, pol, units, toy, ust, kind, rat, pub, rgn, agg, req, p, mpo, mdb, den, viol>>

PublishErr == /\ Rec[l].ev = "PublishErr"
              /\ stats' = [stats EXCEPT !.publish_err = @ + 1]
              /\ UNCHANGED <<lim, pol, units, toy, ust, kind, rat, pub, rgn, agg, req, acc, p, mpo, mdb, den, viol>>

(* the pass ended because a unit published a negative traction limit: outside the explored domain *)
(* (known finding F-C10-1, represented by the materialised inputs under known/)                   *)
OutOfDomain == /\ Rec[l].ev = "OutOfDomain"
               /\ stats' = [stats EXCEPT !.out_of_domain = @ + 1]
               /\ UNCHANGED <<lim, pol, units, toy, ust, kind, rat, pub, rgn, agg, req, acc, p, mpo, mdb, den, viol>>

(* a panic / abort / timeout is not a step: reported as NoPanic (owned by no property of this group). Only *)
(* the first 100 are listed (all are counted): the driver keeps details for a bounded number of cases.     *)
Panic == /\ Rec[l].ev \in {"panic", "abort", "timeout"}
         /\ Report(IF stats.panics < 100 THEN <<"NoPanic">> ELSE <<>>)
         /\ stats' = [stats EXCEPT !.panics = @ + 1]
         /\ acc' = FALSE
         /\ UNCHANGED <<lim, pol, units, toy, ust, kind, rat, pub, rgn, agg, req, p, mpo, mdb, den>>

End == /\ Rec[l].ev = "end"
       /\ Report(Names(<< <<"HarnessOk", Rec[l].result # "harness_err">> >>))
       /\ UNCHANGED <<lim, pol, units, toy, ust, kind, rat, pub, rgn, agg, req, acc, p, mpo, mdb, den, stats>>

TNext == /\ l <= Len(Rec) /\ l' = l + 1 /\ UNCHANGED <<phase, hist>>
         /\ (Begin \/ Pass \/ Step \/ Walk \/ PublishErr \/ OutOfDomain \/ Panic \/ End)
TSpec == TInit /\ [][TNext]_tvars

AtEnd == l > Len(Rec) => /\ PrintT(<<"VIOLS", ToJson(viol)>>)
                         /\ PrintT(<<"STATS", ToJson(stats)>>)
Accepted == IF TLCGet("stats").diameter - 1 = Len(Rec) THEN TRUE
            ELSE Print(<<"FIRST-UNMATCHED", TLCGet("stats").diameter, Rec[TLCGet("stats").diameter]>>, FALSE)
=============================================================================
