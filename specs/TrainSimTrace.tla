--------------------------- MODULE TrainSimTrace ---------------------------
(* Implementation -> spec: every saved step of every recorded run (set-speed toy runs replayed    *)
(* from the Level-B models or generated, realistic speed-limited runs, direct drives of the real  *)
(* path_res::Strap) is bound to TrainSim's variables <<hdr, prev, cur>> and TrainSim's own        *)
(* Level-A operators are evaluated on it. Failures are appended to `viol` and the state           *)
(* re-synchronises to the recorded one: one pass examines every line of every case.               *)
EXTENDS TrainSim, Json, IOUtils

Rec == ndJsonDeserialize(IOEnv.TRACE)

VARIABLES l,        \* next line of Rec
          viol,     \* <<line, case, invariant>> of every Level-A failure
          stats
tvars == <<hdr, prev, cur, mb, l, viol, stats>>

Stat0 == [cases |-> 0, steps |-> 0, ss_steps |-> 0, sl_steps |-> 0, clipped |-> 0, unclipped |-> 0, braking |-> 0,
          boundary |-> 0, multilink |-> 0, astride |-> 0, curved |-> 0, negerr |-> 0, othererr |-> 0, slerr |-> 0,
          rejected |-> 0, strap |-> 0, strap_rounded |-> 0, strap_drift |-> 0, strap_err |-> 0, getters |-> 0, inexact |-> 0,
          ss_runs |-> 0, sl_runs |-> 0, sl_arrived |-> 0, relisted |-> 0, relisted_res |-> 0, nolim |-> 0, clip_hi |-> 0,
          clip_lo |-> 0, point_steps |-> 0, point_graded |-> 0, nolim_clip |-> 0, sl_t0 |-> 0, sl_mid_t0 |-> 0, vecs |-> 0, vec_sims |-> 0, vec_multi |-> 0]

TInit == /\ l = 1 /\ viol = <<>> /\ stats = Stat0
         /\ hdr = Nil /\ prev = Nil /\ cur = Nil /\ mb = Nil

Names(checks) == LET F == SelectSeq(checks, LAMBDA c : ~c[2]) IN [i \in 1..Len(F) |-> F[i][1]]
Report(names) == viol' = viol \o [i \in 1..Len(names) |-> <<l, Rec[l].case, names[i]>>]
B2N(b) == IF b THEN 1 ELSE 0

Begin == /\ Rec[l].ev = "begin"
         /\ hdr' = Nil /\ prev' = Nil /\ cur' = Nil /\ mb' = Nil
         /\ stats' = [stats EXCEPT !.cases = @ + 1]
         /\ UNCHANGED viol

(* header of a run: derived field `segs` (elevation segments in path coordinates) is computed once *)
Hdr == /\ Rec[l].ev = "Hdr"
       /\ hdr' = [f \in (DOMAIN Rec[l]) \cup {"segs"} |-> IF f = "segs" THEN SegsOf(Rec[l].links) ELSE Rec[l][f]]
       /\ prev' = Nil /\ cur' = Nil /\ mb' = [neg |-> FALSE]
       /\ Report(Names(<< <<"ResTowed", Rec[l].mode = "ss" => ResTowedOf(hdr')>> >>))
       /\ stats' = [stats EXCEPT !.ss_runs = @ + B2N(Rec[l].mode = "ss"), !.sl_runs = @ + B2N(Rec[l].mode = "sl"),
                                 !.inexact = @ + B2N(Rec[l].mode = "ss" /\ ~Rec[l].exact),
                                 \* (coverage counters below come from what the run was GIVEN, not from values under test)
                                 !.relisted = @ + B2N(Rec[l].relist), !.relisted_res = @ + B2N(Rec[l].relist /\ NRes(Rec[l]) > 0),
                                 !.nolim = @ + B2N(Rec[l].nolim),
                                 !.sl_t0 = @ + B2N(Rec[l].mode = "sl" /\ Rec[l].t0 # 0)]

(* Step k of a set-speed run uses trace points k-1 and k: it must be refused iff one of them is negative (the   *)
(* first trace point is never a step of its own: a negative first point makes step 1 the step to refuse).        *)
NegAt(h, k) == k >= 1 /\ (h.tv[k + 1] < 0 \/ h.tv[k] < 0)
(* Garbage in: a run that has already accepted a negative prescribed speed moves the train backwards under       *)
(* forward-hinted caches and possibly off the route: only the rejection itself and the pure bookkeeping          *)
(* relations (time, offset, back, distance) are judged on the rest of such a run.                                *)
Garbage(h, m) == h.mode = "ss" /\ m.neg

BookChecks(h, p, c) ==
  \* (the first step of a run whose initial clock is not the trace's has no previous time to be compared with)
  \* (likewise a rolling start under the default initial speed: step 1 integrates the trace's speeds, and the saved
  \* initial speed is not the trace's; the power relations of step 1 are stated against the trace and stay judged)
  << <<"KinTime", (c.k = 1 /\ ~h.t0sync) \/ KinTimeOf(h, p, c)>>,
     <<"KinOffset", (c.k = 1 /\ ~h.v0sync) \/ KinOffsetOf(h, p, c)>>,
     <<"KinBack", KinBackOf(h, c)>>, <<"KinDist", KinDistOf(h, p, c)>> >>
KinChecks(h, p, c) ==
  BookChecks(h, p, c) \o
  << <<"LocLink", LocLinkOf(h, c)>>, <<"LocSum", LocLinkOf(h, c) => LocSumOf(h, c)>>,
     <<"LocRange", LocSumOf(h, c) => LocRangeOf(h, c)>> >>
PwrChecks(h, p, c) ==
  << <<"FollowTime", FollowTimeOf(h, c)>>, <<"FollowSpeed", FollowSpeedOf(h, c)>>,
     <<"MassCompound", MassCompoundOf(c)>>, <<"PwrAccel", PwrAccelOf(h, c)>>,
     \* (the initial record carries no forces yet: the first step has only one alignment to offer, so it is not judged)
     <<"PwrRes", c.k = 1 \/ PwrResOf(h, c, c.F) \/ PwrResOf(h, c, p.F)>>, <<"PwrClip", PwrClipOf(p, c)>>,
     <<"PwrDynCap", PwrDynCapOf(c)>>, <<"PwrEnergy", PwrEnergyOf(h, p, c)>>, <<"PwrEnergyPos", PwrEnergyPosOf(h, p, c)>>,
     <<"PwrEnergyNeg", PwrEnergyNegOf(h, p, c)>> >>
(* a force record matches the definition at the state saved one step earlier or at its own state *)
(* the clauses that do not depend on the resistance method; then those of the method the run used (Strap: over the *)
(* train's length and at its ends; Point: the grade at the train's mid-point)                                       *)
ResChecks(h, p, c) ==
  << <<"ResMass", ResMassOf(h, c)>>, <<"ResWeight", ResWeightOf(c)>>,
     <<"ResRolling", ResRollingOf(h, c)>>, <<"ResBearing", ResBearingOf(h, c)>>,
     <<"ResDavisB", ResDavisOf(h, p, c) \/ ResDavisOf(h, c, c)>>,
     <<"ResAero", ResAeroOf(h, p, c) \/ ResAeroOf(h, c, c)>> >> \o
  IF h.res = "point" THEN << <<"ResGradePoint", ResGradePointOf(h, p, c) \/ ResGradePointOf(h, c, c)>> >> ELSE
  << <<"ResGrade", ResGradeOf(h, p, c) \/ ResGradeOf(h, c, c)>>,
     <<"ResCurve", ResCurveOf(h, p, c) \/ ResCurveOf(h, c, c)>>,
     <<"ResElevFront", ResElevFrontOf(h, p, c) \/ ResElevFrontOf(h, c, c)>>,
     <<"ResGradeFront", ResGradeFrontOf(h, p, c) \/ ResGradeFrontOf(h, c, c)>>,
     <<"ResGradeBack", ResGradeBackOf(h, p, c) \/ ResGradeBackOf(h, c, c)>> >>
LedChecks(c) ==
  << <<"LedPwrTrainConsist", LedPwrTrainConsistOf(c)>>, <<"LedPwrConsistLocos", LedPwrConsistLocosOf(c)>>,
     <<"LedEnergyOut", LedEnergyOutOf(c)>>, <<"LedEnergyPos", LedEnergyPosOf(c)>>,
     <<"LedEnergyNeg", LedEnergyNegOf(c)>>, <<"LedFuel", LedFuelOf(c)>>, <<"LedRes", LedResOf(c)>> >>

Step ==
  /\ Rec[l].ev = "Step"
  /\ LET c == Rec[l]  h == hdr  p == cur  ss == h.mode = "ss" IN
     /\ cur' = c /\ prev' = cur /\ UNCHANGED hdr
     /\ mb' = [neg |-> mb.neg \/ (ss /\ NegAt(h, c.k))]
     /\ IF c.ovf THEN Report(<<"QOverflow">>)
        ELSE IF c.k = 0
        THEN \* the initial state: position bookkeeping only (nothing has been computed yet): rear = front - length,
             \* no distance travelled; it agrees with the first trace point in speed, and in time when the run was
             \* given the trace's clock origin / first speed (h.t0sync, h.v0sync; a run started with the default clock or
             \* as a rolling start under the default speed 0 is judged from step 1)
             Report(Names(<< <<"KinBack", KinBackOf(h, c)>>, <<"KinDist", Abs(c.dist) <= Q(h)>> >>
                          \o (IF ss THEN << <<"FollowTime", h.t0sync => FollowTimeOf(h, c)>>,
                                         <<"FollowSpeed", h.v0sync => FollowSpeedOf(h, c)>> >> ELSE <<>>)))
        ELSE IF Garbage(h, mb) \/ (ss /\ NegAt(h, c.k))
        THEN \* an accepted step that had to be refused, or the rest of such a run
             Report(Names(<< <<"NegSpeedRejected", ~NegAt(h, c.k)>> >> \o BookChecks(h, p, c)))
        ELSE Report(Names(KinChecks(h, p, c) \o LedChecks(c)
                          \o (IF ss THEN PwrChecks(h, p, c) \o ResChecks(h, p, c) ELSE <<>>)))
     /\ stats' = IF c.k = 0 \/ c.ovf \/ Garbage(h, mb') THEN stats ELSE
          [stats EXCEPT !.steps = @ + 1, !.ss_steps = @ + B2N(ss), !.sl_steps = @ + B2N(~ss),
             !.clipped = @ + B2N(ss /\ Abs(c.pw - (c.pa + c.pr)) > 4),
             !.unclipped = @ + B2N(ss /\ Abs(c.pw - (c.pa + c.pr)) <= 4 /\ c.pw # 0),
             !.braking = @ + B2N(c.pw < 0),
             \* the un-clipped demand lies beyond the published traction limit / dynamic-braking capability
             !.clip_hi = @ + B2N(ss /\ c.pa + c.pr > c.c.max + 4),
             !.clip_lo = @ + B2N(ss /\ c.pa + c.pr < -Max2(c.c.dyn, 0) - 4),
             !.nolim_clip = @ + B2N(ss /\ h.nolim /\ (c.pa + c.pr > c.c.max + 4 \/ c.pa + c.pr < -Max2(c.c.dyn, 0) - 4)),
             !.point_steps = @ + B2N(ss /\ h.res = "point"),
             !.point_graded = @ + B2N(ss /\ h.res = "point" /\ Slopes(h, p.x - h.len \div 2) # {0}),
             !.sl_mid_t0 = @ + B2N(~ss /\ c.k = 1 /\ h.t0 # 0 /\ p.xb > 1),
             !.boundary = @ + B2N(LocLinkOf(h, c) /\ \E j \in Named(h, c) : c.xin = h.links[j].len /\ j < Len(h.links)),
             !.multilink = @ + B2N(LocLinkOf(h, c) /\ LocLinkOf(h, p) /\
                                   \E j \in Named(h, c), i \in Named(h, p) : j >= i + 2),
             \* coverage counters are taken from the header's geometry, not from the values under test
             !.astride = @ + B2N(ss /\ OnRoute(h, p.x) /\ OnRoute(h, p.x - h.len) /\ Slopes(h, p.x) # Slopes(h, p.x - h.len)),
             !.curved = @ + B2N(ss /\ CurveIdx(h, p.x) # {} /\ CurveIdx(h, p.x - h.len) # {}
                                   /\ COf(h, p.x) # COf(h, p.x - h.len))]

StepErr ==
  /\ Rec[l].ev = "StepErr"
  /\ UNCHANGED <<hdr, prev, cur, mb>>
  /\ LET k == Rec[l].k  ss == hdr.mode = "ss"
         neg == ss /\ k + 1 <= Len(hdr.tv) /\ NegAt(hdr, k) IN
     \* the negative-speed guard may only refuse a step whose prescribed speed is negative ("and not before");
     \* refusals for other reasons (a consist that cannot deliver: empty battery ...) are counted, not judged
     /\ Report(Names(<< <<"RefusedOnlyNegative", (ss /\ Rec[l].why = "neg") => neg>> >>))
     /\ stats' = [stats EXCEPT !.negerr = @ + B2N(neg), !.othererr = @ + B2N(ss /\ ~neg), !.slerr = @ + B2N(~ss)]

Get ==
  /\ Rec[l].ev = "Get"
  /\ UNCHANGED <<hdr, prev, cur, mb>>
  /\ LET g == Rec[l] IN
     Report(Names(<< <<"GetPlain", GetPlainOf(g.fuel) /\ GetPlainOf(g.res) /\ GetPlainOf(g.km)>>,
                     <<"GetAnnual", /\ GetAnnualOf(g.fuel, g.days) /\ GetAnnualOf(g.res, g.days)
                                    /\ GetAnnualOf(g.km, g.days) /\ GetAnnualOf(g.mgkm, g.days)>>,
                     <<"GetMgKm", GetMgKmOf(g)>>,
                     <<"GetResKm", GetUnitKmOf(g.reskm, NRes(hdr)) /\ GetAnnualOf(g.reskm, g.days)>>,
                     \* (wrap: the code's unsigned `number of units - count` went below zero: a panic or a wrapped value)
                     <<"GetNonResKm", ~g.wrap /\ GetUnitKmOf(g.nonreskm, NNonRes(hdr)) /\ GetAnnualOf(g.nonreskm, g.days)>> >>))
  /\ stats' = [stats EXCEPT !.getters = @ + 1]

(* outputs of a SpeedLimitTrainSimVec made of the finished runs of the case *)
GetVec ==
  /\ Rec[l].ev = "GetVec"
  /\ UNCHANGED <<hdr, prev, cur, mb>>
  /\ LET g == Rec[l] IN
     /\ Report(Names(<< <<"VecFuel", Len(g.fuel[1]) = g.n /\ VecSumOf(g.fuel)>>, <<"VecRes", Len(g.res[1]) = g.n /\ VecSumOf(g.res)>>,
                        <<"VecMgKm", Len(g.mgkm[1]) = g.n /\ VecSumOf(g.mgkm)>>, <<"VecKm", Len(g.km[1]) = g.n /\ VecSumOf(g.km)>>,
                        <<"VecResKm", Len(g.reskm[1]) = g.n /\ VecSumOf(g.reskm)>>,
                        \* (a simulation whose own count wrapped has been reported at its Get record: the sum is not judged then)
                        <<"VecNonResKm", g.wrap \/ (Len(g.nonreskm[1]) = g.n /\ VecSumOf(g.nonreskm))>> >>))
     /\ stats' = [stats EXCEPT !.vecs = @ + 1, !.vec_sims = @ + g.n, !.vec_multi = @ + B2N(g.n >= 2)]

Done == /\ Rec[l].ev = "Done"
        /\ UNCHANGED <<hdr, prev, cur, mb, viol>>
        /\ stats' = [stats EXCEPT !.sl_arrived = @ + B2N(hdr.mode = "sl" /\ Rec[l].result = "arrived")]

(* direct drive of the real path_res::Strap: Level A on every returned value, Level B (the cached  *)
(* indices the model predicts) counted as drift                                                     *)
StrapHdr == /\ Rec[l].ev = "StrapHdr"
            /\ hdr' = StrapHdrOf([i \in 1..Len(Rec[l].prof) |-> <<2 * Rec[l].prof[i][1], Rec[l].prof[i][2]>>], 2 * Rec[l].tl)
            /\ mb' = [idf |-> 1, idb |-> 1]
            /\ prev' = Nil /\ cur' = Nil
            /\ UNCHANGED <<viol, stats>>
DirName(d) == CASE d = 0 -> "Fwd" [] d = 1 -> "Bwd" [] OTHER -> "Unk"
Strap ==
  /\ Rec[l].ev = "Strap"
  /\ UNCHANGED hdr
  /\ LET r == Rec[l] IN
     IF r.ok THEN
        LET c == [x |-> r.x, rgl |-> r.val, gf |-> r.gf, gb |-> r.gb, elev |-> r.ef]
            m == StrapStep(hdr, mb.idf, mb.idb, r.x, DirName(r.dir)) IN
        /\ cur' = c /\ prev' = cur
        /\ mb' = [idf |-> r.idf + 1, idb |-> r.idb + 1]
        /\ Report(Names(<< <<"ResGrade", ResGradeOf(hdr, c, c)>>, <<"ResElevFront", ResElevFrontOf(hdr, c, c)>>,
                           <<"ResGradeFront", ResGradeFrontOf(hdr, c, c)>>, <<"ResGradeBack", ResGradeBackOf(hdr, c, c)>> >>))
        \* a value that needed rounding to reach its lattice point is counted, not judged (last-ulp differences of an
        \* algebraically equivalent formula are allowed)
        /\ stats' = [stats EXCEPT !.strap = @ + 1, !.strap_rounded = @ + B2N(~r.exact),
                                  !.strap_drift = @ + B2N(m.idf # r.idf + 1 \/ m.idb # r.idb + 1 \/ m.rgl # r.val)]
     ELSE /\ Report(<<"StrapOk">>)          \* every emitted move lies inside the profile
          /\ UNCHANGED <<prev, cur, mb>>
          /\ stats' = [stats EXCEPT !.strap_err = @ + 1]

Rejected == /\ Rec[l].ev = "Rejected"
            /\ stats' = [stats EXCEPT !.rejected = @ + 1]
            /\ UNCHANGED <<hdr, prev, cur, mb, viol>>

Panic == /\ Rec[l].ev \in {"panic", "abort", "timeout"}
         /\ Report(<<"NoPanic">>)
         /\ UNCHANGED <<hdr, prev, cur, mb, stats>>

End == /\ Rec[l].ev = "end"
       /\ Report(Names(<< <<"HarnessOk", Rec[l].result # "harness_err">> >>))
       /\ UNCHANGED <<hdr, prev, cur, mb, stats>>

TNext == /\ l <= Len(Rec) /\ l' = l + 1
         /\ (Begin \/ Hdr \/ Step \/ StepErr \/ Get \/ GetVec \/ Done \/ StrapHdr \/ Strap \/ Rejected \/ Panic \/ End)
TSpec == TInit /\ [][TNext]_tvars

AtEnd == l > Len(Rec) => /\ PrintT(<<"VIOLS", ToJson(viol)>>)
                         /\ PrintT(<<"STATS", ToJson(stats)>>)
Accepted == IF TLCGet("stats").diameter - 1 = Len(Rec) THEN TRUE
            ELSE Print(<<"FIRST-UNMATCHED", TLCGet("stats").diameter, Rec[TLCGet("stats").diameter]>>, FALSE)
=============================================================================
