------------------------------ MODULE TrainSim ------------------------------
(***************************************************************************)
(* Train simulation runs (SetSpeedTrainSim / SpeedLimitTrainSim) seen as a  *)
(* header `hdr` (constants of the run: route, elevation points, car table,  *)
(* speed trace, scales) and the last two *saved* steps `prev`, `cur`.       *)
(*                                                                          *)
(* Level A (the properties), all operators over (h, p, c) = (header,        *)
(* previous saved step, current saved step):                                *)
(*   (a) Kinematics  C12  KinTime KinOffset KinBack KinDist Loc*            *)
(*   (b) Power       C14  Follow* MassCompound PwrAccel PwrRes PwrClip      *)
(*                        PwrEnergy*                                        *)
(*   (c) Resistance  C07  ResMass ResWeight ResRolling ResDavisB ResBearing *)
(*                        ResAero ResGrade ResCurve ResElevFront            *)
(*                        ResGradeFront ResGradeBack (Strap method);        *)
(*                        ResGradePoint (Point method: mid-point grade)     *)
(*   (d) Ledger      C11  Led* Get* (trip outputs of one simulation and of  *)
(*                        a vector of simulations)                          *)
(* Level B (implementation-shaped, model-checked, replayed):                *)
(*   (a) set_link_and_offset on half-integer positions over 1..4 links      *)
(*   (c) the two cached indices of path_res::Strap with                     *)
(*       LinSearchHint::calc_idx and its direction hint                     *)
(*   (d) a three-level energy accumulator with a fault action; the consist's *)
(*       make-up (Consist::new, set_loco_vec) and its unit-kilometre outputs *)
(* Every Level-B model writes the same record fields the harness logs, so   *)
(* the same Level-A operators judge model states and recorded states.       *)
(* Bounded configs (MCTrainSim_*.cfg; distinct states, seconds on 8 idle    *)
(* workers): locateQ 3 links x 3 moves 6 375 / 1.4 s, locateT 4 links       *)
(* 50 493 / 2 s (every (route, front sequence) emitted), strapE 30 302 /    *)
(* 3 s (emitted), strapQ3 99 335 / 7 s, strapQ depth 4 447 557 / 38 s,      *)
(* strapT 4 segments depth 4 1 484 686 / 2-5 min, ledger 4 625 / 1 s,       *)
(* fault 66 284 / 2.5 s (invariant FaultDetected: a skipped update always   *)
(* breaks the equalities), relist (make-up under Consist::new /              *)
(* set_loco_vec, <= 2 units) 157 / 1 s (every pair emitted; relistC, the     *)
(* count cached as in the code, violates RelistResKm: finding F-C11-1).      *)
(*                                                                          *)
(* Numbers. Set-speed runs ("ss") are toy-scale and dyadic: every logged    *)
(* quantity that the code computes without g / rho_air is exactly on its    *)
(* lattice, the others are normalised by the harness' projection (division  *)
(* by a constant or a logged field, see avh_trainsim.rs) back onto a        *)
(* lattice: those relations are checked with tolerance 0. Powers, forces    *)
(* and energies in W / N / J carry g and rho, are rounded to the unit of    *)
(* their scale and are compared with the quantisation bound derived next to *)
(* each relation. Speed-limited runs ("sl") are realistic-scale: additive / *)
(* order relations only, one unit of quantisation per rounded term.         *)
(* Scales of "ss": t 1/4 s, v 1/2 m/s, offsets 1/16 m, elevations 2^-18 m,  *)
(* grades 2^-14, forces 1/128 N, powers 1/8 W, energies 1/4 J, mass kg.     *)
(***************************************************************************)
EXTENDS Integers, Sequences, FiniteSets, TLC

VARIABLES hdr,      \* header of the run
          prev,     \* previous saved step
          cur,      \* current saved step
          mb        \* Level-B bookkeeping (cache indices, history of the behaviour)
vars == <<hdr, prev, cur, mb>>

Abs(x) == IF x < 0 THEN -x ELSE x
Max2(a, b) == IF a > b THEN a ELSE b
Min2(a, b) == IF a < b THEN a ELSE b
Clip(x, lo, hi) == Max2(lo, Min2(hi, x))

RECURSIVE SumSeq(_, _)
SumSeq(s, n) == IF n = 0 THEN 0 ELSE s[n] + SumSeq(s, n - 1)
Sum(s) == SumSeq(s, Len(s))

----------------------------------------------------------------------------
(* (a) Kinematics — C12                                                      *)
Q(h) == IF h.mode = "ss" THEN 0 ELSE 1          \* quantisation unit of an "sl" record, 0 on the lattice

KinTimeOf(h, p, c) == Abs((c.t - p.t) - c.dt) <= Q(h)

(* 2 (x_k - x_{k-1}) = dt (v_k + v_{k-1}); offsets at 1/so, speeds at 1/sv, times at 1/st.          *)
(* "sl": the two offsets contribute <= 1 unit together, the two speeds <= 1 unit, dt is exact;     *)
(* the speed snap onto speed_target (almost_eq, 1e-8 relative) is far below one unit.              *)
KinOffsetOf(h, p, c) ==
  LET lhs == 2 * h.st * h.sv * (c.x - p.x)
      rhs == h.so * c.dt * (c.v + p.v)
  IN Abs(lhs - rhs) <= Q(h) * (2 * h.st * h.sv + h.so * c.dt + h.so)

KinBackOf(h, c) == Abs(c.xb - (c.x - h.len)) <= Q(h)
KinDistOf(h, p, c) == Abs((c.dist - p.dist) - Abs(c.x - p.x)) <= 2 * Q(h)

RECURSIVE BaseOf(_, _)
BaseOf(ls, j) == IF j <= 1 THEN 0 ELSE BaseOf(ls, j - 1) + ls[j - 1].len
TotalLen(ls) == BaseOf(ls, Len(ls) + 1)

(* the link the state names, its base offset plus the in-link offset is the position, and the      *)
(* in-link offset lies in the closed interval [0, link length]                                      *)
Named(h, c) == {j \in 1..Len(h.links) : h.links[j].idx = c.link}
LocLinkOf(h, c)  == Named(h, c) # {}
LocSumOf(h, c)   == \E j \in Named(h, c) : Abs(BaseOf(h.links, j) + c.xin - c.x) <= Q(h)
LocRangeOf(h, c) == \E j \in Named(h, c) : /\ Abs(BaseOf(h.links, j) + c.xin - c.x) <= Q(h)
                                           /\ -Q(h) <= c.xin /\ c.xin <= h.links[j].len + Q(h)

----------------------------------------------------------------------------
(* (b) Power — C14 (set-speed runs only; step k of the run is trace index k) *)
TrDt(h, k)  == h.tt[k + 1] - h.tt[k]                        \* trace dt          [1/4 s]
TrW(h, k)   == h.tv[k + 1] + h.tv[k]                        \* v_k + v_{k-1}     [1/2 m/s]
TrDV2(h, k) == h.tv[k + 1] * h.tv[k + 1] - h.tv[k] * h.tv[k]  \* v_k^2 - v_{k-1}^2 [1/4 m2/s2]

FollowTimeOf(h, c)  == c.t = h.tt[c.k + 1]
FollowSpeedOf(h, c) == c.v = h.tv[c.k + 1]
MassCompoundOf(c)   == c.mc = c.ms + c.mr
(* pan = pwr_accel / m_c [1/32 W/kg]: pan 2 dt = dv2  <=>  pan_q dt_q = 16 dv2_q                    *)
PwrAccelOf(h, c) == c.pan * TrDt(h, c.k) = 16 * TrDV2(h, c.k)
(* pwr_res = (sum of six saved forces) (v_k + v_{k-1}) / 2  <=>  64 pr_q = F_q w_q;                  *)
(* pr is rounded (1/2 unit x 64), each force is rounded (6 x 1/2 unit x w). F is the force record    *)
(* the power figure is judged against: callers accept the one saved with it or the one saved one     *)
(* step earlier (same freedom of alignment as in section (c))                                        *)
PwrResOf(h, c, F) == Abs(64 * c.pr - Sum(F) * TrW(h, c.k)) <= 33 + 3 * Abs(TrW(h, c.k))
(* clip, in 1/32 W. Upper limit: the consist's published maximum and the published ramp            *)
(* (previous wheel power + rate x dt, dt of the previous or of the current step: the statement     *)
(* does not fix which); lower limit: minus the dynamic-braking capability in force before or after *)
(* the step. Every branch compares at most three rounded powers (6) or two and the ramp product.   *)
UpperOf(p, c, dtx) == Min2(4 * c.c.max, Max2(0, 4 * p.pw + c.c.rate * dtx))
PwrClipOf(p, c) ==
  \E dtx \in {p.dt, c.dt}, dyn \in {p.c.dyn, c.c.dyn} :
     Abs(4 * c.pw - Clip(4 * (c.pa + c.pr), -4 * Max2(dyn, 0), UpperOf(p, c, dtx))) <= 8 + dtx
(* the dynamic-braking capability the consist publishes with a saved step is that of its CURRENT locomotives:   *)
(* the sum of their drivetrain ratings (ls.dyn, summed by the projection; both sides rounded to 1/8 W)           *)
PwrDynCapOf(c) == Abs(c.c.dyn - c.ls.dyn) <= 1 + (Abs(c.c.dyn) + Abs(c.ls.dyn)) \div 100000000
(* energy_whl_out accumulates pwr_whl_out x the trace's own dt: 8 de_q = pw_q dt_q                  *)
ETol(h, c) == 9 + TrDt(h, c.k)
PwrEnergyOf(h, p, c)    == Abs(8 * (c.e - p.e) - c.pw * TrDt(h, c.k)) <= ETol(h, c)
PwrEnergyPosOf(h, p, c) == Abs(8 * (c.ep - p.ep) - Max2(c.pw, 0) * TrDt(h, c.k)) <= ETol(h, c)
PwrEnergyNegOf(h, p, c) == Abs(8 * (c.en - p.en) - Max2(-c.pw, 0) * TrDt(h, c.k)) <= ETol(h, c)

----------------------------------------------------------------------------
(* (c) Resistance — C07 (toy-scale runs). A force record c is judged against the state s at which  *)
(* it was evaluated: the statement does not fix whether that is the state saved one step earlier   *)
(* (what the code does) or the state saved with it, so callers accept either.                      *)
(* car table row: <<n, mass (base + freight), axles, rot/axle, bearing/axle, rolling, davis_b, cd_area, length>> *)
RECURSIVE CarSum(_, _, _)
CarSum(cars, F(_), n) == IF n = 0 THEN 0 ELSE F(cars[n]) + CarSum(cars, F, n - 1)
OverCars(h, F(_)) == CarSum(h.cars, F, Len(h.cars))

CarsMass(h) == LET F(r) == r[1] * r[2] IN OverCars(h, F)
TowedOf(h)  == IF h.override >= 0 THEN h.override ELSE CarsMass(h)
RollSum(h)  == LET F(r) == r[6] * r[2] * r[1] IN OverCars(h, F)     \* sum r_t m_t n_t
DavisSum(h) == LET F(r) == r[7] * r[2] * r[1] IN OverCars(h, F)     \* sum b_t m_t n_t
BearSum(h)  == LET F(r) == r[5] * r[3] * r[1] IN OverCars(h, F)     \* sum per axle
CdaSum(h)   == LET F(r) == r[8] * r[1] IN OverCars(h, F)

ResTowedOf(h)      == h.towed = TowedOf(h)                 \* the divisor used by the projection of rr, db
(* the consist's mass is the sum of its locomotives' masses as the make-up describes them (h.umass: explicit mass, or    *)
(* baseline + ballast + components for a unit described by its parts); runs without a described make-up (realistic-scale *)
(* default consists) fall back on the consist's own report                                                               *)
ConMassOf(h)       == IF h.umass = <<>> THEN h.con_mass ELSE Sum(h.umass)
ResMassOf(h, c)    == c.ms = TowedOf(h) + ConMassOf(h)     \* cars (or override) + consist
ResWeightOf(c)     == c.wg = c.ms                          \* weight / g
ResRollingOf(h, c) == c.rr = RollSum(h)                    \* res_rolling / weight x towed mass
ResDavisOf(h, s, c) == c.db = DavisSum(h) * s.v
ResBearingOf(h, c) == c.be = BearSum(h)
ResAeroOf(h, s, c) == c.ae = CdaSum(h) * s.v * s.v         \* res_aero / rho

(* elevation profile of the route recomputed from the links' elevation points (header):            *)
(* segments in path coordinates, E piecewise linear. The breakpoints of the toy routes are spaced  *)
(* by powers of two, so K = 4096 / (ob - oa) is an integer and E lands on the 2^-18 m lattice.     *)
SegsOf(links) ==
  UNION {{[oa |-> BaseOf(links, j) + links[j].el[i][1], ob |-> BaseOf(links, j) + links[j].el[i + 1][1],
           ea |-> links[j].el[i][2], eb |-> links[j].el[i + 1][2]] : i \in 1..(Len(links[j].el) - 1)}
         : j \in 1..Len(links)}
Cover(h, x) == {g \in h.segs : g.oa <= x /\ x <= g.ob}
KOf(g)      == 4096 \div (g.ob - g.oa)
SlopeOf(g)  == (g.eb - g.ea) * KOf(g)                                  \* [2^-14]
EAt(g, x)   == g.ea * 4096 + (g.eb - g.ea) * (x - g.oa) * KOf(g)       \* [2^-18 m]
EOf(h, x)   == EAt(CHOOSE g \in Cover(h, x) : TRUE, x)   \* continuous profile: any covering segment
Slopes(h, x) == {SlopeOf(g) : g \in Cover(h, x)}         \* the one or two slopes meeting at x
OnRoute(h, x) == Cover(h, x) # {}

(* cumulative curve resistance of the path (header: the path's own curve table, offsets at 1/so,   *)
(* cumulative value at 2^-18 m): piecewise linear                                                   *)
CurveIdx(h, x) == {i \in 1..(Len(h.curves) - 1) : h.curves[i][1] <= x /\ x <= h.curves[i + 1][1]}
COf(h, x) == LET i == CHOOSE i \in CurveIdx(h, x) : TRUE
                 a == h.curves[i]  b == h.curves[i + 1]
             IN a[2] + ((b[2] - a[2]) * (x - a[1])) \div (b[1] - a[1])

(* res_grade x length = weight x (E(front) - E(back));  rgl = res_grade / weight x length           *)
ResGradeOf(h, s, c) == /\ OnRoute(h, s.x) /\ OnRoute(h, s.x - h.len)
                       /\ c.rgl = EOf(h, s.x) - EOf(h, s.x - h.len)
(* the Point method (TrainRes::Point) takes the grade at the train's mid-point: res_grade / weight is a slope   *)
(* of the profile there (either one at a breakpoint); rgl = that ratio x length                                  *)
ResGradePointOf(h, s, c) == \E g \in Slopes(h, s.x - h.len \div 2) : c.rgl = g * h.len
ResCurveOf(h, s, c) == /\ CurveIdx(h, s.x) # {} /\ CurveIdx(h, s.x - h.len) # {}
                       /\ c.rcl = COf(h, s.x) - COf(h, s.x - h.len)
ResElevFrontOf(h, s, c)  == OnRoute(h, s.x) /\ c.elev = EOf(h, s.x)
ResGradeFrontOf(h, s, c) == c.gf \in Slopes(h, s.x)
ResGradeBackOf(h, s, c)  == c.gb \in Slopes(h, s.x - h.len)

----------------------------------------------------------------------------
(* (d) Ledger — C11. AlmostEq is the code's own contract (utils::almost_eq: 1e-8 relative to the   *)
(* sum, or 1e-8 absolute) widened by the quantisation of the two rounded sides.                     *)
AlmostEq(a, b) == Abs(a - b) <= 2 + (Abs(a) + Abs(b)) \div 100000000
LedPwrTrainConsistOf(c) == AlmostEq(c.pw, c.c.out)
LedPwrConsistLocosOf(c) == AlmostEq(c.c.out, c.ls.out)
LedEnergyOutOf(c) == AlmostEq(c.e, c.c.e) /\ AlmostEq(c.c.e, c.ls.e)
LedEnergyPosOf(c) == AlmostEq(c.ep, c.c.ep)
LedEnergyNegOf(c) == AlmostEq(c.en, c.c.en)
LedFuelOf(c) == AlmostEq(c.c.ef, c.ls.ef) /\ AlmostEq(c.c.ef, c.c.gef)     \* state = sum over converters = getter
LedResOf(c)  == AlmostEq(c.c.er, c.ls.er) /\ AlmostEq(c.c.er, c.c.ger)
LedAllOf(c) == /\ LedPwrTrainConsistOf(c) /\ LedPwrConsistLocosOf(c) /\ LedEnergyOutOf(c)
               /\ LedEnergyPosOf(c) /\ LedEnergyNegOf(c) /\ LedFuelOf(c) /\ LedResOf(c)

(* trip outputs: t = <<get(false), get(true), underlying total>> at one common scale (~2^19);      *)
(* get(false) = total; get(true) x 4 days = 1461 x get(false)  (365.25 / days)                      *)
GetPlainOf(t) == Abs(t[1] - t[3]) <= 1
GetAnnualOf(t, days) == /\ Abs(t[2]) < 268435456 \div days
                        /\ Abs(t[2] * 4 * days - 1461 * t[1]) <= 2 * days + 732
(* Mg km = freight mass [1/16 Mg] x distance [1/64 km], product at 1/1024                           *)
GetMgKmOf(g) == Abs(g.mgkmq - g.mg * g.kmq) <= (g.mg + g.kmq) \div 2 + 2
(* battery-unit / other-unit kilometres: t = <<get(false), get(true), total distance>> at one scale;        *)
(* get(false) = distance x number of such units IN THE CONSIST THE RUN USED (header `units`: the kinds of    *)
(* the locomotives the consist was last given, whatever it was constructed from)                            *)
ResKinds == {"bel", "hybrid"}
NRes(h)    == Cardinality({i \in 1..Len(h.units) : h.units[i] \in ResKinds})
NNonRes(h) == Len(h.units) - NRes(h)
GetUnitKmOf(t, n) == Abs(t[1] - n * t[3]) <= n \div 2 + 1
(* a vector of finished simulations (SpeedLimitTrainSimVec): every output is the sum of the simulations'   *)
(* own outputs, plain and annualized (each simulation with its own factor);                                 *)
(* x = <<per-simulation get(false), per-simulation get(true), vec get(false), vec get(true)>>, one scale    *)
VecSumOf(x) == LET n == Len(x[1]) IN
               /\ Len(x[2]) = n
               /\ Abs(x[3] - Sum(x[1])) <= n \div 2 + 1
               /\ Abs(x[4] - Sum(x[2])) <= n \div 2 + 1


----------------------------------------------------------------------------
(* Level B                                                                   *)
CONSTANTS MaxLinks, LinkLens, MaxMoves,          \* locate: route of <= MaxLinks links, lengths in LinkLens (units)
          MaxSegs, SegLens, Rises, TrainLens,    \* strap: profile of <= MaxSegs segments (lengths in half units)
          MaxSteps, Pows, Fault,                 \* ledger: per-unit powers, fault injection on/off
          MaxUnits, Cached                       \* make-up: consists of <= MaxUnits units; count of battery units cached or current

Nil == [none |-> TRUE]

(* ---- (a) set_link_and_offset (train_state.rs): index of the first link point whose offset is    *)
(* >= the position (the number of link points if there is none), minus one.                         *)
(* Positions and lengths in half units; the train is one unit (2) long and starts with its front   *)
(* at its own length.                                                                               *)
TL == 2
SetLink(ls, x) ==
  LET n  == Len(ls)
      J  == {j \in 1..(n + 1) : BaseOf(ls, j) >= x}
      j1 == IF J = {} THEN n + 2 ELSE CHOOSE j \in J : \A i \in J : j <= i
      ix == j1 - 1                                   \* 1-based index of the link point chosen
  IN [link |-> IF ix \in 1..n THEN ls[ix].idx ELSE 0, xin |-> x - BaseOf(ls, ix), under |-> ix < 1]

LInit == /\ hdr = [mode |-> "ss", links |-> <<>>, len |-> TL]
         /\ cur = [k |-> 0, x |-> TL, link |-> 0, xin |-> 0]
         /\ prev = cur
         /\ mb = [pos |-> <<TL>>]
LAddLink == /\ Len(mb.pos) = 1 /\ Len(hdr.links) < MaxLinks
            /\ \E len \in LinkLens :
                 hdr' = [hdr EXCEPT !.links = Append(@, [idx |-> Len(@) + 1, len |-> 2 * len])]
            /\ UNCHANGED <<prev, cur, mb>>
LMove == /\ Len(hdr.links) >= 1 /\ Len(mb.pos) <= MaxMoves
         /\ \E x \in (cur.x + 1)..TotalLen(hdr.links) :
              LET r == SetLink(hdr.links, x) IN
              /\ cur' = [k |-> cur.k + 1, x |-> x, link |-> r.link, xin |-> r.xin]
              /\ mb' = [pos |-> Append(mb.pos, x)]
         /\ prev' = cur
         /\ UNCHANGED hdr
LNext == LAddLink \/ LMove
LocateB == cur.k > 0 => LocLinkOf(hdr, cur) /\ LocSumOf(hdr, cur) /\ LocRangeOf(hdr, cur)
LocateDone == cur.k > 0 /\ (Len(mb.pos) = MaxMoves + 1 \/ cur.x = TotalLen(hdr.links))

(* ---- (c) path_res::Strap: two cached indices into the path's coefficient table, advanced by     *)
(* LinSearchHint::calc_idx in the hinted direction only. Indices are 1-based here (code: 0-based). *)
Pts(h) == h.links[1].el
NP(h)  == Len(Pts(h))
Coeff(h, i)  == IF i < NP(h) THEN (Pts(h)[i + 1][2] - Pts(h)[i][2]) * (4096 \div (Pts(h)[i + 1][1] - Pts(h)[i][1]))
                ELSE 0                                              \* the last point carries coefficient 0
Val(h, i, x) == Pts(h)[i][2] * 4096 + Coeff(h, i) * (x - Pts(h)[i][1])   \* PathResCoeff::calc_res_val

RECURSIVE FwdScan(_, _, _)
FwdScan(h, x, i) == IF i + 1 > NP(h) THEN 0                         \* index past the table: a panic in the code
                    ELSE IF Pts(h)[i + 1][1] < x THEN FwdScan(h, x, i + 1) ELSE i
RECURSIVE BwdScan(_, _, _)
BwdScan(h, x, i) == IF i < 1 THEN 0
                    ELSE IF x < Pts(h)[i][1] THEN BwdScan(h, x, i - 1) ELSE i
CalcIdx(h, x, i, dir) == IF dir # "Bwd" THEN FwdScan(h, x, i) ELSE BwdScan(h, x, i)

StrapStep(h, idf, idb, x, dir) ==
  LET xb == x - h.len
      f1 == IF dir \in {"Fwd", "Unk"} THEN CalcIdx(h, x, idf, dir) ELSE idf
      b1 == IF dir \in {"Bwd", "Unk"} THEN CalcIdx(h, xb, idb, dir) ELSE idb
      b2 == IF f1 # b1 /\ dir = "Fwd" THEN CalcIdx(h, xb, b1, dir) ELSE b1
      f2 == IF f1 # b1 /\ dir = "Bwd" THEN CalcIdx(h, x, f1, dir) ELSE f1
  IN IF f1 < 1 \/ b1 < 1 \/ f2 < 1 \/ b2 < 1 THEN [idf |-> 0, idb |-> 0, rgl |-> 0, gf |-> 0, gb |-> 0, elev |-> 0]
     ELSE [idf |-> f2, idb |-> b2,
           rgl |-> IF f1 = b1 THEN Coeff(h, f1) * h.len ELSE Val(h, f2, x) - Val(h, b2, xb),
           gf |-> Coeff(h, f2), gb |-> Coeff(h, b2), elev |-> Val(h, f2, x)]

StrapHdrOf(pts, tl) == LET ls == << [idx |-> 1, len |-> pts[Len(pts)][1], el |-> pts] >>
                       IN [mode |-> "ss", links |-> ls, len |-> tl, segs |-> SegsOf(ls)]
EndOf(h) == Pts(h)[NP(h)][1]

SInit == /\ \E tl \in TrainLens : hdr = StrapHdrOf(<< <<0, 0>> >>, tl)
         /\ cur = [k |-> 0, x |-> 0, rgl |-> 0, gf |-> 0, gb |-> 0, elev |-> 0]
         /\ prev = cur
         /\ mb = [idf |-> 1, idb |-> 1, phase |-> "build", moves |-> <<>>]
SAddSeg == /\ mb.phase = "build" /\ NP(hdr) <= MaxSegs
           /\ \E dl \in SegLens, de \in Rises :
                LET last == Pts(hdr)[NP(hdr)] IN
                hdr' = StrapHdrOf(Append(Pts(hdr), <<last[1] + dl, last[2] + de>>), hdr.len)
           /\ UNCHANGED <<prev, cur, mb>>
SDo(x, dir, phase) ==
  LET r == StrapStep(hdr, mb.idf, mb.idb, x, dir) IN
  /\ cur' = [k |-> cur.k + 1, x |-> x, rgl |-> r.rgl, gf |-> r.gf, gb |-> r.gb, elev |-> r.elev]
  /\ prev' = cur
  /\ mb' = [idf |-> r.idf, idb |-> r.idb, phase |-> phase,
            moves |-> Append(mb.moves, <<CASE dir = "Fwd" -> 0 [] dir = "Bwd" -> 1 [] OTHER -> 2, x>>)]
  /\ UNCHANGED hdr
Movable == NP(hdr) >= 2 /\ EndOf(hdr) >= hdr.len /\ Len(mb.moves) < MaxMoves
SFwd == /\ mb.phase \in {"build", "fwd"} /\ Movable
        /\ \E x \in Max2(hdr.len, cur.x)..EndOf(hdr) : SDo(x, "Fwd", "fwd")
SUnk == /\ mb.phase \in {"build", "fwd"} /\ Movable          \* BrakingPoints::recalc: jump to the end of the path
        /\ SDo(EndOf(hdr), "Unk", "bwd")
SBwd == /\ mb.phase = "bwd" /\ Movable                       \* ... then walk back along the braking curve
        /\ \E x \in hdr.len..cur.x : SDo(x, "Bwd", "bwd")
SNext == SAddSeg \/ SFwd \/ SUnk \/ SBwd
StrapB == cur.k > 0 => /\ mb.idf >= 1
                       /\ ResGradeOf(hdr, cur, cur) /\ ResElevFrontOf(hdr, cur, cur)
                       /\ ResGradeFrontOf(hdr, cur, cur) /\ ResGradeBackOf(hdr, cur, cur)
StrapDone == cur.k > 0 /\ Len(mb.moves) = MaxMoves

(* ---- (d) three-level accumulator: train, consist, two locomotives (1: fuel converter, fuel =    *)
(* 2 x positive power; 2: battery, chemical = power). A fault skips one level's update of a        *)
(* non-zero amount, once per behaviour.                                                             *)
ZeroC == [max |-> 0, rate |-> 0, dyn |-> 0, out |-> 0, e |-> 0, ep |-> 0, en |-> 0, ef |-> 0, er |-> 0, gef |-> 0, ger |-> 0]
GInit == /\ hdr = [mode |-> "ss"]
         /\ cur = [k |-> 0, pw |-> 0, e |-> 0, ep |-> 0, en |-> 0, c |-> ZeroC, ls |-> [out |-> 0, e |-> 0, ef |-> 0, er |-> 0]]
         /\ prev = cur
         /\ mb = [nf |-> 0, l1 |-> 0, l2 |-> 0, fc |-> 0, rs |-> 0]
FaultKinds == {"train_e", "con_e", "con_fuel", "con_res", "loco_e", "fc_fuel", "res_e"}
GStep ==
  /\ cur.k < MaxSteps
  /\ \E p1 \in Pows, p2 \in Pows, dt \in {1, 2},
        f \in (IF Fault /\ mb.nf = 0 THEN FaultKinds \cup {"none"} ELSE {"none"}) :
       LET pw   == p1 + p2
           fuel == 2 * Max2(p1, 0)
           amt  == CASE f \in {"train_e", "con_e"} -> pw * dt [] f \in {"con_fuel", "fc_fuel"} -> fuel * dt
                     [] f \in {"con_res", "res_e"} -> p2 * dt [] f = "loco_e" -> p1 * dt [] OTHER -> 1
           Add(x, d, who) == IF f = who THEN x ELSE x + d
           l1 == Add(mb.l1, p1 * dt, "loco_e")
           l2 == mb.l2 + p2 * dt
           fc == Add(mb.fc, fuel * dt, "fc_fuel")
           rs == Add(mb.rs, p2 * dt, "res_e")
       IN /\ amt # 0
          /\ cur' = [k |-> cur.k + 1, pw |-> pw,
                     e  |-> Add(cur.e, pw * dt, "train_e"),
                     ep |-> Add(cur.ep, Max2(pw, 0) * dt, "train_e"),
                     en |-> Add(cur.en, Max2(-pw, 0) * dt, "train_e"),
                     c  |-> [ZeroC EXCEPT !.out = pw,
                                          !.e  = Add(cur.c.e, pw * dt, "con_e"),
                                          !.ep = Add(cur.c.ep, Max2(pw, 0) * dt, "con_e"),
                                          !.en = Add(cur.c.en, Max2(-pw, 0) * dt, "con_e"),
                                          !.ef = Add(cur.c.ef, fuel * dt, "con_fuel"),
                                          !.er = Add(cur.c.er, p2 * dt, "con_res"),
                                          !.gef = fc, !.ger = rs],
                     ls |-> [out |-> p1 + p2, e |-> l1 + l2, ef |-> fc, er |-> rs]]
          /\ mb' = [nf |-> IF f = "none" THEN mb.nf ELSE 1, l1 |-> l1, l2 |-> l2, fc |-> fc, rs |-> rs]
  /\ prev' = cur
  /\ UNCHANGED hdr
GNext == GStep
LedgerB == LedAllOf(cur)
(* vacuity of the ledger invariant: once a level has skipped a non-zero update the equalities fail *)
FaultDetected == mb.nf = 1 => ~LedAllOf(cur)

(* ---- (d') make-up of the consist and the unit-kilometre outputs. Consist::new(units0) caches the number of   *)
(* battery-equipped units (n_res_equipped, consist_model.rs:152); set_loco_vec(units) replaces the locomotives;  *)
(* get_res_kilometers = distance x that count, get_non_res_kilometers = distance x (number of units - count),    *)
(* computed in unsigned arithmetic. Cached = TRUE is the code as it is (the count is never refreshed: finding     *)
(* F-C11-1, re-found by the fault config MCTrainSim_relistC.cfg); Cached = FALSE takes the count from the current *)
(* units and satisfies Level A on every (units0, units) pair; those pairs are emitted and replayed as real runs   *)
(* whose consist is made by Consist::new and re-listed through set_loco_vec.                                      *)
UnitKinds == <<"conv", "bel">>
RInit == /\ hdr = [mode |-> "ss", units |-> <<>>]
         /\ cur = [k |-> 0, dist |-> 0, reskm |-> <<0, 0, 0>>, nonreskm |-> <<0, 0, 0>>, wrap |-> FALSE]
         /\ prev = cur
         /\ mb = [phase |-> "build0", u0 |-> <<>>, u |-> <<>>, cache |-> 0]
RAdd0 == /\ mb.phase = "build0" /\ Len(mb.u0) < MaxUnits                   \* the list handed to Consist::new
         /\ \E kd \in 1..2 : mb' = [mb EXCEPT !.u0 = Append(@, UnitKinds[kd])]
         /\ UNCHANGED <<hdr, prev, cur>>
RNew == /\ mb.phase = "build0" /\ Len(mb.u0) >= 1                          \* Consist::new: the count is taken here
        /\ hdr' = [hdr EXCEPT !.units = mb.u0]
        /\ mb' = [mb EXCEPT !.phase = "build1", !.cache = NRes([units |-> mb.u0])]
        /\ UNCHANGED <<prev, cur>>
RAdd1 == /\ mb.phase = "build1" /\ Len(mb.u) < MaxUnits                    \* the list handed to set_loco_vec
         /\ \E kd \in 1..2 : mb' = [mb EXCEPT !.u = Append(@, UnitKinds[kd])]
         /\ UNCHANGED <<hdr, prev, cur>>
RSet == /\ mb.phase = "build1" /\ Len(mb.u) >= 1                           \* set_loco_vec: locomotives replaced, nothing else
        /\ hdr' = [hdr EXCEPT !.units = mb.u]
        /\ mb' = [mb EXCEPT !.phase = "run"]
        /\ UNCHANGED <<prev, cur>>
RRun == /\ mb.phase = "run"                                                \* a trip of d distance units, then the two getters
        /\ \E d \in 1..2 :
             LET n == IF Cached THEN mb.cache ELSE NRes(hdr)
                 m == Len(hdr.units) - n IN
             cur' = [k |-> 1, dist |-> d, reskm |-> <<d * n, 0, d>>,
                     nonreskm |-> <<d * Max2(m, 0), 0, d>>, wrap |-> m < 0]        \* m < 0: the unsigned difference wraps
        /\ prev' = cur
        /\ mb' = [mb EXCEPT !.phase = "done"]
        /\ UNCHANGED hdr
RNext == RAdd0 \/ RNew \/ RAdd1 \/ RSet \/ RRun
RelistDone == mb.phase = "done"
RelistResKm    == RelistDone => GetUnitKmOf(cur.reskm, NRes(hdr))
RelistNonResKm == RelistDone => ~cur.wrap /\ GetUnitKmOf(cur.nonreskm, NNonRes(hdr))

SpecLocate == LInit /\ [][LNext]_vars
SpecRelist == RInit /\ [][RNext]_vars
SpecStrap  == SInit /\ [][SNext]_vars
SpecLedger == GInit /\ [][GNext]_vars
=============================================================================
