------------------------- MODULE SpeedProfileTrace -------------------------
(* Implementation -> spec: every profile the real code produced (PathTpc::extend in one call, *)
(* link by link, split, via TrainSimBuilder, via SpeedLimitTrainSim::extend_path) is bound to *)
(* SpeedProfile's variables and SpeedProfile's own invariants are evaluated on it.            *)
(* Mismatches do not block: they are appended to `viol` and the state re-synchronises to the  *)
(* recorded one, so every line of every case is examined in one pass.                         *)
EXTENDS SpeedProfile, Json, IOUtils

Rec == ndJsonDeserialize(IOEnv.TRACE)

VARIABLES l,        \* next line of Rec
          ref,      \* profile of the first construction path of the current case
          viol,     \* <<line, case, invariant>> of every Level-A failure
          stats     \* [profiles, drift, skipped]
tvars == <<train, links, pts, l, ref, viol, stats>>

TInit == /\ l = 1 /\ ref = <<>> /\ viol = <<>>
         /\ stats = [profiles |-> 0, drift |-> 0, skipped |-> 0, cases |-> 0]
         /\ train = [n |-> 1, car_len |-> 1, car_mass |-> 1, axles |-> 1, vmax |-> 1, more |-> <<>>, len_ov |-> 0, mass_ov |-> 0]
         /\ links = <<>> /\ pts = << <<0, 1>> >>

Names(checks) == LET F == SelectSeq(checks, LAMBDA c : ~c[2]) IN [i \in 1..Len(F) |-> F[i][1]]
Report(names) == viol' = viol \o [i \in 1..Len(names) |-> <<l, Rec[l].case, names[i]>>]

Begin == /\ Rec[l].ev = "begin"
         /\ train' = Rec[l].desc.train /\ links' = Rec[l].desc.links
         /\ pts' = << <<0, TVmax(train')>> >> /\ ref' = <<>>
         /\ stats' = [stats EXCEPT !.cases = @ + 1]
         /\ UNCHANGED viol

Profile == /\ Rec[l].ev = "Profile"
           /\ UNCHANGED <<train, links>>
           /\ pts' = Rec[l].pts
           /\ ref' = IF ref = <<>> THEN pts' ELSE ref
           /\ Report(Names(<< <<"ExtendOk", Rec[l].ok>>,
                              <<"Safe", Rec[l].ok => Safe'>>,
                              <<"Exact", Rec[l].ok => Exact'>>,
                              <<"Canonical", Rec[l].ok => Canonical'>>,
                              <<"SameByEveryPath", Rec[l].ok => pts' = ref'>> >>))
           /\ stats' = [stats EXCEPT !.profiles = @ + 1,
                                     !.drift = @ + (IF pts' = ModelPts(train, links) THEN 0 ELSE 1)]

Skipped == /\ Rec[l].ev = "NetRejected"
           /\ stats' = [stats EXCEPT !.skipped = @ + 1]
           /\ UNCHANGED <<train, links, pts, ref, viol>>

Panic == /\ Rec[l].ev \in {"panic", "abort", "timeout"}
         /\ Report(<<"NoPanic">>)
         /\ UNCHANGED <<train, links, pts, ref, stats>>

End == /\ Rec[l].ev = "end"
       /\ UNCHANGED <<train, links, pts, ref, viol, stats>>

TNext == /\ l <= Len(Rec) /\ l' = l + 1
         /\ (Begin \/ Profile \/ Skipped \/ Panic \/ End)
TSpec == TInit /\ [][TNext]_tvars

AtEnd == l > Len(Rec) => /\ PrintT(<<"VIOLS", ToJson(viol)>>)
                         /\ PrintT(<<"STATS", ToJson(stats)>>)
Accepted == IF TLCGet("stats").diameter - 1 = Len(Rec) THEN TRUE
            ELSE Print(<<"FIRST-UNMATCHED", TLCGet("stats").diameter, Rec[TLCGet("stats").diameter]>>, FALSE)
=============================================================================
