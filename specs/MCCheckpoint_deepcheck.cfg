SPECIFICATION Spec
CONSTANTS
  DeepKinds <- MC_Deep
  ShallowKinds <- MC_Shallow
  StaticKinds <- MC_Static
  Depth = 6
  ShallowDepth = 4
  Variant = "faithful"
INVARIANT TypeOK
INVARIANT Stutter
INVARIANT Idempotent

PROPERTY StutterStep
CHECK_DEADLOCK FALSE
