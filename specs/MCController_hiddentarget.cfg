\* EXPECTED TO FAIL (F-C03-4, repaired): recalc BEFORE the repair (Variant = "fixed", no catch-up of idx): a braking curve
\* abandoned at the start of the path after crossing a boundary between two zones of equal magnitude (-8 | 8 | 4) hides
\* its target-carrying point behind that boundary's start point; the train overspeeds. Used by the self-test only.
SPECIFICATION CSpec
CONSTANTS
  Variant = "fixed"
  E = 0
  VPerO = 1
  MaxZ = 3
  Lens <- P_Lens
  Lims <- S_Lims
  Domain = "admitted"
  Forces <- X_Forces
  Envs <- X_Envs
  Window = 24
  TLen = 1
  Free = TRUE
  Policies = {}
  MaxSteps = 0
INVARIANT CPosted
INVARIANT CNoPanic
CHECK_DEADLOCK FALSE
