----------------------------- MODULE MCHistory -----------------------------
(* Model-checking shell for History: bounded constant sets and the emission of every maximal *)
(* schedule (spec -> implementation). The harness runs each emitted schedule against all     *)
(* four simulation kinds, so the emitting configs fix kind = "slts" (the largest tree) and   *)
(* the other tree shapes are model-checked by the non-emitting `kinds` config.               *)
EXTENDS History, Json

AllKinds == {"loco", "consist", "setspeed", "slts", "vec"}
Slts == {"slts"}
Iv4 == {0, 1, 2, 3}
(* <<units' own interval, interval given to Consist::new>>: equal to / different from each other and from the *)
(* simulation's (which ranges over Iv4)                                                                        *)
Cons3 == {<<0, 0>>, <<2, 0>>, <<0, 3>>}
Cons1 == {<<0, 0>>}
ConsF == {<<2, 0>>}

RECURSIVE SeqsUpTo(_, _)
SeqsUpTo(S, n) == IF n = 0 THEN {<<>>} ELSE LET P == SeqsUpTo(S, n - 1) IN P \cup {Append(p, x) : p \in P, x \in S}
AllComps == SeqsUpTo({"conv", "bel", "hyb"}, 3) \ {<<>>}                  \* 39 consists of 1-3 units
FewComps == {<<"conv">>, <<"bel">>, <<"hyb">>, <<"conv", "bel">>, <<"hyb", "conv">>, <<"bel", "hyb", "conv">>}
KindComps == SeqsUpTo({"conv", "bel", "hyb"}, 2) \ {<<>>}                \* 12 consists, checked under every tree shape
OneComp  == {<<"bel", "conv">>}

Done == Ended \/ Len(sched) = MaxActs + 1
Emit == Done => PrintT(<<"REPLAY", ToJson([comp |-> comp, sched |-> sched])>>)
=============================================================================
