SPECIFICATION Spec
CONSTANTS
  Variant = "repaired"
  CompInits <- None
  LocoInits <- L1InitsT
  LoadFiles <- None
  CompOps <- CompOpsAll
  LocoOps <- LocoOpsAll
  Targets <- One
  Near = FALSE
  MaxOps = 3
INVARIANT ComponentConsistent
INVARIANT LocoConsistent
INVARIANT Traction
INVARIANT ConsistMass
INVARIANT ConsistForce
INVARIANT TrainStatic
INVARIANT Atomic
INVARIANT OptionSemantics
INVARIANT Frame
INVARIANT EmitThird
CHECK_DEADLOCK FALSE
