SPECIFICATION TSpec
CONSTANTS
  Variant = "ascoded"
  CompInits = {}
  LocoInits = {}
  LoadFiles = {}
  CompOps = {}
  LocoOps = {}
  Targets = {}
  MaxOps = 0
INVARIANT AtEnd
POSTCONDITION Accepted
CHECK_DEADLOCK FALSE
