SPECIFICATION TSpec
CONSTANTS
  Variant = "repaired"
  CompInits = {}
  LocoInits = {}
  LoadFiles = {}
  CompOps = {}
  LocoOps = {}
  Targets = {}
  Near = FALSE
  MaxOps = 0
INVARIANT AtEnd
POSTCONDITION Accepted
CHECK_DEADLOCK FALSE
