--------------------------- MODULE PowerFlowTrace ---------------------------
(* Implementation -> spec: every state the real Locomotive went through (call by call, and again  *)
(* through LocomotiveSimulation::walk, where the histories are the trace) is bound to PowerFlow's   *)
(* variables - units with and without limit checking (cfg.assert = Locomotive.assert_limits) alike  *)
(* - and PowerFlow's own Level-A predicates are evaluated on it, each by name.                      *)
(* A failing conjunct does not block: <<line, case, name>> is appended to `viol` and the state      *)
(* re-synchronises to the recorded one, so every line of every case is examined in one pass.        *)
(* Level B (PubOf / SolveOf) is evaluated one step ahead from the previous *recorded* state on      *)
(* exact lattice records: a difference with Level A intact is drift - counted, never an alarm.      *)
EXTENDS PowerFlow, Json, IOUtils

Rec == ndJsonDeserialize(IOEnv.TRACE)

VARIABLES l,        \* next line of Rec
          viol,     \* <<line, case, invariant>> of every Level-A failure
          stats,
          l0,       \* line of the current case's begin event (walk records refer to call-by-call records by offset)
          rep,      \* invariant names already reported in the current case (each is reported once per case)
          nk,       \* per known-class name (F-C01-1, F-C01-2, F-C08-2): cases in which it has been reported; beyond KnownCap
                    \* they are only counted in stats - `viol` is part of every state, its size is paid on every line
          pex,      \* the last accepted record was exact
          drifts    \* first few drift samples
tvars == <<vars, l, viol, stats, l0, rep, nk, pex, drifts>>
KnownCap == 120
KnownNames == {"AuxCurtailed", "HybAuxRoll", "HybEngineOff", "HybGssPanic"}

Stat0 == [cases |-> 0, pubs |-> 0, accepted |-> 0, rejected |-> 0, hist |-> 0, exact |-> 0, inexact |-> 0,
          b_checked |-> 0, drift_pub |-> 0, drift_ok |-> 0, drift_val |-> 0, walk_diff |-> 0, walk_fail |-> 0,
          curtailed |-> 0, soc_checked |-> 0, eng_off |-> 0, regen |-> 0, dynbrk |-> 0, at_limit |-> 0,
          hyb_acc |-> 0, hyb_off |-> 0, hyb_gss |-> 0,
          \* boundary hits: recorded states on which the named conjunct is evaluated within Band of its own limit
          bh_FcRating |-> 0, bh_FcTransient |-> 0, bh_GenRating |-> 0, bh_EdrvRating |-> 0, bh_ResRating |-> 0,
          bh_ResDisch |-> 0, bh_ResCharge |-> 0, bh_LocoPub |-> 0, bh_SocWindow |-> 0, bh_Ramp |-> 0, bh_PublishedSane |-> 0,
          \* ... and over-limit requests of that kind that the code rejected
          rej_over |-> 0,
          \* accepted steps whose efficiency lookup lay below (lo) / above (hi) the grid of the map (fc, gen, edrv 1-D;
          \* battery 3-D: temperature, SOC, C-rate axis)
          oog_f_lo |-> 0, oog_f_hi |-> 0, oog_g_lo |-> 0, oog_g_hi |-> 0, oog_e_lo |-> 0, oog_e_hi |-> 0,
          oog_rt_lo |-> 0, oog_rt_hi |-> 0, oog_rs_lo |-> 0, oog_rs_hi |-> 0, oog_rc_lo |-> 0, oog_rc_hi |-> 0,
          \* what the drivers ISSUED, whatever the code under test did with it (the vacuity floors of the group)
          in_conv |-> 0, in_bel |-> 0, in_hyb |-> 0, in_gss |-> 0, in_mapped |-> 0,
          \* limit checking off (cfg.assert = FALSE): cases, requests, requests above the published limit issued to such units;
          \* and (outcomes, evidence only) accepted steps of such units with the engine above its transient limit / its rating
          \* train level: cases driven through SetSpeedTrainSim over a speed trace with non-uniform time steps, their recorded
          \* steps, those of them that are SHORTER than the step before (where a stale step size would show), failed runs
          in_train |-> 0, train_steps |-> 0, train_short_after_long |-> 0, train_fail |-> 0,
          in_nolim |-> 0, in_nolim_fc |-> 0, in_req_nolim |-> 0, in_req_nolim_over |-> 0, nolim_acc |-> 0, nolim_over_tr |-> 0, nolim_over_rating |-> 0,
          in_req |-> 0, in_req_limit |-> 0, in_req_regen |-> 0, in_req_brake |-> 0, in_req_zero |-> 0, in_eng_off |-> 0,
          \* requests issued so as to land outside a map grid: low / high demand on a unit whose grid stops short of 0 / 1
          \* (high: the unit's designed bottleneck), temperature or initial SOC outside the battery grid
          io_f_lo |-> 0, io_f_hi |-> 0, io_g_lo |-> 0, io_g_hi |-> 0, io_e_lo |-> 0, io_e_hi |-> 0,
          io_rt_lo |-> 0, io_rt_hi |-> 0, io_rs_lo |-> 0, io_rs_hi |-> 0, io_rc_lo |-> 0, io_rc_hi |-> 0]
DummyCfg == [kind |-> "conv", rfc |-> 1, rgen |-> 1, redrv |-> 1, rres |-> 1, floor |-> 0, lag |-> 1, aux |-> 0,
             auxkd |-> 0, idle |-> 0, kf |-> 1, kg |-> 1, ke |-> 1, kr |-> 1, flat |-> TRUE, cap |-> 16, smin |-> 0,
             slo |-> 0, shi |-> 16, smax |-> 16, delta |-> 1, ps |-> 1, ds |-> 1, lat |-> FALSE, assert |-> TRUE,
             pb0 |-> 0, haux |-> 0, split2 |-> 1, gssr |-> 0, gssk |-> 0, glo_f |-> 0, ghi_f |-> 0, glo_g |-> 0, ghi_g |-> 0, glo_e |-> 0, ghi_e |-> 0, bnd |-> "n", rtout |-> 0, lpub |-> 0, ekx |-> 1]

TInit == /\ l = 1 /\ viol = <<>> /\ stats = Stat0 /\ l0 = 1 /\ rep = {} /\ nk = [x \in KnownNames |-> 0] /\ pex = TRUE /\ drifts = <<>>
         /\ cfg = DummyCfg /\ soc0 = 0 /\ soc = 0 /\ psoc = 0
         /\ pc = "aux" /\ st = ZeroSt /\ pub = ZeroPub /\ p = Zero /\ e = Zero /\ pe = Zero /\ eta = Eta1
         /\ gap = 0 /\ safe = TRUE /\ ex = TRUE /\ i = 1 /\ n = 0 /\ hist = <<>>

Names(checks) == LET F == SelectSeq(checks, LAMBDA c : ~c[2]) IN [k \in 1..Len(F) |-> F[k][1]]
Report(names0) == LET names == SelectSeq(names0, LAMBDA x : x \notin rep /\ (x \in KnownNames => nk[x] < KnownCap)) IN
                  /\ viol' = viol \o [k \in 1..Len(names) |-> <<l, Rec[l].case, names[k]>>]
                  /\ rep' = rep \cup {names[k] : k \in 1..Len(names)}
                  /\ nk' = [x \in KnownNames |-> nk[x] + (IF \E k \in 1..Len(names) : names[k] = x THEN 1 ELSE 0)]
Bump(fs) == stats' = [f \in DOMAIN stats |-> stats[f] + (IF f \in DOMAIN fs THEN fs[f] ELSE 0)]
B(c) == IF c THEN 1 ELSE 0
IsTr(r) == IF "tr" \in DOMAIN r THEN r.tr ELSE FALSE      \* a step of a train-level run (SetSpeedTrainSim)
Note(tag, info) == drifts' = IF Len(drifts) < 8 THEN Append(drifts, [line |-> l, case |-> Rec[l].case, what |-> tag, info |-> info])
                              ELSE drifts

Reset(r) == /\ soc' = soc0' /\ psoc' = soc0'
            /\ pc' = "aux" /\ st' = ZeroSt /\ pub' = ZeroPub /\ p' = [Zero EXCEPT !.brake = cfg'.pb0] /\ e' = Zero /\ pe' = Zero /\ eta' = Eta1
            /\ gap' = 0 /\ safe' = TRUE /\ ex' = TRUE /\ i' = 1 /\ n' = 0 /\ hist' = <<>> /\ pex' = TRUE

Begin == /\ Rec[l].ev = "begin"
         /\ cfg' = Rec[l].desc.cfg @@ [pb0 |-> 0, haux |-> 0, split2 |-> 1, gssr |-> 0, gssk |-> 0, glo_f |-> 0, ghi_f |-> 0, glo_g |-> 0, ghi_g |-> 0, glo_e |-> 0, ghi_e |-> 0, bnd |-> "n", rtout |-> 0, lpub |-> 0, ekx |-> 1]     \* descriptors older than the hybrid extension
         /\ soc0' = Rec[l].desc.soc0
         /\ Reset(Rec[l]) /\ l0' = l /\ rep' = {}
         /\ Bump([cases |-> 1, in_conv |-> B(cfg'.kind = "conv"), in_bel |-> B(cfg'.kind = "bel"), in_hyb |-> B(cfg'.kind = "hyb"),
                   in_train |-> B("train" \in DOMAIN Rec[l].desc),
                   in_nolim |-> B(~cfg'.assert), in_nolim_fc |-> B(~cfg'.assert /\ cfg'.kind # "bel"),
                   in_gss |-> B(cfg'.gssr > 0), in_mapped |-> B(~cfg'.flat)])
         /\ UNCHANGED <<viol, nk, drifts>>

(* Level-A conjuncts evaluated on a state where limits have just been published *)
PubChecks == << <<"Ramp", Ramp'>>, <<"PublishedSane", PublishedSane'>> >>
(* ... and on a state where a step has just been accepted *)
AccChecks == <<
   <<"L1", L1'>>, <<"L2", L2'>>, <<"L3", L3'>>, <<"L4", L4'>>, <<"L5", L5'>>, <<"L6", L6'>>, <<"L7", L7'>>,
   <<"L8", L8'>>, <<"L9", L9'>>, <<"L10", L10'>>,
   <<"L1s", L1s'>>, <<"L2s", L2s'>>, <<"L3s", L3s'>>, <<"L4s", L4s'>>, <<"L5s", L5s'>>, <<"L6s", L6s'>>, <<"L7s", L7s'>>,
   <<"L8s", L8s'>>, <<"L9s", L9s'>>, <<"L10s", L10s'>>, <<"AuxCurtailed", AuxCurtailed'>>, <<"HybAuxRoll", HybAuxRoll'>>, <<"Integ", Integ'>>,
   <<"LossNonNeg", LossNonNeg'>>, <<"EtaRange", EtaRange'>>, <<"OrderFc", OrderFc'>>, <<"OrderGen", OrderGen'>>,
   <<"OrderEdrv", OrderEdrv'>>, <<"OrderRes", OrderRes'>>, <<"Monotone", Monotone'>>, <<"DynBrakeSign", DynBrakeSign'>>,
   <<"EngineOff", EngineOff'>>, <<"HybEngineOff", HybEngineOff'>>,
   <<"FcRating", FcRating'>>, <<"FcTransient", FcTransient'>>, <<"GenRating", GenRating'>>, <<"EdrvRating", EdrvRating'>>,
   <<"ResRating", ResRating'>>, <<"ResDisch", ResDisch'>>, <<"ResCharge", ResCharge'>>, <<"LocoPub", LocoPub'>>,
   <<"SocWindow", SocWindow'>> >>

(* requests issued by the driver (call-by-call records only), by class group *)
LimitCls == {"pubm", "pub", "pubp", "over", "o2", "o4", "o8", "dbl", "rate", "ratep", "f7", "f8"}
OverCls == {"over", "o2", "o4", "o8", "dbl", "rate", "ratep"}
RegenCls == {"regenm", "regen", "regenp", "r7", "r8"}
BrakeCls == {"dyn", "dynp", "b1", "b2", "b3", "b4", "b8"}
LowCls == {"zero", "f0", "f1"}
HighBrk == {"dyn", "dynp", "b4", "b8", "rate", "ratep"}
InStats(r) == IF r.walk THEN [in_req |-> 0]
              ELSE [io_f_lo |-> B(HasFc /\ cfg.glo_f = 1 /\ r.cls \in LowCls \cup BrakeCls \cup RegenCls),
                    io_f_hi |-> B(cfg.ghi_f = 1 /\ cfg.bnd = "f" /\ r.cls \in LimitCls),
                    io_g_lo |-> B(HasFc /\ cfg.glo_g = 1 /\ r.cls \in LowCls \cup BrakeCls \cup RegenCls),
                    io_g_hi |-> B(cfg.ghi_g = 1 /\ cfg.bnd = "g" /\ r.cls \in LimitCls),
                    io_e_lo |-> B(cfg.glo_e = 1 /\ r.cls \in LowCls),
                    io_e_hi |-> B(cfg.ghi_e = 1 /\ r.cls \in HighBrk),
                    io_rt_lo |-> B(cfg.rtout < 0), io_rt_hi |-> B(cfg.rtout > 0),
                    io_rs_lo |-> B(HasRes /\ ~cfg.flat /\ 4 * soc0 < cfg.cap), io_rs_hi |-> B(HasRes /\ ~cfg.flat /\ 4 * (soc0 \div 3) > cfg.cap),
                    io_rc_lo |-> B(cfg.bnd = "r" /\ r.cls \in RegenCls \cup BrakeCls), io_rc_hi |-> B(cfg.bnd = "r" /\ r.cls \in LimitCls),
                    in_req_nolim |-> B(~cfg.assert), in_req_nolim_over |-> B(~cfg.assert /\ r.cls \in OverCls),
                    in_req |-> 1, in_req_limit |-> B(r.cls \in LimitCls), in_req_regen |-> B(r.cls \in RegenCls),
                    in_req_brake |-> B(r.cls \in BrakeCls), in_req_zero |-> B(r.cls \in {"zero", "f0"}), in_eng_off |-> B(~st.eng)]

(* boundary hits: the conjunct's quantity lies within Band below its own limit (or in the tolerance band above it) *)
Band(lim) == Max2(lim \div 64, 2 * cfg.delta)
Near(v, lim) == v >= lim - Band(lim)
AccStats(r) == [accepted |-> B(~r.walk), hist |-> B(r.walk), train_steps |-> B(IsTr(r)), exact |-> B(ex'), inexact |-> B(~ex'),
                curtailed |-> B(CurtailClass' /\ r.p.raux < r.p.aux),
                soc_checked |-> B(cfg.kind # "conv" /\ safe'), eng_off |-> B(~st.eng),
                regen |-> B(r.p.oute < 0), dynbrk |-> B(r.p.dyn > 0),
                at_limit |-> B(r.req > 0 /\ r.req >= pub.loco),
                nolim_acc |-> B(~LimOn), nolim_over_tr |-> B(~LimOn /\ HasFc /\ r.p.brake > pub.fc + Band(pub.fc)),
                nolim_over_rating |-> B(~LimOn /\ HasFc /\ r.p.brake > cfg.rfc + Band(cfg.rfc)),
                hyb_acc |-> B(Hyb), hyb_off |-> B(Hyb /\ ~st.eng), hyb_gss |-> B(Hyb /\ cfg.gssr > 0),
                bh_FcRating |-> B(LimOn /\ HasFc /\ Near(r.p.brake, cfg.rfc)),
                bh_FcTransient |-> B(LimOn /\ HasFc /\ Near(r.p.brake, pub.fc)),
                bh_GenRating |-> B(LimOn /\ HasFc /\ Near(r.p.gprop + r.p.gaux, cfg.rgen)),
                bh_EdrvRating |-> B(LimOn /\ Near(Abs(r.p.oute), cfg.redrv)),
                bh_ResRating |-> B(LimOn /\ HasRes /\ Near(Abs(r.p.elec), cfg.rres)),
                bh_ResDisch |-> B(LimOn /\ HasRes /\ r.p.elec > 0 /\ Near(r.p.elec, pub.disch)),
                bh_ResCharge |-> B(LimOn /\ HasRes /\ r.p.elec < 0 /\ Near(-r.p.elec, pub.charge)),
                bh_LocoPub |-> B(LimOn /\ (cfg.flat \/ cfg.lpub = 1) /\ r.req > 0 /\ Near(r.p.out, pub.loco)),
                oog_f_lo |-> B(r.oog.f < 0), oog_f_hi |-> B(r.oog.f > 0), oog_g_lo |-> B(r.oog.g < 0), oog_g_hi |-> B(r.oog.g > 0),
                oog_e_lo |-> B(r.oog.e < 0), oog_e_hi |-> B(r.oog.e > 0), oog_rt_lo |-> B(r.oog.rt < 0), oog_rt_hi |-> B(r.oog.rt > 0),
                oog_rs_lo |-> B(r.oog.rs < 0), oog_rs_hi |-> B(r.oog.rs > 0), oog_rc_lo |-> B(r.oog.rc < 0), oog_rc_hi |-> B(r.oog.rc > 0),
                bh_SocWindow |-> B(LimOn /\ HasRes /\ safe' /\ (r.soc <= cfg.smin + (cfg.slo - cfg.smin) \div 16
                                                        \/ r.soc >= cfg.smax - (cfg.smax - cfg.shi) \div 16))]
(* published limits sitting on a bound of PublishedSane / set by the ramp term of Ramp *)
PubStats(r) == [bh_Ramp |-> B(LimOn /\ HasFc /\ r.pub.fc < cfg.rfc /\ r.pub.fc > cfg.floor),
                bh_PublishedSane |-> B(\/ (HasFc /\ (r.pub.fc = cfg.floor \/ r.pub.fc = cfg.rfc \/ r.pub.gen = cfg.rgen))
                                       \/ r.pub.loco = cfg.redrv
                                       \/ (HasRes /\ (r.pub.disch = 0 \/ r.pub.disch = cfg.rres \/ r.pub.charge = 0
                                                       \/ r.pub.charge = cfg.rres \/ r.pub.regen = cfg.redrv)))]

(* set_pwr_aux + set_cur_pwr_max_out (call by call, as saved in the walk's history, or as left in the unit's state by *)
(* one step of a SetSpeedTrainSim - dtq is then the step of the speed trace's time column)                            *)
Pub == /\ Rec[l].ev = "Pub"
       /\ st' = [ZeroSt EXCEPT !.eng = Rec[l].eng, !.dtq = Rec[l].dtq]
       /\ pub' = Rec[l].pub
       /\ pc' = "solve"
       /\ ex' = (Rec[l].exact /\ pex)
       /\ UNCHANGED <<cfg, p, e, pe, eta, soc, psoc, soc0, gap, safe, i, n, hist, l0, pex>>
       /\ Report(Names(PubChecks))
       /\ LET chk == cfg.lat /\ ex'
              bad == IF chk THEN pub' # PubOf(cfg, AuxOf(cfg, Rec[l].eng, p.out), p.brake, soc, Rec[l].dtq) ELSE FALSE
          IN /\ Bump(PubStats(Rec[l]) @@ [train_short_after_long |-> B(IsTr(Rec[l]) /\ n > 0 /\ Rec[l].dtq < st.dtq),
                                           pubs |-> 1, b_checked |-> B(chk), drift_pub |-> B(bad)])
             /\ IF bad THEN Note("pub", [impl |-> pub', model |-> PubOf(cfg, AuxOf(cfg, Rec[l].eng, p.out), p.brake, soc, Rec[l].dtq)])
                       ELSE UNCHANGED drifts

(* Level B one step ahead of the previous recorded state against the recorded successor *)
DiffersFrom(mp, chem, walk) ==
  \/ mp # p' \/ e' # [x \in EKeys |-> e[x] + mp[x] * st.dtq]
  \/ soc' # soc - chem * st.dtq \/ (\E x \in Comps : eta'[x] # EtaOf(cfg)[x])
  \/ (~walk /\ i' # i + 1)

(* solve_energy_consumption returned Ok (and step() was called) / one entry of the walk's history *)
SolveAcc == /\ Rec[l].ev = "Solve" /\ Rec[l].acc
            /\ st' = [st EXCEPT !.req = Rec[l].req, !.acc = TRUE]
            /\ p' = Rec[l].p /\ pe' = e /\ e' = Rec[l].e /\ eta' = Rec[l].eta
            /\ psoc' = soc /\ soc' = Rec[l].soc
            /\ pc' = "adv"
            /\ gap' = gap + (IF cfg.kind = "hyb" \/ (cfg.kind = "bel" /\ Rec[l].req <= 0 /\ pub.propmax - Rec[l].p.ine < pub.aux)
                             THEN (Rec[l].e.aux - e.aux) - (Rec[l].e.raux - e.raux) - (Rec[l].e.gaux - e.gaux) ELSE 0)
            /\ safe' = (safe /\ (cfg.kind # "conv" => DtSafeOk(st.dtq)))
            /\ ex' = (Rec[l].exact /\ ex) /\ pex' = ex'
            /\ i' = Rec[l].i /\ n' = n + 1
            /\ UNCHANGED <<cfg, pub, soc0, hist, l0>>
            /\ Report(Names(AccChecks))
            /\ LET chk == cfg.lat /\ ex'
                   m   == SolveOf(cfg, pub, Rec[l].req, st.eng, soc)
                   bok == IF chk THEN ~m.ok ELSE FALSE
                   bvl == IF chk THEN (IF m.ok THEN DiffersFrom(m.p, m.chem, Rec[l].walk) ELSE FALSE) ELSE FALSE
                   k   == Rec[l].k
                   cb  == l0 + Rec[l].ref          \* the call-by-call record of the same step (its Pub is the line before)
                   wd  == IF Rec[l].walk /\ ~IsTr(Rec[l])
                          THEN (IF Rec[cb].ev = "Solve" /\ Rec[cb - 1].ev = "Pub"
                                THEN \/ Rec[cb].p # p' \/ Rec[cb].e # e' \/ Rec[cb].soc # soc' \/ Rec[cb - 1].pub # pub
                                ELSE TRUE)
                          ELSE FALSE
               IN /\ Bump(AccStats(Rec[l]) @@ InStats(Rec[l]) @@ [b_checked |-> B(chk), drift_ok |-> B(bok), drift_val |-> B(bvl), walk_diff |-> B(wd)])
                  /\ IF bok THEN Note("accepted-but-model-rejects", [req |-> Rec[l].req, pub |-> pub])
                     ELSE IF bvl THEN Note("values", [impl |-> p', model |-> m.p])
                     ELSE IF wd THEN Note("walk-differs", [k |-> k])
                     ELSE UNCHANGED drifts

(* an ensure! fired: the harness restored its clone, nothing changes *)
SolveRej == /\ Rec[l].ev = "Solve" /\ ~Rec[l].acc
            /\ st' = [st EXCEPT !.req = Rec[l].req, !.acc = FALSE]
            /\ pc' = "aux" /\ n' = n + 1
            /\ UNCHANGED <<cfg, pub, p, e, pe, eta, soc, psoc, soc0, gap, safe, ex, i, hist, l0, rep, nk, pex, viol>>
            /\ LET chk == cfg.lat /\ ex /\ Rec[l].exact
                   bok == IF chk THEN SolveOf(cfg, pub, Rec[l].req, st.eng, soc).ok ELSE FALSE
               IN /\ Bump(InStats(Rec[l]) @@ [rejected |-> 1, b_checked |-> B(chk), drift_ok |-> B(bok),
                           rej_over |-> B(Rec[l].req > pub.loco /\ Rec[l].req <= pub.loco + Band(pub.loco))])
                  /\ IF bok THEN Note("rejected-but-model-accepts", [req |-> Rec[l].req, pub |-> pub, msg |-> Rec[l].msg])
                            ELSE UNCHANGED drifts

(* the same accepted steps again, through LocomotiveSimulation::walk *)
WalkBegin == /\ Rec[l].ev \in {"WalkBegin", "TrainBegin"}
             /\ soc0' = soc0 /\ cfg' = cfg /\ Reset(Rec[l])
             /\ UNCHANGED << l0, rep, nk, viol, stats, drifts>>

WalkEnd == /\ Rec[l].ev \in {"WalkEnd", "TrainEnd"}
           /\ Bump([walk_fail |-> B(Rec[l].ev = "WalkEnd" /\ (~Rec[l].ok \/ Rec[l].n # Rec[l].want)),
                     train_fail |-> B(Rec[l].ev = "TrainEnd" /\ (~Rec[l].ok \/ Rec[l].n # Rec[l].want))])
           /\ UNCHANGED <<vars, viol, l0, rep, nk, pex, drifts>>

(* a NaN / a value beyond the Q range in a component state, a failed publication, a panic *)
Broken == /\ Rec[l].ev \in {"Nan", "Overflow", "PubErr", "panic", "abort", "timeout"}
          /\ Report(<< CASE Rec[l].ev = "Nan" -> "NoNaN" [] Rec[l].ev = "Overflow" -> "InRange"
                         [] Rec[l].ev = "PubErr" -> "PublishOk"
                         [] Rec[l].ev = "panic" /\ Hyb /\ cfg.gssr > 0 -> "HybGssPanic"      \* F-C01-3
                         [] OTHER -> "NoPanic" >>)
          /\ UNCHANGED <<vars, stats, l0, pex, drifts>>

End == /\ Rec[l].ev = "end"
       /\ IF Rec[l].result = "harness_err" THEN Report(<<"HarnessOk">>) ELSE UNCHANGED <<viol, rep, nk>>
       /\ UNCHANGED <<vars, stats, l0, pex, drifts>>

TNext == /\ l <= Len(Rec) /\ l' = l + 1
         /\ (Begin \/ Pub \/ SolveAcc \/ SolveRej \/ WalkBegin \/ WalkEnd \/ Broken \/ End)
TSpec == TInit /\ [][TNext]_tvars

AtEnd == l > Len(Rec) => /\ PrintT(<<"VIOLS", ToJson(viol)>>)
                         /\ PrintT(<<"STATS", ToJson(stats)>>)
                         /\ PrintT(<<"DRIFT", ToJson(drifts)>>)
Accepted == IF TLCGet("stats").diameter - 1 = Len(Rec) THEN TRUE
            ELSE Print(<<"FIRST-UNMATCHED", TLCGet("stats").diameter, Rec[TLCGet("stats").diameter]>>, FALSE)
=============================================================================
