---------------------------- MODULE DispatchTrace ----------------------------
(* Implementation -> spec for the meet-pass pipeline: every EstTimeNet that make_est_times    *)
(* returned (C15), every snapshot of the dispatcher's internal state after every train move   *)
(* and at the end (C04), and the value run_dispatch returned (C05) are judged by the Level-A  *)
(* operators of Dispatch.tla / EstTimeNet.tla. Failures are collected, not blocking.          *)
EXTENDS Dispatch, Json, IOUtils

E == INSTANCE EstTimeNet

Rec == ndJsonDeserialize(IOEnv.TRACE)

VARIABLES l, viol, stats,
          hdr,      \* network header of the current case
          trs,      \* trains of the current case: Seq([origs, dests, depart, len_dm])
          est,      \* est-time node lists per train
          prev,     \* previous snapshot of the case (<<>> if none)
          phase     \* "setup" | "est" | "dispatch"
tvars == <<auth, route, pos, T, fixed, l, viol, stats, hdr, trs, est, prev, phase>>

TolMs == 2      \* every logged time is rounded to 1 ms: a difference of two of them is off by < 1, of three by < 2

TInit == /\ l = 1 /\ viol = <<>> /\ hdr = <<>> /\ trs = <<>> /\ est = <<>> /\ prev = <<>> /\ phase = "setup"
         /\ stats = [cases |-> 0, nets |-> 0, walks |-> 0, snaps |-> 0, results_ok |-> 0, results_err |-> 0,
                     est_err |-> 0, est_panic |-> 0, skipped |-> 0, committed_unstable |-> 0, untimed_prefix |-> 0, not_quiet |-> 0,
                     auth_disagree |-> 0, not_walk |-> 0, blocked_disagree |-> 0, waits |-> 0, tau_checked |-> 0, tau_drift |-> 0, bind_base |-> 0, bind_spacing |-> 0, bind_flip |-> 0, bind_lock |-> 0, bind_lead |-> 0, opp_pairs |-> 0, follow_pairs |-> 0, lock_pairs |-> 0]
         /\ auth = <<>> /\ route = <<>> /\ pos = <<>> /\ T = <<>> /\ fixed = <<>>

Names(checks) == LET F == SelectSeq(checks, LAMBDA c : ~c[2]) IN [i \in 1..Len(F) |-> F[i][1]]
\* `viol` is part of every state: a flood of failures of one known class must not make validation quadratic.
\* Beyond MaxViol recorded failures further ones are only counted (stats.dropped); the driver treats dropped > 0 as a
\* tool error, never as "held".
MaxViol == 4000
Report(names) == viol' = IF Len(viol) < MaxViol THEN viol \o [i \in 1..Len(names) |-> <<l, Rec[l].case, names[i]>>] ELSE viol
R == Rec[l]

Begin == /\ R.ev = "begin"
         /\ hdr' = <<>> /\ trs' = <<>> /\ est' = <<>> /\ prev' = <<>> /\ phase' = "setup"
         /\ stats' = [stats EXCEPT !.cases = @ + 1] /\ UNCHANGED viol

Hdr == /\ R.ev = "Hdr" /\ hdr' = R /\ UNCHANGED <<trs, est, prev, phase, stats, viol>>
Trains == /\ R.ev = "Trains" /\ trs' = R.trains /\ phase' = "est" /\ UNCHANGED <<hdr, est, prev, stats, viol>>

\* ---- C15
Net == /\ R.ev = "Net"
       /\ LET ns == R.nodes
              t  == R.train
              ok == E!RefsInRange(ns)
              W  == IF ok THEN E!AllWalks(ns) ELSE {}
          IN /\ Report(Names(<< <<"RefsInRange", ok>>,
                                <<"Linked", ok => E!Linked(ns)>>,
                                <<"AllWalksEnd", ok => E!AllWalksEnd(ns, W)>>,
                                <<"RouteFaithful", ok => E!RouteFaithful(hdr, trs[t].origs, trs[t].dests, ns, W)>>,
                                <<"TimesFinite", E!TimesFinite(ns)>>,
                                <<"DurationsNonNeg", E!DurationsNonNeg(ns)>>,
                                <<"TimesNonNeg", E!TimesNonNeg(ns)>>,
                                <<"PrimaryEq", ok => E!PrimaryEq(ns, TolMs)>>,
                                <<"NoLater", ok => E!NoLater(ns, TolMs)>> >>))
             /\ stats' = [stats EXCEPT !.nets = @ + 1, !.walks = @ + Cardinality(W)]
       /\ est' = Append(est, R.nodes)
       /\ UNCHANGED <<hdr, trs, prev, phase>>

EstErr == /\ R.ev = "EstErr" /\ stats' = [stats EXCEPT !.est_err = @ + 1]
          /\ UNCHANGED <<hdr, trs, est, prev, phase, viol>>
Phase == /\ R.ev = "Phase" /\ phase' = R.p /\ UNCHANGED <<hdr, trs, est, prev, stats, viol>>

\* ---- C04: every snapshot
Unfinished(s, t) == s.free[t] < Len(s.plan[t])
AuthAgreesRec(s) ==
  \A t \in 1..Len(s.plan) : Unfinished(s, t) =>
     \A w \in Windows(s.plan[t]) :
        \E i \in 1..Len(s.auth[w.link]) :
           LET a == s.auth[w.link][i] IN a[1] = t /\ a[2] = w.ae /\ a[3] = w.ax /\ a[4] = w.ce /\ a[5] = w.cx
\* the blocked table names, for the flip and every lockout partner of a link, a train that currently holds it
\* (an authority whose tail has not left: flag a[6] = 1) whenever it names a train at all, and every held link blocks its flip
BlockedAgreesRec(s) ==
  /\ \A bl \in 1..Len(s.blocked) : s.blocked[bl] # 0 =>
        \E k \in ({hdr.flip[bl]} \cup {x \in 1..Len(s.blocked) : bl \in RangeOf(hdr.lock[x])}) :
           \E i \in 1..Len(s.auth[k]) : s.auth[k][i][1] = s.blocked[bl] /\ s.auth[k][i][6] = 1
  /\ \A k \in 1..Len(s.auth) : \A i \in 1..Len(s.auth[k]) :
        (s.auth[k][i][6] = 1 /\ Unfinished(s, s.auth[k][i][1])) => s.blocked[hdr.flip[k]] # 0
CountPairs(plans, P(_, _)) ==
  Cardinality({<<t, u, a, b>> \in UNION {{<<t, u, a, b>> : a \in Windows(plans[t]), b \in Windows(plans[u])} :
                                         t \in 1..Len(plans), u \in 1..Len(plans)} : t # u /\ P(a, b)})
\* Arrive nodes at which the train was held beyond its free-running time (a gate was binding): meets, headway holds
Waits(plans) == Cardinality({<<t, i>> \in UNION {{<<t, i>> : i \in 2..Len(plans[t])} : t \in 1..Len(plans)} :
                   LET a == plans[t][i-1]  b == plans[t][i] IN
                   /\ b[1] = 1 /\ b[3] < INF /\ t <= Len(est)
                   /\ LET e == est[t][a[4] + 1] IN b[3] - a[3] > (IF e[4] = b[4] THEN e[2] ELSE 0) + TolMs})
\* ---- Level-B conformance of the time gates (drift only, never a verdict): every node the mover timed in this move
\* must carry exactly the time Dispatch!Advance computes from the authority tables of the previous snapshot:
\*   tau = Max(base, same-direction spacing | opposing clear + start-up, lockout clear + overlap + start-up, leader clear + spacing)
NegInf == -INF
LastAuthOf(au, L) == IF au = <<>> \/ Len(au[L]) = 0 THEN <<0, NegInf, NegInf, NegInf, NegInf, 0>> ELSE au[L][Len(au[L])]
EdgeDur(t, a, b) == LET e == est[t][a[4] + 1] IN IF e[4] = b[4] THEN e[2] ELSE 0
\* terms of the gate for the Arrive node at position i of train m's plan in snapshot s, given the previous tables pa
GateTerms(s, pa, m, i) ==
  LET pl == s.plan[m]
      b  == pl[i]
      L  == b[2]
      su == est[m][b[4] + 1][10]                                  \* start-up allowance at this node
      base == IF i = 1 THEN trs[m].depart ELSE pl[i-1][3] + EdgeDur(m, pl[i-1], b)
      prevA == LastAuthOf(pa, L)
      fcx   == LastAuthOf(pa, hdr.flip[L])[5]
      same  == prevA[5] >= fcx
      spacing == IF same THEN (IF prevA[4] > NegInf /\ prevA[4] < INF THEN prevA[4] + hdr.spacing ELSE NegInf) ELSE NegInf
      flipg   == IF same THEN NegInf ELSE (IF fcx < INF THEN fcx + su ELSE INF)
      lockg == LET C == {LastAuthOf(pa, hdr.lock[L][x])[5] : x \in 1..Len(hdr.lock[L])} \ {NegInf}
               IN IF C = {} THEN NegInf ELSE SetMaxI({IF c < INF THEN c + hdr.overlap + su ELSE INF : c \in C})
      \* the authority ahead of ours on the link we leave (position of the previous Arrive node)
      fa == LET J == {j \in 1..(i-1) : pl[j][1] = 1} IN IF J = {} THEN 0 ELSE SetMaxI(J)
      leadg == IF fa = 0 THEN NegInf
               ELSE LET A == s.auth[pl[fa][2]]
                        K == {k \in 1..Len(A) : A[k][1] = m}
                    IN IF K = {} \/ SetMaxI(K) = 1 THEN NegInf
                       ELSE LET c == A[SetMaxI(K) - 1][5] IN IF c < INF THEN c + hdr.spacing ELSE INF
  IN [base |-> base, spacing |-> spacing, flip |-> flipg, lock |-> lockg, lead |-> leadg]
TauOf(g) == SetMaxI({g.base, g.spacing, g.flip, g.lock, g.lead})
NewlyTimed(s, m) == {i \in 1..Len(s.plan[m]) : s.plan[m][i][3] < INF /\ i > (IF prev = <<>> THEN 0 ELSE prev.fixed[m])}
TauStats(s) ==
  IF s.mover = 0 \/ s.kind # "move" \/ s.mover > Len(est) THEN [n |-> 0, drift |-> 0, base |-> 0, spacing |-> 0, flip |-> 0, lock |-> 0, lead |-> 0]
  ELSE LET m  == s.mover
           pa == IF prev = <<>> THEN <<>> ELSE prev.auth
           I  == NewlyTimed(s, m)
           \* one row per newly timed node, the gate terms evaluated once (TLC re-evaluates LET bodies by name)
           Rows == {[i |-> i, arr |-> s.plan[m][i][1] = 1,
                     g |-> IF s.plan[m][i][1] = 1 THEN GateTerms(s, pa, m, i)
                           ELSE [base |-> IF i = 1 THEN trs[m].depart ELSE s.plan[m][i-1][3] + EdgeDur(m, s.plan[m][i-1], s.plan[m][i]),
                                 spacing |-> NegInf, flip |-> NegInf, lock |-> NegInf, lead |-> NegInf]] : i \in I}
           Bind(r, x) == r.arr /\ x = TauOf(r.g) /\ x > r.g.base
       IN [n |-> Cardinality(I),
           drift |-> Cardinality({r \in Rows : ~((s.plan[m][r.i][3] - TauOf(r.g)) \in (-3)..3)}),
           base |-> Cardinality({r \in Rows : r.arr /\ r.g.base = TauOf(r.g)}),
           spacing |-> Cardinality({r \in Rows : Bind(r, r.g.spacing)}),
           flip |-> Cardinality({r \in Rows : Bind(r, r.g.flip)}),
           lock |-> Cardinality({r \in Rows : Bind(r, r.g.lock)}),
           lead |-> Cardinality({r \in Rows : Bind(r, r.g.lead)})]

Snap == /\ R.ev = "Snap"
        /\ LET s == R IN
           /\ Report(Names(<< <<"OppExclusive", OppExclusiveOf(hdr, s.plan)>>,
                              <<"LockoutExclusive", LockoutExclusiveOf(hdr, s.plan)>>,
                              <<"Headway", HeadwayOf(hdr, s.plan)>>,
                              <<"Fifo", FifoOf(hdr, s.plan)>>,
                              <<"MonotonePlan", MonotonePlanOf(s.plan)>>,
                              <<"FinalAllTimed", s.kind = "final" /\ phase = "dispatch_ok" => AllTimedOf(s.plan)>> >>))
           /\ stats' = LET ts == TauStats(s) IN [stats EXCEPT
                 !.snaps = @ + 1,
                 !.tau_checked = @ + ts.n, !.tau_drift = @ + ts.drift, !.bind_base = @ + ts.base,
                 !.bind_spacing = @ + ts.spacing, !.bind_flip = @ + ts.flip, !.bind_lock = @ + ts.lock, !.bind_lead = @ + ts.lead,
                 !.committed_unstable = @ + (IF prev = <<>> \/ CommittedStableOf(prev.plan, prev.fixed, s.plan) THEN 0 ELSE 1),
                 \* Dispatch!TimedPrefix on the recorded state: every node below a train's free index has a pass time
                 !.untimed_prefix = @ + (IF \A t \in 1..Len(s.plan) : \A i \in 1..s.free[t] : i > Len(s.plan[t]) \/ s.plan[t][i][3] < INF
                                         THEN 0 ELSE 1),
                 !.not_quiet = @ + (IF s.fixed = s.free THEN 0 ELSE 1),
                 !.auth_disagree = @ + (IF AuthAgreesRec(s) THEN 0 ELSE 1),
                 !.not_walk = @ + (IF Len(est) # Len(s.plan) \/ PlanIsWalkOf(est, s.plan) THEN 0 ELSE 1),
                 !.blocked_disagree = @ + (IF BlockedAgreesRec(s) THEN 0 ELSE 1),
                 !.waits = @ + (IF s.kind = "final" THEN Waits(s.plan) ELSE 0),
                 !.opp_pairs = @ + (IF s.kind = "final" THEN CountPairs(s.plan, LAMBDA a, b : b.link = hdr.flip[a.link]) ELSE 0),
                 !.lock_pairs = @ + (IF s.kind = "final" THEN CountPairs(s.plan, LAMBDA a, b : b.link \in RangeOf(hdr.lock[a.link])) ELSE 0),
                 !.follow_pairs = @ + (IF s.kind = "final" THEN CountPairs(s.plan, LAMBDA a, b : a.link = b.link /\ a.ae < b.ae) ELSE 0)]
        /\ prev' = R /\ UNCHANGED <<hdr, trs, est, phase>>

\* ---- C05: the returned value, judged together with the final snapshot
Result == /\ R.ev = "Result"
          /\ IF R.ok
             THEN /\ Report(Names(<< <<"RouteValid", RouteValidOf(hdr, trs, R.plan)>>,
                                     <<"Complete", Len(R.plan) = Len(trs)>>,
                                     <<"HaveFinalSnapshot", prev # <<>> /\ prev.kind = "final">>,
                                     <<"ResultIsFinalPlan", (prev # <<>>) => ResultIsFinalPlanOf(prev.plan, R.plan)>>,
                                     <<"AllTimed", (prev # <<>>) => AllTimedOf(prev.plan)>>,
                                     <<"AllCommitted", (prev # <<>>) => \A t \in 1..Len(prev.plan) : prev.fixed[t] = Len(prev.plan[t])>>,
                                     <<"FreeRun", (prev # <<>> /\ Len(est) = Len(prev.plan)) => FreeRunOf(est, prev.plan, TolMs)>>,
                                     <<"PlanIsWalk", (prev # <<>> /\ Len(est) = Len(prev.plan)) => PlanIsWalkOf(est, prev.plan)>> >>))
                  /\ stats' = [stats EXCEPT !.results_ok = @ + 1]
             ELSE /\ Report(Names(<< <<"ErrNamesTrains", Len(R.named) >= 1>> >>))
                  /\ stats' = [stats EXCEPT !.results_err = @ + 1]
          /\ UNCHANGED <<hdr, trs, est, prev, phase>>

\* a panic / abort / hang is not an action of any spec. During est-time construction it is outside the
\* antecedent of C05 and C15 (recorded as an observation); during dispatch it violates C05.
Crash == /\ R.ev \in {"panic", "abort", "timeout"}
         /\ IF phase = "dispatch" THEN Report(<<"NoPanic">>) /\ UNCHANGED stats
            ELSE stats' = [stats EXCEPT !.est_panic = @ + 1] /\ UNCHANGED viol
         /\ UNCHANGED <<hdr, trs, est, prev, phase>>

Skipped == /\ R.ev = "NetRejected" /\ stats' = [stats EXCEPT !.skipped = @ + 1]
           /\ UNCHANGED <<hdr, trs, est, prev, phase, viol>>
End == /\ R.ev = "end" /\ UNCHANGED <<hdr, trs, est, prev, phase, viol, stats>>

TNext == /\ l <= Len(Rec) /\ l' = l + 1
         /\ (Begin \/ Hdr \/ Trains \/ Net \/ EstErr \/ Phase \/ Snap \/ Result \/ Crash \/ Skipped \/ End)
         /\ UNCHANGED <<auth, route, pos, T, fixed>>
TSpec == TInit /\ [][TNext]_tvars

AtEnd == l > Len(Rec) => /\ PrintT(<<"VIOLS", ToJson(viol)>>)
                         /\ PrintT(<<"VIOLCAP", ToJson([recorded |-> Len(viol), cap |-> MaxViol])>>)
                         /\ PrintT(<<"STATS", ToJson(stats)>>)
Accepted == IF TLCGet("stats").diameter - 1 = Len(Rec) THEN TRUE
            ELSE Print(<<"FIRST-UNMATCHED", TLCGet("stats").diameter, Rec[TLCGet("stats").diameter]>>, FALSE)
=============================================================================
