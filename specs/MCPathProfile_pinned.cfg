SPECIFICATION Spec
CONSTANTS
  Variant = "pinned"
  Trains <- LinOnly
  Templates <- PTemplates
  Topos <- Chain
  MaxLinks = 1
  MaxRoute = 1
INVARIANT A_Boundaries
INVARIANT A_Counts
INVARIANT A_ElevWalk
INVARIANT A_GradeSlope
INVARIANT A_CumulativeGrade
INVARIANT A_CurvePoints
INVARIANT A_CurveCoeff
INVARIANT A_CumulativeCurve
INVARIANT A_CatShift
INVARIANT RouteVerdict
INVARIANT Functional
INVARIANT FinishOK

CHECK_DEADLOCK FALSE
