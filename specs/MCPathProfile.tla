--------------------------- MODULE MCPathProfile ---------------------------
(* Model-checking shell for PathProfile: link templates / trains of the bounded configs and the *)
(* emission of every (network, route) as a replayable case (the harness consumes the route by    *)
(* every composition into extend calls).                                                        *)
EXTENDS PathProfile, Json

Tpl(len, elevs, heads, cs) == [len |-> len, elevs |-> elevs, heads |-> heads, cat |-> cs]

\* 2 elevation points, no headings, no catenary
T1 == Tpl(8,   << <<0, 10>>, <<8, 12>> >>, <<>>, <<>>)
\* 3 elevation points, 2 headings 350 -> 10 (clockwise through north, raw -340: 20 deg over 16 m, above the knee), one catenary section inside
T2 == Tpl(16,  << <<0, 5>>, <<4, 9>>, <<16, 7>> >>, << <<0, 350>>, <<16, 10>> >>, << <<2, 10, 4096>> >>)
\* 4 elevation points, 3 headings 359 -> 1 -> 0 (raw -358: 2 deg over 32 m, above; -1 deg over 32 m: below), two touching sections
T3 == Tpl(64,  << <<0, 0>>, <<8, -3>>, <<32, -3>>, <<64, 1>> >>, << <<0, 359>>, <<32, 1>>, <<64, 0>> >>,
               << <<0, 16, 1024>>, <<16, 64, 2048>> >>)
\* flat, 2 headings 1 -> 359 (counter-clockwise through north, raw +358: 2 deg over 128 m, below the knee)
T4 == Tpl(128, << <<0, 7>>, <<128, 7>> >>, << <<0, 1>>, <<128, 359>> >>, <<>>)
\* half turns both ways (|wrap| = 180), only for trains without quadratic term
T5 == Tpl(32,  << <<0, 3>>, <<32, 1>> >>, << <<0, 90>>, <<16, 270>>, <<32, 90>> >>, <<>>)
\* constant heading (curvature 0), zero-length catenary section at the end, descending
T6 == Tpl(8,   << <<0, 9>>, <<2, 4>>, <<8, 0>> >>, << <<0, 45>>, <<8, 45>> >>, << <<8, 8, 0>> >>)
\* just below / above the knee: 762*1 vs 25*31 = 775 (below), 25*30 = 750 (above)
T7 == Tpl(61,  << <<0, 0>>, <<61, 61>> >>, << <<0, 10>>, <<31, 11>>, <<61, 10>> >>, << <<0, 61, 1>> >>)

QTemplates == {T1, T2, T3, T4, T6}
MTemplates == {T1, T2, T6}
PTemplates == {T2}                  \* fault model (bin/selftest): the pinned wrap must break A_CurveCoeff on 350 -> 10
TTemplates == {T1, T2, T3, T4, T5, T6, T7}

Lin  == [c0 |-> 1, c1 |-> 2, g16 |-> 0]
Quad == [c0 |-> 2, c1 |-> 1, g16 |-> 1]
QTrains == {Lin, Quad}
LinOnly == {Lin}
OneTrain == {Quad}
Chain == {"chain"}
Both == {"chain", "merge"}
MergeOnly == {"merge"}

Emit == (phase = "run" /\ done = 0 /\ hist = <<>>)
          => PrintT(<<"REPLAY", ToJson([train |-> train, unit |-> unit, exact |-> exact, net |-> net, route |-> route])>>)
=============================================================================
