SPECIFICATION Spec
CONSTANTS
  Variant = "ascoded"
  CompInits <- None
  LocoInits <- L1Inits
  LoadFiles <- None
  CompOps <- CompOpsAll
  LocoOps <- LocoOpsQ
  Targets <- One
  MaxOps = 2
INVARIANT LocoConsistent

CHECK_DEADLOCK FALSE
