SPECIFICATION Spec
CONSTANTS
  Variant = "ascoded"
  CompInits <- None
  LocoInits <- L1Inits
  LoadFiles <- None
  CompOps <- CompOpsAll
  LocoOps <- LocoOpsQ
  Targets <- One
  Near = FALSE
  MaxOps = 2
INVARIANT LocoConsistent

CHECK_DEADLOCK FALSE
