SPECIFICATION Spec
CONSTANTS
  Variant = "fixed"
  Bases <- P_Bases
  MaxFaults = 2
INVARIANT BaseValid
INVARIANT FaultInvalid
INVARIANT BenignValid
INVARIANT NonFiniteTable
INVARIANT Conforms
INVARIANT ImplNoPanic
INVARIANT EmitPairs
CHECK_DEADLOCK FALSE
