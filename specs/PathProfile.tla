--------------------------- MODULE PathProfile ---------------------------
(***************************************************************************)
(* C06 - the path geometry handed to the train model (PathTpc) equals the   *)
(* network's geometry.                                                       *)
(*                                                                          *)
(* Level A (the property): Boundaries / Counts / ElevWalk / GradeSlope /     *)
(*   CumulativeGrade / CurvePoints / CurveCoeff / CumulativeCurve / CatShift *)
(*   over the abstract profile <<lp, grades, curves, cat>>, each a closed    *)
(*   form of the route's own points; RouteVerdict (contiguous <=> Ok);       *)
(*   PartitionInvariant (the trace spec compares every partition's final     *)
(*   profile with the one-shot build; here: Functional).                     *)
(* Level B: ExtendB = transcription of the loops of PathTpc::extend          *)
(*   (track/path_track/path_tpc.rs) incl. the contiguity ensure!s, the       *)
(*   initial elevation, offset_base taken from grades.last(), the            *)
(*   empty-headings case; FinishB = PathTpc::finish.                         *)
(*                                                                          *)
(* Shapes (those of the harness' JSON):                                      *)
(*   train = [c0, c1, g16]   curve coefficients, see CurveW                  *)
(*   link  = [len, elevs : Seq(<<off, elev>>), heads : Seq(<<off, deg>>),    *)
(*            cat : Seq(<<start, end, power>>), prev, palt : link number]    *)
(*   net   = Seq(link)  (link number k = net[k]; 0 = none)                   *)
(*   lp    = Seq(<<offset, grade_count, curve_count, cat_count, link>>)      *)
(*   grades = Seq(<<offset, rise, net>>)  rise = res_coeff * run to the next *)
(*            point (= elevation difference), net = res_net                  *)
(*   curves = Seq(<<offset, w, net>>)  w = 25 * res_coeff * run / k1,        *)
(*            net = 25 * res_net / k1, k1 = 1 degree per 100 ft              *)
(*   cat   = Seq(<<start, end, power>>)                                      *)
(* All lengths, elevations, headings and w's are integers in units of 1/S    *)
(* (metre, metre, degree; S = 1 on the toy lattice). With a single scale S   *)
(* the formulas below are scale-free.                                        *)
(***************************************************************************)
EXTENDS Integers, Sequences, FiniteSets, TLC

CONSTANTS Variant        \* Level B wrap of the heading change: "euclid" = mathematical modulus (the current tree since b8a91e0:
                         \* ((x % REV) + REV) % REV); "pinned" = a single Rust `%` (remainder with the sign of the dividend),
                         \* the tree before the repair of F-C06-1 - kept as a fault model

INF == 1073741824        \* 2^30 = +infinity (avh::common::INF)

VARIABLES train, net, route,     \* the case
          unit,                  \* S: lengths, elevations, headings and w's are integers in units of 1/S
          exact,                 \* TRUE: inputs lie on the lattice (tolerance 0); FALSE: Q-rounded real data
          done,                  \* number of route entries consumed by successful extend calls
          ok,                    \* result of the last extend call
          lp, grades, curves, cat

Abs(x) == IF x < 0 THEN -x ELSE x
Max2(a, b) == IF a > b THEN a ELSE b
Near(a, b, t) == a - b <= t /\ b - a <= t
Last(s) == s[Len(s)]
(* TLC passes operator arguments and LET definitions by name; an accumulator that is used twice would be re-evaluated *)
(* along the whole recursion. Binding through a singleton set forces one evaluation: Only({f(x) : x \in {e}}).        *)
Only(S) == CHOOSE x \in S : TRUE

----------------------------------------------------------------------------
(* Curve resistance, the documented function of curvature.                  *)
(* curvature D in degrees per 100 ft = 30.48 * a / r  (a = |heading change| *)
(* in degrees wrapped into [-180, 180], r = run in metres; 30.48 = 762/25). *)
(*   res_coeff / k1 = c0 * D                                   for D < 1    *)
(*                  = c0 + c1 * (D - 1) + (c2 * k1) * (D - 1)^2 for D >= 1  *)
(* Multiplying by 25 r:  w = 762 c0 a                          (below knee) *)
(*        w = 25 c0 r + c1 E + g E^2 / (25 r),  E = 762 a - 25 r  (above)   *)
(* with g = c2 * k1 = g16 / 16. A, R below are a and r in units of 1/S; w   *)
(* is then in units of 1/S too and the formulas are unchanged.              *)
HalfTurn == 180 * unit
CurveWS(A, R, t) ==
  LET E == 762 * A - 25 * R IN
  IF E < 0 THEN 762 * t.c0 * A
  ELSE 25 * t.c0 * R + t.c1 * E + (IF t.g16 = 0 THEN 0
                                   ELSE IF E * t.g16 > 2147483647 \div E THEN -1      \* not computable in 32 bits (see TplFits)
                                   ELSE LET q == t.g16 * E * E IN                      \* rounded to nearest
                                        (q \div (400 * R)) + (IF 2 * (q % (400 * R)) >= 400 * R THEN 1 ELSE 0))
(* the quadratic term is evaluated in 32-bit integers: usable only while g16 * E^2 < 2^31; the model and the generators *)
(* only pair a quadratic train with networks where that holds (TplFits / quad_fits).                                   *)

----------------------------------------------------------------------------
(* Level A reference: walking the route's own points                         *)

HeadPts(l) == IF Len(l.heads) = 0 THEN << <<0, 0>>, <<l.len, 0>> >> ELSE l.heads

(* every fold below threads one state tuple st = <<base offset, cumulative value, list so far>> *)
RECURSIVE BasesFrom(_, _, _)
BasesFrom(ls, j, acc) == IF j > Len(ls) THEN acc
                         ELSE Only({BasesFrom(ls, j+1, a2) : a2 \in {Append(acc, Last(acc) + ls[j].len)}})
Bases(ls) == BasesFrom(ls, 1, <<0>>)                 \* Bases(ls)[j] = sum of the lengths before link j

GC(l) == Max2(Len(l.elevs), 2) - 1
CC(l) == Max2(Len(l.heads), 2) - 1

(* elevation walk: first elevation of the first link plus the accumulated within-link rises *)
GStep(l, st) ==
  LET e == l.elevs  m == Len(e)  base == st[1]  nb == st[2] IN
  <<base + l.len, nb + e[m][2] - e[1][2],
    st[3] \o [i \in 1..(m-1) |-> <<base + e[i][1], e[i+1][2] - e[i][2], nb + e[i][2] - e[1][2]>>]>>
RECURSIVE WG(_, _, _)
WG(ls, j, st) == IF j > Len(ls) THEN Append(st[3], <<st[1], 0, st[2]>>)
                 ELSE Only({WG(ls, j+1, s2) : s2 \in {GStep(ls[j], st)}})
WalkGrades(ls) == IF ls = <<>> THEN << <<0, 0, 0>> >> ELSE WG(ls, 1, <<0, ls[1].elevs[1][2], <<>>>>)

(* curve walk: |wrapped heading change| over run through the documented function, cumulative from 0 *)
WrapAbsH(d, half) == Abs(((d + half) % (2 * half)) - half)          \* TLA+ % is the mathematical modulus
CStep(h, i, st, t, half) ==
  Only({<<st[1], st[2] + w, Append(st[3], <<st[1] + h[i][1], w, st[2]>>)>> :
          w \in {CurveWS(WrapAbsH(h[i+1][2] - h[i][2], half), h[i+1][1] - h[i][1], t)}})
RECURSIVE WCL(_, _, _, _, _)
WCL(h, i, st, t, half) == IF i >= Len(h) THEN st
                          ELSE Only({WCL(h, i+1, s2, t, half) : s2 \in {CStep(h, i, st, t, half)}})
RECURSIVE WC(_, _, _, _, _)
WC(ls, j, st, t, half) ==
  IF j > Len(ls) THEN Append(st[3], <<st[1], 0, st[2]>>)
  ELSE Only({WC(ls, j+1, <<st[1] + ls[j].len, r[2], r[3]>>, t, half) :
               r \in {Only({WCL(h, 1, st, t, half) : h \in {HeadPts(ls[j])}})}})
WalkCurves(ls, t, half) == WC(ls, 1, <<0, 0, <<>>>>, t, half)

RECURSIVE WCat(_, _, _)
WCat(ls, j, st) ==
  IF j > Len(ls) THEN st[2]
  ELSE Only({WCat(ls, j+1, s2) : s2 \in {<<st[1] + ls[j].len,
            st[2] \o [i \in 1..Len(ls[j].cat) |-> <<st[1] + ls[j].cat[i][1], st[1] + ls[j].cat[i][2], ls[j].cat[i][3]>>]>>}})
WalkCat(ls) == WCat(ls, 1, <<0, <<>>>>)

RECURSIVE SumTo(_, _)
SumTo(f, j) == IF j <= 0 THEN 0 ELSE f[j] + SumTo(f, j-1)

----------------------------------------------------------------------------
(* Level A: the property, conjunct by conjunct. ls = the consumed links (records), ids = their numbers, *)
(* hs = half a turn in heading units (180 * S), te/tw = tolerances (0 on the lattice).                 *)

BoundariesOf(ls, ids, p, to) ==
  \E B \in {Bases(ls)} :
  /\ Len(p) = Len(ls) + 1
  /\ \A j \in 1..Len(p) : Near(p[j][1], B[j], to * j)
  /\ \A j \in 1..Len(ls) : p[j][5] = ids[j]
  /\ Last(p)[5] = 0

(* link-point counts are those of the source link and index the right grade / curve / catenary entries *)
CountsOf(ls, p, g, c, k) ==
  /\ Len(p) = Len(ls) + 1
  /\ \A j \in 1..Len(ls) : p[j][2] = GC(ls[j]) /\ p[j][3] = CC(ls[j]) /\ p[j][4] = Len(ls[j].cat)
  /\ Last(p)[2] = 0 /\ Last(p)[3] = 0 /\ Last(p)[4] = 0
  /\ \E gs \in {[j \in 1..Len(p) |-> p[j][2]]}, cs \in {[j \in 1..Len(p) |-> p[j][3]]}, ks \in {[j \in 1..Len(p) |-> p[j][4]]} :
     /\ Len(g) = 1 + SumTo(gs, Len(p)) /\ Len(c) = 1 + SumTo(cs, Len(p)) /\ Len(k) = SumTo(ks, Len(p))
     /\ \A j \in 1..Len(p) : /\ 1 + SumTo(gs, j-1) <= Len(g) /\ g[1 + SumTo(gs, j-1)][1] = p[j][1]
                             /\ 1 + SumTo(cs, j-1) <= Len(c) /\ c[1 + SumTo(cs, j-1)][1] = p[j][1]

(* grade break points are the route's elevation points, Elev there = the walk *)
ElevWalkOf(ls, g, to, te) ==
  \E W \in {WalkGrades(ls)} :
  /\ Len(g) = Len(W)
  /\ \A i \in 1..Len(W) : Near(g[i][1], W[i][1], to * (Len(ls) + 1)) /\ Near(g[i][3], W[i][3], te * (2 * Len(ls) + 1))
(* grade of a segment = rise / run of the source points (logged as coeff * run) *)
GradeSlopeOf(ls, g, te) ==
  \E W \in {WalkGrades(ls)} :
  /\ Len(g) = Len(W)
  /\ \A i \in 1..Len(W) : Near(g[i][2], W[i][2], 2 * te)
CumulativeOf(s, t) ==
  /\ Len(s) >= 1 /\ Last(s)[2] = 0
  /\ \A i \in 1..(Len(s)-1) : Near(s[i+1][3] - s[i][3], s[i][2], t)

CurvePointsOf(ls, c, t, hs, to) ==
  \E W \in {WalkCurves(ls, t, hs)} :
  /\ Len(c) = Len(W)
  /\ \A i \in 1..Len(W) : Near(c[i][1], W[i][1], to * (Len(ls) + 1))
CurveCoeffOf(ls, c, t, hs, tw) ==
  \E W \in {WalkCurves(ls, t, hs)} :
  /\ Len(c) = Len(W)
  /\ \A i \in 1..Len(W) : Near(c[i][2], W[i][2], tw)
CurveStartOf(c) == Len(c) >= 1 /\ c[1][3] = 0

CatShiftOf(ls, k, to) ==
  \E W \in {WalkCat(ls)} :
  /\ Len(k) = Len(W)
  /\ \A i \in 1..Len(W) : Near(k[i][1], W[i][1], to * (Len(ls) + 1)) /\ Near(k[i][2], W[i][2], to * (Len(ls) + 1))
                          /\ k[i][3] = W[i][3]

(* a route is acceptable iff every entry is a real link and each link follows the previous one *)
RouteOK(n, r) == /\ \A j \in 1..Len(r) : r[j] \in 1..Len(n)
                 /\ \A j \in 2..Len(r) : n[r[j]].prev = r[j-1] \/ n[r[j]].palt = r[j-1]

----------------------------------------------------------------------------
(* Level A on the state variables                                            *)
Consumed   == [j \in 1..done |-> net[route[j]]]
ConsumedId == [j \in 1..done |-> route[j]]
TolO == IF exact THEN 0 ELSE 1
TolE == IF exact THEN 0 ELSE 1
(* lattice: every w is an integer, except for the quadratic term (floor vs round: 1). Real data: both headings and   *)
(* both offsets of a segment are rounded by at most 1/2 unit: |dw| <= 762 cmax * 1 + 25 cmax * 1 + 1                 *)
TolW == IF exact THEN (IF train.g16 = 0 THEN 0 ELSE 1) ELSE 787 * Max2(train.c0, train.c1) + 1
TolC == IF exact /\ train.g16 = 0 THEN 0 ELSE 2

OnConsumed(P(_, _)) == \E ls \in {Consumed}, ids \in {ConsumedId} : P(ls, ids)
Boundaries      == ok => OnConsumed(LAMBDA ls, ids : BoundariesOf(ls, ids, lp, TolO))
Counts          == ok => OnConsumed(LAMBDA ls, ids : CountsOf(ls, lp, grades, curves, cat))
ElevWalk        == ok => OnConsumed(LAMBDA ls, ids : ElevWalkOf(ls, grades, TolO, TolE))
GradeSlope      == ok => OnConsumed(LAMBDA ls, ids : GradeSlopeOf(ls, grades, TolE))
CumulativeGrade == ok => CumulativeOf(grades, 2 * TolE)
CurvePoints     == ok => OnConsumed(LAMBDA ls, ids : CurvePointsOf(ls, curves, train, HalfTurn, TolO))
CurveCoeff      == ok => OnConsumed(LAMBDA ls, ids : CurveCoeffOf(ls, curves, train, HalfTurn, TolW))
CumulativeCurve == ok => CumulativeOf(curves, TolC) /\ CurveStartOf(curves)
CatShift        == ok => OnConsumed(LAMBDA ls, ids : CatShiftOf(ls, cat, TolO))

----------------------------------------------------------------------------
(* Level B: PathTpc::new / extend / finish                                   *)

NewPath == [lp |-> << <<0, 0, 0, 0, 0>> >>, grades |-> << <<0, 0, 0>> >>, curves |-> << <<0, 0, 0>> >>, cat |-> <<>>, ok |-> TRUE]

(* "Extend link points": r = <<lp, ok>>; on failure lp keeps what was appended before the offending link *)
L1Step(n, p, id) ==
  IF id = 0 THEN <<p, FALSE>>                                              \* ensure!(link_idx.is_real())
  ELSE LET link == n[id]
           base == Last(p)[1]
           contiguous == IF Len(p) >= 2
                         THEN LET pv == p[Len(p)-1][5] IN
                              /\ pv # 0
                              /\ (link.prev # link.palt \/ link.palt = 0)     \* (the twin ensure! on next / next_alt cannot fail in the family)
                              /\ (link.prev = pv \/ link.palt = pv)
                         ELSE TRUE
       IN IF ~contiguous THEN <<p, FALSE>>
          ELSE <<[p EXCEPT ![Len(p)] = <<base, GC(link), CC(link), Len(link.cat), id>>] \o << <<link.len + base, 0, 0, 0, 0>> >>, TRUE>>
RECURSIVE Loop1(_, _, _, _)
Loop1(n, r, ch, i) == IF i > Len(ch) \/ ~r[2] THEN r
                      ELSE Only({Loop1(n, r2, ch, i+1) : r2 \in {L1Step(n, r[1], ch[i])}})

(* Rust: -REV/2 + (d + REV/2) % REV, then abs() *)
Rem(x, m) == IF x >= 0 THEN x % m ELSE -((-x) % m)
WrapAbs(d) == IF Variant = "pinned" THEN Abs(Rem(d + HalfTurn, 2 * HalfTurn) - HalfTurn)
              ELSE Abs(((d + HalfTurn) % (2 * HalfTurn)) - HalfTurn)

(* "Extend elevs" of one link: st = <<grades, res_net_prev>> *)
RECURSIVE ElevLoop(_, _, _, _)
ElevLoop(st, e, i, base) ==
  IF i >= Len(e) THEN st[1]
  ELSE Only({ElevLoop(s2, e, i+1, base) :
               s2 \in {LET g == st[1]  rise == e[i+1][2] - e[i][2]  nn == st[2] + e[i+1][2] - e[i][2]
                       IN <<[g EXCEPT ![Len(g)][2] = rise] \o << <<base + e[i+1][1], 0, nn>> >>, nn>>}})
(* "Extend curves" of one link: st = <<curves, res_net_prev>> *)
RECURSIVE HeadLoop(_, _, _, _, _)
HeadLoop(st, h, i, base, t) ==
  IF i >= Len(h) THEN st[1]
  ELSE Only({HeadLoop(<<[st[1] EXCEPT ![Len(st[1])][2] = w] \o << <<base + h[i+1][1], 0, st[2] + w>> >>, st[2] + w>>, h, i+1, base, t) :
               w \in {CurveWS(WrapAbs(h[i+1][2] - h[i][2]), h[i+1][1] - h[i][1], t)}})

L2Step(link, st, t) ==
  LET base == Last(st.grades)[1]                                         \* offset_base = self.grades.last().offset
      g2 == IF link.elevs = <<>> THEN Append(st.grades, <<base + link.len, 0, Last(st.grades)[3]>>)
            ELSE ElevLoop(<<st.grades, Last(st.grades)[3]>>, link.elevs, 1, base)
      c2 == IF link.heads = <<>> THEN Append(st.curves, <<base + link.len, 0, Last(st.curves)[3]>>)
            ELSE HeadLoop(<<st.curves, Last(st.curves)[3]>>, link.heads, 1, base, t)
      k2 == st.cat \o [j \in 1..Len(link.cat) |-> <<base + link.cat[j][1], base + link.cat[j][2], link.cat[j][3]>>]
  IN [st EXCEPT !.grades = g2, !.curves = c2, !.cat = k2]
RECURSIVE Loop2(_, _, _, _, _)
Loop2(n, st, ch, i, t) == IF i > Len(ch) THEN st
                          ELSE Only({Loop2(n, s2, ch, i+1, t) : s2 \in {L2Step(n[ch[i]], st, t)}})

ExtendB(n, st, ch, t) ==
  LET \* "Set initial elevation when first link is added to path"
      g0 == IF Len(st.grades) = 1 /\ ch # <<>> /\ ch[1] # 0 /\ n[ch[1]].elevs # <<>>
            THEN [st.grades EXCEPT ![1][3] = n[ch[1]].elevs[1][2]] ELSE st.grades
  IN Only({IF r1[2] THEN Loop2(n, [st EXCEPT !.grades = g0, !.lp = r1[1], !.ok = TRUE], ch, 1, t)
           ELSE [st EXCEPT !.grades = g0, !.lp = r1[1], !.ok = FALSE] : r1 \in {Loop1(n, <<st.lp, TRUE>>, ch, 1)}})

FinishB(st) == [st EXCEPT !.grades = Append(@, <<INF, 0, Last(@)[3]>>), !.curves = Append(@, <<INF, 0, Last(@)[3]>>)]

RECURSIVE Chunks(_, _, _)
Chunks(r, sizes, from) == IF sizes = <<>> THEN <<>>
                          ELSE <<SubSeq(r, from, from + sizes[1] - 1)>> \o Chunks(r, Tail(sizes), from + sizes[1])
RECURSIVE FoldExtend(_, _, _, _)
FoldExtend(n, st, chs, t) == IF chs = <<>> \/ ~st.ok THEN st
                             ELSE Only({FoldExtend(n, s2, Tail(chs), t) : s2 \in {ExtendB(n, st, chs[1], t)}})
(* the profile Level B predicts for a route consumed by calls of the given sizes *)
ModelPath(n, r, sizes, t) == FoldExtend(n, NewPath, Chunks(r, sizes, 1), t)

----------------------------------------------------------------------------
(* Level B as a transition system: build a network link by link, choose a    *)
(* route, consume it by successive Extend calls.                             *)
CONSTANTS Trains, Templates, Topos, MaxLinks, MaxRoute
VARIABLES phase, hist
vars == <<train, net, route, unit, exact, done, ok, lp, grades, curves, cat, phase, hist>>

Mk(tpl, prev, palt) == [len |-> tpl.len, elevs |-> tpl.elevs, heads |-> tpl.heads, cat |-> tpl.cat, prev |-> prev, palt |-> palt]
(* topology "chain": k follows k-1; "merge": 1 and 2 both lead to 3 (3.prev = 1, 3.prev_alt = 2), then chain *)
PrevOf(topo, k) == IF topo = "merge" THEN (CASE k = 1 -> <<0, 0>> [] k = 2 -> <<0, 0>> [] k = 3 -> <<1, 2>> [] OTHER -> <<k-1, 0>>)
                   ELSE <<k-1, 0>>
TplFits(tpl, t) == \A i \in 1..(Len(tpl.heads)-1) :
                      LET E == 762 * WrapAbsH(tpl.heads[i+1][2] - tpl.heads[i][2], 180) - 25 * (tpl.heads[i+1][1] - tpl.heads[i][1])
                      IN t.g16 = 0 \/ E < 0 \/ E * t.g16 <= 2147483647 \div E

Succ(n, a) == {b \in 1..Len(n) : n[b].prev = a \/ n[b].palt = a}
RECURSIVE PathsOfLen(_, _)
PathsOfLen(n, k) == IF k = 1 THEN {<<a>> : a \in 1..Len(n)}
                    ELSE UNION {{Append(r, b) : b \in Succ(n, Last(r))} : r \in PathsOfLen(n, k-1)}
GoodRoutes(n) == UNION {PathsOfLen(n, k) : k \in 1..MaxRoute}
RemoveAt(s, i) == SubSeq(s, 1, i-1) \o SubSeq(s, i+1, Len(s))
(* single-fault variants of a contiguous route: drop / swap / repeat / replace by "none" / append a non-successor *)
Variants(n, r) ==
       {RemoveAt(r, i) : i \in 2..(Len(r)-1)}
  \cup {[r EXCEPT ![i] = r[i+1], ![i+1] = r[i]] : i \in 1..(Len(r)-1)}
  \cup {SubSeq(r, 1, i) \o SubSeq(r, i, Len(r)) : i \in 1..Len(r)}
  \cup {[r EXCEPT ![i] = 0] : i \in 1..Len(r)}
  \cup {Append(r, b) : b \in 1..Len(n)}
BadRoutes(n) == {v \in UNION {Variants(n, r) : r \in GoodRoutes(n)} : ~RouteOK(n, v) /\ Len(v) <= MaxRoute + 1}

Init == /\ train \in Trains /\ net = <<>> /\ route = <<>> /\ unit = 1 /\ exact = TRUE /\ done = 0 /\ ok = TRUE
        /\ lp = NewPath.lp /\ grades = NewPath.grades /\ curves = NewPath.curves /\ cat = NewPath.cat
        /\ phase \in Topos /\ hist = <<>>

AddLink == /\ phase \in Topos /\ Len(net) < MaxLinks
           /\ \E tpl \in Templates : /\ TplFits(tpl, train)
                                     /\ LET pp == PrevOf(phase, Len(net) + 1) IN net' = Append(net, Mk(tpl, pp[1], pp[2]))
           /\ UNCHANGED <<train, route, unit, exact, done, ok, lp, grades, curves, cat, phase, hist>>

Complete(topo, n) == Len(n) >= 1 /\ (topo = "merge" => Len(n) >= 3)
ChooseGood == /\ phase \in Topos /\ Complete(phase, net)
              /\ \E r \in GoodRoutes(net) : route' = r
              /\ phase' = "run"
              /\ UNCHANGED <<train, net, unit, exact, done, ok, lp, grades, curves, cat, hist>>
ChooseBad  == /\ phase \in Topos /\ Complete(phase, net)
              /\ \E r \in BadRoutes(net) : route' = r
              /\ phase' = "run"
              /\ UNCHANGED <<train, net, unit, exact, done, ok, lp, grades, curves, cat, hist>>

Extend == /\ phase = "run" /\ ok /\ done < Len(route)
          /\ \E k \in 1..(Len(route) - done) :
               LET st == ExtendB(net, [lp |-> lp, grades |-> grades, curves |-> curves, cat |-> cat, ok |-> TRUE],
                                 SubSeq(route, done + 1, done + k), train) IN
               /\ lp' = st.lp /\ grades' = st.grades /\ curves' = st.curves /\ cat' = st.cat /\ ok' = st.ok
               /\ done' = IF st.ok THEN done + k ELSE done
               /\ hist' = Append(hist, k)
          /\ UNCHANGED <<train, net, route, unit, exact, phase>>

Finish == /\ phase = "run" /\ ok /\ done = Len(route)
          /\ LET st == FinishB([lp |-> lp, grades |-> grades, curves |-> curves, cat |-> cat, ok |-> TRUE]) IN
             grades' = st.grades /\ curves' = st.curves
          /\ phase' = "finished"
          /\ UNCHANGED <<train, net, route, unit, exact, done, ok, lp, cat, hist>>

Next == AddLink \/ ChooseGood \/ ChooseBad \/ Extend \/ Finish
Spec == Init /\ [][Next]_vars

----------------------------------------------------------------------------
(* Level B => Level A on every reachable state                               *)
Running == phase = "run"
A_Boundaries      == Running => Boundaries
A_Counts          == Running => Counts
A_ElevWalk        == Running => ElevWalk
A_GradeSlope      == Running => GradeSlope
A_CumulativeGrade == Running => CumulativeGrade
A_CurvePoints     == Running => CurvePoints
A_CurveCoeff      == Running => CurveCoeff
A_CumulativeCurve == Running => CumulativeCurve
A_CatShift        == Running => CatShift
(* contiguous <=> accepted: a failed call is the one that reached the first offending entry *)
RouteVerdict == Running => IF ok THEN RouteOK(net, SubSeq(route, 1, done))
                           ELSE ~RouteOK(net, SubSeq(route, 1, done + Last(hist)))
(* PartitionInvariant: whatever the composition into calls, the state is the one-shot state of the consumed prefix *)
Functional == (Running /\ ok) =>
                 LET one == ModelPath(net, SubSeq(route, 1, done), IF done = 0 THEN <<>> ELSE <<done>>, train)
                 IN <<lp, grades, curves, cat>> = <<one.lp, one.grades, one.curves, one.cat>>
FinishOK == phase = "finished" =>
              /\ Last(grades) = <<INF, 0, grades[Len(grades)-1][3]>> /\ grades[Len(grades)-1][2] = 0
              /\ Last(curves) = <<INF, 0, curves[Len(curves)-1][3]>> /\ curves[Len(curves)-1][2] = 0
=============================================================================
