SPECIFICATION Spec
CONSTANTS
  Variant = "repaired"
  CompInits <- None
  LocoInits <- None
  LoadFiles <- AllLoads
  CompOps <- CompOpsAll
  LocoOps <- LocoOpsQ
  Targets <- One
  MaxOps = 1
INVARIANT ComponentConsistent
INVARIANT LocoConsistent
INVARIANT Traction
INVARIANT ConsistMass
INVARIANT ConsistForce
INVARIANT TrainStatic
INVARIANT Atomic
INVARIANT OptionSemantics
INVARIANT Frame
INVARIANT Emit
CHECK_DEADLOCK FALSE
