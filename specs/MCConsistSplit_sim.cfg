SPECIFICATION Spec
CONSTANTS
  Recorded = FALSE
  Fault = "none"
  Lims <- LimOn
  Policies <- Both
  Ratings <- R123
  ConvStarts <- CS3
  BelStarts <- BS3
  MinUnits = 5
  MaxUnits = 8
  MaxSteps = 3
  WarmClasses <- Warm
  Classes <- AllClasses
  ThinMod = 1
INVARIANT TypeOK
INVARIANT Sum
INVARIANT RangePos
INVARIANT RangeNeg
INVARIANT Zero
INVARIANT NoOpposite
INVARIANT Regen
INVARIANT BatteryFirst
INVARIANT EmitThin
CHECK_DEADLOCK FALSE
