SPECIFICATION Spec
CONSTANTS
  DeepKinds <- MC_LargeDeep
  ShallowKinds <- MC_LargeShallow
  StaticKinds <- MC_Static
  Depth = 2
  ShallowDepth = 2
  Media = {"reader", "file", "over"}
  Sizes = {"large"}
  BigSaves = 1
  Variant = "faithful"
INVARIANT TypeOK
INVARIANT Stutter
INVARIANT Idempotent
INVARIANT SaveLoadOk
INVARIANT MediumIndependent
INVARIANT Emit
PROPERTY StutterStep
CHECK_DEADLOCK FALSE
