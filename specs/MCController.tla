--------------------------- MODULE MCController ---------------------------
(* Model-checking shell for Controller: constant sets of the bounded configs and the emission of  *)
(* scripted runs (profile + environment + force policy) as replayable "ctrl" cases: the harness    *)
(* steps a real SpeedLimitTrainSim over the toy profile with the consist's force limit scripted.   *)
EXTENDS Controller, Json

Q_Lens == {3, 8, 20, 60}
Q_Lims == {2, 4, 8}
S_Lims == {2, 4, 8, -8}           \* one sign-encoded limit in the scripted (replayed) runs
P_Lens == {3, 8, 20}

\* environment of the exhaustive configs: flat, up grade, down grade (table built for the same resistance),
\* brake build-up over 2 s on the flat
X_Envs   == {<<0, 0>>, <<1, 0>>, <<-1, 0>>, <<0, 2>>}
X_Forces == {2, 3, 5}                 \* always above the resistance: the train can start
Y_Envs   == {<<0, 0>>, <<-1, 0>>, <<0, 2>>}
Y_Forces == {2, 5}
\* replayable environment (a negative resistance cannot be produced exactly on the real track)
R_Envs   == {<<0, 0>>, <<1, 0>>, <<0, 2>>}
R_Pols   == {<<2>>, <<3>>, <<5>>, <<2, 5>>, <<5, 2, 3>>}

Finished == phase = "run" /\ ~Going
Emit == (Finished /\ cs.k > 0) => PrintT(<<"REPLAY", ToJson([kind |-> "ctrl", zones |-> sp, end |-> end, r |-> env[1], ramp |-> env[2],
                                                pol |-> pol, n |-> cs.k])>>)
=============================================================================
