--------------------------- MODULE MCDeterminism ---------------------------
(* Model-checking shell for Determinism: every batch shape the model explores (size, failing    *)
(* position) is emitted once as a case the harness materialises as a real LocomotiveSimulationVec *)
(* and walks serially and under rayon pools of 1, 2, 3, 8, 16 threads. With every batch shape a   *)
(* consist of 3 + fail (3 .. 3 + N) locomotives with pairwise different ratings (stepped under    *)
(* pools of 1, 2, 4, 7 workers) and a train of 3, 4 or 5 car types (built 8 times from         *)
(* separately constructed equal inputs) are emitted: the sizes of the reductions inside an        *)
(* element (Parts of the model, 3 there).                                                         *)
EXTENDS Determinism, Json

AtInit == round = 1 /\ pool = Elems /\ Idle /\ result = None
Emit == AtInit => /\ PrintT(<<"REPLAY", ToJson([kind |-> "batch", n |-> N, fail |-> fail, len |-> 6 + 3 * N, at |-> 1 + N])>>)
                  /\ PrintT(<<"REPLAY", ToJson([kind |-> "consist", n |-> 3 + fail, mix |-> N, steps |-> 4 + 2 * N])>>)
                  /\ PrintT(<<"REPLAY", ToJson([kind |-> "build", types |-> 3 + (fail % 3), mix |-> N + fail, reps |-> 8])>>)
=============================================================================
