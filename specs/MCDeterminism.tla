--------------------------- MODULE MCDeterminism ---------------------------
(* Model-checking shell for Determinism: every batch shape the model explores (size, failing    *)
(* position) is emitted once as a case the harness materialises as a real LocomotiveSimulationVec *)
(* and walks serially and under rayon pools of 1, 2, 3, 8, 16 threads.                           *)
EXTENDS Determinism, Json

AtInit == round = 1 /\ pool = Elems /\ Idle /\ result = None
Emit == AtInit => PrintT(<<"REPLAY", ToJson([kind |-> "batch", n |-> N, fail |-> fail, len |-> 6 + 3 * N, at |-> 1 + N])>>)
=============================================================================
