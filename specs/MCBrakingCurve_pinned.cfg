\* EXPECTED TO FAIL: the pinned algorithm on every profile (re-finds F-C03-1: zones 2|4|8 with a short
\* middle zone). Used by the self-test only, never by the check.
SPECIFICATION Spec
CONSTANTS
  Variant = "catchup"
  E = 0
  VPerO = 1
  MaxZ = 4
  Lens <- P_Lens
  Lims <- P_Lims
  Domain = "all"
INVARIANT TableSafe
INVARIANT TargetLeLimit
INVARIANT Monotone
CHECK_DEADLOCK FALSE
