--------------------------- MODULE MCNetworkRules ---------------------------
(* Model-checking shell for NetworkRules: base families of the bounded configs and the      *)
(* emission of every description (base or broken) as a replayable case.                     *)
EXTENDS NetworkRules, Json

Q_Bases == {"single", "sidingL", "junction"}
T_Bases == {"plain", "single", "siding", "sidingL", "junction", "junctionL"}
P_Bases == {"junctionL"}            \* pairs of faults
PQ_Bases == {"plain"}              \* pairs of faults, quick tier
VC_Bases == {"junction"}           \* fault models (bin/selftest): pinned variant must re-find F-C16-1 on junction (touching sections rejected),
VP_Bases == {"plain"}              \* F-C16-2 on plain (out-of-range reference indexed), skip1 variant F-C16-4 on plain

(* every description is a case: the harness renders `net` in each layout and format *)
Emit == PrintT(<<"REPLAY", ToJson([base |-> base, faults |-> faults, net |-> net])>>)
(* pairs: only the doubly broken descriptions (the singles are covered by the other configs) *)
EmitPairs == Len(faults) = MaxFaults => Emit
=============================================================================
