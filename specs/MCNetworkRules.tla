--------------------------- MODULE MCNetworkRules ---------------------------
(* Model-checking shell for NetworkRules: base families of the bounded configs and the      *)
(* emission of every description (base or broken) as a replayable case.                     *)
EXTENDS NetworkRules, Json

Q_Bases == {"single", "sidingL", "junction"}
T_Bases == {"plain", "single", "siding", "sidingL", "junction", "junctionL"}
P_Bases == {"junctionL"}            \* pairs of faults
V_Bases == {"plain", "junction"}    \* pinned variant (vacuity): must re-find F-C16-1 (junction) and F-C16-2 (plain)

(* every description is a case: the harness renders `net` in each layout and format *)
Emit == PrintT(<<"REPLAY", ToJson([base |-> base, faults |-> faults, net |-> net])>>)
(* pairs: only the doubly broken descriptions (the singles are covered by the other configs) *)
EmitPairs == Len(faults) = MaxFaults => Emit
=============================================================================
