SPECIFICATION Spec
CONSTANTS
  Variant = "euclid"
  Trains <- QTrains
  Templates <- QTemplates
  Topos <- MergeOnly
  MaxLinks = 4
  MaxRoute = 4
INVARIANT A_Boundaries
INVARIANT A_Counts
INVARIANT A_ElevWalk
INVARIANT A_GradeSlope
INVARIANT A_CumulativeGrade
INVARIANT A_CurvePoints
INVARIANT A_CurveCoeff
INVARIANT A_CumulativeCurve
INVARIANT A_CatShift
INVARIANT RouteVerdict
INVARIANT Functional
INVARIANT FinishOK
INVARIANT Emit
CHECK_DEADLOCK FALSE
