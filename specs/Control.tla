------------------------------ MODULE Control ------------------------------
(***************************************************************************)
(* C03 — a speed-limited train never overspeeds, never reverses, stops      *)
(* inside its path; the run ends Ok or with a descriptive error, never a    *)
(* panic; the target speed is never above the limit in force.               *)
(*                                                                          *)
(* Level A monitors over a recorded run of SpeedLimitTrainSim. The posted   *)
(* limit is evaluated HERE from the speed points of the header (PostedHi),  *)
(* independently of the braking table the controller uses. The table-level  *)
(* predicates and the Level-B design model of the table live in             *)
(* BrakingCurve.tla.                                                        *)
(*                                                                          *)
(* Recorded shapes (harness/src/bin/avh_control.rs; all integers):          *)
(*   offsets  round(x * 2^6)   per metre                                    *)
(*   speeds   floor / ceil (x * 2^16) per m/s: a left-hand side is logged   *)
(*            rounded down, a right-hand side rounded up, so rounding can    *)
(*            hide an excess of < 1 unit (1.5e-5 m/s) but never invent one   *)
(*   step  s = <<i, time, offset, speed_floor, limit_floor, limit_ceil, target_floor>>        *)
(*   final f = [ok, msg, end, o, v (floor), vc (ceil)]                      *)
(* Tolerances: none beyond the quantisation. The code's own check           *)
(* (`assert!(speed <= speed_limit)`, braking_point.rs:49-53) has none, and  *)
(* the stop window is the code's own 1000 ft (speed_limit_train_sim.rs:335).*)
(***************************************************************************)
EXTENDS BrakingCurve

CONSTANTS FT1000      \* 1000 ft in offset units, rounded up (304.8 m * 2^6 = 19507.2)

VARIABLES prev,       \* the previous step record of the current run, <<>> before the first
          off0        \* offset of the first record of the run (the train's initial front position)

(* per-step monitors; p = previous record, s = current record *)
NonNegOf(s)              == s[4] >= 0                           \* Speed >= 0
PostedOf(spp, s)         == s[4] <= PostedHi(spp, s[3])         \* speed[k] <= Posted(offset[k])
TargetLeLimitStepOf(s)   == s[7] <= s[6]                        \* speed_target[k] <= speed_limit[k]
ReportedOf(p, s)         == p[4] <= s[6]                        \* speed[k-1] <= the limit the controller reports for that position
LimitLePostedOf(spp, p, s) == s[5] <= PostedHi(spp, p[3])       \* speed_limit[k] <= Posted(offset[k-1])
NoReverseOf(p, s)        == s[3] >= p[3]                        \* the front never moves backwards

(* at the end of a run that returned Ok: at rest, inside the stopping window, not beyond the end of *)
(* the path (a path that ends behind the train's initial front cannot be overrun)                   *)
StopWindowOf(f, o0) == /\ f.v = 0 /\ f.vc = 0
                       /\ f["end"] - FT1000 <= f.o
                       /\ f.o <= Max2(f["end"], o0)

(* a call of the library ends Ok or with a descriptive error: an error has a text, and it is not   *)
(* one of the solver's own consistency checks (`ensure!` on the power / force bounds it has just   *)
(* computed, speed_limit_train_sim.rs:461-464, :608-617, :625-643): those are assertions turned     *)
(* into Err — the same failure as a panic for the caller — not a description of the input. The      *)
(* harness classifies the text (cls = "internal" | "descriptive", see errcls_txt).                  *)
EndOkOf(e) == e.ok \/ e.msg # ""
NoInternalErrOf(e) == e.ok \/ e.cls # "internal"
=============================================================================
