--------------------------- MODULE HistoryTrace ---------------------------
(* Implementation -> spec for C19: every recorded projection of a real simulation object tree *)
(* (after construction and after every action of a schedule) is bound to History's variables   *)
(* and History's own Level-A clauses are evaluated on it. The log of executed calls is rebuilt *)
(* from the recorded outcomes only (ok / Err), never from the recorded counters. Level-B's     *)
(* prediction of the same action is compared too: a mismatch with Level A intact is drift.     *)
EXTENDS History, Json, IOUtils

Rec == ndJsonDeserialize(IOEnv.TRACE)

VARIABLES l, viol, stats
tvars == <<kind, comp, nd, simi, av, log, sched, l, viol, stats>>

TInit == /\ l = 1 /\ viol = <<>>
         /\ stats = [cases |-> 0, runs |-> 0, ops |-> 0, nodes |-> 0, drift |-> 0, shape |-> 0, unexpected |-> 0,
                     saved |-> 0, errsteps |-> 0, walks |-> 0, panics |-> 0]
         /\ kind = "none" /\ comp = <<>> /\ nd = <<>> /\ simi = -1 /\ av = 0 /\ log = <<>> /\ sched = <<>>

Names(checks) == LET F == SelectSeq(checks, LAMBDA c : ~c[2]) IN [i \in 1..Len(F) |-> F[i][1]]
(* the list is capped: a badly broken tree fails at every line, and a long `viol` makes every state expensive *)
Report(names) == viol' = IF Len(viol) >= 2000 THEN viol ELSE viol \o [i \in 1..Len(names) |-> <<l, Rec[l].case, names[i]>>]

(* every column of every history has the length of its i column *)
Columns(s) == \A a \in Idx(s) : s[a].lmin = Len(s[a].hi) /\ s[a].lmax = Len(s[a].hi)
Checks == << <<"SameLength", SameLength' /\ Columns(nd')>>, <<"SameStep", SameStep'>>,
             <<"CountersEqual", CountersEqual'>>, <<"StepIndex", StepIndex'>>,
             <<"SavedCount", SavedCount'>>, <<"Entries", Entries'>>,
             <<"DisabledEmpty", DisabledEmpty'>>, <<"Propagated", Propagated'>> >>
SavedAll(s) == LET S == {Len(s[a].hi) : a \in Idx(s)} IN IF S = {} THEN 0 ELSE CHOOSE m \in S : \A x \in S : m <= x

Begin == /\ Rec[l].ev = "begin"
         /\ stats' = [stats EXCEPT !.cases = @ + 1]
         /\ kind' = "none" /\ comp' = <<>> /\ nd' = <<>> /\ simi' = -1 /\ av' = 0 /\ log' = <<>> /\ sched' = <<>>
         /\ UNCHANGED viol

Start == /\ Rec[l].ev = "Start"
         /\ kind' = Rec[l].kind /\ comp' = Rec[l].comp /\ av' = Rec[l].v0
         /\ nd' = Rec[l].nodes /\ simi' = Rec[l].simi /\ log' = <<>>
         /\ sched' = << <<"New", Rec[l].v0, Rec[l].u0, Rec[l].c0>> >>
         /\ Report(Names(Checks))
         /\ stats' = [stats EXCEPT !.runs = @ + 1, !.nodes = @ + Len(nd'),
                        !.shape = @ + (IF Shape(nd') = Shape(Build(kind', comp', av')) THEN 0 ELSE 1),
                        !.drift = @ + (IF Proj(nd') = Build(kind', comp', av') THEN 0 ELSE 1)]

StepEntry(i) == [op |-> "Step", i |-> i, v |-> av]
Op == /\ Rec[l].ev = "Op"
      /\ LET r == Rec[l]
             isWalk == r.name \in {"Walk", "WalkErr"}
             \* steps executed by a walk: known from the trace handed to it (trace kinds), else
             \* the advance of the simulation's own counter (path-driven walks)
             expectOk == r.name \in {"Set", "Relist", "Init", "Step", "Walk"}
             n == IF r.name = "Walk" /\ r.ok /\ kind \notin {"slts", "timed", "vec"} THEN r.arg
                  ELSE IF r.name = "WalkErr" /\ ~r.ok THEN r.arg - 1 ELSE r.adv
             pred == CASE r.name = "Set" -> DoSet(nd, r.arg)
                       [] r.name = "Relist" -> DoRelist(nd, U0, r.arg)
                       [] r.name = "Init" -> DoSave(nd)
                       [] r.name \in {"Step", "Err"} -> IF r.ok THEN DoStepOk(nd) ELSE DoStepErr(nd)
                       [] OTHER -> nd
         IN /\ av' = IF r.name \in {"Set", "Relist"} THEN r.arg ELSE av
            /\ log' = CASE r.name = "Init" /\ r.ok -> Append(log, [op |-> "Init", i |-> AI(log), v |-> av])
                        [] r.name \in {"Step", "Err"} /\ r.ok -> Append(log, StepEntry(AI(log)))
                        [] isWalk -> log \o <<[op |-> "Init", i |-> AI(log), v |-> av]>>
                                         \o [k \in 1..n |-> StepEntry(AI(log) + k - 1)]
                        [] OTHER -> log
            /\ nd' = r.nodes /\ simi' = r.simi
            /\ sched' = Append(sched, <<r.name, r.arg>>)
            /\ Report(Names(Checks))
            /\ stats' = [stats EXCEPT !.ops = @ + 1, !.nodes = @ + Len(nd'),
                           !.shape = @ + (IF Shape(nd') = Shape(nd) THEN 0 ELSE 1),
                           !.drift = @ + (IF isWalk \/ Proj(nd') = Proj(pred) THEN 0 ELSE 1),
                           !.unexpected = @ + (IF r.ok = expectOk THEN 0 ELSE 1),
                           !.errsteps = @ + (IF ~r.ok THEN 1 ELSE 0),
                           !.walks = @ + (IF isWalk THEN 1 ELSE 0),
                           !.saved = @ + (SavedAll(nd') - SavedAll(nd))]
      /\ UNCHANGED <<kind, comp>>

Panic == /\ Rec[l].ev \in {"panic", "abort", "timeout"}
         /\ stats' = [stats EXCEPT !.panics = @ + 1]
         /\ UNCHANGED <<kind, comp, nd, simi, av, log, sched, viol>>

End == /\ Rec[l].ev = "end"
       /\ UNCHANGED <<kind, comp, nd, simi, av, log, sched, viol, stats>>

TNext == /\ l <= Len(Rec) /\ l' = l + 1
         /\ (Begin \/ Start \/ Op \/ Panic \/ End)
TSpec == TInit /\ [][TNext]_tvars

AtEnd == l > Len(Rec) => /\ PrintT(<<"VIOLS", ToJson(viol)>>)
                         /\ PrintT(<<"STATS", ToJson(stats)>>)
Accepted == IF TLCGet("stats").diameter - 1 = Len(Rec) THEN TRUE
            ELSE Print(<<"FIRST-UNMATCHED", TLCGet("stats").diameter, Rec[TLCGet("stats").diameter]>>, FALSE)
=============================================================================
