--------------------------- MODULE MCSpeedProfile ---------------------------
(* Model-checking shell for SpeedProfile: constant sets of the bounded configs, and the   *)
(* emission of every reached configuration as a replayable case (spec -> implementation). *)
EXTENDS SpeedProfile, Json

Tr(n, vmax) == [n |-> n, car_len |-> 1, car_mass |-> 1000, axles |-> 4, vmax |-> vmax, more |-> <<>>, len_ov |-> 0, mass_ov |-> 0]
\* a further car type: count (0 = listed but absent), length, maximum speed; 2 brakes and 6 axles per car
Ty(n, len, vmax) == [n |-> n, car_len |-> len, car_mass |-> 500, axles |-> 6, vmax |-> vmax, brakes |-> 2]
\* make-ups: a slower second type present / absent, a faster second type, two further types, overrides
MkTrains == { [Tr(1, 3) EXCEPT !.more = <<Ty(1, 1, 2)>>],          \* slower type present: vmax 2, length 2
              [Tr(1, 3) EXCEPT !.more = <<Ty(0, 1, 1)>>],          \* slower type absent: vmax 3, length 1
              [Tr(1, 2) EXCEPT !.more = <<Ty(1, 2, 3)>>],          \* faster second type: vmax 2, length 3
              [Tr(1, 3) EXCEPT !.more = <<Ty(0, 2, 1), Ty(2, 1, 3)>>],   \* length 3
              [Tr(2, 3) EXCEPT !.len_ov = 1],                       \* explicit train length shorter than the cars
              [Tr(1, 3) EXCEPT !.mass_ov = 3000, !.more = <<Ty(1, 1, 3)>>] }

\* gates: none / one that applies / one that blocks (relative to the trains below)
GNone == <<>>
GAxleEq(n)  == << <<2, 0, 4*n>> >>
GMassLt(n)  == << <<0, 2, 1000*n>> >>

\* ---- quick A: one link, <= 3 restrictions on 0..4, trains of length 1, no gates
QA_Trains == {Tr(1, 3)}
QA_LinkLens == {4}
QA_Speeds == {1, 2, 3}
QA_Gates == {GNone}

\* ---- quick B: two links, <= 2 restrictions each on 0..3, tail extension 2, gates on/off
QB_Trains == {Tr(2, 3)}
QB_LinkLens == {3}
QB_Speeds == {1, 2}
QB_Gates == {GNone, GMassLt(2)}      \* MassTotal < 2000 is false for the 2-car train: blocks

\* ---- quick N: sign-encoded (negative) speed values mixed with positive ones, one link, <= 3 restrictions on 0..3
QN_Trains == {Tr(1, 3)}
QN_LinkLens == {3}
QN_Speeds == {-3, -2, -1, 1, 2}
QN_Gates == {GNone}

\* ---- thorough A: one link, <= 4 restrictions on 0..6
TA_Trains == {Tr(1, 3)}
TA_LinkLens == {6}
TA_Speeds == {1, 2, 3}
TA_Gates == {GNone}

\* ---- thorough B: three links
TB_Trains == {Tr(2, 3), Tr(1, 2)}
TB_LinkLens == {3}
TB_Speeds == {1, 2}
TB_Gates == {GNone, GAxleEq(2)}      \* applies to the 2-car train, blocks the 1-car train

\* ---- make-up: one link, tail-end / head-end sets, <= 2 restrictions on 0..4, gates that look at the derived parameters
MK_LinkLens == {4}
MK_Speeds == {1, 2}
MK_Gates == {GNone, << <<1, 1, 700>> >>, << <<2, 3, 10>> >>, << <<0, 4, 1500>> >>}

\* ---- gate matrix: every (limit type, compare type) x {below, equal, above}
GM_Trains == {Tr(2, 3)}
GM_LinkLens == {2}
GM_Speeds == {1}
GM_Gates == { << <<lt, ct, (CASE lt = 0 -> 2000 [] lt = 1 -> 1000 [] lt = 2 -> 8) + d>> >> :
                lt \in 0..2, ct \in 0..4, d \in {-1, 0, 1} }
              \* several conditions: all must hold (last fails / all hold / FIRST fails and last holds / middle fails)
              \cup { << <<2, 3, 8>>, <<0, 2, 2000>> >>, << <<2, 3, 8>>, <<1, 0, 1000>> >>,
                     << <<0, 2, 2000>>, <<2, 3, 8>> >>, << <<1, 1, 1000>>, <<2, 0, 8>> >>,
                     << <<2, 0, 8>>, <<0, 1, 2000>>, <<1, 0, 1000>> >>, << <<2, 0, 8>>, <<0, 0, 2000>>, <<1, 0, 1000>> >> }

\* a link without any speed limit is rejected by network validation: only complete layouts are emitted
Emit == (Len(links) >= 1 /\ \A k \in 1..Len(links) : Len(links[k].rs) >= 1)
          => PrintT(<<"REPLAY", ToJson([train |-> train, links |-> links])>>)
EmitFull == (Len(links) = MaxLinks /\ Len(links[Len(links)].rs) = MaxR) => Emit
=============================================================================
