SPECIFICATION SpecStrap
CONSTANTS
  MaxLinks = 0
  LinkLens <- None
  MaxMoves = 3
  MaxSegs = 3
  SegLens <- S12
  Rises <- R2
  TrainLens <- T13
  MaxSteps = 0
  Pows <- None
  Fault = FALSE
  MaxUnits = 0
  Cached = FALSE
INVARIANT StrapB
INVARIANT EmitStrap
CHECK_DEADLOCK FALSE
