SPECIFICATION Spec
CONSTANTS
  NT = 2
  Links <- N2_Links
  Flip <- N2_Flip
  Lock <- N2_Lock
  Routes <- R_n2_2
  Depart <- D_n2_2
  S = 2
  U = 1
  O = 1
  Rules = {"flip","lock","prevce","lead","quiet","spacing","exitce"}
  Horizon = 30
INVARIANT OppExclusive
INVARIANT LockoutExclusive
INVARIANT Headway
INVARIANT Fifo
INVARIANT MonotonePlan
INVARIANT AuthAgrees
PROPERTY CommittedStable
CHECK_DEADLOCK FALSE
