--------------------------- MODULE MCCheckpoint ---------------------------
(* Model-checking shell for Checkpoint: the object kinds of property C17 and the emission of   *)
(* every complete schedule as a replayable case (spec -> implementation). The kind names are    *)
(* the ones harness/src/bin/avh_checkpoint.rs materialises as real altrios objects.             *)
EXTENDS Checkpoint, Json

\* simulation objects: every step index up to Depth is a checkpoint position
MC_Deep == {"Locomotive.init40", "Locomotive.relaxed", "FuelConverter", "Generator", "ElectricDrivetrain", "ElectricDrivetrain.bel",
            "ReversibleEnergyStorage", "Locomotive.conv", "Locomotive.bel", "Consist",
            "LocomotiveSimulation", "LocomotiveSimulation.bel", "ConsistSimulation",
            "SetSpeedTrainSim", "SpeedLimitTrainSim", "PathTpc.unfinished"}
\* static types (Step = use) and heavier simulation objects
MC_Shallow == {"FuelConverter.init40", "LocomotiveSimulation.init40", "Consist.init40", "Locomotive.mu", "LocomotiveSimulation.relaxed", "SpeedLimitTrainSim.mu", "PowerTrace", "SpeedTrace", "TrainConfig", "TrainSimBuilder", "TrainSimBuilder.init", "TrainSimBuilder.nan",
               "PathTpc.finished", "Network", "EstTimeNet", "Location", "TimedLinkPath",
               "SpeedLimitTrainSim.finished", "SetSpeedTrainSim.default", "LocomotiveSimulationVec"}
MC_Static == {"PowerTrace", "SpeedTrace", "TrainConfig", "TrainSimBuilder", "TrainSimBuilder.init", "TrainSimBuilder.nan",
              "PathTpc.finished", "Network", "EstTimeNet", "Location", "TimedLinkPath"}

\* kinds of the medium configs (every medium x format at every position of a short schedule)
MC_MediaDeep == {"Locomotive.conv", "Locomotive.bel", "Consist", "LocomotiveSimulation", "ConsistSimulation",
                 "SetSpeedTrainSim", "SpeedLimitTrainSim", "PathTpc.unfinished"}
MC_MediaShallow == {"PowerTrace", "TrainConfig", "TrainSimBuilder", "Network", "EstTimeNet", "Location", "TimedLinkPath",
                    "LocomotiveSimulationVec"}
\* kinds that have a "large" size class in the harness (documents above 1 MiB: long dense histories, a big network)
MC_LargeDeep == {"SetSpeedTrainSim.long", "ConsistSimulation.long"}
MC_LargeDeepAll == {"SetSpeedTrainSim.long", "ConsistSimulation.long", "SpeedLimitTrainSim.long", "LocomotiveSimulation.long"}
MC_LargeShallow == {"Network"}

Done == Len(hist) = DepthOf(kind)
\* a schedule without any SaveLoad is the reference run itself: nothing to replay
Emit == (Done /\ \E j \in 1..Len(hist) : hist[j][1] \in Formats)
          => PrintT(<<"REPLAY", ToJson([kind |-> kind, size |-> size, sched |-> hist])>>)
=============================================================================
