SPECIFICATION Spec
CONSTANTS
  Variant = "fixed"
  Trains <- QN_Trains
  LinkLens <- QN_LinkLens
  Speeds <- QN_Speeds
  Gates <- QN_Gates
  MaxLinks = 1
  MaxR = 3
INVARIANT Safe
INVARIANT Exact
INVARIANT Canonical
INVARIANT Functional
INVARIANT Emit
CHECK_DEADLOCK FALSE
