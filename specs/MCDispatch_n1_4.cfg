SPECIFICATION Spec
CONSTANTS
  NT = 4
  Links <- N1_Links
  Flip <- N1_Flip
  Lock <- N1_Lock
  Routes <- R_n1_4
  Depart <- D_n1_4
  S = 2
  U = 1
  O = 1
  Rules = {"flip","lock","prevce","lead","quiet","spacing","exitce"}
  Horizon = 36
INVARIANT OppExclusive
INVARIANT LockoutExclusive
INVARIANT Headway
INVARIANT Fifo
INVARIANT MonotonePlan
INVARIANT AuthAgrees
PROPERTY CommittedStable
CHECK_DEADLOCK FALSE
