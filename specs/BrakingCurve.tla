--------------------------- MODULE BrakingCurve ---------------------------
(***************************************************************************)
(* Braking table of a speed-limited train (C03, design model).              *)
(*                                                                          *)
(* Level A (the property, on a table): the limit the table allows is never  *)
(*   above the posted limit (TableSafe), the target speed of a point is     *)
(*   never above its limit (TargetLeLimit), the table can be searched       *)
(*   front to back (Monotone).                                              *)
(* Level B (implementation-shaped): Recalc is a line-by-line transcription  *)
(*   of BrakingPoints::recalc (train/braking_point.rs:67-159) in integer    *)
(*   kinematics: dt = 1, constant deceleration = A speed units per step,    *)
(*   distance covered by a step that ends at speed v = v + A/2.             *)
(*   With a unit-mass train, a brake of A newtons and resistance-free flat  *)
(*   track the real code computes exactly these integers (see the "table"   *)
(*   cases of harness/src/bin/avh_control.rs).                              *)
(*                                                                          *)
(* Data shapes are those of the harness' JSON:                              *)
(*   sp   = Seq(<<offset, limit>>)            speed points (zones)          *)
(*   pts  = Seq(<<offset, limit_floor, limit_ceil, target>>)  braking points*)
(*          in the order recalc pushes them (from the end of the path back) *)
(***************************************************************************)
EXTENDS Integers, Sequences, FiniteSets, TLC

CONSTANTS Variant,  \* which recalc is transcribed:
                    \*  "catchup" = the code as it is (F-C03-3 and F-C03-4 repaired): a curve is abandoned when a point
                    \*              reaches OR passes the start of the path, and idx is then caught up with it
                    \*  "fixed"   = before the F-C03-4 repair (no catch-up; selftest only: hidden target)
                    \*  "pinned"  = before the F-C03-3 repair as well (strict exit test; selftest only: index underflow)
                    \*  "noabs"   = "catchup" with the .abs() dropped in the test that decides whether a curve is needed
                    \*              (selftest only: no curve is built after a sign-encoded zone)
          E,        \* rounding tolerance of recorded offsets (0 on the model's lattice, 1 on quantised traces)
          VPerO     \* speed units per offset unit per second (1 on the lattice, 2^16/2^6 on traces)

(* A speed point may carry a NEGATIVE value: the sign is an encoding, the limit is the magnitude          *)
(* (min_speed, track/link/speed/speed_limit.rs:3-9, keeps the smaller magnitude and makes the result        *)
(* negative as soon as one side is; PathTpc stores the signed value; recalc takes .abs() at every use).     *)
(* Every Level-A predicate below therefore reads a speed point through V.                                   *)
Abs(x) == IF x < 0 THEN -x ELSE x
V(spp, j) == Abs(spp[j][2])

Max2(a, b) == IF a > b THEN a ELSE b
Min2(a, b) == IF a < b THEN a ELSE b
SetMax(S) == CHOOSE m \in S : \A c \in S : c <= m

----------------------------------------------------------------------------
(* Level A *)

(* Upper bound of the posted limit at recorded position q: the largest limit of the zones whose   *)
(* extent (inflated by the rounding tolerance) contains q. With E = 0 this is the right-continuous *)
(* step function itself. Positions before the first point take the first limit.                    *)
ZonesAt(sp, q) == {j \in 1..Len(sp) : (j = 1 \/ sp[j][1] - E <= q) /\ (j = Len(sp) \/ q < sp[j+1][1] + E)}
PostedHi(sp, q) == SetMax({V(sp, j) : j \in ZonesAt(sp, q)})

(* length a stretch must have to be non-empty whatever the rounding *)
Solid == Max2(1, 2 * E)

(* The limit of point k is in force from its offset up to the offset of the point pushed before it: *)
(* at the point itself and on every zone that stretch really overlaps it must not exceed the posted *)
(* limit. Points before the start of the path and the stop point at the end are not constrained.    *)
TableSafeOf(sp, end, pts) ==
  \A k \in 1..Len(pts) :
    LET p == pts[k] IN
    /\ (0 <= p[1] /\ p[1] < end) => p[2] <= PostedHi(sp, p[1])
    /\ k >= 2 =>
         \A j \in 1..Len(sp) :
           LET a == Max2(Max2(p[1], 0), sp[j][1])
               b == Min2(Min2(pts[k-1][1], end), IF j < Len(sp) THEN sp[j+1][1] ELSE end)
           IN b - a >= Solid => p[2] <= V(sp, j)

TargetLeLimitOf(pts) == \A k \in 1..Len(pts) : pts[k][4] <= pts[k][3]

(* Offsets never increase along the table — except that the last point of a braking curve, which    *)
(* carries the limit of the zone the curve has just reached, may overshoot the start of that zone   *)
(* by less than one step of travel; the zone-start point (target = limit, same limit) then follows  *)
(* out of order. calc_speeds handles that pair correctly and both carry the same limit.             *)
(* A curve that is abandoned because it reached or passed the start of the path (offset <= 0,       *)
(* braking_point.rs:144-147) is followed by the start point of whatever zone it was in: that pair   *)
(* is not constrained (TableSafe still bounds every stretch either point governs).                  *)
Travel(l) == l \div VPerO + (IF VPerO > 1 THEN 1 ELSE 0)
Overshoot(a, b) == /\ b[4] = b[2] \/ b[4] = b[3]
                   /\ a[2] = b[2]
                   /\ b[1] - a[1] <= Travel(a[3])
MonotoneOf(pts) ==
  \A k \in 1..(Len(pts) - 1) :
    LET a == pts[k]  b == pts[k+1] IN
    (a[1] > 0 /\ b[1] >= 0) => (b[1] <= a[1] \/ Overshoot(a, b))

----------------------------------------------------------------------------
(* Input-level domain predicate ShortWindow (DESIGN.md C03, F-C03-1): a speed increase followed,   *)
(* within 1.5 x the braking distance from the window's highest limit down to the lower limit plus   *)
(* three steps of travel, by a decrease of the limit or by the end of authority (limit 0).          *)
(* Dec = deceleration in speed units per second.                                                    *)
RECURSIVE MaxV(_, _, _)
MaxV(sp, i, j) == IF j <= i THEN V(sp, i) ELSE Max2(V(sp, j), MaxV(sp, i, j-1))
Need(Dec, vh, vlo) == (3 * (vh * vh - vlo * vlo)) \div (4 * Dec) + 3 * vh
ShortWindowOf(Dec, sp, end) ==
  \E i \in 2..Len(sp) :
    /\ V(sp, i) > V(sp, i-1)
    /\ \/ \E j \in (i+1)..Len(sp) :
            /\ V(sp, j) < MaxV(sp, i, j-1)
            /\ sp[j][1] - sp[i][1] < Need(Dec, MaxV(sp, i, j-1), V(sp, j))
       \/ end - sp[i][1] < Need(Dec, MaxV(sp, i, Len(sp)), 0)

----------------------------------------------------------------------------
(* Level B: BrakingPoints::recalc *)
A == 2      \* speed gained per backward step

Pt(o, l, t) == <<o, l, l, t>>

(* "while bp_curr.offset <= speed_points[idx].offset { idx -= 1 }"; 0 = index underflow (1-based idx) *)
RECURSIVE Back(_, _, _)
Back(sp, idx, off) == IF idx = 0 THEN 0 ELSE IF off <= sp[idx][1] THEN Back(sp, idx-1, off) ELSE idx

(* "Exit if the braking point reached or passed the beginning of the path" (braking_point.rs:144-147) *)
Passed(o) == IF Variant = "pinned" THEN o < 0 ELSE o <= 0

(* "catch the speed point index up with the abandoned curve, as the loop head would have" (braking_point.rs     *)
(* :146-151, the F-C03-4 repair): when the curve is abandoned at the start of the path idx is brought to the      *)
(* zone that contains the last curve point (never below the first) before the zone-start point is pushed          *)
RECURSIVE BackClamp(_, _, _)
BackClamp(sp, idx, off) == IF idx = 1 THEN 1 ELSE IF off <= sp[idx][1] THEN BackClamp(sp, idx-1, off) ELSE idx
Left(sp, p2, idx) == IF Variant \in {"catchup", "noabs"} THEN BackClamp(sp, idx, p2[Len(p2)][1]) ELSE idx

(* the inner loop; returns <<points, idx, underflow>> *)
RECURSIVE Curve(_, _, _)
Curve(sp, pts, idx0) ==
  LET bp  == pts[Len(pts)]
      idx == Back(sp, idx0, bp[1])
  IN IF idx = 0 THEN <<pts, 0, TRUE>>
     ELSE LET lim == Abs(sp[idx][2]) IN                    \* braking_point.rs:100 (and :131 below)
       IF lim < bp[2] + A
       THEN \* "exit after adding a couple of points if the next braking curve point will exceed the speed limit"
            LET p2 == Append(pts, Pt(bp[1] - lim, lim, bp[4])) IN      \* carries bp's target into this zone
            IF bp[2] = lim THEN <<p2, idx, FALSE>>
            ELSE IF Passed(p2[Len(p2)][1]) THEN <<p2, Left(sp, p2, idx), FALSE>> ELSE Curve(sp, p2, idx)
       ELSE \* "Add normal point to braking curve": may jump over sp[idx]'s offset
            LET p2 == Append(pts, Pt(bp[1] - (bp[2] + A \div 2), bp[2] + A, bp[4])) IN
            IF Passed(p2[Len(p2)][1]) THEN <<p2, Left(sp, p2, idx), FALSE>> ELSE Curve(sp, p2, idx)

(* the outer loop over the speed points, last to first; idx = points still to process *)
RECURSIVE Outer(_, _, _)
Outer(sp, pts, idx) ==
  IF idx = 0 THEN <<pts, FALSE>>
  ELSE IF (IF Variant = "noabs" THEN sp[idx][2] ELSE Abs(sp[idx][2])) > pts[Len(pts)][2]    \* braking_point.rs:91
       THEN LET r == Curve(sp, pts, idx) IN
            IF r[3] THEN <<r[1], TRUE>>       \* the code underflows its usize index here (panic)
            ELSE Outer(sp, Append(r[1], Pt(sp[r[2]][1], Abs(sp[r[2]][2]), Abs(sp[r[2]][2]))), r[2] - 1)
       ELSE Outer(sp, Append(pts, Pt(sp[idx][1], Abs(sp[idx][2]), Abs(sp[idx][2]))), idx - 1)     \* braking_point.rs:150-154

(* <<table, index underflow>> *)
Recalc(sp, end) == Outer(sp, << Pt(end, 0, 0) >>, Len(sp))

----------------------------------------------------------------------------
(* Level B as a transition system: profiles are enumerated zone by zone *)
CONSTANTS MaxZ, Lens, Lims,
          Domain      \* "all" = every profile; "admitted" = profiles without a ShortWindow

VARIABLES sp, end, tbl, under
vars == <<sp, end, tbl, under>>

Init == sp = <<>> /\ end = 0 /\ tbl = <<>> /\ under = FALSE

AddZone == /\ Len(sp) < MaxZ
           /\ \E len \in Lens, v \in Lims :
                /\ IF sp = <<>> THEN TRUE ELSE sp[Len(sp)][2] # v
                /\ sp' = Append(sp, <<end, v>>)
                /\ end' = end + len
                /\ LET r == Recalc(sp', end') IN tbl' = r[1] /\ under' = r[2]

Next == AddZone
Spec == Init /\ [][Next]_vars

ShortWindow == ShortWindowOf(A, sp, end)
Admitted == sp # <<>> /\ (Domain = "all" \/ ~ShortWindow)

TableSafe     == Admitted /\ ~under => TableSafeOf(sp, end, tbl)
TargetLeLimit == Admitted /\ ~under => TargetLeLimitOf(tbl)
Monotone      == Admitted /\ ~under => MonotoneOf(tbl)
NoUnderflow   == Admitted => ~under            \* recalc never steps below its first speed point (F-C03-3)
=============================================================================
