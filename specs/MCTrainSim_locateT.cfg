SPECIFICATION SpecLocate
CONSTANTS
  MaxLinks = 4
  LinkLens <- L123
  MaxMoves = 3
  MaxSegs = 0
  SegLens <- None
  Rises <- None
  TrainLens <- None
  MaxSteps = 0
  Pows <- None
  Fault = FALSE
  MaxUnits = 0
  Cached = FALSE
INVARIANT LocateB
INVARIANT EmitLocate
CHECK_DEADLOCK FALSE
