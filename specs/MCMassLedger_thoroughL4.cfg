SPECIFICATION Spec
CONSTANTS
  Variant = "repaired"
  CompInits <- None
  LocoInits <- L1Inits
  LoadFiles <- None
  CompOps <- CompOpsAll
  LocoOps <- LocoOpsQ
  Targets <- One
  Near = FALSE
  MaxOps = 4
INVARIANT ComponentConsistent
INVARIANT LocoConsistent
INVARIANT Traction
INVARIANT ConsistMass
INVARIANT ConsistForce
INVARIANT TrainStatic
INVARIANT Atomic
INVARIANT OptionSemantics
INVARIANT Frame

CHECK_DEADLOCK FALSE
