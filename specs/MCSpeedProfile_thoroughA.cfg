SPECIFICATION Spec
CONSTANTS
  Variant = "fixed"
  Trains <- TA_Trains
  LinkLens <- TA_LinkLens
  Speeds <- TA_Speeds
  Gates <- TA_Gates
  MaxLinks = 1
  MaxR = 4
INVARIANT Safe
INVARIANT Exact
INVARIANT Canonical
INVARIANT Functional

CHECK_DEADLOCK FALSE
