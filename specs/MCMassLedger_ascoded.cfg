SPECIFICATION Spec
CONSTANTS
  Variant = "ascoded"
  CompInits <- None
  LocoInits <- L1Inits
  LoadFiles <- None
  CompOps <- CompOpsAll
  LocoOps <- LocoOpsQ
  Targets <- One
  MaxOps = 2
INVARIANT ComponentConsistent
INVARIANT LocoConsistent
INVARIANT Traction
INVARIANT ConsistMass
INVARIANT ConsistForce
INVARIANT TrainStatic
INVARIANT Atomic
INVARIANT OptionSemantics
INVARIANT Frame

CHECK_DEADLOCK FALSE
