--------------------------- MODULE MCConsistSplit ---------------------------
(* Model-checking shell for ConsistSplit: constant sets of the bounded configs and the emission of *)
(* every maximal behaviour (composition + sequence of demand classes) as a replayable case.        *)
EXTENDS ConsistSplit, Json

Both == {"RESGreedy", "Proportional"}
LimOn == {TRUE}
LimOff == {FALSE}
\* limit checking off: demands at, inside and far above the consist's published limit, braking at and beyond pwr_dyn_brake_max
NClasses == {"full", "over", "dbl", "half", "rev", "revp", "zero", "rgn", "dyn", "dynp"}
NWarm == {"full", "over", "dbl", "half", "dyn"}
R123 == {1, 2, 3}
AllClasses == {"full", "fullm", "fullp", "half", "rev", "revm", "revp", "low", "zero",
               "rgn", "rgnm", "rgnp", "rhalf", "dyn", "dynm", "dynp", "dmid"}
\* demand classes whose shares are lattice values often enough to serve as pre-history
Warm == {"full", "half", "zero", "rgn", "dyn", "rev"}
WarmFew == {"full", "half", "dyn"}

\* conventional: cold (floor R/4) | half-warm | hot; battery: low SOC (discharge derated) | mid | high (charge derated)
CS2 == {0, 2}
CS3 == {0, 1, 2}
BS3 == {0, 1, 2}
BS2 == {0, 2}
\* fault domain: a battery unit next to its minimum SOC (published traction limit below its aux load), see F-C10-1
BSmin == {5}

\* a behaviour is complete when it cannot go on
Done == phase = "split" /\ ~CanAdvance
\* one behaviour in eight or so is also driven through ConsistSimulation::walk by the harness
WalkToo == hist[Len(hist)] \in {"full", "dyn"}
Emit == Done => PrintT(<<"REPLAY", ToJson([pdct |-> pol, lim |-> lim, toy |-> TRUE, units |-> units, steps |-> hist, walk |-> WalkToo])>>)
\* deterministic 1-in-ThinMod thinning of the emission (the model check itself is never thinned; ThinMod = 1 emits all)
CONSTANT ThinMod
Thin == (SumSeq([i \in 1..Len(units) |-> i * (units[i].c + 3 * units[i].s + (IF units[i].k = "B" THEN 5 ELSE 0))])
         + (req \div 2) + 7 * Len(hist)) % ThinMod = 0
EmitThin == (Done /\ Thin) => Emit
=============================================================================
