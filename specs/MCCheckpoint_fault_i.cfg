SPECIFICATION Spec
CONSTANTS
  DeepKinds <- MC_Deep
  ShallowKinds <- MC_Shallow
  StaticKinds <- MC_Static
  Depth = 4
  ShallowDepth = 3
  Media = {"mem"}
  Sizes = {"small"}
  BigSaves = 1
  Variant = "drop_i"
INVARIANT TypeOK
INVARIANT Stutter
INVARIANT Idempotent
INVARIANT SaveLoadOk
INVARIANT MediumIndependent

PROPERTY StutterStep
CHECK_DEADLOCK FALSE
