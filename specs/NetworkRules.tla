--------------------------- MODULE NetworkRules ---------------------------
(***************************************************************************)
(* C16 - network validation accepts exactly the consistent networks and    *)
(* never aborts.                                                            *)
(*                                                                          *)
(* Level A: Valid(net) - the documented structural rules                    *)
(*   (docs/src/api-doc/rail-network.md, doc comments of `Link`, property    *)
(*   statement), written once, independent of the validator's code.         *)
(* Level B: ImplOutcome(net) - transcription of what the validators do      *)
(*   (ObjState for Link / [Link] / [Elev] / [Heading] / [SpeedLimit] /      *)
(*   [CatPowerLimit] / SpeedSet / SpeedParam, in evaluation order, with the *)
(*   early exits), Variant = "pinned" reproducing the tree before the two   *)
(*   repairs (inverted catenary overlap test, unchecked self[idx]), "skip1" *)
(*   the first form of the range check that left out entry 0.               *)
(*   The transition system enumerates (valid base network) x (one fault).   *)
(*                                                                          *)
(* Abstract network = sequence of link records, net[1] is entry 0 of the    *)
(* file (the dummy); same shapes as the harness' JSON:                      *)
(*   link = [cur, flip, next, nalt, prev, palt : index,                     *)
(*           len : num, elevs : Seq(<<offset, elev>>),                      *)
(*           heads : Seq(<<offset, degrees>>),                              *)
(*           ss : <<>> (no speed set) | <<[lim : Seq(<<start,end,speed>>),  *)
(*                       par : Seq(<<ltype,ctype,val>>), head : BOOLEAN]>>, *)
(*           cat : Seq(<<start, end, power>>), lock : Seq(index)]           *)
(* index: 0 = "none"; IdxMax (-1) stands for 2^32-1 (TLC has 32-bit ints).  *)
(* num: an integer, or the sentinels INF / -INF / NAN; comparisons on nums  *)
(* follow IEEE-754 (every comparison with NaN is false).                    *)
(***************************************************************************)
EXTENDS Integers, Sequences, FiniteSets, TLC

CONSTANTS Variant        \* "fixed" = current tree; "pinned" = before the C16 repairs (F-C16-1/2);
                         \* "skip1" = range check that skips entry 0 (F-C16-4, repaired by e2a096d)

INF == 1073741824        \* 2^30, shared with the harness (avh::common::INF)
NAN == 1073741825
IdxMax == -1

IsNaN(x)  == x = NAN
FLt(a, b) == ~IsNaN(a) /\ ~IsNaN(b) /\ a < b
FLe(a, b) == ~IsNaN(a) /\ ~IsNaN(b) /\ a <= b
FEq(a, b) == ~IsNaN(a) /\ ~IsNaN(b) /\ a = b
Finite(x) == -INF < x /\ x < INF

Range(s) == {s[i] : i \in 1..Len(s)}

----------------------------------------------------------------------------
(* Level A: the documented rule set                                         *)

InNet(net, v) == 0 <= v /\ v < Len(net)            \* IdxMax = -1 is outside every network
At(net, v)    == net[v + 1]                        \* entry at file position v

Refs(l) == {l.flip, l.next, l.nalt, l.prev, l.palt}

(* offsets of an elevation / heading profile: >= 2 points, strictly increasing, spanning exactly the link *)
ProfileOK(s, len) ==
  /\ Len(s) >= 2
  /\ \A i \in 1..Len(s) : FLe(0, s[i][1])
  /\ \A i \in 1..(Len(s)-1) : FLt(s[i][1], s[i+1][1])
  /\ FEq(s[1][1], 0)
  /\ FEq(s[Len(s)][1], len)

ElevsOK(l) == ProfileOK(l.elevs, l.len) /\ \A i \in 1..Len(l.elevs) : ~IsNaN(l.elevs[i][2]) /\ Finite(l.elevs[i][2])

HeadsOK(l) == \/ l.heads = <<>>
              \/ /\ ProfileOK(l.heads, l.len)
                 /\ \A i \in 1..Len(l.heads) : FLe(0, l.heads[i][2]) /\ FLt(l.heads[i][2], 360)

LimOK(r)  == FLe(0, r[1]) /\ FLe(r[1], r[2]) /\ ~IsNaN(r[3])
(* sorted by (start, end); two consecutive limits never have the same bounds *)
LimBefore(a, b) == FLt(a[1], b[1]) \/ (FEq(a[1], b[1]) /\ FLt(a[2], b[2]))
SpeedOK(l) ==
  /\ Len(l.ss) = 1
  /\ LET s == l.ss[1] IN
     /\ Len(s.lim) >= 1
     /\ \A i \in 1..Len(s.lim) : LimOK(s.lim[i])
     /\ \A i \in 1..(Len(s.lim)-1) : LimBefore(s.lim[i], s.lim[i+1])
     /\ \A i \in 1..Len(s.par) : FLe(0, s.par[i][3])

CatOK(l) ==
  /\ \A i \in 1..Len(l.cat) : LET c == l.cat[i] IN
        FLe(0, c[1]) /\ FLe(c[1], c[2]) /\ FLe(c[2], l.len) /\ FLe(0, c[3])
  /\ \A i \in 1..Len(l.cat) : \A j \in (i+1)..Len(l.cat) : FLe(l.cat[i][2], l.cat[j][1])   \* touching allowed

LinkedPrev(m, p) == m.prev = p \/ m.palt = p
LinkedNext(m, p) == m.next = p \/ m.nalt = p

RefsOK(net, p) ==
  LET l == At(net, p) IN
  /\ \A v \in Refs(l) \cup Range(l.lock) : InNet(net, v)
  /\ l.flip # p
  /\ l.flip # 0 => At(net, l.flip).flip = p /\ l.flip \notin {l.next, l.nalt, l.prev, l.palt}
  /\ l.nalt # 0 => l.next # 0                                   \* alternates only with primaries
  /\ l.palt # 0 => l.prev # 0
  /\ l.next # 0 => LinkedPrev(At(net, l.next), p)               \* every reference reciprocated
  /\ l.nalt # 0 => LinkedPrev(At(net, l.nalt), p)
  /\ l.prev # 0 => LinkedNext(At(net, l.prev), p)
  /\ l.palt # 0 => LinkedNext(At(net, l.palt), p)
  /\ (l.nalt # 0 /\ l.next # 0) => At(net, l.next).palt = 0 /\ At(net, l.nalt).palt = 0   \* no coincident switch points
  /\ (l.palt # 0 /\ l.prev # 0) => At(net, l.prev).nalt = 0 /\ At(net, l.palt).nalt = 0

IsDummy(net) ==
  LET l == net[1] IN
  /\ l.cur = 0 /\ Refs(l) = {0}
  /\ FEq(l.len, 0)
  /\ l.elevs = <<>> /\ l.heads = <<>> /\ l.ss = <<>> /\ l.cat = <<>>
  /\ \A v \in Range(l.lock) : InNet(net, v)

LinkValid(net, p) ==
  LET l == At(net, p) IN
  /\ l.cur = p
  /\ RefsOK(net, p)
  /\ FLt(0, l.len)
  /\ ElevsOK(l) /\ HeadsOK(l) /\ SpeedOK(l) /\ CatOK(l)

Valid(net) ==
  /\ Len(net) >= 2
  /\ IsDummy(net)
  /\ \A p \in 1..(Len(net)-1) : LinkValid(net, p)

----------------------------------------------------------------------------
(* Level B: what the validators do                                          *)

OutOfNet(net, v) == v = IdxMax \/ v >= Len(net)
Real(v) == v # 0
Gez(x) == FLe(0, x)                                   \* si_chk_num_gez

ImplProfile(s) ==                                     \* [Elev]::validate / [Heading]::validate (non-empty slice)
  /\ Len(s) >= 2
  /\ \A i \in 1..(Len(s)-1) : FLt(s[i][1], s[i+1][1])
ImplElevs(l) == /\ l.elevs # <<>>
                /\ \A i \in 1..Len(l.elevs) : Gez(l.elevs[i][1]) /\ ~IsNaN(l.elevs[i][2]) /\ Finite(l.elevs[i][2])
                /\ ImplProfile(l.elevs)
ImplHeads(l) == l.heads = <<>> \/
                /\ \A i \in 1..Len(l.heads) : Gez(l.heads[i][1]) /\ Gez(l.heads[i][2]) /\ ~FLe(360, l.heads[i][2])
                /\ ImplProfile(l.heads)
Lex3Le(a, b) == \/ a[1] < b[1]
                \/ (a[1] = b[1] /\ a[2] < b[2])
                \/ (a[1] = b[1] /\ a[2] = b[2] /\ a[3] <= b[3])
ImplLimits(lim) ==
  /\ lim # <<>>
  /\ \A i \in 1..Len(lim) : Gez(lim[i][1]) /\ Gez(lim[i][2]) /\ ~IsNaN(lim[i][3]) /\ ~FLt(lim[i][2], lim[i][1])
  /\ \A i \in 1..(Len(lim)-1) : ~(lim[i][1] = lim[i+1][1] /\ lim[i][2] = lim[i+1][2])
  /\ \A i \in 1..(Len(lim)-1) : Lex3Le(lim[i], lim[i+1])
ImplParams(par) ==
  /\ \A i \in 1..Len(par) : Gez(par[i][3])
  /\ \A i \in 1..(Len(par)-1) : par[i] # par[i+1]
ImplSpeed(l) == /\ Len(l.ss) = 1
                /\ ImplLimits(l.ss[1].lim) /\ ImplParams(l.ss[1].par)
ImplCat(l) ==
  /\ \A i \in 1..Len(l.cat) : LET c == l.cat[i] IN Gez(c[1]) /\ Gez(c[2]) /\ Gez(c[3]) /\ ~FLt(c[2], c[1])
  /\ \A i \in 1..(Len(l.cat)-1) :
        IF Variant = "pinned" THEN ~(l.cat[i][2] <= l.cat[i+1][1])     \* the inverted test of the pinned tree
        ELSE ~(l.cat[i][2] > l.cat[i+1][1])

ImplLinkReal(l) ==                                    \* Link::validate, real branch
  /\ FLt(0, l.len)
  /\ ImplElevs(l) /\ ImplHeads(l) /\ ImplSpeed(l) /\ ImplCat(l)
  \* -- early_err --
  /\ Real(l.flip) => l.flip \notin {l.cur, l.next, l.nalt, l.prev, l.palt}
  /\ ~(Real(l.nalt) /\ ~Real(l.next))
  /\ ~(Real(l.palt) /\ ~Real(l.prev))
  /\ FEq(l.elevs[1][1], 0) /\ FEq(l.elevs[Len(l.elevs)][1], l.len)
  /\ l.heads # <<>> => FEq(l.heads[1][1], 0) /\ FEq(l.heads[Len(l.heads)][1], l.len)
  /\ l.cat # <<>> => ~FLt(l.cat[1][1], 0) /\ ~FLt(l.len, l.cat[Len(l.cat)][2])

ImplLinkFake(l) ==                                    \* Link::validate, fake branch (idx_curr = 0)
  /\ Refs(l) = {0}
  /\ FEq(l.len, 0)
  /\ l.elevs = <<>> /\ l.heads = <<>> /\ l.cat = <<>>
  /\ l.ss = <<>>                                      \* (a Some(empty set) would pass too; not in the family)

ImplRefs(l) == <<l.flip, l.next, l.nalt, l.prev, l.palt>>

ImplCross(net, p) ==                                  \* body of the last loop of [Link]::validate
  LET l == At(net, p) IN
  /\ l.cur = p
  /\ l.flip # l.cur
  /\ Real(l.flip) => At(net, l.flip).flip = l.cur
  /\ IF Real(l.next)
     THEN \A m \in {At(net, l.next), At(net, l.nalt)} :
            /\ (m.cur = 0 \/ LinkedPrev(m, l.cur))
            /\ ~(Real(l.nalt) /\ Real(m.palt))
     ELSE ~Real(l.nalt)
  /\ IF Real(l.prev)
     THEN \A m \in {At(net, l.prev), At(net, l.palt)} :
            /\ (m.cur = 0 \/ LinkedNext(m, l.cur))
            /\ ~(Real(l.palt) /\ Real(m.nalt))
     ELSE ~Real(l.palt)

(* references the pinned tree indexes without a bounds check *)
PinnedIndexed(l) == (IF Real(l.flip) THEN {l.flip} ELSE {})
                    \cup (IF Real(l.next) THEN {l.next, l.nalt} ELSE {})
                    \cup (IF Real(l.prev) THEN {l.prev, l.palt} ELSE {})

ImplOutcome(net) ==
  IF Len(net) < 2 THEN "rejected"
  ELSE IF ~(net[1].cur = 0 /\ ImplLinkFake(net[1])) THEN "rejected"
  ELSE IF \E p \in 1..(Len(net)-1) : ~(At(net, p).cur # 0 /\ ImplLinkReal(At(net, p))) THEN "rejected"
  ELSE IF Variant # "pinned" /\ \E p \in (IF Variant = "skip1" THEN 1 ELSE 0)..(Len(net)-1) :   \* `for link in self.iter()`
            \E v \in Refs(At(net, p)) \cup Range(At(net, p).lock) : OutOfNet(net, v) THEN "rejected"
  ELSE IF \E p \in 1..(Len(net)-1) : \E v \in PinnedIndexed(At(net, p)) : OutOfNet(net, v) THEN "panic"
  ELSE IF \A p \in 1..(Len(net)-1) : ImplCross(net, p) THEN "accepted"
  ELSE "rejected"

----------------------------------------------------------------------------
(* The family: valid base networks                                          *)

Elev2(L) == << <<0, 10>>, <<L, 12>> >>
Elev3(L) == << <<0, 5>>, <<L \div 2, 9>>, <<L, 7>> >>
Elev4(L) == << <<0, 0>>, <<1, 3>>, <<L \div 2, -2>>, <<L, 0>> >>
Head2(L) == << <<0, 350>>, <<L, 10>> >>
Head3(L) == << <<0, 0>>, <<L \div 2, 90>>, <<L, 45>> >>
SS1(L)   == [lim |-> << <<0, L, 20>> >>, par |-> <<>>, head |-> FALSE]
SS2(L)   == [lim |-> << <<0, L, 20>>, <<L \div 2, L, 10>> >>, par |-> << <<0, 1, 1000>> >>, head |-> TRUE]
Cat1(L)  == << <<0, L, 5000>> >>
Cat2(L)  == << <<0, L \div 2, 5000>>, <<L \div 2, L, 3000>> >>

Lk(cur, flip, next, nalt, prev, palt, L, g, lock) ==
  [cur |-> cur, flip |-> flip, next |-> next, nalt |-> nalt, prev |-> prev, palt |-> palt, len |-> L,
   elevs |-> CASE g = 1 -> Elev2(L) [] g = 2 -> Elev3(L) [] g = 3 -> Elev4(L),
   heads |-> CASE g = 1 -> <<>> [] g = 2 -> Head2(L) [] g = 3 -> Head3(L),
   ss    |-> << (CASE g = 1 -> SS1(L) [] g = 2 -> SS2(L) [] g = 3 -> SS1(L)) >>,
   cat   |-> CASE g = 1 -> <<>> [] g = 2 -> Cat1(L) [] g = 3 -> Cat2(L),
   lock  |-> lock]

Dummy == [cur |-> 0, flip |-> 0, next |-> 0, nalt |-> 0, prev |-> 0, palt |-> 0, len |-> 0,
          elevs |-> <<>>, heads |-> <<>>, ss |-> <<>>, cat |-> <<>>, lock |-> <<>>]

(* two links in series, both directions *)
BaseSingle == << Dummy,
  Lk(1, 4, 2, 0, 0, 0,  8, 1, <<>>), Lk(2, 3, 0, 0, 1, 0, 12, 2, <<>>),
  Lk(3, 2, 4, 0, 0, 0, 12, 3, <<>>), Lk(4, 1, 0, 0, 3, 0,  8, 2, <<>>) >>

(* 1 -> (2 | 3) -> 4 and the reverse direction 5 -> (7 | 6) -> 8 (the shape of the shipped simple corridor) *)
BaseSidingL(k) == << Dummy,
  Lk(1, 8, 2, 3, 0, 0,  8, 1, <<>>),
  Lk(2, 7, 4, 0, 1, 0, 12, 2, IF k THEN <<3, 6>> ELSE <<>>),
  Lk(3, 6, 4, 0, 1, 0, 12, 3, IF k THEN <<2, 7>> ELSE <<>>),
  Lk(4, 5, 0, 0, 2, 3,  8, 1, <<>>),
  Lk(5, 4, 7, 6, 0, 0,  8, 2, <<>>),
  Lk(6, 3, 8, 0, 5, 0, 12, 1, IF k THEN <<7, 2>> ELSE <<>>),
  Lk(7, 2, 8, 0, 5, 0, 12, 3, IF k THEN <<6, 3>> ELSE <<>>),
  Lk(8, 1, 0, 0, 7, 6,  8, 2, <<>>) >>

(* Y junction, one direction only (no reverse links: flip = none) *)
BaseJunctionL(k) == << Dummy,
  Lk(1, 0, 3, 0, 0, 0,  8, 2, IF k THEN <<2>> ELSE <<>>),
  Lk(2, 0, 3, 0, 0, 0, 12, 3, IF k THEN <<1>> ELSE <<>>),
  Lk(3, 0, 0, 0, 1, 2,  8, 1, <<>>) >>

(* two links in series, one direction, at most one catenary section per link *)
BasePlain == << Dummy, Lk(1, 0, 2, 0, 0, 0, 8, 1, <<>>), Lk(2, 0, 0, 0, 1, 0, 12, 2, <<>>) >>

BaseNet(b) == CASE b = "single"     -> BaseSingle
                [] b = "plain"      -> BasePlain
                [] b = "siding"     -> BaseSidingL(FALSE)
                [] b = "sidingL"    -> BaseSidingL(TRUE)
                [] b = "junction"   -> BaseJunctionL(FALSE)
                [] b = "junctionL"  -> BaseJunctionL(TRUE)

----------------------------------------------------------------------------
(* Faults. A fault = [class, kind, link, a, b]; class "rule" breaks a rule,  *)
(* "benign" must stay valid, "nonfinite" puts NaN / +-inf into a float field *)
(* (a = position inside the field's list, b = the value).                    *)

F(class, kind, link, a, b) == [class |-> class, kind |-> kind, link |-> link, a |-> a, b |-> b]
NoFault == F("none", "none", 0, 0, 0)

Set(net, p, fld, v) == [net EXCEPT ![p+1][fld] = v]

IdxFields == {"flip", "next", "nalt", "prev", "palt"}
OobValues(net) == {Len(net), Len(net) + 1, IdxMax}

(* index faults at link p *)
IdxFaults(net, p) ==
  LET l == At(net, p)  n == Len(net) IN
       {F("rule", "cur_zero", p, 0, 0), F("rule", "cur_oob", p, 0, n)}
  \cup {F("rule", "cur_other", p, 0, q) : q \in (1..(n-1)) \ {p}}
  \cup {F("rule", "flip_self", p, 0, p)}
  \cup {F("rule", "flip_nonmutual", p, 0, q) : q \in {q \in (1..(n-1)) \ {p} : At(net, q).flip # p}}
  \cup {F("rule", "oob_" \o fld, p, 0, v) : fld \in IdxFields, v \in OobValues(net)}
  \cup {F("rule", "oob_lock", p, 0, v) : v \in OobValues(net)}
  \cup {F("rule", "unrecip_next", p, 0, q) : q \in {q \in 1..(n-1) : ~LinkedPrev(At(net, q), p)}}
  \cup {F("rule", "unrecip_prev", p, 0, q) : q \in {q \in 1..(n-1) : ~LinkedNext(At(net, q), p)}}
  \cup (IF l.next # 0 THEN {F("rule", "unrecip_nalt", p, 0, q) : q \in {q \in 1..(n-1) : ~LinkedPrev(At(net, q), p)}}
                            \cup {F("rule", "drop_next", p, 0, 0)} ELSE {})
  \cup (IF l.prev # 0 THEN {F("rule", "unrecip_palt", p, 0, q) : q \in {q \in 1..(n-1) : ~LinkedNext(At(net, q), p)}}
                            \cup {F("rule", "drop_prev", p, 0, 0)} ELSE {})
  \cup (IF l.next = 0 THEN {F("rule", "nalt_without_next", p, 0, q) : q \in 1..(n-1)} ELSE {})
  \cup (IF l.prev = 0 THEN {F("rule", "palt_without_prev", p, 0, q) : q \in 1..(n-1)} ELSE {})
  \* a new link joins the primary successor of a diverging link / leaves the primary predecessor of a converging one
  \cup (IF l.nalt # 0 /\ InNet(net, l.next) /\ At(net, l.next).palt = 0 THEN {F("rule", "coincident_next", p, 0, 0)} ELSE {})
  \cup (IF l.palt # 0 /\ InNet(net, l.prev) /\ At(net, l.prev).nalt = 0 THEN {F("rule", "coincident_prev", p, 0, 0)} ELSE {})

(* geometry / speed / catenary faults at link p (the component is replaced by a malformed one of the same length) *)
GeomKinds == {"len_zero", "len_neg",
              "elev_empty", "elev_single", "elev_unsorted", "elev_dup", "elev_first", "elev_first_neg",
              "elev_last_short", "elev_last_long",
              "head_single", "head_unsorted", "head_dup", "head_first", "head_last_short", "head_last_long",
              "head_neg", "head_rev", "head_over"}
SpeedCatKinds == {"speed_absent", "speed_nolimits", "lim_neg_start", "lim_start_gt_end", "lim_unsorted_start",
                  "lim_unsorted_end", "lim_dup_bounds", "lim_dup_exact", "par_neg",
                  "cat_neg_start", "cat_start_gt_end", "cat_beyond", "cat_overlap", "cat_unsorted",
                  "cat_contained", "cat_neg_power"}
BenignKinds == {"cat_touching", "cat_zero_len", "cat_gap", "lim_zero_len", "lim_beyond_link", "lim_overlapping",
                "lim_same_start", "heads_none", "heads_two", "elev_flat", "elev_negative", "lock_self", "lock_none"}

ReplaceComp(l, kind) ==
  LET L == l.len  h == L \div 2
      s1 == [lim |-> <<>>, par |-> <<>>, head |-> FALSE]
      lims(x) == [lim |-> x, par |-> <<>>, head |-> FALSE]
  IN CASE kind = "len_zero"  -> [l EXCEPT !.len = 0]
       [] kind = "len_neg"   -> [l EXCEPT !.len = -L]
       [] kind = "elev_empty"      -> [l EXCEPT !.elevs = <<>>]
       [] kind = "elev_single"     -> [l EXCEPT !.elevs = << <<0, 1>> >>]
       [] kind = "elev_unsorted"   -> [l EXCEPT !.elevs = << <<0, 1>>, <<h, 2>>, <<h-1, 3>>, <<L, 4>> >>]
       [] kind = "elev_dup"        -> [l EXCEPT !.elevs = << <<0, 1>>, <<h, 2>>, <<h, 2>>, <<L, 4>> >>]
       [] kind = "elev_first"      -> [l EXCEPT !.elevs = << <<1, 1>>, <<L, 4>> >>]
       [] kind = "elev_first_neg"  -> [l EXCEPT !.elevs = << <<-1, 1>>, <<L, 4>> >>]
       [] kind = "elev_last_short" -> [l EXCEPT !.elevs = << <<0, 1>>, <<L-1, 4>> >>]
       [] kind = "elev_last_long"  -> [l EXCEPT !.elevs = << <<0, 1>>, <<L+1, 4>> >>]
       [] kind = "head_single"     -> [l EXCEPT !.heads = << <<0, 1>> >>]
       [] kind = "head_unsorted"   -> [l EXCEPT !.heads = << <<0, 1>>, <<h, 2>>, <<h-1, 3>>, <<L, 4>> >>]
       [] kind = "head_dup"        -> [l EXCEPT !.heads = << <<0, 1>>, <<h, 2>>, <<h, 2>>, <<L, 4>> >>]
       [] kind = "head_first"      -> [l EXCEPT !.heads = << <<1, 1>>, <<L, 4>> >>]
       [] kind = "head_last_short" -> [l EXCEPT !.heads = << <<0, 1>>, <<L-1, 4>> >>]
       [] kind = "head_last_long"  -> [l EXCEPT !.heads = << <<0, 1>>, <<L+1, 4>> >>]
       [] kind = "head_neg"        -> [l EXCEPT !.heads = << <<0, -1>>, <<L, 4>> >>]
       [] kind = "head_rev"        -> [l EXCEPT !.heads = << <<0, 1>>, <<L, 360>> >>]
       [] kind = "head_over"       -> [l EXCEPT !.heads = << <<0, 361>>, <<L, 4>> >>]
       [] kind = "speed_absent"       -> [l EXCEPT !.ss = <<>>]
       [] kind = "speed_nolimits"     -> [l EXCEPT !.ss = <<s1>>]
       [] kind = "lim_neg_start"      -> [l EXCEPT !.ss = <<lims(<< <<-1, L, 20>> >>)>>]
       [] kind = "lim_start_gt_end"   -> [l EXCEPT !.ss = <<lims(<< <<h, h-1, 20>> >>)>>]
       [] kind = "lim_unsorted_start" -> [l EXCEPT !.ss = <<lims(<< <<h, L, 20>>, <<0, L, 10>> >>)>>]
       [] kind = "lim_unsorted_end"   -> [l EXCEPT !.ss = <<lims(<< <<0, L, 20>>, <<0, h, 10>> >>)>>]
       [] kind = "lim_dup_bounds"     -> [l EXCEPT !.ss = <<lims(<< <<0, L, 10>>, <<0, L, 20>> >>)>>]
       [] kind = "lim_dup_exact"      -> [l EXCEPT !.ss = <<lims(<< <<0, L, 20>>, <<0, L, 20>> >>)>>]
       [] kind = "par_neg"            -> [l EXCEPT !.ss = <<[lim |-> << <<0, L, 20>> >>, par |-> << <<0, 1, -1>> >>, head |-> FALSE]>>]
       [] kind = "cat_neg_start"      -> [l EXCEPT !.cat = << <<-1, L, 5000>> >>]
       [] kind = "cat_start_gt_end"   -> [l EXCEPT !.cat = << <<h, h-1, 5000>> >>]
       [] kind = "cat_beyond"         -> [l EXCEPT !.cat = << <<0, L+1, 5000>> >>]
       [] kind = "cat_overlap"        -> [l EXCEPT !.cat = << <<0, h, 5000>>, <<h-1, L, 3000>> >>]
       [] kind = "cat_unsorted"       -> [l EXCEPT !.cat = << <<h, L, 5000>>, <<0, h-1, 3000>> >>]
       [] kind = "cat_contained"      -> [l EXCEPT !.cat = << <<0, L, 5000>>, <<1, h, 3000>> >>]
       [] kind = "cat_neg_power"      -> [l EXCEPT !.cat = << <<0, L, -1>> >>]
       \* ---- benign: allowed by the rules
       [] kind = "cat_touching"    -> [l EXCEPT !.cat = << <<0, h, 5000>>, <<h, L, 3000>> >>]
       [] kind = "cat_zero_len"    -> [l EXCEPT !.cat = << <<1, 1, 5000>>, <<1, L, 3000>> >>]
       [] kind = "cat_gap"         -> [l EXCEPT !.cat = << <<1, 2, 0>>, <<h, L-1, 3000>> >>]
       [] kind = "lim_zero_len"    -> [l EXCEPT !.ss = <<lims(<< <<0, L, 20>>, <<h, h, 10>> >>)>>]
       [] kind = "lim_beyond_link" -> [l EXCEPT !.ss = <<lims(<< <<0, L+5, 20>> >>)>>]
       [] kind = "lim_overlapping" -> [l EXCEPT !.ss = <<lims(<< <<0, L-1, 20>>, <<1, L, 10>> >>)>>]
       [] kind = "lim_same_start"  -> [l EXCEPT !.ss = <<lims(<< <<0, h, 20>>, <<0, L, 10>> >>)>>]
       [] kind = "heads_none"      -> [l EXCEPT !.heads = <<>>]
       [] kind = "heads_two"       -> [l EXCEPT !.heads = << <<0, 0>>, <<L, 359>> >>]
       [] kind = "elev_flat"       -> [l EXCEPT !.elevs = << <<0, 0>>, <<L, 0>> >>]
       [] kind = "elev_negative"   -> [l EXCEPT !.elevs = << <<0, -5>>, <<1, -7>>, <<L, -5>> >>]
       [] kind = "lock_self"       -> [l EXCEPT !.lock = <<l.cur>>]
       [] kind = "lock_none"       -> [l EXCEPT !.lock = <<0>>]

(* float fields that can be poisoned; heads / cat / params are installed first where the link has none *)
WithAll(l) ==
  IF l.ss = <<>> THEN l ELSE
  LET s0 == l.ss[1]
      s1 == [s0 EXCEPT !.par = IF s0.par = <<>> THEN << <<0, 1, 1000>> >> ELSE s0.par]
  IN [l EXCEPT !.heads = IF l.heads = <<>> THEN Head2(l.len) ELSE l.heads,
               !.cat   = IF l.cat = <<>> THEN Cat2(l.len) ELSE l.cat,
               !.ss    = <<s1>>]
NonFiniteValues == {NAN, INF, -INF}
FieldLen(l, fld) == CASE fld = "len" -> 1
                      [] fld \in {"elev_off", "elev_el"} -> Len(l.elevs)
                      [] fld \in {"head_off", "head_deg"} -> Len(l.heads)
                      [] fld \in {"lim_s", "lim_e", "lim_v"} -> IF l.ss = <<>> THEN 0 ELSE Len(l.ss[1].lim)
                      [] fld = "par_val" -> IF l.ss = <<>> THEN 0 ELSE Len(l.ss[1].par)
                      [] fld \in {"cat_s", "cat_e", "cat_p"} -> Len(l.cat)
FloatFields == {"len", "elev_off", "elev_el", "head_off", "head_deg", "lim_s", "lim_e", "lim_v", "par_val",
                "cat_s", "cat_e", "cat_p"}
Poison(l0, fld, i, v) ==
  LET l == WithAll(l0) IN
  CASE fld = "len"      -> [l EXCEPT !.len = v]
    [] fld = "elev_off" -> [l EXCEPT !.elevs[i][1] = v]
    [] fld = "elev_el"  -> [l EXCEPT !.elevs[i][2] = v]
    [] fld = "head_off" -> [l EXCEPT !.heads[i][1] = v]
    [] fld = "head_deg" -> [l EXCEPT !.heads[i][2] = v]
    [] fld = "lim_s"    -> [l EXCEPT !.ss[1].lim[i][1] = v]
    [] fld = "lim_e"    -> [l EXCEPT !.ss[1].lim[i][2] = v]
    [] fld = "lim_v"    -> [l EXCEPT !.ss[1].lim[i][3] = v]
    [] fld = "par_val"  -> [l EXCEPT !.ss[1].par[i][3] = v]
    [] fld = "cat_s"    -> [l EXCEPT !.cat[i][1] = v]
    [] fld = "cat_e"    -> [l EXCEPT !.cat[i][2] = v]
    [] fld = "cat_p"    -> [l EXCEPT !.cat[i][3] = v]
NonFiniteFaults(net, p) ==
  LET l == WithAll(At(net, p)) IN
  {f \in {F("nonfinite", fld, p, i, v) : fld \in FloatFields, i \in 1..4, v \in NonFiniteValues} :
       f.a <= FieldLen(l, f.kind)}
(* the only non-finite values the rules allow: an unbounded limit / section value that the rule only bounds from one side *)
NonFiniteAllowed == { <<"lim_e", INF>>, <<"lim_v", INF>>, <<"lim_v", -INF>>, <<"par_val", INF>>, <<"cat_p", INF>> }

(* whole-network faults and faults of the dummy entry *)
DummyKinds == {"dummy_len", "dummy_elevs", "dummy_heads", "dummy_cat", "dummy_speed", "dummy_cur",
               "dummy_flip", "dummy_next", "dummy_nalt", "dummy_prev", "dummy_palt", "dummy_lock_oob",
               "dummy_len_nan", "dummy_len_inf"}
WholeKinds == {"net_empty", "net_only_dummy", "dummy_missing", "dummy_twice"}

NewLink(net, next, prev) == Lk(Len(net), 0, next, 0, prev, 0, 8, 1, <<>>)

Apply(net, f) ==
  LET p == f.link  l == At(net, IF p < Len(net) THEN p ELSE 0)  k == f.kind IN
  CASE f.class = "none" -> net
    [] f.class = "nonfinite" -> [net EXCEPT ![p+1] = Poison(l, k, f.a, f.b)]
    [] k \in GeomKinds \cup SpeedCatKinds \cup BenignKinds -> [net EXCEPT ![p+1] = ReplaceComp(l, k)]
    [] k \in {"cur_zero", "cur_oob", "cur_other"} -> Set(net, p, "cur", f.b)
    [] k \in {"flip_self", "flip_nonmutual", "oob_flip"} -> Set(net, p, "flip", f.b)
    [] k \in {"oob_next", "unrecip_next"} -> Set(net, p, "next", f.b)
    [] k \in {"oob_nalt", "unrecip_nalt", "nalt_without_next"} -> Set(net, p, "nalt", f.b)
    [] k \in {"oob_prev", "unrecip_prev"} -> Set(net, p, "prev", f.b)
    [] k \in {"oob_palt", "unrecip_palt", "palt_without_prev"} -> Set(net, p, "palt", f.b)
    [] k = "oob_lock" -> Set(net, p, "lock", Append(l.lock, f.b))
    [] k = "drop_next" -> Set(net, p, "next", 0)
    [] k = "drop_prev" -> Set(net, p, "prev", 0)
    [] k = "coincident_next" -> Append(Set(net, l.next, "palt", Len(net)), NewLink(net, l.next, 0))
    [] k = "coincident_prev" -> Append(Set(net, l.prev, "nalt", Len(net)), NewLink(net, 0, l.prev))
    [] k = "dummy_len"   -> Set(net, 0, "len", 1)
    [] k = "dummy_len_nan" -> Set(net, 0, "len", NAN)
    [] k = "dummy_len_inf" -> Set(net, 0, "len", INF)
    [] k = "dummy_elevs" -> Set(net, 0, "elevs", Elev2(8))
    [] k = "dummy_heads" -> Set(net, 0, "heads", Head2(8))
    [] k = "dummy_cat"   -> Set(net, 0, "cat", Cat1(8))
    [] k = "dummy_speed" -> Set(net, 0, "ss", <<SS1(8)>>)
    [] k = "dummy_cur"   -> Set(net, 0, "cur", 1)
    [] k = "dummy_flip"  -> Set(net, 0, "flip", 1)
    [] k = "dummy_next"  -> Set(net, 0, "next", 1)
    [] k = "dummy_nalt"  -> Set(net, 0, "nalt", 1)
    [] k = "dummy_prev"  -> Set(net, 0, "prev", 1)
    [] k = "dummy_palt"  -> Set(net, 0, "palt", 1)
    [] k = "dummy_lock_oob" -> Set(net, 0, "lock", <<Len(net)>>)
    [] k = "net_empty"      -> <<>>
    [] k = "net_only_dummy" -> <<net[1]>>
    [] k = "dummy_missing"  -> Tail(net)
    [] k = "dummy_twice"    -> <<net[1]>> \o net

----------------------------------------------------------------------------
(* Transition system: pick a base, break it once (or MaxFaults times)        *)
CONSTANTS Bases,        \* set of base names
          MaxFaults     \* 1: single faults (expected verdict known by class); 2: pairs (only Conforms is checked)

VARIABLES base, net, faults
vars == <<base, net, faults>>

Links(n) == 1..(Len(n)-1)

Init == /\ base \in Bases
        /\ net = BaseNet(base)
        /\ faults = <<>>

Break(f) == /\ Len(faults) < MaxFaults
            /\ Len(net) >= 2 /\ (f.link = 0 \/ f.link \in Links(net))
            /\ net' = Apply(net, f)
            /\ faults' = Append(faults, f)
            /\ UNCHANGED base

CanBreak == Len(faults) < MaxFaults /\ Len(net) >= 2
BreakIdx       == CanBreak /\ \E p \in Links(net) : \E f \in IdxFaults(net, p) : Break(f)
BreakGeom      == CanBreak /\ \E p \in Links(net) : \E k \in GeomKinds : Break(F("rule", k, p, 0, 0))
BreakSpeedCat  == CanBreak /\ \E p \in Links(net) : \E k \in SpeedCatKinds : Break(F("rule", k, p, 0, 0))
BreakNonFinite == CanBreak /\ \E p \in Links(net) : \E f \in NonFiniteFaults(net, p) : Break(f)
BreakDummy     == CanBreak /\ \E k \in DummyKinds \cup WholeKinds : Break(F("rule", k, 0, 0, 0))
Vary           == CanBreak /\ \E p \in Links(net) : \E k \in BenignKinds : Break(F("benign", k, p, 0, 0))

Next == BreakIdx \/ BreakGeom \/ BreakSpeedCat \/ BreakNonFinite \/ BreakDummy \/ Vary
Spec == Init /\ [][Next]_vars

----------------------------------------------------------------------------
(* Design checks on the family                                               *)
Single == Len(faults) = 1
BaseValid    == faults = <<>> => Valid(net)
FaultInvalid == (Single /\ faults[1].class = "rule") => ~Valid(net)            \* no rule is redundant on the family
BenignValid  == (Single /\ faults[1].class = "benign") => Valid(net)           \* the rules are not over-strict
NonFiniteTable == (Single /\ faults[1].class = "nonfinite") =>
                     (Valid(net) <=> <<faults[1].kind, faults[1].b>> \in NonFiniteAllowed)
(* Level B => Level A: the validator as transcribed accepts exactly the valid descriptions and never aborts *)
Conforms   == (ImplOutcome(net) = "accepted") <=> Valid(net)
ImplNoPanic == ImplOutcome(net) # "panic"
=============================================================================
