SPECIFICATION Spec
CONSTANTS
  Variant = "repaired"
  CompInits <- None
  LocoInits <- L2InitsT
  LoadFiles <- None
  CompOps <- CompOpsAll
  LocoOps <- LocoOpsAll
  Targets <- Two
  Near = FALSE
  MaxOps = 2
INVARIANT ComponentConsistent
INVARIANT LocoConsistent
INVARIANT Traction
INVARIANT ConsistMass
INVARIANT ConsistForce
INVARIANT TrainStatic
INVARIANT Atomic
INVARIANT OptionSemantics
INVARIANT Frame
INVARIANT EmitThird
CHECK_DEADLOCK FALSE
