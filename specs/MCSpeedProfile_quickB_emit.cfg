SPECIFICATION Spec
CONSTANTS
  Variant = "fixed"
  Trains <- QB_Trains
  LinkLens <- QB_LinkLens
  Speeds <- QB_Speeds
  Gates <- QB_Gates
  MaxLinks = 2
  MaxR = 2
INVARIANT Safe
INVARIANT Exact
INVARIANT Canonical
INVARIANT Functional
INVARIANT Emit

CHECK_DEADLOCK FALSE
