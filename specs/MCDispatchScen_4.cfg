SPECIFICATION Spec
CONSTANTS MaxTrains = 4
INVARIANT Emit
CHECK_DEADLOCK FALSE
