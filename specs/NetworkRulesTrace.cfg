SPECIFICATION TSpec
CONSTANTS
  Variant = "fixed"
  Bases = {}
  MaxFaults = 0
INVARIANT AtEnd
POSTCONDITION Accepted
CHECK_DEADLOCK FALSE
