----------------------------- MODULE Determinism -----------------------------
(***************************************************************************)
(* C18 — results are deterministic and independent of thread scheduling.    *)
(*                                                                          *)
(* Said plainly: the decision on the real code is a comparison of digests.  *)
(* What TLA+ contributes is the statement (single assignment of results)    *)
(* and a model of the batch walker in which the serial result is shown to   *)
(* be reached under EVERY interleaving of the workers.                      *)
(*                                                                          *)
(* Level A:                                                                 *)
(*   SingleAssignment  result[input] is assigned once: every execution      *)
(*                     Run(input, how) finds result[input] \in {None, out}  *)
(*   ElemSerial        an element that was walked holds exactly Walked(its  *)
(*                     own input) — the result of walking it alone          *)
(*   ErrIsolated       with a failing element k the batch reports Err for   *)
(*                     k, every other element's INPUT is untouched and its  *)
(*                     result is either absent or its serial result         *)
(*   AllWalked         without a failing element every element is walked    *)
(*                                                                          *)
(* Level B (LocomotiveSimulationVec::walk, loco_sim.rs:328): the elements   *)
(* are a pool; a worker takes an element that nobody took (rayon's          *)
(* par_iter_mut hands out disjoint &mut), walks it — Walk(e) reads and      *)
(* writes element e only — and after an Err no further element is started   *)
(* (try_for_each short-circuits; elements already in flight finish). The    *)
(* serial walk is the same machine with one worker taking the elements in   *)
(* index order. Which of the other elements were walked when an element     *)
(* fails is therefore schedule-dependent (allowed: the statement only       *)
(* protects their inputs), what each walked element holds is not.           *)
(*                                                                          *)
(* A behaviour is a sequence of rounds over the same batch: round 1 is the  *)
(* serial walk, later rounds are parallel walks; Commit assigns result.     *)
(* Variant selects the faithful walker or a fault model (vacuity):          *)
(*   "shared"   Walk(e) also scribbles on the next element's input          *)
(*   "shifted"  results are written back with a shifted index               *)
(*   "abortall" the first Err wipes the results of the whole batch and      *)
(*              reports the last element                                    *)
(*                                                                          *)
(* Inside an element. Walking an element reduces the contributions of its   *)
(* parts (Consist::solve_energy_consumption sums fuel / battery / output     *)
(* power over loco_vec; TrainSimBuilder::make_train_sim_parts sums rotating  *)
(* mass, freight mass, resistances over rail_vehicles, reading the count of  *)
(* each car type BY KEY from the n_cars_by_type map). The reduction step     *)
(* Comb is not associative (float addition is not): the faithful code folds  *)
(* from the left in the order of the Vec, whatever the number of workers of  *)
(* the ambient pool and whatever the iteration order of a map. Every        *)
(* execution Run(input, how) therefore meets SingleAssignment for           *)
(*   how = a repetition, a second process,                                  *)
(*         a rayon pool of n workers (n = 1, 2, 4, 7) around the same calls,*)
(*         a fresh construction of the input from equal parts (new maps,    *)
(*         new hasher seeds, another insertion order).                      *)
(* Fault models of these two (vacuity):                                     *)
(*   "parsum"   with more than one worker the fold is split into chunks     *)
(*              that are folded apart and then combined                     *)
(*   "maporder" the construction folds the parts in the iteration order of  *)
(*              a map, which is another permutation at every construction   *)
(***************************************************************************)
EXTENDS Integers, Sequences, FiniteSets, TLC

CONSTANTS N,         \* batch size: elements 1..N
          W,         \* number of workers of the parallel rounds
          Rounds,    \* rounds per behaviour (1 serial + Rounds-1 parallel)
          Variant    \* "isolated" | "shared" | "shifted" | "abortall" | "parsum" | "maporder"

Elems == 1..N
Workers == 1..W
None == <<"none", 0>>

VARIABLES fail,     \* failing element of this behaviour, 0 = none
          inp,      \* element -> input
          res,      \* element -> None | <<"ok", v>> | <<"err", v>>
          pool,     \* elements nobody took yet
          busy,     \* worker -> element in flight, 0 = idle
          full,     \* an Err was seen: no new element is started
          reported, \* element the batch reports Err for, 0 = Ok
          round,    \* 1 = serial, 2.. = parallel
          result,   \* the single-assignment cell of this input
          clash     \* some Commit found result \notin {None, out}
vars == <<fail, inp, res, pool, busy, full, reported, round, result, clash>>

(* parts of an element (locomotives of a consist, car types of a train) and their reduction *)
Parts == 1..3
VecOrder == <<1, 2, 3>>
MapOrders == {<<o[1], o[2], o[3]>> : o \in {f \in [Parts -> Parts] : \A a, b \in Parts : a # b => f[a] # f[b]}}
Comb(a, b) == 2 * a + b                                  \* one step of the reduction: NOT associative
RECURSIVE Fold(_, _)
Fold(acc, s) == IF s = <<>> THEN acc ELSE Fold(Comb(acc, Head(s)), Tail(s))
Contrib(v) == <<v + 1, v + 2, v + 3>>                    \* what part k contributes: a function of the own input only

(* construction of the batch from its parts; o = the iteration order of the map the builder owns *)
Built(o) == [e \in Elems |-> 10 * e + (IF Variant = "maporder" THEN Fold(0, o) - Fold(0, VecOrder) ELSE 0)]
Inp0 == Built(VecOrder)
Walked(v) == Fold(0, Contrib(v))                         \* walking alone: left fold in Vec order
(* the same walk inside a pool of nw workers *)
WalkedBy(v, nw) == IF Variant = "parsum" /\ nw > 1
                   THEN Comb(Fold(0, SubSeq(Contrib(v), 1, 1)), Fold(0, SubSeq(Contrib(v), 2, 3)))
                   ELSE Walked(v)
Serial(e) == <<IF e = fail THEN "err" ELSE "ok", Walked(Inp0[e])>>

Init == /\ fail \in 0..N
        /\ inp = Inp0 /\ res = [e \in Elems |-> None] /\ pool = Elems
        /\ busy = [w \in Workers |-> 0] /\ full = FALSE /\ reported = 0
        /\ round = 1 /\ result = None /\ clash = FALSE

Idle == \A w \in Workers : busy[w] = 0

Take(w, e) == /\ round <= Rounds /\ ~full /\ busy[w] = 0 /\ e \in pool
              /\ IF round = 1 THEN w = 1 /\ \A x \in pool : e <= x ELSE TRUE      \* serial: one worker, index order
              /\ pool' = pool \ {e} /\ busy' = [busy EXCEPT ![w] = e]
              /\ UNCHANGED <<fail, inp, res, full, reported, round, result, clash>>

Next1(e) == (e % N) + 1
Walk(w) ==
  /\ busy[w] # 0
  /\ LET e == busy[w]
         out == <<IF e = fail THEN "err" ELSE "ok", WalkedBy(inp[e], IF round = 1 THEN 1 ELSE W)>>
         tgt == IF Variant = "shifted" THEN Next1(e) ELSE e
     IN /\ res' = IF Variant = "abortall" /\ e = fail THEN [x \in Elems |-> IF x = e THEN out ELSE None]
                  ELSE [res EXCEPT ![tgt] = out]
        /\ inp' = IF Variant = "shared" THEN [inp EXCEPT ![Next1(e)] = @ + 1] ELSE inp
        /\ full' = (full \/ e = fail)
        /\ reported' = IF e = fail /\ reported = 0 THEN (IF Variant = "abortall" THEN N ELSE e) ELSE reported
  /\ busy' = [busy EXCEPT ![w] = 0]
  /\ UNCHANGED <<fail, pool, round, result, clash>>

(* what an execution returns: the walked batch, or the reported error *)
Out == IF reported = 0 THEN <<"ok", res>> ELSE <<"err", reported>>
RoundOver == Idle /\ (pool = {} \/ full)

Commit == /\ round <= Rounds /\ RoundOver
          /\ result' = IF result = None THEN Out ELSE result
          /\ clash' = (clash \/ (result # None /\ result # Out))
          /\ round' = round + 1
          \* the next execution starts from the same batch, constructed afresh from equal parts
          /\ \E o \in (IF Variant = "maporder" THEN MapOrders ELSE {VecOrder}) : inp' = Built(o)
          /\ res' = [e \in Elems |-> None] /\ pool' = Elems /\ full' = FALSE /\ reported' = 0
          /\ UNCHANGED <<fail, busy>>

Next == \/ \E w \in Workers, e \in Elems : Take(w, e)
        \/ \E w \in Workers : Walk(w)
        \/ Commit
Spec == Init /\ [][Next]_vars

----------------------------------------------------------------------------
(* Level A *)
SingleAssignment == ~clash
ElemSerial == \A e \in Elems : res[e] \in {None, Serial(e)}
InputsUntouched == inp = Inp0
ErrIsolated == (RoundOver /\ fail # 0 /\ round <= Rounds /\ pool # Elems) =>
                  /\ reported = fail /\ res[fail] = Serial(fail)
                  /\ \A e \in Elems \ {fail} : inp[e] = Inp0[e] /\ res[e] \in {None, Serial(e)}
AllWalked == (RoundOver /\ fail = 0 /\ round <= Rounds /\ pool # Elems) => \A e \in Elems : res[e] = Serial(e)
(* disjoint &mut: no element is in flight twice *)
Disjoint == \A w1, w2 \in Workers : (w1 # w2 /\ busy[w1] # 0) => busy[w1] # busy[w2]

TypeOK == /\ fail \in 0..N /\ pool \subseteq Elems /\ round \in 1..(Rounds + 1)
          /\ \A w \in Workers : busy[w] \in 0..N
=============================================================================
