----------------------------- MODULE History -----------------------------
(***************************************************************************)
(* C19 - histories and step counters stay aligned through the object tree.  *)
(*                                                                          *)
(* State: `nd`, the sequence of every history-bearing object ("node") of a  *)
(* simulation, in canonical order (train, fric, con, then per locomotive k  *)
(* the unit followed by its components), each                               *)
(*    [lvl |-> "train"|"fric"|"con"|"loco"|"comp", k |-> loco number or 0,  *)
(*     c |-> "" | "fc" | "gen" | "res" | "edrv",                            *)
(*     i |-> state.i, iv |-> save_interval (0 = None), hi |-> history.i]    *)
(* which is exactly what the harness projects out of serde_json::to_value   *)
(* of the real simulation object, so recorded states bind unchanged.        *)
(* `simi` is the private counter of LocomotiveSimulation/ConsistSimulation  *)
(* (-1 for the train simulations, which count in TrainState.i = the "train" *)
(* node).                                                                   *)
(*                                                                          *)
(* Level A (the property) is stated against a log of the calls that were    *)
(* *executed* (`log`: one entry per InitialSave / successful step, with the *)
(* abstract step index and the interval requested at the top at that time): *)
(* it knows nothing about gates, propagation paths or call order.           *)
(*                                                                          *)
(* Level B transcribes the code:                                            *)
(*  save_state  SetSpeedTrainSim / SpeedLimitTrainSim (set_speed_train_sim  *)
(*     .rs:384, speed_limit_train_sim.rs:323): gate on the TRAIN's i and    *)
(*     interval; push; loco_con.save_state(); [fric_brake.save_state()]     *)
(*   Consist (consist_model.rs:487): gate on the CONSIST's i/interval;      *)
(*     push; every loco.save_state()                                        *)
(*   Locomotive (locomotive_model.rs:1190): loco_type.save_state() FIRST    *)
(*     and unconditionally, THEN gate on the LOCOMOTIVE's i/interval; push  *)
(*   ConventionalLoco / BatteryElectricLoco / HybridLoco (derive            *)
(*     HistoryMethods, no state, no interval): every #[has_state] field     *)
(*     .save_state()                                                        *)
(*   FuelConverter, Generator, ReversibleEnergyStorage, ElectricDrivetrain, *)
(*     FricBrake (derive, hm_derive.rs:59): gate on their OWN i/interval    *)
(*   => a node is pushed iff its own gate and the gate of every *gating     *)
(*      ancestor* (train, consist - never the locomotive) is open.          *)
(*  step        every node's i += 1 (simulation: solve?; save_state; step)  *)
(*  set_save_interval   train -> consist -> loco -> components, and the     *)
(*     friction brake by direct field assignment                            *)
(*  a failing solve_step returns before save_state / step.                  *)
(*  construction: the units come with their own interval u0, Consist::new   *)
(*     (consist_model.rs:138) stores c0 and propagates it, the simulation   *)
(*     constructor propagates v0 once more - so u0 and c0 leave no trace.   *)
(*     Relist(v) = Consist::set_loco_vec(fresh units carrying u0) followed  *)
(*     by set_save_interval(v) at the top, v possibly the interval already  *)
(*     in force: it must reach the new units all the same.                  *)
(* `Fault` switches in deliberate deviations (vacuity / mutation configs).  *)
(***************************************************************************)
EXTENDS Integers, Sequences, FiniteSets, TLC

CONSTANTS Fault      \* "none" | "skip_fric" | "skip_gen" | "gate_next" | "save_on_err" | "step_first" | "con_early_return"

VARIABLES kind,      \* "loco" | "consist" | "setspeed" | "slts" | "timed" | "vec"
          comp,      \* sequence of "conv" | "bel" | "hyb"
          nd, simi,
          av,        \* interval last requested at the top (0 = None)
          log,       \* executed calls: [op |-> "Init"|"Step", i |-> abstract index, v |-> av then]
          sched      \* the schedule so far (what is emitted for replay)
vars == <<kind, comp, nd, simi, av, log, sched>>

Gate(i, v) == v > 0 /\ i % v = 0
Idx(s) == 1..Len(s)

----------------------------------------------------------------------------
(* Level A *)
StepsDone(lg) == Cardinality({k \in Idx(lg) : lg[k].op = "Step"})
AI(lg) == 1 + StepsDone(lg)                   \* index of the next step
(* what a history must contain: the index of every executed step whose index is a multiple of *)
(* the interval in force, preceded by the initial state when every step is saved              *)
Expected(lg) == LET F == SelectSeq(lg, LAMBDA e : Gate(e.i, e.v)) IN [k \in Idx(F) |-> F[k].i]
Count(lg) == Cardinality({k \in Idx(lg) : lg[k].op = "Step" /\ Gate(lg[k].i, lg[k].v)})
             + Cardinality({k \in Idx(lg) : lg[k].op = "Init" /\ lg[k].v = 1})

Min2(a, b) == IF a < b THEN a ELSE b
SameLength    == \A a, b \in Idx(nd) : Len(nd[a].hi) = Len(nd[b].hi)
SameStep      == \A a, b \in Idx(nd) : \A k \in 1..Min2(Len(nd[a].hi), Len(nd[b].hi)) : nd[a].hi[k] = nd[b].hi[k]
CountersEqual == /\ \A a, b \in Idx(nd) : nd[a].i = nd[b].i
                 /\ simi # -1 => \A a \in Idx(nd) : nd[a].i = simi
StepIndex     == /\ \A a \in Idx(nd) : nd[a].i = AI(log)
                 /\ simi # -1 => simi = AI(log)
SavedCount    == \A a \in Idx(nd) : Len(nd[a].hi) = Count(log)
Entries       == \A a \in Idx(nd) : nd[a].hi = Expected(log)
DisabledEmpty == (\A k \in Idx(log) : log[k].v = 0) => \A a \in Idx(nd) : nd[a].hi = <<>>
Propagated    == \A a \in Idx(nd) : nd[a].iv = av

Aligned == SameLength /\ SameStep /\ CountersEqual /\ StepIndex /\ SavedCount /\ Entries
           /\ DisabledEmpty /\ Propagated

----------------------------------------------------------------------------
(* tree shapes *)
Node(lvl, k, c, v) == [lvl |-> lvl, k |-> k, c |-> c, i |-> 1, iv |-> v, hi |-> <<>>]
CompsOf(t) == CASE t = "conv" -> <<"fc", "gen", "edrv">>
                [] t = "hyb" -> <<"fc", "gen", "res", "edrv">>     \* HybridLoco: derive(HistoryMethods), no own state / gate
                [] OTHER -> <<"res", "edrv">>
Unit(k, t, v) == <<Node("loco", k, "", v)>> \o [j \in Idx(CompsOf(t)) |-> Node("comp", k, CompsOf(t)[j], v)]
RECURSIVE Units(_, _, _)
Units(cp, k, v) == IF k > Len(cp) THEN <<>> ELSE Unit(k, cp[k], v) \o Units(cp, k + 1, v)
Build(kd, cp, v) ==
  CASE kd = "loco"     -> Unit(1, cp[1], v)
    [] kd = "consist"  -> <<Node("con", 0, "", v)>> \o Units(cp, 1, v)
    [] kd = "setspeed" -> <<Node("train", 0, "", v), Node("con", 0, "", v)>> \o Units(cp, 1, v)
    [] kd = "vec"      -> LET one == <<Node("train", 0, "", v), Node("fric", 0, "", v), Node("con", 0, "", v)>> \o Units(cp, 1, v)
                          IN one \o one      \* SpeedLimitTrainSimVec of two simulations: set_save_interval at the vector reaches both
    [] OTHER           -> <<Node("train", 0, "", v), Node("fric", 0, "", v), Node("con", 0, "", v)>> \o Units(cp, 1, v)
(* same objects, same order, any contents *)
Shape(s) == [j \in Idx(s) |-> <<s[j].lvl, s[j].k, s[j].c>>]
Proj(s) == [j \in Idx(s) |-> [lvl |-> s[j].lvl, k |-> s[j].k, c |-> s[j].c, i |-> s[j].i, iv |-> s[j].iv, hi |-> s[j].hi]]

----------------------------------------------------------------------------
(* Level B *)
GateOf(n) == IF Fault = "gate_next" /\ n.lvl = "loco" THEN Gate(n.i + 1, n.iv) ELSE Gate(n.i, n.iv)
(* a gates n: a's `if i % interval == 0` encloses the call that reaches n *)
Gates(a, n) == \/ a.lvl = "train" /\ n.lvl # "train"
               \/ a.lvl = "con" /\ n.lvl \in {"loco", "comp"}
DoSave(s) == [j \in Idx(s) |->
               IF GateOf(s[j]) /\ \A a \in Idx(s) : Gates(s[a], s[j]) => GateOf(s[a])
               THEN [s[j] EXCEPT !.hi = Append(@, s[j].i)] ELSE s[j]]
DoStep(s) == [j \in Idx(s) |-> [s[j] EXCEPT !.i = @ + 1]]
Reached(n) == ~ \/ Fault = "skip_fric" /\ n.lvl = "fric"
                \/ Fault = "skip_gen" /\ n.c = "gen"
(* fault "con_early_return": Consist::set_save_interval does nothing when the consist already has v *)
ConSkips(s, v) == Fault = "con_early_return" /\ \E a \in Idx(s) : s[a].lvl = "con" /\ s[a].iv = v
DoSet(s, v) == [j \in Idx(s) |-> IF Reached(s[j]) /\ ~(ConSkips(s, v) /\ s[j].lvl \in {"con", "loco", "comp"})
                                 THEN [s[j] EXCEPT !.iv = v] ELSE s[j]]
(* the object tree right after construction: units(u0) -> Consist::new(c0) -> simulation(v0) *)
UnderCon(n) == n.lvl \in {"loco", "comp"}
Construct(kd, cp, u0, c0, v0) ==
  LET fresh == Build(kd, cp, v0)
      units == [j \in Idx(fresh) |-> IF UnderCon(fresh[j]) THEN [fresh[j] EXCEPT !.iv = u0]
                                     ELSE IF fresh[j].lvl = "con" THEN [fresh[j] EXCEPT !.iv = c0] ELSE fresh[j]]
      \* Consist::new: the struct literal already holds c0, then set_save_interval(c0)
      built == IF kd = "loco" THEN units
               ELSE [j \in Idx(units) |-> IF UnderCon(units[j]) /\ Fault # "con_early_return" THEN [units[j] EXCEPT !.iv = c0] ELSE units[j]]
  IN DoSet(built, v0)
(* set_loco_vec(fresh units) ; set_save_interval(v) - only before anything was saved or stepped *)
DoRelist(s, u0, v) == DoSet([j \in Idx(s) |-> IF UnderCon(s[j]) THEN [s[j] EXCEPT !.iv = u0] ELSE s[j]], v)
DoStepOk(s) == IF Fault = "step_first" THEN DoSave(DoStep(s)) ELSE DoStep(DoSave(s))
DoStepErr(s) == IF Fault = "save_on_err" THEN DoSave(s) ELSE s

----------------------------------------------------------------------------
(* Level B as a transition system: every schedule *)
CONSTANTS Kinds, Comps, Intervals, MaxActs, MaxSets,
          Cons       \* set of <<u0, c0>>: the units' own interval, the interval handed to Consist::new

Ended == Len(sched) > 1 /\ sched[Len(sched)][1] = "Err"
NSets == Cardinality({k \in Idx(sched) : sched[k][1] \in {"Set", "Relist"}})
Room == ~Ended /\ Len(sched) <= MaxActs           \* sched[1] is the constructor call

U0 == sched[1][3]       \* interval the units were built with
Init == /\ kind \in Kinds /\ comp \in Comps /\ av \in Intervals
        /\ \E uc \in Cons : /\ nd = Construct(kind, comp, uc[1], uc[2], av)
                            /\ sched = << <<"New", av, uc[1], uc[2]>> >>
        /\ simi = IF kind \in {"loco", "consist"} THEN 1 ELSE -1
        /\ log = <<>>

(* v may be the interval already in force: re-applying it must be harmless *)
SetInterval == /\ Room /\ NSets < MaxSets
               /\ \E v \in Intervals :
                    /\ av' = v /\ nd' = DoSet(nd, v)
                    /\ sched' = Append(sched, <<"Set", v>>)
               /\ UNCHANGED <<kind, comp, simi, log>>

Relist == /\ Room /\ NSets < MaxSets /\ log = <<>> /\ Len(sched) = 1
          /\ \E v \in Intervals :
               /\ av' = v /\ nd' = DoRelist(nd, U0, v)
               /\ sched' = Append(sched, <<"Relist", v>>)
          /\ UNCHANGED <<kind, comp, simi, log>>

(* walk() before anything was stepped: the initial state is offered to save_state *)
InitialSave == /\ Room /\ log = <<>>
               /\ nd' = DoSave(nd)
               /\ log' = Append(log, [op |-> "Init", i |-> AI(log), v |-> av])
               /\ sched' = Append(sched, <<"Init", 0>>)
               /\ UNCHANGED <<kind, comp, simi, av>>

StepOk == /\ Room
          /\ nd' = DoStepOk(nd)
          /\ simi' = IF simi = -1 THEN -1 ELSE simi + 1
          /\ log' = Append(log, [op |-> "Step", i |-> AI(log), v |-> av])
          /\ sched' = Append(sched, <<"Step", 0>>)
          /\ UNCHANGED <<kind, comp, av>>

StepErr == /\ Room
           /\ nd' = DoStepErr(nd)
           /\ sched' = Append(sched, <<"Err", 0>>)
           /\ UNCHANGED <<kind, comp, simi, av, log>>

Next == SetInterval \/ Relist \/ InitialSave \/ StepOk \/ StepErr
Spec == Init /\ [][Next]_vars
=============================================================================
