---------------------------- MODULE ControlTrace ----------------------------
(* Implementation -> spec: every run the harness recorded (whole path, link by link, timed path   *)
(* from the real dispatcher, make_est_times, toy-scale tables emitted by BrakingCurve.tla) is      *)
(* bound to the variables of Control / BrakingCurve and their Level-A predicates are evaluated on  *)
(* every step record and every serialised braking table. Failures do not block: they are appended  *)
(* to `viol` and the state re-synchronises to the recorded one.                                    *)
EXTENDS Control, Json, IOUtils

Rec == ndJsonDeserialize(IOEnv.TRACE)

VARIABLES l,        \* next line of Rec
          desc,     \* descriptor of the current case
          viol,     \* <<line, case, invariant>> of every Level-A failure
          stats
tvars == <<sp, end, tbl, under, prev, off0, l, desc, viol, stats>>

Stats0 == [cases |-> 0, steps |-> 0, tables |-> 0, table_err |-> 0, runs_ok |-> 0, runs_err |-> 0,
           stepcaps |-> 0, walks |-> 0, walk_differs |-> 0, est_ok |-> 0, est_err |-> 0,
           disp_ok |-> 0, disp_err |-> 0, toy_tables |-> 0, drift |-> 0, skipped |-> 0,
           dom_short |-> 0, dom_light |-> 0, panics |-> 0, harness_err |-> 0]

TInit == /\ l = 1 /\ viol = <<>> /\ stats = Stats0 /\ desc = [kind |-> "none"]
         /\ sp = << <<0, 0>> >> /\ end = 0 /\ tbl = <<>> /\ under = FALSE
         /\ prev = <<>> /\ off0 = 0

Names(checks) == LET F == SelectSeq(checks, LAMBDA c : ~c[2]) IN [i \in 1..Len(F) |-> F[i][1]]
Report(names) == viol' = viol \o [i \in 1..Len(names) |-> <<l, Rec[l].case, names[i]>>]
Bump(f) == stats' = [stats EXCEPT ![f] = @ + 1]

Begin == /\ Rec[l].ev = "begin"
         /\ desc' = Rec[l].desc
         /\ sp' = << <<0, 0>> >> /\ end' = 0 /\ tbl' = <<>> /\ under' = FALSE
         /\ prev' = <<>> /\ off0' = 0
         /\ Bump("cases")
         /\ UNCHANGED viol

Header == /\ Rec[l].ev = "Header"
          /\ stats' = [stats EXCEPT !.dom_short = @ + (IF Rec[l].dom.short THEN 1 ELSE 0),
                                    !.dom_light = @ + (IF Rec[l].dom.light THEN 1 ELSE 0)]
          /\ UNCHANGED <<sp, end, tbl, under, prev, off0, desc, viol>>

Build == /\ Rec[l].ev = "Build"
         /\ Report(Names(<< <<"EndOk", EndOkOf(Rec[l])>>, <<"NoInternalErr", NoInternalErrOf(Rec[l])>> >>))
         /\ UNCHANGED <<sp, end, tbl, under, prev, off0, desc, stats>>

Skipped == /\ Rec[l].ev = "NetRejected"
           /\ Bump("skipped")
           /\ UNCHANGED <<sp, end, tbl, under, prev, off0, desc, viol>>

(* the model's table of a toy case, in recorded units *)
ToyTable == LET r == Recalc(desc.zones, desc["end"])
            IN [k \in 1..Len(r[1]) |-> <<64 * r[1][k][1], 65536 * r[1][k][2], 65536 * r[1][k][3], 65536 * r[1][k][4]>>]

Table == /\ Rec[l].ev = "Table"
         /\ IF Rec[l].ok
            THEN /\ sp' = Rec[l].sp /\ end' = Rec[l]["end"] /\ tbl' = Rec[l].pts
                 /\ Report(Names(<< <<"TableSafe", TableSafeOf(sp', end', tbl')>>,
                                    <<"TargetLeLimit", TargetLeLimitOf(tbl')>>,
                                    <<"TableMonotone", MonotoneOf(tbl')>> >>))
                 /\ stats' = [stats EXCEPT !.tables = @ + 1,
                                           !.toy_tables = @ + (IF Rec[l].toy THEN 1 ELSE 0),
                                           !.drift = @ + (IF Rec[l].toy /\ tbl' # ToyTable THEN 1 ELSE 0)]
            ELSE /\ UNCHANGED <<sp, end, tbl>>
                 /\ Report(Names(<< <<"EndOk", EndOkOf(Rec[l])>>, <<"NoInternalErr", NoInternalErrOf(Rec[l])>> >>))
                 /\ Bump("table_err")
         /\ UNCHANGED <<under, prev, off0, desc>>

(* a chunk of consecutive step records *)
Steps == /\ Rec[l].ev = "Steps"
         /\ LET S == Rec[l].s
                P(j) == IF j = 1 THEN prev ELSE S[j-1]
                J == 1..Len(S)
                JP == {j \in J : P(j) # <<>>}
            IN /\ Report(Names(<< <<"NonNeg",        \A j \in J : NonNegOf(S[j])>>,
                                  <<"Posted",        \A j \in J : PostedOf(sp, S[j])>>,
                                  <<"TargetLeLimit", \A j \in J : TargetLeLimitStepOf(S[j])>>,
                                  <<"Reported",      \A j \in JP : ReportedOf(P(j), S[j])>>,
                                  <<"LimitLePosted", \A j \in JP : LimitLePostedOf(sp, P(j), S[j])>>,
                                  <<"NoReverse",     \A j \in JP : NoReverseOf(P(j), S[j])>> >>))
               /\ prev' = S[Len(S)]
               /\ off0' = IF prev = <<>> THEN S[1][3] ELSE off0
               /\ stats' = [stats EXCEPT !.steps = @ + Len(S)]
         /\ UNCHANGED <<sp, end, tbl, under, desc>>

(* a new leg of a stop-and-go run: the step monitors restart from the state the library call left *)
Stage == /\ Rec[l].ev = "Stage"
         /\ prev' = <<>>
         /\ UNCHANGED <<sp, end, tbl, under, off0, desc, viol, stats>>

StepCap == /\ Rec[l].ev = "stepcap"
           /\ Report(<<"StepCap">>)
           /\ Bump("stepcaps")
           /\ UNCHANGED <<sp, end, tbl, under, prev, off0, desc>>

(* end of the harness-driven run *)
Final == /\ Rec[l].ev = "Final"
         /\ Report(Names(<< <<"EndOk", EndOkOf(Rec[l])>>,
                            <<"NoInternalErr", NoInternalErrOf(Rec[l])>>,
                            <<"StopWindow", Rec[l].ok => StopWindowOf(Rec[l], off0)>> >>))
         /\ Bump(IF Rec[l].ok THEN "runs_ok" ELSE "runs_err")
         /\ UNCHANGED <<sp, end, tbl, under, prev, off0, desc>>

(* the library's own walk() / walk_timed_path() on a clone *)
Walk == /\ Rec[l].ev = "Walk"
        /\ Report(Names(<< <<"EndOk", EndOkOf(Rec[l])>>,
                           <<"NoInternalErr", NoInternalErrOf(Rec[l])>>,
                           <<"StopWindow", Rec[l].ok => StopWindowOf(Rec[l], off0)>> >>))
        /\ stats' = [stats EXCEPT !.walks = @ + 1, !.walk_differs = @ + (IF Rec[l].same THEN 0 ELSE 1)]
        /\ UNCHANGED <<sp, end, tbl, under, prev, off0, desc>>

EstTimes == /\ Rec[l].ev = "EstTimes"
            /\ Report(Names(<< <<"EndOk", EndOkOf(Rec[l])>>, <<"NoInternalErr", NoInternalErrOf(Rec[l])>> >>))
            /\ Bump(IF Rec[l].ok THEN "est_ok" ELSE "est_err")
            /\ UNCHANGED <<sp, end, tbl, under, prev, off0, desc>>

Dispatch == /\ Rec[l].ev = "Dispatch"
            /\ Report(Names(<< <<"EndOk", EndOkOf(Rec[l])>>, <<"NoInternalErr", NoInternalErrOf(Rec[l])>> >>))
            /\ Bump(IF Rec[l].ok THEN "disp_ok" ELSE "disp_err")
            /\ UNCHANGED <<sp, end, tbl, under, prev, off0, desc>>

Panic == /\ Rec[l].ev \in {"panic", "abort", "timeout"}
         /\ Report(<<"NoPanic">>)
         /\ Bump("panics")
         /\ UNCHANGED <<sp, end, tbl, under, prev, off0, desc>>

End == /\ Rec[l].ev = "end"
       /\ stats' = [stats EXCEPT !.harness_err = @ + (IF Rec[l].result = "harness_err" THEN 1 ELSE 0)]
       /\ UNCHANGED <<sp, end, tbl, under, prev, off0, desc, viol>>

TNext == /\ l <= Len(Rec) /\ l' = l + 1
         /\ (Begin \/ Header \/ Build \/ Skipped \/ Table \/ Steps \/ Stage \/ StepCap \/ Final \/ Walk
             \/ EstTimes \/ Dispatch \/ Panic \/ End)
TSpec == TInit /\ [][TNext]_tvars

AtEnd == l > Len(Rec) => /\ PrintT(<<"VIOLS", ToJson(viol)>>)
                         /\ PrintT(<<"STATS", ToJson(stats)>>)
Accepted == IF TLCGet("stats").diameter - 1 = Len(Rec) THEN TRUE
            ELSE Print(<<"FIRST-UNMATCHED", TLCGet("stats").diameter, Rec[TLCGet("stats").diameter]>>, FALSE)
=============================================================================
