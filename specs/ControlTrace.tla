---------------------------- MODULE ControlTrace ----------------------------
(* Implementation -> spec: every run the harness recorded (whole path, link by link, timed path   *)
(* from the real dispatcher, make_est_times, toy-scale tables emitted by BrakingCurve.tla) is      *)
(* bound to the variables of Control / BrakingCurve and their Level-A predicates are evaluated on  *)
(* every step record and every serialised braking table. Failures do not block: they are appended  *)
(* to `viol` and the state re-synchronises to the recorded one.                                    *)
EXTENDS Control, Json, IOUtils

Rec == ndJsonDeserialize(IOEnv.TRACE)

(* Level B of the controller (Controller.tla): its operators are used, its variables are not *)
Ctl == INSTANCE Controller WITH Forces <- {}, Envs <- {}, Window <- 0, TLen <- 1, Free <- TRUE, Policies <- {},
                                MaxSteps <- 0, phase <- "trace", env <- <<0, 0>>, pol <- <<>>, cs <- [k |-> 0]

VARIABLES l,        \* next line of Rec
          desc,     \* descriptor of the current case
          viol,     \* <<line, case, invariant>> of every Level-A failure
          stats,
          icp,      \* table index (idx_curr, 1-based) the next lookup starts from
          adj       \* look-ahead of calc_speeds: ramp_up_time (s) * ramp_up_coeff (tenths)
tvars == <<sp, end, tbl, under, prev, off0, l, desc, viol, stats, icp, adj>>

Stats0 == [cases |-> 0, steps |-> 0, tables |-> 0, table_err |-> 0, runs_ok |-> 0, runs_err |-> 0,
           stepcaps |-> 0, walks |-> 0, walk_differs |-> 0, est_ok |-> 0, est_err |-> 0,
           disp_ok |-> 0, disp_err |-> 0, toy_tables |-> 0, drift |-> 0, skipped |-> 0,
           dom_short |-> 0, dom_light |-> 0, panics |-> 0, harness_err |-> 0,
           lookups |-> 0, lookup_drift |-> 0, ctrl_runs |-> 0, ctrl_steps |-> 0, ctrl_drift |-> 0, ic_bad |-> 0]

TInit == /\ l = 1 /\ viol = <<>> /\ stats = Stats0 /\ desc = [kind |-> "none"]
         /\ sp = << <<0, 0>> >> /\ end = 0 /\ tbl = <<>> /\ under = FALSE
         /\ prev = <<>> /\ off0 = 0 /\ icp = 0 /\ adj = 0

Names(checks) == LET F == SelectSeq(checks, LAMBDA c : ~c[2]) IN [i \in 1..Len(F) |-> F[i][1]]
Report(names) == viol' = viol \o [i \in 1..Len(names) |-> <<l, Rec[l].case, names[i]>>]
Bump(f) == stats' = [stats EXCEPT ![f] = @ + 1]

Begin == /\ Rec[l].ev = "begin"
         /\ desc' = Rec[l].desc
         /\ sp' = << <<0, 0>> >> /\ end' = 0 /\ tbl' = <<>> /\ under' = FALSE
         /\ prev' = <<>> /\ off0' = 0 /\ icp' = 0 /\ adj' = 0
         /\ Bump("cases")
         /\ UNCHANGED viol

Header == /\ Rec[l].ev = "Header"
          /\ stats' = [stats EXCEPT !.dom_short = @ + (IF Rec[l].dom.short THEN 1 ELSE 0),
                                    !.dom_light = @ + (IF Rec[l].dom.light THEN 1 ELSE 0)]
          /\ adj' = Rec[l].ramp * Rec[l].coef10
          /\ UNCHANGED <<sp, end, tbl, under, prev, off0, desc, viol, icp>>

Build == /\ Rec[l].ev = "Build"
         /\ Report(Names(<< <<"EndOk", EndOkOf(Rec[l])>>, <<"NoInternalErr", NoInternalErrOf(Rec[l])>> >>))
         /\ UNCHANGED <<sp, end, tbl, under, prev, off0, desc, stats, icp, adj>>

Skipped == /\ Rec[l].ev = "NetRejected"
           /\ Bump("skipped")
           /\ UNCHANGED <<sp, end, tbl, under, prev, off0, desc, viol, icp, adj>>

(* the model's table of a toy case, in recorded units *)
ToyTable == LET r == Recalc(desc.zones, desc["end"])
            IN [k \in 1..Len(r[1]) |-> <<64 * r[1][k][1], 65536 * r[1][k][2], 65536 * r[1][k][3], 65536 * r[1][k][4]>>]

Table == /\ Rec[l].ev = "Table"
         /\ IF Rec[l].ok
            THEN \* the recorded speed points carry the signed value PathTpc stores; the limit is its magnitude
                 \* (min_speed, track/link/speed/speed_limit.rs:3-9)
                 /\ sp' = [j \in 1..Len(Rec[l].sp) |-> <<Rec[l].sp[j][1], Abs(Rec[l].sp[j][2])>>]
                 /\ end' = Rec[l]["end"] /\ tbl' = Rec[l].pts
                 /\ Report(Names(<< <<"TableSafe", TableSafeOf(sp', end', tbl')>>,
                                    <<"TargetLeLimit", TargetLeLimitOf(tbl')>>,
                                    <<"TableMonotone", MonotoneOf(tbl')>> >>))
                 /\ icp' = Len(tbl')                    \* recalc leaves idx_curr on the last point
                 /\ stats' = [stats EXCEPT !.tables = @ + 1,
                                           !.toy_tables = @ + (IF Rec[l].toy THEN 1 ELSE 0),
                                           !.drift = @ + (IF Rec[l].toy /\ tbl' # ToyTable THEN 1 ELSE 0),
                                           !.ic_bad = @ + (IF Rec[l].ic_ok /\ (tbl' = <<>> \/ Rec[l].ic = Len(tbl')) THEN 0 ELSE 1)]
            ELSE /\ UNCHANGED <<sp, end, tbl, icp>>
                 /\ Report(Names(<< <<"EndOk", EndOkOf(Rec[l])>>, <<"NoInternalErr", NoInternalErrOf(Rec[l])>> >>))
                 /\ Bump("table_err")
         /\ UNCHANGED <<under, prev, off0, desc, adj>>

(* Level B, exact part: the (limit, target) the code reports at step k is calc_speeds of the serialised table    *)
(* at offset[k-1]: the logged idx_curr is where the catch-up `while` of calc_speeds stops when it starts from     *)
(* the previous index (within the +-1 unit of offset rounding), the limit is that point's limit, the target the   *)
(* minimum of the targets up to the look-ahead position offset + speed * ramp_up_time * ramp_up_coeff.           *)
(* Positions are doubled because Controller!Catch / Look compare against half units.                             *)
FarQ(p) == p[3] + (p[4] * adj) \div 10240                \* 2^6 per m, speed 2^16 per m/s, adj in tenths of a second
LookupOk(pts, ic0, p, s) ==
  LET ic == s[8] IN
  /\ ic >= 1 /\ ic <= Len(pts) /\ ic0 >= 1 /\ ic0 <= Len(pts)
  /\ \/ Ctl!Catch(pts, ic0, 2 * p[3]) = ic
     \/ Ctl!Catch(pts, ic0, 2 * (p[3] + 1)) <= ic /\ ic <= Ctl!Catch(pts, ic0, 2 * (p[3] - 1))
  /\ s[5] = pts[ic][2] /\ s[6] = pts[ic][3]
  /\ \/ Ctl!Look(pts, ic, 2 * FarQ(p), pts[ic][4]) = s[7]
     \/ Ctl!Look(pts, ic, 2 * (FarQ(p) + 2), pts[ic][4]) <= s[7] /\ s[7] <= Ctl!Look(pts, ic, 2 * (FarQ(p) - 2), pts[ic][4])

(* a chunk of consecutive step records *)
Steps == /\ Rec[l].ev = "Steps"
         /\ LET S == Rec[l].s
                P(j) == IF j = 1 THEN prev ELSE S[j-1]
                J == 1..Len(S)
                JP == {j \in J : P(j) # <<>>}
            IN /\ Report(Names(<< <<"NonNeg",        \A j \in J : NonNegOf(S[j])>>,
                                  <<"Posted",        \A j \in J : PostedOf(sp, S[j])>>,
                                  <<"TargetLeLimit", \A j \in J : TargetLeLimitStepOf(S[j])>>,
                                  <<"Reported",      \A j \in JP : ReportedOf(P(j), S[j])>>,
                                  <<"LimitLePosted", \A j \in JP : LimitLePostedOf(sp, P(j), S[j])>>,
                                  <<"NoReverse",     \A j \in JP : NoReverseOf(P(j), S[j])>> >>))
               /\ prev' = S[Len(S)]
               /\ off0' = IF prev = <<>> THEN S[1][3] ELSE off0
               /\ icp' = S[Len(S)][8]
               /\ stats' = [stats EXCEPT !.steps = @ + Len(S), !.lookups = @ + Cardinality(JP),
                     !.lookup_drift = @ + Cardinality({j \in JP : ~LookupOk(tbl, IF j = 1 THEN icp ELSE S[j-1][8], P(j), S[j])})]
         /\ UNCHANGED <<sp, end, tbl, under, desc, adj>>

(* a new leg of a stop-and-go run: the step monitors restart from the state the library call left *)
Stage == /\ Rec[l].ev = "Stage"
         /\ prev' = <<>>
         /\ UNCHANGED <<sp, end, tbl, under, off0, desc, viol, stats, icp, adj>>

(* a scripted Controller.tla run on the real SpeedLimitTrainSim, in the model's units: compared step by step *)
CtrlModel == LET pts == Recalc(desc.zones, desc["end"])[1]
                 m == Ctl!RunSeq(pts, <<desc.r, desc.ramp>>, [Ctl!CS0 EXCEPT !.ic = Len(pts)], desc.pol, 1, desc.n)
             IN [i \in 1..Len(m) |-> <<m[i].k, m[i].x, m[i].v, m[i].ic, m[i].ff, m[i].lim, m[i].tgt>>]
Ctrl == /\ Rec[l].ev = "Ctrl"
        /\ Report(Names(<< <<"EndOk", EndOkOf(Rec[l])>>, <<"NoInternalErr", NoInternalErrOf(Rec[l])>> >>))
        /\ stats' = [stats EXCEPT !.ctrl_runs = @ + 1, !.ctrl_steps = @ + Len(Rec[l].s),
                                  !.ctrl_drift = @ + (IF Rec[l].ok /\ Rec[l].exact /\ Rec[l].s = CtrlModel THEN 0 ELSE 1)]
        /\ UNCHANGED <<sp, end, tbl, under, prev, off0, desc, icp, adj>>

StepCap == /\ Rec[l].ev = "stepcap"
           /\ Report(<<"StepCap">>)
           /\ Bump("stepcaps")
           /\ UNCHANGED <<sp, end, tbl, under, prev, off0, desc, icp, adj>>

(* end of the harness-driven run *)
Final == /\ Rec[l].ev = "Final"
         /\ Report(Names(<< <<"EndOk", EndOkOf(Rec[l])>>,
                            <<"NoInternalErr", NoInternalErrOf(Rec[l])>>,
                            <<"StopWindow", Rec[l].ok => StopWindowOf(Rec[l], off0)>> >>))
         /\ Bump(IF Rec[l].ok THEN "runs_ok" ELSE "runs_err")
         /\ UNCHANGED <<sp, end, tbl, under, prev, off0, desc, icp, adj>>

(* the library's own walk() / walk_timed_path() on a clone *)
Walk == /\ Rec[l].ev = "Walk"
        /\ Report(Names(<< <<"EndOk", EndOkOf(Rec[l])>>,
                           <<"NoInternalErr", NoInternalErrOf(Rec[l])>>,
                           <<"StopWindow", Rec[l].ok => StopWindowOf(Rec[l], off0)>> >>))
        /\ stats' = [stats EXCEPT !.walks = @ + 1, !.walk_differs = @ + (IF Rec[l].same THEN 0 ELSE 1)]
        /\ UNCHANGED <<sp, end, tbl, under, prev, off0, desc, icp, adj>>

EstTimes == /\ Rec[l].ev = "EstTimes"
            /\ Report(Names(<< <<"EndOk", EndOkOf(Rec[l])>>, <<"NoInternalErr", NoInternalErrOf(Rec[l])>> >>))
            /\ Bump(IF Rec[l].ok THEN "est_ok" ELSE "est_err")
            /\ UNCHANGED <<sp, end, tbl, under, prev, off0, desc, icp, adj>>

Dispatch == /\ Rec[l].ev = "Dispatch"
            /\ Report(Names(<< <<"EndOk", EndOkOf(Rec[l])>>, <<"NoInternalErr", NoInternalErrOf(Rec[l])>> >>))
            /\ Bump(IF Rec[l].ok THEN "disp_ok" ELSE "disp_err")
            /\ UNCHANGED <<sp, end, tbl, under, prev, off0, desc, icp, adj>>

Panic == /\ Rec[l].ev \in {"panic", "abort", "timeout"}
         /\ Report(<<"NoPanic">>)
         /\ Bump("panics")
         /\ UNCHANGED <<sp, end, tbl, under, prev, off0, desc, icp, adj>>

End == /\ Rec[l].ev = "end"
       /\ stats' = [stats EXCEPT !.harness_err = @ + (IF Rec[l].result = "harness_err" THEN 1 ELSE 0)]
       /\ UNCHANGED <<sp, end, tbl, under, prev, off0, desc, viol, icp, adj>>

TNext == /\ l <= Len(Rec) /\ l' = l + 1
         /\ (Begin \/ Header \/ Build \/ Skipped \/ Table \/ Steps \/ Stage \/ Ctrl \/ StepCap \/ Final \/ Walk
             \/ EstTimes \/ Dispatch \/ Panic \/ End)
TSpec == TInit /\ [][TNext]_tvars

AtEnd == l > Len(Rec) => /\ PrintT(<<"VIOLS", ToJson(viol)>>)
                         /\ PrintT(<<"STATS", ToJson(stats)>>)
Accepted == IF TLCGet("stats").diameter - 1 = Len(Rec) THEN TRUE
            ELSE Print(<<"FIRST-UNMATCHED", TLCGet("stats").diameter, Rec[TLCGet("stats").diameter]>>, FALSE)
=============================================================================
