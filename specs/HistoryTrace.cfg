SPECIFICATION TSpec
CONSTANTS
  Fault = "none"
  Kinds = {}
  Comps = {}
  Intervals = {}
  MaxActs = 0
  MaxSets = 0
  Cons = {}
INVARIANT AtEnd
POSTCONDITION Accepted
CHECK_DEADLOCK FALSE
