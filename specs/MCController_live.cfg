\* liveness: under weak fairness of Step every run ends (halts, or walk_internal's condition becomes false);
\* together with CStopWindow: <>(stopped in the window). Unconstrained forces, profiles of <= 3 zones.
SPECIFICATION CFairSpec
CONSTANTS
  Variant = "catchup"
  E = 0
  VPerO = 1
  MaxZ = 3
  Lens <- Q_Lens
  Lims <- Q_Lims
  Domain = "admitted"
  Forces <- X_Forces
  Envs <- X_Envs
  Window = 24
  TLen = 1
  Free = TRUE
  Policies = {}
  MaxSteps = 0
INVARIANT CStopWindow
PROPERTY Terminates
CHECK_DEADLOCK FALSE
