SPECIFICATION Spec
CONSTANTS
  N = 4
  W = 3
  Rounds = 3
  Variant = "isolated"
INVARIANT TypeOK
INVARIANT SingleAssignment
INVARIANT ElemSerial
INVARIANT InputsUntouched
INVARIANT ErrIsolated
INVARIANT AllWalked
INVARIANT Disjoint

CHECK_DEADLOCK FALSE
