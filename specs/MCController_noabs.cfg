\* EXPECTED TO FAIL: recalc without the .abs() in the test that decides whether a braking curve is needed
\* (Variant = "noabs"): after a sign-encoded zone no curve is built, the train reaches the slower zone too fast.
\* Used by the self-test only.
SPECIFICATION CSpec
CONSTANTS
  Variant = "noabs"
  E = 0
  VPerO = 1
  MaxZ = 3
  Lens <- P_Lens
  Lims <- S_Lims
  Domain = "admitted"
  Forces <- X_Forces
  Envs <- X_Envs
  Window = 24
  TLen = 1
  Free = TRUE
  Policies = {}
  MaxSteps = 0
INVARIANT CPosted
INVARIANT CNoPanic
CHECK_DEADLOCK FALSE
