SPECIFICATION Spec
CONSTANTS
  Fault = "none"
  Kinds <- Slts
  Comps <- AllComps
  Intervals <- Iv4
  MaxActs = 8
  Cons <- Cons1
  MaxSets = 2
INVARIANT SameLength
INVARIANT SameStep
INVARIANT CountersEqual
INVARIANT StepIndex
INVARIANT SavedCount
INVARIANT Entries
INVARIANT DisabledEmpty
INVARIANT Propagated
INVARIANT Emit
CHECK_DEADLOCK FALSE
