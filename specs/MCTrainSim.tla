----------------------------- MODULE MCTrainSim -----------------------------
(* Model-checking shell for TrainSim: constant sets of the bounded configs and the emission of     *)
(* every finished Level-B behaviour as a replayable case (spec -> implementation).                  *)
EXTENDS TrainSim, Json

L123 == {1, 2, 3}
S12  == {2, 4}             \* segment lengths 1 and 2 units (in half units)
R3   == {-1, 0, 1}
R2   == {-1, 2}
T13  == {2, 6}             \* train of 1 and of 3 units: shorter and longer than the segments
T1   == {2}
P3   == {-64, 0, 128}
None == {}

(* (route, position sequence): link lengths in units of 16 m, fronts in units of 8 m *)
EmitLocate == LocateDone =>
  PrintT(<<"REPLAY", ToJson([kind |-> "locate",
                             lens |-> [i \in 1..Len(hdr.links) |-> hdr.links[i].len \div 2],
                             pos |-> mb.pos])>>)
(* (profile, train length, move sequence): segment lengths / train length in units of 16 m, rises  *)
(* in 1/4 m, moves <<dir (0 Fwd, 1 Bwd, 2 Unk), front in units of 8 m>>                             *)
EmitStrap == StrapDone =>
  PrintT(<<"REPLAY", ToJson([kind |-> "strap",
                             segs |-> [i \in 1..(NP(hdr) - 1) |->
                                         <<(Pts(hdr)[i + 1][1] - Pts(hdr)[i][1]) \div 2, Pts(hdr)[i + 1][2] - Pts(hdr)[i][2]>>],
                             tl |-> hdr.len \div 2,
                             moves |-> mb.moves])>>)
(* (units handed to Consist::new, units handed to set_loco_vec): 0 diesel, 1 battery-electric *)
KindCode(k) == IF k = "bel" THEN 1 ELSE 0
EmitRelist == RelistDone =>
  PrintT(<<"REPLAY", ToJson([kind |-> "relist", u0 |-> [i \in 1..Len(mb.u0) |-> KindCode(mb.u0[i])],
                             u |-> [i \in 1..Len(mb.u) |-> KindCode(mb.u[i])], d |-> cur.dist])>>)
=============================================================================
