SPECIFICATION Spec
CONSTANTS
  Recorded = FALSE
  Fault = "none"
  Lims <- LimOn
  Policies <- Both
  Ratings <- R123
  ConvStarts <- CS2
  BelStarts <- BS3
  MinUnits = 1
  MaxUnits = 2
  MaxSteps = 3
  WarmClasses <- Warm
  Classes <- AllClasses
  ThinMod = 4
INVARIANT TypeOK
INVARIANT Sum
INVARIANT RangePos
INVARIANT RangeNeg
INVARIANT Zero
INVARIANT NoOpposite
INVARIANT Regen
INVARIANT BatteryFirst
INVARIANT EmitThin
CHECK_DEADLOCK FALSE
