SPECIFICATION Spec
CONSTANTS
  N = 6
  W = 4
  Rounds = 2
  Variant = "isolated"
INVARIANT TypeOK
INVARIANT SingleAssignment
INVARIANT ElemSerial
INVARIANT InputsUntouched
INVARIANT ErrIsolated
INVARIANT AllWalked
INVARIANT Disjoint
CHECK_DEADLOCK FALSE
