SPECIFICATION Spec
CONSTANTS
  Fault = "con_early_return"
  Kinds <- Slts
  Comps <- OneComp
  Intervals <- Iv4
  MaxActs = 4
  Cons <- ConsF
  MaxSets = 1
INVARIANT SameLength
INVARIANT SameStep
INVARIANT CountersEqual
INVARIANT StepIndex
INVARIANT SavedCount
INVARIANT Entries
INVARIANT DisabledEmpty
INVARIANT Propagated

CHECK_DEADLOCK FALSE
