SPECIFICATION Spec
CONSTANTS MaxTrains = 3
INVARIANT Emit
CHECK_DEADLOCK FALSE
