SPECIFICATION Spec
CONSTANTS
  Variant = "fixed"
  Trains <- QA_Trains
  LinkLens <- QA_LinkLens
  Speeds <- QA_Speeds
  Gates <- QA_Gates
  MaxLinks = 1
  MaxR = 3
INVARIANT Safe
INVARIANT Exact
INVARIANT Canonical
INVARIANT Functional
INVARIANT Emit
CHECK_DEADLOCK FALSE
