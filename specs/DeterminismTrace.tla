-------------------------- MODULE DeterminismTrace --------------------------
(* Implementation -> spec for C18. The harness (harness/src/bin/avh_determinism.rs) executes      *)
(* every input twice in-process and once in a second process, and every batch of locomotive       *)
(* simulations serially and under rayon pools of 1, 2, 3, 8, 16 threads; it logs digests only.    *)
(* Each line is bound to Determinism's variables by a refinement mapping and Determinism's OWN     *)
(* invariants are evaluated on the bound state:                                                   *)
(*   Run   line: Out = <<ok, digest>>; result / clash as in Commit  ->  SingleAssignment           *)
(*         how = inproc<k> | proc2 (cls "rep"): the whole input executed again;                     *)
(*         how = pool<n>  (cls "pool"):  a consist of 3-7 locomotives with pairwise different        *)
(*               ratings stepped (set_pwr_aux, set_cur_pwr_max_out, solve_energy_consumption, step)  *)
(*               inside a rayon pool of n = 1, 2, 4, 7 workers; digest of the whole consist (every   *)
(*               state field of the consist and of each locomotive, every saved step);              *)
(*         how = build<k> (cls "build"): a train of >= 3 car types built again from separately       *)
(*               constructed equal inputs (fresh Vec<RailVehicle>, fresh n_cars_by_type map filled   *)
(*               in the k-th rotation of the insertion order); digest of the whole simulation.       *)
(*         A failure is reported as SingleAssignment, SingleAssignment@pool, SingleAssignment@build. *)
(*   Batch line: for element e of the recorded batch                                              *)
(*        res[e] = Serial(e)  if its digest equals the digest of e walked alone (Solo line)       *)
(*               = None       if its digest equals the digest of the pristine element             *)
(*               = <<"bad",e>> otherwise;                                                         *)
(*        inp[e] = Inp0[e]    if its input digest is the pristine or the walked-alone one         *)
(*                            (a walk normalises e's own FuelConverter.pwr_out_max_init)          *)
(*               = -1         otherwise;                                                          *)
(*        fail = the element reported if it is one that fails alone, else the first such;         *)
(*        reported = the index named by the returned error; the round is over                     *)
(*     ->  ElemSerial, InputsUntouched, ErrIsolated, AllWalked, plus ParallelEqualsSerial on the   *)
(*         whole-batch digest when no element fails. Elements beyond the recorded batch (N is the  *)
(*         largest batch size) are padded with their serial result.                               *)
(* Which of the OTHER elements were walked when one fails is schedule-dependent in the code (as in *)
(* the model) and is only counted (stats.err_others_walked / err_others_untouched).               *)
EXTENDS Determinism, Json, IOUtils

Rec == ndJsonDeserialize(IOEnv.TRACE)

VARIABLES l, solo, bres, viol, stats
tvars == <<fail, inp, res, pool, busy, full, reported, round, result, clash, l, solo, bres, viol, stats>>

None3 == <<"none", 0, 0>>
Stat0 == [cases |-> 0, runs |-> 0, runs_pool |-> 0, runs_build |-> 0, cases_pool |-> 0, cases_build |-> 0, runs_proc2 |-> 0, runs_err |-> 0, solos |-> 0, solo_err |-> 0,
          batches |-> 0, batches_par |-> 0, batches_err |-> 0, batches_multi_fail |-> 0,
          err_others_walked |-> 0, err_others_untouched |-> 0, serial_order |-> 0, panics |-> 0]

TInit == /\ l = 1 /\ solo = <<>> /\ bres = None3 /\ viol = <<>> /\ stats = Stat0
         /\ fail = 0 /\ inp = Inp0 /\ res = [e \in Elems |-> None] /\ pool = Elems
         /\ busy = [w \in Workers |-> 0] /\ full = FALSE /\ reported = 0
         /\ round = 1 /\ result = None3 /\ clash = FALSE

Names(checks) == LET F == SelectSeq(checks, LAMBDA c : ~c[2]) IN [i \in 1..Len(F) |-> F[i][1]]
Report(names) == viol' = viol \o [i \in 1..Len(names) |-> <<l, Rec[l].case, names[i]>>]
Quiet == UNCHANGED <<fail, inp, res, pool, busy, full, reported, round>>

Begin == /\ Rec[l].ev = "begin"
         /\ result' = None3 /\ clash' = FALSE /\ solo' = <<>> /\ bres' = None3
         /\ stats' = [stats EXCEPT !.cases = @ + 1]
         /\ Quiet /\ UNCHANGED viol

(* Run(input, how): requires result[input] \in {None, out} *)
RunEv == /\ Rec[l].ev = "Run"
         /\ LET out == <<IF Rec[l].ok THEN "ok" ELSE "err", Rec[l].d[1], Rec[l].d[2]>> IN
            /\ result' = IF result = None3 THEN out ELSE result
            /\ clash' = (result # None3 /\ result # out)
         /\ Report(Names(<< <<IF Rec[l].cls = "rep" THEN "SingleAssignment" ELSE "SingleAssignment@" \o Rec[l].cls,
                              SingleAssignment'>> >>))
         /\ stats' = [stats EXCEPT !.runs = @ + 1,
                                   !.runs_pool = @ + (IF Rec[l].cls = "pool" THEN 1 ELSE 0),
                                   !.runs_build = @ + (IF Rec[l].cls = "build" THEN 1 ELSE 0),
                                   \* cases ISSUED with the pool / build comparison (first such line of the case)
                                   !.cases_pool = @ + (IF Rec[l].cls = "pool" /\ Rec[l].first THEN 1 ELSE 0),
                                   !.cases_build = @ + (IF Rec[l].cls = "build" /\ Rec[l].first THEN 1 ELSE 0),
                                   !.runs_proc2 = @ + (IF Rec[l].how = "proc2" THEN 1 ELSE 0),
                                   !.runs_err = @ + (IF Rec[l].ok THEN 0 ELSE 1)]
         /\ Quiet /\ UNCHANGED <<solo, bres>>

SoloEv == /\ Rec[l].ev = "Solo"
          /\ solo' = Append(solo, Rec[l])
          /\ Report(Names(<< <<"SoloInOrder", Rec[l].j = Len(solo) + 1>> >>))
          /\ stats' = [stats EXCEPT !.solos = @ + 1, !.solo_err = @ + (IF Rec[l].ok THEN 0 ELSE 1)]
          /\ Quiet /\ UNCHANGED <<result, clash, bres>>

BatchEv ==
  /\ Rec[l].ev = "Batch"
  /\ LET r  == Rec[l]
         n  == r.len
         F  == {j \in 1..Len(solo) : ~solo[j].ok}
         ok == n = Len(solo) /\ n <= N /\ Len(r.elems) = n
         \* Serial(e)' : the serial result under THIS line's failing element (fail' is bound first)
         cls(e) == IF e > n THEN Serial(e)'
                   ELSE IF r.elems[e][1] = solo[e].d THEN Serial(e)'
                   ELSE IF r.elems[e][1] = solo[e].dinit THEN None
                   ELSE <<"bad", e>>
         out == <<IF r.ok THEN "ok" ELSE "err", r.d[1], r.d[2]>>
     IN /\ fail' = IF ~ok \/ F = {} THEN 0 ELSE IF r.err_idx \in F THEN r.err_idx ELSE CHOOSE j \in F : \A k \in F : j <= k
        /\ res' = IF ok THEN [e \in Elems |-> cls(e)] ELSE [e \in Elems |-> <<"bad", e>>]
        /\ inp' = IF ok THEN [e \in Elems |-> IF e > n \/ r.elems[e][2] \in {solo[e].dinp0, solo[e].dinp}
                                              THEN Inp0[e] ELSE 0 - 1]
                  ELSE [e \in Elems |-> 0 - 1]
        /\ reported' = r.err_idx
        /\ pool' = {} /\ busy' = [w \in Workers |-> 0] /\ full' = (F # {}) /\ round' = 1
        /\ bres' = IF bres = None3 THEN out ELSE bres
        /\ Report(Names(<< <<"BatchShape", ok>>,
                           <<"ElemSerial", ElemSerial'>>,
                           <<"InputsUntouched", InputsUntouched'>>,
                           <<"ErrIsolated", ErrIsolated' /\ (F # {} => ~r.ok) /\ (F = {} => r.ok)>>,
                           <<"AllWalked", AllWalked'>>,
                           <<"ParallelEqualsSerial", (F = {} /\ bres # None3) => out = bres>> >>))
        /\ LET others == (1..n) \ {fail'}
               walked == Cardinality({e \in others : ok /\ res'[e] = Serial(e)'})
           IN stats' = [stats EXCEPT !.batches = @ + 1,
                          !.batches_par = @ + (IF r.how = "par" THEN 1 ELSE 0),
                          !.batches_err = @ + (IF F # {} THEN 1 ELSE 0),
                          !.batches_multi_fail = @ + (IF Cardinality(F) > 1 THEN 1 ELSE 0),
                          !.err_others_walked = @ + (IF F # {} THEN walked ELSE 0),
                          !.err_others_untouched = @ + (IF F # {} THEN Cardinality(others) - walked ELSE 0),
                          !.serial_order = @ + (IF r.how = "serial" /\ F # {} /\ ok /\
                                                   (\A e \in 1..n : (e < fail' => res'[e] = Serial(e)') /\ (e > fail' => res'[e] = None))
                                                THEN 1 ELSE 0)]
  /\ UNCHANGED <<result, clash, solo>>

Panic == /\ Rec[l].ev \in {"panic", "abort", "timeout"}
         /\ Report(<<"NoPanic">>)
         /\ stats' = [stats EXCEPT !.panics = @ + 1]
         /\ Quiet /\ UNCHANGED <<result, clash, solo, bres>>

End == /\ Rec[l].ev = "end"
       /\ IF Rec[l].result = "harness_err" THEN Report(<<"HarnessOk">>) ELSE UNCHANGED viol
       /\ Quiet /\ UNCHANGED <<result, clash, solo, bres, stats>>

TNext == /\ l <= Len(Rec) /\ l' = l + 1
         /\ (Begin \/ RunEv \/ SoloEv \/ BatchEv \/ Panic \/ End)
TSpec == TInit /\ [][TNext]_tvars

AtEnd == l > Len(Rec) => /\ PrintT(<<"VIOLS", ToJson(viol)>>)
                         /\ PrintT(<<"STATS", ToJson(stats)>>)
Accepted == IF TLCGet("stats").diameter - 1 = Len(Rec) THEN TRUE
            ELSE Print(<<"FIRST-UNMATCHED", TLCGet("stats").diameter, Rec[TLCGet("stats").diameter]>>, FALSE)
=============================================================================
