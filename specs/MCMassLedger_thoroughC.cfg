SPECIFICATION Spec
CONSTANTS
  Variant = "repaired"
  CompInits <- CompInitsQ
  LocoInits <- None
  LoadFiles <- None
  CompOps <- CompOpsAll
  LocoOps <- LocoOpsAll
  Targets <- One
  Near = TRUE
  MaxOps = 4
INVARIANT ComponentConsistent
INVARIANT LocoConsistent
INVARIANT Traction
INVARIANT ConsistMass
INVARIANT ConsistForce
INVARIANT TrainStatic
INVARIANT Atomic
INVARIANT OptionSemantics
INVARIANT Frame
INVARIANT EmitThird
CHECK_DEADLOCK FALSE
