SPECIFICATION Spec
CONSTANTS
  Variant = "repaired"
  CompInits <- CompInitsAll
  LocoInits <- None
  LoadFiles <- LoadComps
  CompOps <- CompOpsAll
  LocoOps <- LocoOpsAll
  Targets <- One
  MaxOps = 4
INVARIANT ComponentConsistent
INVARIANT LocoConsistent
INVARIANT Traction
INVARIANT ConsistMass
INVARIANT ConsistForce
INVARIANT TrainStatic
INVARIANT Atomic
INVARIANT OptionSemantics
INVARIANT Frame
INVARIANT Emit
CHECK_DEADLOCK FALSE
