SPECIFICATION Spec
CONSTANTS
  Fault = "step_first"
  Kinds <- Slts
  Comps <- OneComp
  Intervals <- Iv4
  MaxActs = 4
  Cons <- Cons1
  MaxSets = 1
INVARIANT SameLength
INVARIANT SameStep
INVARIANT CountersEqual
INVARIANT StepIndex
INVARIANT SavedCount
INVARIANT Entries
INVARIANT DisabledEmpty
INVARIANT Propagated

CHECK_DEADLOCK FALSE
