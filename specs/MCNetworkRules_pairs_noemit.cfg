SPECIFICATION Spec
CONSTANTS
  Variant = "fixed"
  Bases <- PQ_Bases
  MaxFaults = 2
INVARIANT BaseValid
INVARIANT FaultInvalid
INVARIANT BenignValid
INVARIANT NonFiniteTable
INVARIANT Conforms
INVARIANT ImplNoPanic
CHECK_DEADLOCK FALSE
