SPECIFICATION Spec
CONSTANTS
  Variant = "ascoded"
  CompInits <- None
  LocoInits <- None
  LoadFiles <- AllLoads
  CompOps <- CompOpsAll
  LocoOps <- LocoOpsQ
  Targets <- One
  Near = FALSE
  MaxOps = 2
INVARIANT Traction

CHECK_DEADLOCK FALSE
