SPECIFICATION Spec
CONSTANTS
  Variant = "ascoded"
  CompInits <- None
  LocoInits <- None
  LoadFiles <- AllLoads
  CompOps <- CompOpsAll
  LocoOps <- LocoOpsQ
  Targets <- One
  MaxOps = 2
INVARIANT Traction

CHECK_DEADLOCK FALSE
