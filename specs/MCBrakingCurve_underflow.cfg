\* EXPECTED TO FAIL: with the original strict exit test (Variant = "pinned", before the F-C03-3 repair) a curve point
\* landing exactly on the start of the path underflows recalc's index (zones 4 | 2 with the first zone 3 long).
\* Used by the self-test only, never by the check.
SPECIFICATION Spec
CONSTANTS
  Variant = "pinned"
  E = 0
  VPerO = 1
  MaxZ = 3
  Lens <- P_Lens
  Lims <- P_Lims
  Domain = "admitted"
INVARIANT NoUnderflow
CHECK_DEADLOCK FALSE
