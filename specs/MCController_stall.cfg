\* EXPECTED TO FAIL: with a stopping window shorter than the stretch on which the table already demands
\* speed_target = 0, a train that brakes with friction AND dynamic brakes comes to rest before the window and
\* never moves again (F-C03-2): CProgress / CStopWindow. Used by the self-test only.
SPECIFICATION CSpec
CONSTANTS
  Variant = "catchup"
  E = 0
  VPerO = 1
  MaxZ = 2
  Lens <- Q_Lens
  Lims <- Q_Lims
  Domain = "admitted"
  Forces <- X_Forces
  Envs <- X_Envs
  Window = 20
  TLen = 1
  Free = TRUE
  Policies = {}
  MaxSteps = 0
INVARIANT CProgress
INVARIANT CStopWindow
CHECK_DEADLOCK FALSE
