SPECIFICATION Spec
CONSTANTS
  Variant = "pinned"
  Bases <- VC_Bases
  MaxFaults = 1
INVARIANT Conforms
CHECK_DEADLOCK FALSE
