----------------------------- MODULE MCDispatch -----------------------------
(* Bounded configurations of the abstract planner (Dispatch.tla, Level B).                 *)
EXTENDS Dispatch

Nd(k, l, d) == [k |-> k, l |-> l, d |-> d]
\* a route over links ls: Arrive(l) -d1-> Clear(l) -d2-> Arrive(next) ...; first link: the train starts inside it
RECURSIVE RouteOf(_, _)
RouteOf(ls, first) == IF ls = <<>> THEN <<>>
                      ELSE << Nd(1, Head(ls), IF first THEN 0 ELSE 1),
                              Nd(2, Head(ls), IF Len(ls) = 1 THEN 0 ELSE IF first THEN 2 ELSE 1) >> \o RouteOf(Tail(ls), FALSE)

\* ---- N1: single track - siding - single track (the shipped simple corridor), no lockouts
N1_Links == 1..8
N1_Flip == [l \in N1_Links |-> 9 - l]
N1_Lock == [l \in N1_Links |-> <<>>]
N1_E == << RouteOf(<<1, 2, 4>>, TRUE), RouteOf(<<1, 3, 4>>, TRUE) >>
N1_W == << RouteOf(<<5, 6, 8>>, TRUE), RouteOf(<<5, 7, 8>>, TRUE) >>
N1_Routes(nt) == [t \in 1..nt |-> IF t % 2 = 1 THEN N1_E ELSE N1_W]
N1_RoutesSame(nt) == [t \in 1..nt |-> N1_E]
N1_RoutesEEW(nt) == [t \in 1..nt |-> IF t = 3 THEN N1_W ELSE N1_E]
Dep(nt) == [t \in 1..nt |-> t - 1]
DepTie(nt) == [t \in 1..nt |-> 0]

\* ---- N2: the same with foul links and lockouts at both switches
\* fwd 1 -> (2,3,4 | 5,6,7) -> 8 ; rev 9 -> (10,11,12 | 13,14,15) -> 16 ; flip l = 17 - l
N2_Links == 1..16
N2_Flip == [l \in N2_Links |-> 17 - l]
N2_LockF == [l \in 1..8 |-> CASE l = 2 -> <<5, 12>> [] l = 5 -> <<2, 15>> [] l = 4 -> <<7, 10>> [] l = 7 -> <<4, 13>> [] OTHER -> <<>>]
N2_Lock == [l \in N2_Links |-> IF l <= 8 THEN N2_LockF[l]
                                ELSE [i \in 1..Len(N2_LockF[17 - l]) |-> 17 - N2_LockF[17 - l][i]]]
N2_E == << RouteOf(<<1, 2, 3, 4, 8>>, TRUE), RouteOf(<<1, 5, 6, 7, 8>>, TRUE) >>
N2_W == << RouteOf(<<9, 10, 11, 12, 16>>, TRUE), RouteOf(<<9, 13, 14, 15, 16>>, TRUE) >>
N2_Routes(nt) == [t \in 1..nt |-> IF t % 2 = 1 THEN N2_E ELSE N2_W]

\* a train longer than its last link: no final Clear node
RouteLong(ls) == LET r == RouteOf(ls, TRUE) IN SubSeq(r, 1, Len(r) - 1)
\* ---- NL: single track, train 1 over-long (leaves the network on an Arrive node), train 2 follows it, train 3 opposes
NL_Routes(nt) == [t \in 1..nt |-> IF t = 1 THEN << RouteLong(<<1, 2, 3>>) >>
                                   ELSE IF t = 3 THEN << RouteOf(<<4, 5, 6>>, TRUE) >> ELSE << RouteOf(<<1, 2, 3>>, TRUE) >>]
R_nl_3 == NL_Routes(3)
D_nl_3 == Dep(3)

\* ---- N0: plain single track of three links, followers and opposing trains
N0_Links == 1..6
N0_Flip == [l \in N0_Links |-> 7 - l]
N0_Lock == [l \in N0_Links |-> <<>>]
N0_E == << RouteOf(<<1, 2, 3>>, TRUE) >>
N0_W == << RouteOf(<<4, 5, 6>>, TRUE) >>
N0_Routes(nt) == [t \in 1..nt |-> IF t = 3 THEN N0_W ELSE N0_E]

\* ---- N1F: N1 with the Fake marker nodes of the estimated-time network: the alternate branch is opened by a Fake node
\* after the split (Clear 1) and the two branches meet in a Fake join node before the common Clear event
WithFake(r, i) == SubSeq(r, 1, i - 1) \o << Nd(3, 0, 0) >> \o SubSeq(r, i, Len(r))
N1F_E == << WithFake(RouteOf(<<1, 2, 4>>, TRUE), 6), WithFake(WithFake(RouteOf(<<1, 3, 4>>, TRUE), 3), 7) >>
N1F_W == << WithFake(RouteOf(<<5, 6, 8>>, TRUE), 6), WithFake(WithFake(RouteOf(<<5, 7, 8>>, TRUE), 3), 7) >>
N1F_Routes(nt) == [t \in 1..nt |-> IF t = 3 THEN N1F_W ELSE N1F_E]
R_n1f_3 == N1F_Routes(3)
D_n1f_3 == Dep(3)
R_n1f_2 == [t \in 1..2 |-> N1F_E]
D_n1f_2 == Dep(2)

R_n1_2 == N1_Routes(2)
D_n1_2 == Dep(2)
R_n1_3 == N1_Routes(3)
D_n1_3 == Dep(3)
R_n1_3tie == N1_Routes(3)
D_n1_3tie == DepTie(3)
R_n1_3same == N1_RoutesSame(3)
D_n1_3same == Dep(3)
R_n1_4 == N1_Routes(4)
D_n1_4 == Dep(4)
R_n1_eew == N1_RoutesEEW(3)
D_n1_eew == Dep(3)
R_n2_2 == N2_Routes(2)
D_n2_2 == Dep(2)
R_n2_3 == N2_Routes(3)
D_n2_3 == Dep(3)
R_n0_3 == N0_Routes(3)
D_n0_3 == Dep(3)

\* liveness in the model: every fair schedule either gets every train out or is stuck for good
NoAdvance == \A t \in 1..NT : ~ENABLED Advance(t) /\ ~ENABLED AdvanceFake(t)
Progress == <>(AllExited \/ [](NoAdvance \/ AllExited))
=============================================================================
