SPECIFICATION TSpec
CONSTANTS
  DeepKinds = {}
  ShallowKinds = {}
  StaticKinds = {}
  Depth = 0
  ShallowDepth = 0
  Variant = "faithful"
INVARIANT AtEnd
POSTCONDITION Accepted
CHECK_DEADLOCK FALSE
