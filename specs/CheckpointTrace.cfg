SPECIFICATION TSpec
CONSTANTS
  DeepKinds = {}
  ShallowKinds = {}
  StaticKinds = {}
  Depth = 0
  ShallowDepth = 0
  Media = {"mem"}
  Sizes = {"small"}
  BigSaves = 1
  Variant = "faithful"
INVARIANT AtEnd
POSTCONDITION Accepted
CHECK_DEADLOCK FALSE
