------------------------------ MODULE Dispatch ------------------------------
(***************************************************************************)
(* Meet-pass dispatch (C04 conflicting occupancy, C05 plan validity).       *)
(*                                                                          *)
(* Level A — the properties — is written over a *network header* h and the  *)
(* trains' *timed plans* (what TrainDisp.disp_path is): a plan is a sequence *)
(* of nodes <<kind, link, T, est>>, kind 1 = Arrive (front reaches the       *)
(* entry of link), 2 = Clear (tail passes the entry of link), 3 = Fake;      *)
(* T = INF for a node not timed yet. A train holds link L from the time of   *)
(* its Arrive(L) node until its tail has left L, i.e. the time of the Clear  *)
(* node of the next link it enters (or its exit time on the last link).      *)
(* The same operators are evaluated on the Level-B model below and on every  *)
(* snapshot the real run_dispatch produced (DispatchTrace.tla).              *)
(*                                                                          *)
(* Level B — an abstract planner with exactly the gating rules of            *)
(* TrainDisp::advance (advance_rewind.rs): trains time their nodes           *)
(* deterministically, T[n+1] = max(T[n] + dur[n], gates), and the planner's  *)
(* nondeterminism is which train moves, how far, whether it is rewound or    *)
(* re-routed. TLC explores every such schedule on small networks.            *)
(***************************************************************************)
EXTENDS Integers, Sequences, FiniteSets, TLC

INF == 1073741824

Max2(a, b) == IF a > b THEN a ELSE b
Min2(a, b) == IF a < b THEN a ELSE b
SetMinI(S) == CHOOSE m \in S : \A c \in S : m <= c
SetMaxI(S) == CHOOSE m \in S : \A c \in S : m >= c
RangeOf(s) == {s[i] : i \in 1..Len(s)}

----------------------------------------------------------------------------
(* Level A, part 1: occupancy windows of a plan *)

ArrIdx(p) == {i \in 1..Len(p) : p[i][1] = 1 /\ p[i][3] < INF}
NextArr(p, i) == LET J == {j \in 1..Len(p) : p[j][1] = 1 /\ j > i} IN IF J = {} THEN 0 ELSE SetMinI(J)
\* first Clear node of link L after position i (0 if none)
ClearOf(p, i, L) == LET C == {j \in 1..Len(p) : p[j][1] = 2 /\ p[j][2] = L /\ j > i}
                    IN IF C = {} THEN 0 ELSE SetMinI(C)
TimeAt(p, j) == IF j = 0 THEN INF ELSE p[j][3]
ExitT(p) == p[Len(p)][3]                         \* time of the last node: the train has left

\* window of the Arrive node at position i: [link, ae, ax, ce, cx]
Window(p, i) ==
  LET L  == p[i][2]
      na == NextArr(p, i)
  IN [link |-> L, ae |-> p[i][3],
      \* tail inside L: its Clear(L) node; a train longer than L has none and counts as inside only when it leaves
      ce |-> LET c == ClearOf(p, i, L) IN IF c = 0 THEN ExitT(p) ELSE p[c][3],
      ax |-> IF na = 0 THEN ExitT(p) ELSE p[na][3],
      \* the tail leaves L when it passes the entry of the next link; a train longer than the rest of its route has
      \* no such event (no Clear node for the next link in its plan at all): it then holds L until it leaves the network
      cx |-> IF na = 0 THEN ExitT(p)
             ELSE LET c == ClearOf(p, na, p[na][2]) IN IF c = 0 THEN ExitT(p) ELSE p[c][3]]
Windows(p) == {Window(p, i) : i \in ArrIdx(p)}

Overlap(a, b) == a.ae < b.cx /\ b.ae < a.cx

(* C04 *)
OppExclusiveOf(h, plans) ==
  \A t \in 1..Len(plans) : \A u \in 1..Len(plans) : t < u =>
     \A a \in Windows(plans[t]) : \A b \in Windows(plans[u]) :
        b.link = h.flip[a.link] => ~Overlap(a, b)

LockoutExclusiveOf(h, plans) ==
  \A t \in 1..Len(plans) : \A u \in 1..Len(plans) : t # u =>
     \A a \in Windows(plans[t]) : \A b \in Windows(plans[u]) :
        b.link \in RangeOf(h.lock[a.link]) => ~Overlap(a, b)

\* a and b use the same directed link, a first; "following each other" = no opposing use of the
\* segment between their entries (the code applies spacing only when the previous user ran the same way)
Following(h, plans, a, b) ==
  ~\E w \in 1..Len(plans) : \E o \in Windows(plans[w]) :
       o.link = h.flip[a.link] /\ a.ae <= o.ae /\ o.ae <= b.ae

HeadwayOk(h, a, b) ==
  /\ (a.ce < INF => b.ae >= a.ce + h.spacing)      \* enters >= spacing after the leader's tail is inside
  /\ (b.ax < INF => (a.cx < INF /\ b.ax >= a.cx + h.spacing))   \* leaves >= spacing after the leader has left
HeadwayOf(h, plans) ==
  \A t \in 1..Len(plans) : \A u \in 1..Len(plans) : t # u =>
     \A a \in Windows(plans[t]) : \A b \in Windows(plans[u]) :
        (a.link = b.link /\ (a.ae < b.ae \/ (a.ae = b.ae /\ t < u))) =>
           (HeadwayOk(h, a, b) \/ ~Following(h, plans, a, b))     \* cheap test first

\* never change order inside a segment
FifoOf(h, plans) ==
  \A t \in 1..Len(plans) : \A u \in 1..Len(plans) : t # u =>
     \A a \in Windows(plans[t]) : \A b \in Windows(plans[u]) :
        (a.link = b.link /\ a.ae < b.ae) => (a.ce <= b.ce /\ a.ax <= b.ax /\ a.cx <= b.cx)

MonotonePlanOf(plans) ==
  \A t \in 1..Len(plans) : \A i \in 1..(Len(plans[t]) - 1) :
     /\ (plans[t][i+1][3] < INF => plans[t][i][3] <= plans[t][i+1][3])
     /\ (plans[t][i][3] = INF => plans[t][i+1][3] = INF)         \* the timed part is a prefix

\* committed nodes never change (action property: old fixed prefix is a prefix of the new plan)
(* Committed = the nodes below a train's fixed index. What is committed are the link EVENTS (Arrive / Clear): the Fake   *)
(* marker that opens an alternate branch carries no event and is taken out again, although timed and below the fixed  *)
(* index, when a train waiting in front of a switch is routed back onto the primary branch (seen on the composite     *)
(* networks: a train standing on its origin link in front of a locked siding).                                        *)
IsEventNode(n) == n[1] # 3
CommittedStableOf(oldplans, oldfixed, plans) ==
  \A t \in 1..Len(plans) :
     LET old == SelectSeq(SubSeq(oldplans[t], 1, oldfixed[t]), IsEventNode)
         new == SelectSeq(plans[t], IsEventNode)
     IN Len(old) <= Len(new) /\ \A i \in 1..Len(old) : new[i] = old[i]

----------------------------------------------------------------------------
(* Level A, part 2: validity of a returned plan (C05). rp = sequence over trains of sequences of *)
(* <<link, time>>; tr = sequence over trains of [origs, dests, depart].                           *)
RouteValidOf(h, tr, rp) ==
  /\ Len(rp) = Len(tr)
  /\ \A t \in 1..Len(rp) :
       LET p == rp[t] IN
       /\ Len(p) >= 1
       /\ p[1][1] \in RangeOf(tr[t].origs)
       /\ p[1][2] >= tr[t].depart
       /\ p[Len(p)][1] \in RangeOf(tr[t].dests)
       /\ \A k \in 1..(Len(p) - 1) :
            /\ p[k+1][1] # 0
            /\ p[k+1][1] \in {h.next[p[k][1]], h.next_alt[p[k][1]]}
            /\ p[k][2] <= p[k+1][2]
       /\ \A k \in 1..Len(p) : p[k][2] < INF

\* est = sequence over trains of est-time node lists <<t, dur, dist, next, alt, prev, palt, link, type>> (0-based ids)
FreeRunOf(est, plans, tol) ==
  \A t \in 1..Len(plans) : \A i \in 1..(Len(plans[t]) - 1) :
     LET a == plans[t][i]  b == plans[t][i+1]  e == est[t][a[4] + 1] IN
     (e[4] = b[4] /\ b[3] < INF) => b[3] - a[3] >= e[2] - tol

\* every dispatch path is a walk of the train's own estimated-time network from its start node to its end node,
\* node events included (update_free_path may only splice in other walks of that network)
PlanIsWalkOf(est, plans) ==
  \A t \in 1..Len(plans) :
    LET p == plans[t]  ns == est[t] IN
    /\ Len(p) >= 1 /\ p[1][4] = 0 /\ p[Len(p)][4] = Len(ns) - 1
    /\ \A i \in 1..Len(p) : p[i][4] >= 0 /\ p[i][4] < Len(ns)
                            /\ ns[p[i][4] + 1][8] = p[i][2] /\ ns[p[i][4] + 1][9] = p[i][1]
    /\ \A i \in 1..(Len(p) - 1) : p[i+1][4] # 0 /\ p[i+1][4] \in {ns[p[i][4] + 1][4], ns[p[i][4] + 1][5]}

AllTimedOf(plans) == \A t \in 1..Len(plans) : \A i \in 1..Len(plans[t]) : plans[t][i][3] < INF

\* the returned plan is the Arrive projection of the final dispatch paths
ArriveSeq(p) == LET I == {i \in 1..Len(p) : p[i][1] = 1}
                IN [j \in 1..Cardinality(I) |->
                      LET i == CHOOSE i \in I : Cardinality({m \in I : m <= i}) = j IN <<p[i][2], p[i][3]>>]
ResultIsFinalPlanOf(plans, rp) == /\ Len(rp) = Len(plans)
                                  /\ \A t \in 1..Len(rp) : rp[t] = ArriveSeq(plans[t])

----------------------------------------------------------------------------
(* Level B: abstract planner *)
CONSTANTS NT,          \* number of trains
          Links,       \* set of directed links (1..n)
          Flip,        \* [Links -> Links]
          Lock,        \* [Links -> Seq(Links)]
          Routes,      \* [1..NT -> Seq(route)], route = Seq([k, l, d]): k = 1 Arrive / 2 Clear, d = duration to next node
          Depart,      \* [1..NT -> Nat]
          S, U, O,     \* spacing, start-up, lockout overlap margin
          Horizon,
          Rules        \* rules in force: {"flip","lock","prevce","lead","quiet","spacing","exitce","faketime"} = the code; fault configs drop one

VARIABLES auth,    \* [Links -> Seq([tr, ae, ax, ce, cx])]: link_disp_auths without the sentinel
          route,   \* [1..NT -> index into Routes[t]]
          pos,     \* [1..NT -> number of timed nodes] (disp_node_idx_free)
          T,       \* [1..NT -> Seq(time)] times of the timed nodes
          fixed    \* [1..NT -> committed prefix length] (disp_node_idx_fixed)
vars == <<auth, route, pos, T, fixed>>

Path(t) == Routes[t][route[t]]
H == [flip |-> Flip, lock |-> Lock, spacing |-> S]
PlanB(t) == [i \in 1..Len(Path(t)) |-> <<Path(t)[i].k, Path(t)[i].l, IF i <= pos[t] THEN T[t][i] ELSE INF, 0>>]
PlansB == [t \in 1..NT |-> PlanB(t)]

NewAuth(t, ae) == [tr |-> t, ae |-> ae, ax |-> INF, ce |-> INF, cx |-> INF]
LastOf(l) == auth[l][Len(auth[l])]
LastCx(l) == IF auth[l] = <<>> THEN -1 ELSE LastOf(l).cx
MyIdx(l, t) == SetMaxI({i \in 1..Len(auth[l]) : auth[l][i].tr = t})
PrevArrPos(t, n) == LET I == {i \in 1..(n-1) : Path(t)[i].k = 1} IN IF I = {} THEN 0 ELSE SetMaxI(I)
PrevClrPos(t, n) == LET I == {i \in 1..(n-1) : Path(t)[i].k = 2} IN IF I = {} THEN 0 ELSE SetMaxI(I)

\* update_occupancy, exit branch: a train that leaves the network releases every link it still holds; with the rule
\* "exitce" (the repaired code) its tail also counts as inside each of them from then on
ExitRelease(a, t, tau) ==
  [l \in Links |-> [i \in 1..Len(a[l]) |->
     IF a[l][i].tr = t /\ a[l][i].cx = INF
     THEN [a[l][i] EXCEPT !.cx = tau, !.ax = Min2(@, tau),
                          !.ce = IF "exitce" \in Rules THEN Min2(@, tau) ELSE @]
     ELSE a[l][i]]]

Init == /\ auth = [l \in Links |-> <<>>]
        /\ route = [t \in 1..NT |-> 1]
        /\ pos = [t \in 1..NT |-> 0]
        /\ T = [t \in 1..NT |-> <<>>]
        /\ fixed = [t \in 1..NT |-> 0]

\* discipline of run_dispatch's outer loop: at most one train has uncommitted nodes
Quiet(t) == "quiet" \in Rules => \A u \in 1..NT : u # t => pos[u] = fixed[u]

\* time one more node of train t (one iteration of the loop in TrainDisp::advance)
Advance(t) ==
  /\ Quiet(t) /\ pos[t] < Len(Path(t))
  /\ Path(t)[pos[t] + 1].k # 3
  /\ LET n    == pos[t] + 1
         nd   == Path(t)[n]
         base == IF n = 1 THEN Depart[t] ELSE T[t][n-1] + Path(t)[n-1].d
         L    == nd.l
     IN IF nd.k = 1 THEN
          LET prev == IF auth[L] = <<>> THEN [ce |-> -1, cx |-> -1] ELSE LastOf(L)
              fcx  == LastCx(Flip[L])
              fp   == PrevArrPos(t, n)
              fl   == IF fp = 0 THEN 0 ELSE Path(t)[fp].l
              lead == IF fl = 0 \/ MyIdx(fl, t) = 1 THEN [cx |-> -1] ELSE auth[fl][MyIdx(fl, t) - 1]
              lockcx == {LastCx(Lock[L][x]) : x \in 1..Len(Lock[L])}
          IN /\ ("flip" \in Rules => fcx < INF)                                \* opposing train has fully cleared the segment
             /\ ("lock" \in Rules => \A c \in lockcx : c < INF)                \* so has every train on a locked-out link
             /\ ("prevce" \in Rules => prev.ce < INF)                            \* the leader's tail is inside the link
             /\ ("lead" \in Rules => lead.cx < INF)                            \* the train ahead of us on the link we leave has left it
             /\ LET Sp   == IF "spacing" \in Rules THEN S ELSE 0
                    gate == IF prev.cx >= fcx THEN (IF prev.ce >= 0 /\ prev.ce < INF THEN prev.ce + Sp ELSE 0) ELSE (IF fcx < INF THEN fcx + U ELSE 0)
                    lg   == IF lockcx = {} THEN 0 ELSE SetMaxI({IF c >= 0 /\ c < INF THEN c + O + U ELSE 0 : c \in lockcx})
                    tau  == Max2(Max2(Max2(base, gate), lg), IF lead.cx >= 0 /\ lead.cx < INF THEN lead.cx + Sp ELSE 0)
                    a1   == IF fl = 0 THEN auth ELSE [auth EXCEPT ![fl][MyIdx(fl, t)].ax = tau]
                    a2   == [a1 EXCEPT ![L] = Append(@, NewAuth(t, tau))]
                IN /\ tau <= Horizon
                   \* a train longer than its last link ends on an Arrive node: it leaves the network here
                   /\ auth' = IF n = Len(Path(t)) THEN ExitRelease(a2, t, tau) ELSE a2
                   /\ T' = [T EXCEPT ![t] = Append(@, tau)]
        ELSE
          LET cp == PrevClrPos(t, n)
              pl == IF cp = 0 THEN 0 ELSE Path(t)[cp].l
              a1 == [auth EXCEPT ![L][MyIdx(L, t)].ce = base]
              a2 == IF pl = 0 THEN a1 ELSE [a1 EXCEPT ![pl][MyIdx(pl, t)].cx = base]
              \* last node: the train exits and its last link is released
              a3 == IF n = Len(Path(t)) THEN [a2 EXCEPT ![L][MyIdx(L, t)].cx = base, ![L][MyIdx(L, t)].ax = base] ELSE a2
          IN /\ base <= Horizon /\ auth' = a3 /\ T' = [T EXCEPT ![t] = Append(@, base)]
  /\ pos' = [pos EXCEPT ![t] = @ + 1] /\ UNCHANGED <<route, fixed>>

\* a Fake node (k = 3: the marker that opens an alternate branch, or a join) carries no event: it is passed when the train
\* reaches it. advance() has two ways over it: the regular loop body, and the "last real node before a blockage" branch,
\* which steps the free index over Fake nodes lying exactly at the blocked offset. Offsets are below this model's
\* abstraction, so the second way is simply always possible here. With the rule "faketime" (the repaired code, F-C05-3)
\* both ways time the node; without it the second way leaves it untimed and everything after it inherits +inf.
AdvanceFake(t) ==
  /\ Quiet(t) /\ pos[t] < Len(Path(t)) /\ pos[t] >= 1
  /\ Path(t)[pos[t] + 1].k = 3
  /\ LET n == pos[t] + 1
         base == T[t][n-1] + Path(t)[n-1].d
     IN /\ base <= Horizon \/ "faketime" \notin Rules
        /\ \E tm \in {base} \cup (IF "faketime" \in Rules THEN {} ELSE {INF}) :
              T' = [T EXCEPT ![t] = Append(@, tm)]
  /\ pos' = [pos EXCEPT ![t] = @ + 1] /\ UNCHANGED <<auth, route, fixed>>

\* fix_advance
Commit(t) == /\ fixed[t] < pos[t] /\ fixed' = [fixed EXCEPT ![t] = pos[t]]
             /\ UNCHANGED <<auth, route, pos, T>>

\* undo the last uncommitted node (TrainDisp::rewind, one iteration); an exited train cannot rewind
Rewind(t) ==
  /\ Quiet(t) /\ pos[t] > fixed[t] /\ pos[t] < Len(Path(t))
  /\ LET n == pos[t]  nd == Path(t)[n]  L == nd.l IN
     IF nd.k = 3 THEN auth' = auth ELSE
     IF nd.k = 1 THEN
       LET fp == PrevArrPos(t, n)
           fl == IF fp = 0 THEN 0 ELSE Path(t)[fp].l
           a1 == [auth EXCEPT ![L] = SubSeq(@, 1, Len(@) - 1)]
       IN /\ LastOf(L).tr = t
          /\ auth' = IF fl = 0 THEN a1 ELSE [a1 EXCEPT ![fl][MyIdx(fl, t)].ax = INF]
     ELSE
       LET cp == PrevClrPos(t, n)
           pl == IF cp = 0 THEN 0 ELSE Path(t)[cp].l
           a1 == [auth EXCEPT ![L][MyIdx(L, t)].ce = INF]
       IN auth' = IF pl = 0 THEN a1 ELSE [a1 EXCEPT ![pl][MyIdx(pl, t)].cx = INF]
  /\ T' = [T EXCEPT ![t] = SubSeq(@, 1, Len(@) - 1)]
  /\ pos' = [pos EXCEPT ![t] = @ - 1] /\ UNCHANGED <<route, fixed>>

\* update_free_path: replace the untimed suffix by another walk that shares the timed prefix
Reroute(t) ==
  /\ Quiet(t)
  /\ \E r \in 1..Len(Routes[t]) :
       /\ r # route[t]
       /\ Len(Routes[t][r]) >= pos[t]
       /\ \A i \in 1..pos[t] : Routes[t][r][i] = Path(t)[i]
       /\ route' = [route EXCEPT ![t] = r]
  /\ UNCHANGED <<auth, pos, T, fixed>>

Next == \E t \in 1..NT : Advance(t) \/ AdvanceFake(t) \/ Commit(t) \/ Rewind(t) \/ Reroute(t)
Spec == Init /\ [][Next]_vars
\* the code advances a train whenever it can and commits what it keeps: strong fairness of both
FairSpec == Spec /\ \A t \in 1..NT : SF_vars(Advance(t)) /\ SF_vars(AdvanceFake(t)) /\ SF_vars(Commit(t))

(* Level A on Level B *)
OppExclusive     == OppExclusiveOf(H, PlansB)
LockoutExclusive == LockoutExclusiveOf(H, PlansB)
Headway          == HeadwayOf(H, PlansB)
Fifo             == FifoOf(H, PlansB)
MonotonePlan     == MonotonePlanOf(PlansB)
CommittedStable  == [][CommittedStableOf(PlansB, fixed, PlansB')]_vars

\* the authority table agrees with the plans (what the trace spec calls AuthAgrees)
AuthAgrees == \A t \in 1..NT : \A w \in Windows(PlanB(t)) :
                 \E i \in 1..Len(auth[w.link]) :
                    LET a == auth[w.link][i] IN a.tr = t /\ a.ae = w.ae /\ a.ce = w.ce /\ a.cx = w.cx /\ a.ax = w.ax

\* every node the planner has gone past has a pass time (what advance() reads back as the resume time, and what
\* update_free_path asserts of the node before the free node)
TimedPrefix == \A t \in 1..NT : \A i \in 1..pos[t] : T[t][i] < INF

AllExited == \A t \in 1..NT : pos[t] = Len(Path(t))
=============================================================================
