--------------------------- MODULE SpeedProfile ---------------------------
(***************************************************************************)
(* Enforced speed-limit profile of a route (C02 safety, C13 exactness).     *)
(*                                                                          *)
(* Level A (the property): Canon / Safe / Exact / Canonical over the        *)
(*   abstract state <<train, links, pts>>.                                  *)
(* Level B (implementation-shaped): Insert is a line-by-line transcription  *)
(*   of Vec<SpeedLimitPoint>::insert_speed (track/path_track/speed_point.rs)*)
(*   and AddSpeeds of PathTpc::add_speeds (path_tpc.rs): restrictions of a  *)
(*   link are inserted in file order, shifted by the link's base offset,    *)
(*   tail-end sets extended by the train length, gated by                   *)
(*   TrainParams::speed_set_applies, skipped when not below speed_max.      *)
(*                                                                          *)
(* Data shapes are those of the harness' JSON so that recorded states bind  *)
(* to the variables without conversion:                                     *)
(*   train = [n, car_len, car_mass, axles, vmax, more, len_ov, mass_ov]     *)
(*   link  = [len, head, params : Seq(<<ltype,ctype,val>>),                 *)
(*            rs : Seq(<<start,end,speed>>)]                                *)
(*   pts   = Seq(<<offset, limit>>)                                         *)
(***************************************************************************)
EXTENDS Integers, Sequences, FiniteSets, TLC

CONSTANTS Variant        \* "fixed" = tree with the C13 repair, "pinned" = original insert_speed

VARIABLES train, links, pts
vars == <<train, links, pts>>

Min2(a, b) == IF a < b THEN a ELSE b
Abs(a) == IF a < 0 THEN -a ELSE a
(* min_speed (track/link/speed/speed_limit.rs:3): a limit may be written with a negative value (a sign-encoded variant *)
(* the simulator enforces by magnitude); the combination keeps the smaller magnitude and is negative as soon as one   *)
(* side is                                                                                                            *)
MinSpeed(a, b) == IF a >= 0 /\ b >= 0 THEN Min2(a, b) ELSE -Min2(Abs(a), Abs(b))
SetMin(S) == CHOOSE m \in S : \A c \in S : m <= c
Range(s) == {s[i] : i \in 1..Len(s)}
InsertAt(p, i, x) == SubSeq(p, 1, i-1) \o <<x>> \o SubSeq(p, i, Len(p))
RemoveAt(p, i) == SubSeq(p, 1, i-1) \o SubSeq(p, i+1, Len(p))

----------------------------------------------------------------------------
(* Train parameters (TrainConfig::make_train_params, train_config.rs:155): a train is made of car   *)
(* types, each with its own count, length, mass, axles, brakes and maximum speed.  The first type is  *)
(* t itself (one brake per car), t.more lists further types - a type may be listed with 0 cars, it   *)
(* then contributes nothing, not even its maximum speed.  t.len_ov / t.mass_ov > 0 = explicit        *)
(* train_length / train_mass overrides.  No rotating mass.                                            *)
TypesOf(t) == << [n |-> t.n, car_len |-> t.car_len, car_mass |-> t.car_mass, axles |-> t.axles,
                  vmax |-> t.vmax, brakes |-> 1] >> \o t.more
RECURSIVE SumSeq(_)
SumSeq(q) == IF q = <<>> THEN 0 ELSE q[1] + SumSeq(Tail(q))
(* one-type trains (t.more empty) take the closed forms: TLC evaluates a definition again at every use, and these *)
(* are used at every breakpoint of every recorded profile                                                         *)
TLen(t)      == IF t.len_ov > 0 THEN t.len_ov ELSE IF t.more = <<>> THEN t.n * t.car_len
                ELSE LET ty == TypesOf(t) IN SumSeq([k \in 1..Len(ty) |-> ty[k].n * ty[k].car_len])
MassTotal(t) == IF t.mass_ov > 0 THEN t.mass_ov ELSE IF t.more = <<>> THEN t.n * t.car_mass
                ELSE LET ty == TypesOf(t) IN SumSeq([k \in 1..Len(ty) |-> ty[k].n * ty[k].car_mass])
Brakes(t)    == IF t.more = <<>> THEN t.n ELSE LET ty == TypesOf(t) IN SumSeq([k \in 1..Len(ty) |-> ty[k].n * ty[k].brakes])
AxleCount(t) == IF t.more = <<>> THEN t.n * t.axles ELSE LET ty == TypesOf(t) IN SumSeq([k \in 1..Len(ty) |-> ty[k].n * ty[k].axles])
(* the train's own maximum speed: the slowest car type actually present *)
TVmax(t)     == IF t.more = <<>> THEN t.vmax
                ELSE LET ty == TypesOf(t) IN SetMin({ty[k].vmax : k \in {k \in 1..Len(ty) : ty[k].n > 0}})

Cmp(ct, a, b) == CASE ct = 0 -> a = b
                   [] ct = 1 -> a > b
                   [] ct = 2 -> a < b
                   [] ct = 3 -> a >= b
                   [] ct = 4 -> a <= b
ParamApplies(t, p) == CASE p[1] = 0 -> Cmp(p[2], MassTotal(t), p[3])
                        [] p[1] = 1 -> Cmp(p[2], MassTotal(t), p[3] * Brakes(t))     \* mass per brake, cross-multiplied
                        [] p[1] = 2 -> Cmp(p[2], AxleCount(t), p[3])
SetApplies(t, l) == \A i \in 1..Len(l.params) : ParamApplies(t, l.params[i])

RECURSIVE Base(_, _)
Base(ls, k) == IF k <= 1 THEN 0 ELSE Base(ls, k-1) + ls[k-1].len

(* restriction j of link k in route coordinates: <<start, end, speed>> *)
Glob(t, ls, k, j) ==
  LET l == ls[k]  r == l.rs[j]  b == Base(ls, k)
  IN <<r[1] + b, r[2] + b + (IF l.head THEN 0 ELSE TLen(t)), r[3]>>

(* every <<k,j>> whose restriction is in force for this train *)
Active(t, ls) == {kj \in UNION {{<<k, j>> : j \in 1..Len(ls[k].rs)} : k \in 1..Len(ls)} :
                    SetApplies(t, ls[kj[1]])}

----------------------------------------------------------------------------
(* Level A *)
Val(p, x) == LET I == {i \in 1..Len(p) : p[i][1] <= x}
             IN IF I = {} THEN -1 ELSE Abs(p[CHOOSE i \in I : \A j \in I : j <= i][2])      \* enforced = magnitude

Canon(t, ls, x) ==
  SetMin({TVmax(t)} \cup {Abs(Glob(t, ls, kj[1], kj[2])[3]) :
            kj \in {a \in Active(t, ls) : LET g == Glob(t, ls, a[1], a[2]) IN g[1] <= x /\ x < g[2]}})

(* both sides are right-continuous step functions: comparing at every break of either decides *)
Breaks(t, ls, p) == {0} \cup {p[i][1] : i \in 1..Len(p)}
                    \cup UNION {{Glob(t, ls, kj[1], kj[2])[1], Glob(t, ls, kj[1], kj[2])[2]} : kj \in Active(t, ls)}

SafeOf(t, ls, p)  == \A x \in Breaks(t, ls, p) : Val(p, x) <= Canon(t, ls, x)
ExactOf(t, ls, p) == \A x \in Breaks(t, ls, p) : Val(p, x) = Canon(t, ls, x)
CanonicalOf(p)    == /\ Len(p) >= 1 /\ p[1][1] = 0
                     /\ \A i \in 1..(Len(p)-1) : p[i][1] <= p[i+1][1] /\ p[i][2] # p[i+1][2]
PositiveOf(p)     == \A i \in 1..Len(p) : p[i][2] # 0

Safe      == SafeOf(train, links, pts)          \* C02
Exact     == ExactOf(train, links, pts)         \* C13 (first half)
Canonical == CanonicalOf(pts)                   \* C13 (second half)

----------------------------------------------------------------------------
(* Level B: insert_speed *)
RECURSIVE LoopC(_, _, _, _)
LoopC(p, is, ie, v) ==           \* "update and erase all speed points in range"
  IF is < ie THEN
    LET new == MinSpeed(p[is][2], v) IN
    IF is > 1 /\ p[is-1][2] = new THEN LoopC(RemoveAt(p, is), is, ie-1, v)
    ELSE LoopC([p EXCEPT ![is] = <<p[is][1], new>>], is+1, ie, v)
  ELSE <<p, is>>

Insert(p, s, e, v) ==
  LET n == Len(p) IN
  IF Variant = "fixed" /\ s = e THEN p ELSE      \* repair: a zero-length limit restricts nothing
  IF p[n][1] <= s THEN
     LET old == p[n][2]  new == MinSpeed(old, v) IN
     IF old = new THEN p
     ELSE IF p[n][1] < s THEN p \o << <<s, new>>, <<e, old>> >>
     ELSE IF n > 1 /\ p[n-1][2] = new THEN [p EXCEPT ![n] = <<e, p[n][2]>>]
     ELSE [p EXCEPT ![n] = <<p[n][1], new>>] \o << <<e, old>> >>
  ELSE
     LET is0 == CHOOSE i \in 1..n : p[i][1] >= s /\ \A j \in 1..(i-1) : p[j][1] < s
         ie0 == CHOOSE i \in 1..n : p[i][1] <= e /\ \A j \in (i+1)..n : p[j][1] > e
         \* "if the speed starts at an offset not already in speeds"
         doA == s < p[is0][1] /\ p[is0-1][2] # MinSpeed(p[is0-1][2], v)
         pA  == IF doA THEN InsertAt(p, is0, <<s, MinSpeed(p[is0-1][2], v)>>) ELSE p
         isA == IF doA THEN is0+1 ELSE is0
         ieA == IF doA THEN ie0+1 ELSE ie0
         \* "if the old speed does not end at offset end": the pinned code reads the old speed
         \* AFTER idx_end was bumped (it may then be the point just inserted); the repair reads it before
         oldE == IF Variant = "fixed" THEN p[ie0][2] ELSE pA[ieA][2]
         doB == pA[ieA][1] < e /\ oldE # MinSpeed(oldE, v)
         pB  == IF doB THEN InsertAt(pA, ieA+1, <<e, oldE>>) ELSE pA
         ieB == IF doB THEN ieA+1 ELSE ieA
         rC  == LoopC(pB, isA, ieB, v)
         pC  == rC[1]
         isC == rC[2]
     IN IF isC > 1 /\ isC <= Len(pC) /\ pC[isC-1][2] = pC[isC][2] THEN RemoveAt(pC, isC) ELSE pC

(* PathTpc::add_speeds for restriction j of link k *)
AddOne(t, ls, p, k, j) ==
  LET g == Glob(t, ls, k, j)
  IN IF SetApplies(t, ls[k]) /\ g[3] < TVmax(t) THEN Insert(p, g[1], g[2], g[3]) ELSE p

RECURSIVE ModelLink(_, _, _, _, _)
ModelLink(t, ls, p, k, j) == IF j > Len(ls[k].rs) THEN p
                             ELSE ModelLink(t, ls, AddOne(t, ls, p, k, j), k, j+1)
RECURSIVE ModelFrom(_, _, _, _)
ModelFrom(t, ls, p, k) == IF k > Len(ls) THEN p ELSE ModelFrom(t, ls, ModelLink(t, ls, p, k, 1), k+1)
(* the profile Level B predicts for a whole route *)
ModelPts(t, ls) == ModelFrom(t, ls, << <<0, TVmax(t)>> >>, 1)

----------------------------------------------------------------------------
(* Level B as a transition system: configurations are enumerated by actions  *)
CONSTANTS Trains,        \* set of train records
          LinkLens,      \* set of link lengths
          Speeds,        \* set of restriction speeds
          Gates,         \* set of param lists
          MaxLinks, MaxR

(* validator rule ([SpeedLimit]::validate): sorted by (start,end,speed), consecutive (start,end) pairs distinct *)
Lt(a, b) == \/ a[1] < b[1] \/ (a[1] = b[1] /\ a[2] < b[2])

Init == /\ train \in Trains
        /\ links = <<>>
        /\ pts = << <<0, TVmax(train)>> >>

NewLink == /\ Len(links) < MaxLinks
           /\ \E len \in LinkLens, head \in BOOLEAN, g \in Gates :
                links' = Append(links, [len |-> len, head |-> head, params |-> g, rs |-> <<>>])
           /\ UNCHANGED <<train, pts>>

AddR == /\ Len(links) >= 1
        /\ LET k == Len(links)  l == links[k] IN
           /\ Len(l.rs) < MaxR
           /\ \E s \in 0..l.len, e \in 0..l.len, v \in Speeds :
                /\ s <= e
                /\ IF Len(l.rs) = 0 THEN TRUE ELSE Lt(l.rs[Len(l.rs)], <<s, e, v>>)
                /\ links' = [links EXCEPT ![k].rs = Append(@, <<s, e, v>>)]
                /\ pts' = AddOne(train, links', pts, k, Len(l.rs) + 1)
        /\ UNCHANGED train

Next == NewLink \/ AddR
Spec == Init /\ [][Next]_vars

(* Level B is a function of the configuration: the incremental profile equals the fold *)
Functional == pts = ModelPts(train, links)
=============================================================================
