\* EXPECTED TO FAIL: the composed system on EVERY profile (incl. ShortWindow ones, F-C03-1): the train overspeeds
\* (CPosted) or the code's own assert fires (CNoPanic). Used by the self-test only.
SPECIFICATION CSpec
CONSTANTS
  Variant = "catchup"
  E = 0
  VPerO = 1
  MaxZ = 4
  Lens <- P_Lens
  Lims <- Q_Lims
  Domain = "all"
  Forces <- X_Forces
  Envs <- X_Envs
  Window = 24
  TLen = 1
  Free = TRUE
  Policies = {}
  MaxSteps = 0
INVARIANT CPosted
INVARIANT CNoPanic
CHECK_DEADLOCK FALSE
