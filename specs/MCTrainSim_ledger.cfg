SPECIFICATION SpecLedger
CONSTANTS
  MaxLinks = 0
  LinkLens <- None
  MaxMoves = 0
  MaxSegs = 0
  SegLens <- None
  Rises <- None
  TrainLens <- None
  MaxSteps = 3
  Pows <- P3
  Fault = FALSE
INVARIANT LedgerB
CHECK_DEADLOCK FALSE
