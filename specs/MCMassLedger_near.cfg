SPECIFICATION Spec
CONSTANTS
  Variant = "repaired"
  CompInits <- CompInitsNear
  LocoInits <- None
  LoadFiles <- None
  CompOps <- CompOpsAll
  LocoOps <- LocoOpsQ
  Targets <- One
  Near = TRUE
  MaxOps = 2
INVARIANT ComponentConsistent
INVARIANT LocoConsistent
INVARIANT Traction
INVARIANT ConsistMass
INVARIANT ConsistForce
INVARIANT TrainStatic
INVARIANT Atomic
INVARIANT OptionSemantics
INVARIANT Frame
INVARIANT Emit
CHECK_DEADLOCK FALSE
