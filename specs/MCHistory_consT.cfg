SPECIFICATION Spec
CONSTANTS
  Fault = "none"
  Kinds <- Slts
  Comps <- FewComps
  Intervals <- Iv4
  MaxActs = 6
  Cons <- Cons3
  MaxSets = 2
INVARIANT SameLength
INVARIANT SameStep
INVARIANT CountersEqual
INVARIANT StepIndex
INVARIANT SavedCount
INVARIANT Entries
INVARIANT DisabledEmpty
INVARIANT Propagated
INVARIANT Emit
CHECK_DEADLOCK FALSE
