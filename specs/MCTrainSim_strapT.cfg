SPECIFICATION SpecStrap
CONSTANTS
  MaxLinks = 0
  LinkLens <- None
  MaxMoves = 4
  MaxSegs = 4
  SegLens <- S12
  Rises <- R2
  TrainLens <- T13
  MaxSteps = 0
  Pows <- None
  Fault = FALSE
  MaxUnits = 0
  Cached = FALSE
INVARIANT StrapB
CHECK_DEADLOCK FALSE
