SPECIFICATION Spec
CONSTANTS
  NT = 3
  Links <- N1_Links
  Flip <- N1_Flip
  Lock <- N1_Lock
  Routes <- R_n1f_3
  Depart <- D_n1f_3
  S = 2
  U = 1
  O = 1
  Rules = {"flip","lock","prevce","lead","quiet","spacing","exitce","faketime"}
  Horizon = 30
INVARIANT OppExclusive
INVARIANT LockoutExclusive
INVARIANT Headway
INVARIANT Fifo
INVARIANT MonotonePlan
INVARIANT AuthAgrees
INVARIANT TimedPrefix
PROPERTY CommittedStable
CHECK_DEADLOCK FALSE
