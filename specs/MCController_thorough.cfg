\* every admitted profile of the BrakingCurve quick config x {flat, up grade, down grade, brake build-up} x every
\* choice of the force limit {2, 3, 5} at every step
SPECIFICATION CSpec
CONSTANTS
  Variant = "catchup"
  E = 0
  VPerO = 1
  MaxZ = 4
  Lens <- Q_Lens
  Lims <- Q_Lims
  Domain = "admitted"
  Forces <- X_Forces
  Envs <- X_Envs
  Window = 24
  TLen = 1
  Free = TRUE
  Policies = {}
  MaxSteps = 0
INVARIANT CNonNeg
INVARIANT CPosted
INVARIANT CNoPanic
INVARIANT CTargetLeLimit
INVARIANT CLimitLePosted
INVARIANT CNoStall
INVARIANT CProgress
INVARIANT CStopWindow
CHECK_DEADLOCK FALSE
