SPECIFICATION TSpec
CONSTANTS
  Fault = "none"
  Cfgs = {}
  Soc0s = {}
  Dts = {}
  Engs = {}
  ClsOn = {}
  ClsOff = {}
  Depth = 0
INVARIANT AtEnd
POSTCONDITION Accepted
CHECK_DEADLOCK FALSE
