SPECIFICATION Spec
CONSTANTS
  DeepKinds <- MC_LargeDeepAll
  ShallowKinds <- MC_LargeShallow
  StaticKinds <- MC_Static
  Depth = 3
  ShallowDepth = 2
  Media = {"mem", "reader", "file", "alias", "over"}
  Sizes = {"large"}
  BigSaves = 2
  Variant = "faithful"
INVARIANT TypeOK
INVARIANT Stutter
INVARIANT Idempotent
INVARIANT SaveLoadOk
INVARIANT MediumIndependent
INVARIANT Emit
PROPERTY StutterStep
CHECK_DEADLOCK FALSE
