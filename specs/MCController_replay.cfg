\* scripted runs (cyclic force policies) over every admitted profile of <= 3 zones: checked, and emitted as
\* replayable "ctrl" cases for the real SpeedLimitTrainSim at toy scale
SPECIFICATION CSpec
CONSTANTS
  Variant = "catchup"
  E = 0
  VPerO = 1
  MaxZ = 3
  Lens <- Q_Lens
  Lims <- S_Lims
  Domain = "admitted"
  Forces = {}
  Envs <- R_Envs
  Window = 24
  TLen = 1
  Free = FALSE
  Policies <- R_Pols
  MaxSteps = 400
INVARIANT CNonNeg
INVARIANT CPosted
INVARIANT CNoPanic
INVARIANT CTargetLeLimit
INVARIANT CLimitLePosted
INVARIANT CNoStall
INVARIANT CProgress
INVARIANT CStopWindow
INVARIANT Emit
CHECK_DEADLOCK FALSE
