--------------------------- MODULE MCDispatchScen ---------------------------
(* Enumeration of the meet-pass *scenario family* replayed into the real pipeline            *)
(* (make_est_times + run_dispatch): topology pattern x lockout declarations x train words     *)
(* (direction, departure gap incl. ties and sub-headway gaps, length class).                  *)
EXTENDS Integers, Sequences, TLC, Json
CONSTANTS MaxTrains
VARIABLES stages, lockouts, trains

\* lengths in 100 m. The dispatcher commits paths in 10-mile chunks and searches 30 miles ahead, so
\* meets only happen on corridors well beyond 16 km: most patterns are long.
Patterns == { << <<"M", 40>>, <<"M", 60>> >>,
              << <<"M", 50>>, <<"S", 25>>, <<"M", 50>> >>,
              << <<"M", 200>>, <<"S", 30>>, <<"M", 300>> >>,
              << <<"M", 150>>, <<"M", 100>>, <<"S", 30>>, <<"M", 200>> >>,
              << <<"M", 200>>, <<"S", 25>>, <<"M", 350>>, <<"S", 40>>, <<"M", 200>> >>,
              << <<"J", 60>>, <<"M", 150>>, <<"S", 30>>, <<"M", 150>> >>,          \* junction at the west end
              << <<"J", 40>>, <<"M", 200>>, <<"J", 40>> >>,                         \* junctions at both ends
              << <<"D", 25>> >>, << <<"D", 40>> >>,
              << <<"M", 200>>, <<"S", 30, 8, 20>>, <<"M", 200>> >>,                 \* siding whose PRIMARY track is the slow one
              << <<"M", 200>>, <<"M", 3, 65>>, <<"M", 14, 45>>, <<"M", 200>> >> }   \* links 5 m longer than the 20- / 80-car trains                                \* diamond crossing, crossing link 2.5 / 4 km
HasJ == \E i \in 1..Len(stages) : stages[i][1] \in {"J", "D"}
IsD == stages[1][1] = "D"
Speeds == {8, 20}               \* per-train maximum speed: slow leaders, fast followers
Gaps == {0, 240, 1500}          \* tie, below the 8 min headway, well above it
Cars == {20, 80}

\* reduced sets for the quick tier's three-train enumeration (MCDispatchScen_3s.cfg overrides Patterns / Gaps / Cars / Speeds)
P3 == { << <<"M", 200>>, <<"S", 30>>, <<"M", 300>> >>,
        << <<"M", 200>>, <<"S", 25>>, <<"M", 350>>, <<"S", 40>>, <<"M", 200>> >>,
        << <<"M", 150>>, <<"M", 100>>, <<"S", 30>>, <<"M", 200>> >> }
G3 == {0, 240, 3600}              \* the long gap lets a train finish before the next ones depart
C3 == {20}
S3 == {20}
R3 == {0, 1, 2}

Init == stages \in Patterns /\ lockouts \in BOOLEAN /\ trains = <<>>
AddTrain == /\ Len(trains) < MaxTrains
            /\ \E d \in {"E", "W"}, g \in Gaps, c \in Cars, vm \in Speeds,
                  b \in (IF HasJ THEN {0, 1, 2} ELSE {0}) :      \* 2 = both branches (two origin / destination links)
                 trains' = Append(trains, [dir |-> d, ncars |-> c, bo |-> b, bd |-> b, line |-> b % 2, vmax |-> vm,
                                           depart |-> (IF trains = <<>> THEN 120 ELSE trains[Len(trains)].depart) + g])
            /\ UNCHANGED <<stages, lockouts>>
Spec == Init /\ [][AddTrain]_<<stages, lockouts, trains>>
\* the planner indexes trains in list order: rotating the list makes departure order differ from index order
\* (a higher-index train may have finished before a lower-index one departs)
Rots == {0}
Rotate(sq, k) == [i \in 1..Len(sq) |-> sq[((i - 1 + k) % Len(sq)) + 1]]
EmitRot(k) == k < Len(trains) =>
          PrintT(<<"REPLAY", ToJson([stages |-> stages, lockouts |-> lockouts, foul |-> 2, v |-> <<20>>,
                                     trains |-> Rotate(trains, k)])>>)
EmitRotated == (Len(trains) >= 2 /\ ~IsD) => \A k \in Rots : EmitRot(k)
Emit == Len(trains) >= 1 =>
          IF IsD
          THEN lockouts => PrintT(<<"REPLAY", ToJson([topo |-> "diamond", stages |-> << <<"M", 400>> >>, lockouts |-> TRUE,
                                     a |-> <<50, stages[1][2], 80>>, b |-> <<53, stages[1][2], 80>>, v |-> <<20, 20>>,
                                     trains |-> trains])>>)
          ELSE PrintT(<<"REPLAY", ToJson([stages |-> stages, lockouts |-> lockouts, foul |-> 2, v |-> <<20>>,
                                     trains |-> trains])>>)
=============================================================================
