--------------------------- MODULE MCDispatchScen ---------------------------
(* Enumeration of the meet-pass *scenario family* replayed into the real pipeline            *)
(* (make_est_times + run_dispatch): topology pattern x lockout declarations x train words     *)
(* (direction, departure gap incl. ties and sub-headway gaps, length class).                  *)
EXTENDS Integers, Sequences, TLC, Json
CONSTANTS MaxTrains
VARIABLES stages, lockouts, trains

\* lengths in 100 m. The dispatcher commits paths in 10-mile chunks and searches 30 miles ahead, so
\* meets only happen on corridors well beyond 16 km: most patterns are long.
Patterns == { << <<"M", 40>>, <<"M", 60>> >>,
              << <<"M", 50>>, <<"S", 25>>, <<"M", 50>> >>,
              << <<"M", 200>>, <<"S", 30>>, <<"M", 300>> >>,
              << <<"M", 150>>, <<"M", 100>>, <<"S", 30>>, <<"M", 200>> >>,
              << <<"M", 200>>, <<"S", 25>>, <<"M", 350>>, <<"S", 40>>, <<"M", 200>> >>,
              << <<"J", 60>>, <<"M", 150>>, <<"S", 30>>, <<"M", 150>> >>,          \* junction at the west end
              << <<"J", 40>>, <<"M", 200>>, <<"J", 40>> >>,                         \* junctions at both ends
              << <<"D", 25>> >>, << <<"D", 40>> >>,
              << <<"M", 200>>, <<"S", 30, 8, 20>>, <<"M", 200>> >>,                 \* siding whose PRIMARY track is the slow one
              << <<"M", 200>>, <<"M", 3, 65>>, <<"M", 14, 45>>, <<"M", 200>> >> }   \* links 5 m longer than the 20- / 80-car trains                                \* diamond crossing, crossing link 2.5 / 4 km
HasJ == \E i \in 1..Len(stages) : stages[i][1] \in {"J", "D"}
IsD == stages[1][1] = "D"
Speeds == {8, 20}               \* per-train maximum speed: slow leaders, fast followers
Gaps == {0, 240, 1500}          \* tie, below the 8 min headway, well above it
Cars == {20, 80}

Init == stages \in Patterns /\ lockouts \in BOOLEAN /\ trains = <<>>
AddTrain == /\ Len(trains) < MaxTrains
            /\ \E d \in {"E", "W"}, g \in Gaps, c \in Cars, vm \in Speeds,
                  b \in (IF HasJ THEN {0, 1, 2} ELSE {0}) :      \* 2 = both branches (two origin / destination links)
                 trains' = Append(trains, [dir |-> d, ncars |-> c, bo |-> b, bd |-> b, line |-> b % 2, vmax |-> vm,
                                           depart |-> (IF trains = <<>> THEN 120 ELSE trains[Len(trains)].depart) + g])
            /\ UNCHANGED <<stages, lockouts>>
Spec == Init /\ [][AddTrain]_<<stages, lockouts, trains>>
Emit == Len(trains) >= 1 =>
          IF IsD
          THEN lockouts => PrintT(<<"REPLAY", ToJson([topo |-> "diamond", stages |-> << <<"M", 400>> >>, lockouts |-> TRUE,
                                     a |-> <<50, stages[1][2], 80>>, b |-> <<53, stages[1][2], 80>>, v |-> <<20, 20>>,
                                     trains |-> trains])>>)
          ELSE PrintT(<<"REPLAY", ToJson([stages |-> stages, lockouts |-> lockouts, foul |-> 2, v |-> <<20>>,
                                     trains |-> trains])>>)
=============================================================================
