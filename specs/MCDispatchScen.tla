--------------------------- MODULE MCDispatchScen ---------------------------
(* Enumeration of the meet-pass *scenario family* replayed into the real pipeline            *)
(* (make_est_times + run_dispatch): topology pattern x lockout declarations x train words     *)
(* (direction, departure gap incl. ties and sub-headway gaps, length class).                  *)
EXTENDS Integers, Sequences, TLC, Json
CONSTANTS MaxTrains
VARIABLES stages, lockouts, trains

Patterns == { << <<"M", 40>>, <<"M", 60>> >>,
              << <<"M", 50>>, <<"S", 25>>, <<"M", 50>> >>,
              << <<"M", 40>>, <<"M", 40>>, <<"S", 30>>, <<"M", 60>> >>,
              << <<"M", 40>>, <<"S", 25>>, <<"M", 90>>, <<"S", 40>>, <<"M", 40>> >> }
Gaps == {0, 240, 1500}          \* tie, below the 8 min headway, well above it
Cars == {20, 80}

Init == stages \in Patterns /\ lockouts \in BOOLEAN /\ trains = <<>>
AddTrain == /\ Len(trains) < MaxTrains
            /\ \E d \in {"E", "W"}, g \in Gaps, c \in Cars :
                 trains' = Append(trains, [dir |-> d, ncars |-> c,
                                           depart |-> (IF trains = <<>> THEN 120 ELSE trains[Len(trains)].depart) + g])
            /\ UNCHANGED <<stages, lockouts>>
Spec == Init /\ [][AddTrain]_<<stages, lockouts, trains>>
Emit == Len(trains) >= 1 =>
          PrintT(<<"REPLAY", ToJson([stages |-> stages, lockouts |-> lockouts, foul |-> 2, v |-> <<16>>,
                                     trains |-> trains])>>)
=============================================================================
