SPECIFICATION Spec
CONSTANTS MaxTrains = 2
INVARIANT Emit
CHECK_DEADLOCK FALSE
