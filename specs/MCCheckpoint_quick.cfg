SPECIFICATION Spec
CONSTANTS
  DeepKinds <- MC_Deep
  ShallowKinds <- MC_Shallow
  StaticKinds <- MC_Static
  Depth = 4
  ShallowDepth = 3
  Variant = "faithful"
INVARIANT TypeOK
INVARIANT Stutter
INVARIANT Idempotent
INVARIANT Emit
PROPERTY StutterStep
CHECK_DEADLOCK FALSE
