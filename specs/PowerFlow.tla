----------------------------- MODULE PowerFlow -----------------------------
(***************************************************************************)
(* Power flow through one locomotive (conventional: engine -> generator -> *)
(* drivetrain; battery-electric: battery <-> drivetrain; hybrid: engine ->  *)
(* generator and battery -> drivetrain).                                    *)
(*   C01  the energy ledger closes            (L1 .. L10, Integ)            *)
(*   C08  second law, engine off burns nothing (LossNonNeg, EtaRange,       *)
(*        Order*, Monotone, DynBrakeSign, EngineOff)                        *)
(*   C09  accepted steps respect limits        (FcRating, FcTransient, Ramp,*)
(*        GenRating, EdrvRating, ResRating, ResDisch, ResCharge, LocoPub,   *)
(*        SocWindow, PublishedSane)                                         *)
(*                                                                          *)
(* Level A = the named predicates of the section "Level A" below, over the  *)
(*   abstract variables <<cfg, pc, st, pub, p, e, pe, eta, soc, psoc, soc0, *)
(*   gap, safe, ex>>.  They are as loose as the properties: no efficiency   *)
(*   model, only the stated relations.  Only Level A decides.               *)
(* Level B = SetAux / Publish / Solve / Reject / Advance: a call-by-call    *)
(*   transcription of LocomotiveSimulation::solve_step                      *)
(*   (consist/locomotive/loco_sim.rs:226) with flat efficiencies 1/k,       *)
(*   k \in {1,2,4}, on an integer lattice:                                  *)
(*     power  unit = 1/cfg.ps W      (model configs: ps = 65536 = 2^16)     *)
(*     time   unit = 1/cfg.ds s      (ds = 2: dtq \in {1,2,4} = 1/2,1,2 s)  *)
(*     energy unit = 1/(ps*ds) J     so that  delta e = p * dtq  exactly    *)
(*   Every division of the code is a division by k, by 2 or by the slope of *)
(*   a derating ramp (a power of two here); it is written as floor division *)
(*   (FDiv) - the one deliberate deviation of Level B: where 16 fractional  *)
(*   bits do not suffice the model value is the floor of the real one and   *)
(*   the harness flags the recorded state as not `exact` (drift is then not *)
(*   judged; Level A switches to its tolerances).                           *)
(*                                                                          *)
(* Data shapes = the harness' JSON (records with the same keys), so that a  *)
(* recorded state binds to the variables without conversion.                *)
(***************************************************************************)
EXTENDS Integers, Sequences, FiniteSets, TLC

Min2(a, b) == IF a < b THEN a ELSE b
Max2(a, b) == IF a > b THEN a ELSE b
Abs(a) == IF a < 0 THEN -a ELSE a
FDiv(a, k) == a \div k                         \* floor (TLA+ \div rounds towards minus infinity)

VARIABLES
  cfg,    \* constants of the unit: [kind ("conv"|"bel"|"hyb"), rfc, rgen, redrv, rres, floor, lag, aux, auxkd, idle,
          \*   kf, kg, ke, kr, flat, cap, smin, slo, shi, smax, delta, ps, ds, lat, assert,
          \*   pb0 (shaft power before the first step: a warmed-up engine), haux (the hybrid's hard-coded generator
          \*   aux load), split2 (2 * HybridLoco.fuel_res_split), gssr / gssk (2 * fuel_res_ratio / gss_interval, 0 = None:
          \*   Level B models the fixed split only), lpub / ekx (LocoPub applies to this mapped unit / max dx/du of its
          \*   drivetrain map)]
  pc,     \* "aux" -> "pub" -> "solve" -> ("adv" after an accepted step) -> "aux"
  st,     \* the step being executed: [eng, dtq, req, cls, acc]
  pub,    \* limits published by set_cur_pwr_max_out for this step (PubKeys) incl. the aux load they assumed
  p,      \* powers of the last accepted step        (EKeys)
  e,      \* cumulative energies                      (EKeys)
  pe,     \* cumulative energies before the last accepted step
  eta,    \* efficiencies reported by the last accepted step, scale 2^16: [f, g, e, r]
  soc,    \* battery content soc * capacity (energy units);  psoc = before the last accepted step;  soc0 = initial
  psoc, soc0,
  gap,    \* energy by which loco.energy_aux exceeds the component aux through steps of the known class F-C01-1
  safe,   \* every accepted step so far had dt <= DtSafe (antecedent of SocWindow)
  ex,     \* the bound state is exact on the lattice (model: always) - Level A tolerance 0
  i,      \* Locomotive.state.i
  n,      \* steps attempted
  hist    \* <<[eng, dt, cls]>> of the behaviour (for replay)
vars == <<cfg, pc, st, pub, p, e, pe, eta, soc, psoc, soc0, gap, safe, ex, i, n, hist>>

EKeys == {"fuel", "brake", "lossf", "idle",                 \* FuelConverterState pwr_fuel, pwr_brake, pwr_loss, pwr_idle_fuel
          "mech", "gprop", "gaux", "lossg",                 \* GeneratorState pwr_mech_in, pwr_elec_prop_out, pwr_elec_aux, pwr_loss
          "chem", "elec", "rprop", "raux", "lossr",         \* RES pwr_out_chemical, _electrical, _propulsion, pwr_aux, pwr_loss
          "ine", "oute", "dyn", "edyn", "losse",            \* EDrv pwr_elec_prop_in, pwr_mech_prop_out, pwr_mech_dyn_brake, pwr_elec_dyn_brake, pwr_loss
          "out", "aux"}                                     \* LocomotiveState pwr_out, pwr_aux
Zero == [x \in EKeys |-> 0]
PubKeys == {"fc", "gen", "gprop", "loco", "regen", "disch", "charge", "propmax", "regenout", "aux"}
ZeroPub == [x \in PubKeys |-> 0]
ZeroSt == [eng |-> TRUE, dtq |-> 1, req |-> 0, cls |-> "zero", acc |-> FALSE]
Eta1 == [f |-> 65536, g |-> 65536, e |-> 65536, r |-> 65536]

Conv == cfg.kind = "conv"
Hyb  == cfg.kind = "hyb"
HasFc  == cfg.kind \in {"conv", "hyb"}       \* engine + generator present
HasRes == cfg.kind \in {"bel", "hyb"}        \* battery present
Acc == pc = "adv"                 \* an accepted step has just been solved: p, e, pe, eta, soc, psoc describe it
Pubd == pc = "solve"              \* limits have just been published: pub describes them, p is the step before

----------------------------------------------------------------------------
(* Tolerances.  On the dyadic lattice (ex) every relation is checked with     *)
(* tolerance 0.  Off the lattice every logged quantity is round(x*scale):     *)
(* an additive relation of n terms may be off by n/2 units (n <= 9 -> 5).     *)
T  == IF ex THEN 0 ELSE 5
TI == IF ex THEN 0 ELSE st.dtq + 2            \* e - pe against p*dtq: two rounded energies + dtq half-units
T1 == IF ex THEN 0 ELSE 1
Eq(a, b, t) == a - b <= t /\ b - a <= t

(* The code's own epsilon on limit checks: TOL = 1e-3 (fuel_converter.rs:5,   *)
(* reversible_energy_storage.rs:6) through utils::almost_le (utils/mod.rs:169)*)
(*   val1 < val2*(1+eps) || val1 < val2 + eps        (second branch: watts)  *)
(* d*1000 <= lim  <=>  d <= lim/1000;   d*1000 <= ps  <=>  d <= 0.001 W.      *)
(* The guard keeps the product inside 32 bits.                                *)
LeEps(a, lim) == LET d == a - lim - T IN d <= 0 \/ (d < 1048576 /\ (d * 1000 <= lim \/ d * 1000 <= cfg.ps))

----------------------------------------------------------------------------
(*                               Level A                                     *)
(* ---- C01: ledgers, on a record r of powers (r = p) or energies (r = e) --- *)
L1of(r)  == HasFc => Eq(r.fuel, r.brake + r.lossf, T)                    \* fuel = shaft + engine loss
L2of(r)  == HasFc => Eq(r.brake, r.mech, T)                              \* engine shaft = generator input
L3of(r)  == HasFc => Eq(r.mech, r.gprop + r.gaux + r.lossg, T)           \* generator input = prop + aux + loss
L4of(r)  == Eq(r.gprop + r.rprop, r.ine, T)                              \* source output(s) = drivetrain input
                                                                         \* (gprop = 0 without generator, rprop = 0 without battery)
L5of(r)  == Eq(r.ine, r.oute + r.losse, T)                               \* signed: holds in traction and in regen
L6of(r)  == Eq(r.out, r.oute - r.dyn, T)                                 \* wheel = propulsion - dynamic braking
L7of(r)  == HasRes => Eq(r.elec, r.rprop + r.raux, T) /\ Eq(r.chem, r.elec + r.lossr, T)   \* signed
L9of(r)  == Eq(r.fuel + r.chem,                                          \* headline
               r.out + r.dyn + r.gaux + r.raux + r.lossf + r.lossg + r.losse + r.lossr, T)

L1 == L1of(e)   L1s == Acc => L1of(p)
L2 == L2of(e)   L2s == Acc => L2of(p)
L3 == L3of(e)   L3s == Acc => L3of(p)
L4 == L4of(e)   L4s == Acc => L4of(p)
L5 == L5of(e)   L5s == Acc => L5of(p)
L6 == L6of(e)   L6s == Acc => L6of(p)
L7 == L7of(e)   L7s == Acc => L7of(p)
L9 == L9of(e)   L9s == Acc => L9of(p)
L8  == HasRes => Eq(soc0 - soc, e.chem, T)                               \* SOC moves by exactly the chemical energy
L8s == Acc /\ HasRes => Eq(psoc - soc, p.chem * st.dtq, TI)
(* per-step energies are the powers times dt: with L*s this is the ledger on every delta e *)
Integ == Acc => \A x \in EKeys : Eq(e[x] - pe[x], p[x] * st.dtq, TI)

(* L10, the aux roll-up: loco.pwr_aux = aux drawn from the components.  Two known input classes break it *)
(* on the current tree; inside them the per-step relation is reported under its own name and the        *)
(* discrepancy is carried in `gap`, so that the cumulative L10 keeps deciding everywhere else:          *)
(*  F-C01-1  BatteryElectricLoco::solve_energy_consumption (battery_electric_loco.rs:52-60) curtails    *)
(*           the battery's aux to res.pwr_prop_out_max - elec_prop_in when traction <= 0, Locomotive    *)
(*           integrates the uncurtailed pwr_aux (locomotive_model.rs:1140)          -> AuxCurtailed     *)
(*  F-C01-2  HybridLoco::solve_energy_consumption feeds the generator a hard-coded 50 kW aux           *)
(*           (hybrid_loco.rs:305, :328, `// TODO: fix this`) whatever Locomotive.state.pwr_aux is       *)
(*           (every hybrid step)                                                    -> HybAuxRoll       *)
CurtailClass == cfg.kind = "bel" /\ st.req <= 0 /\ pub.propmax - p.ine < pub.aux
KnownAuxClass == CurtailClass \/ Hyb
L10s         == Acc /\ ~KnownAuxClass => Eq(p.aux, p.gaux + p.raux, T)
AuxCurtailed == Acc /\ CurtailClass  => Eq(p.aux, p.gaux + p.raux, T)
HybAuxRoll   == Acc /\ Hyb           => Eq(p.aux, p.gaux + p.raux, T)
L10          == Eq(e.aux - gap, e.gaux + e.raux, T + 2 * T1 * n)   \* off-lattice: gap is a sum of rounded differences

LedgerStep == L1s /\ L2s /\ L3s /\ L4s /\ L5s /\ L6s /\ L7s /\ L8s /\ L9s /\ L10s /\ Integ
LedgerCum  == L1 /\ L2 /\ L3 /\ L4 /\ L5 /\ L6 /\ L7 /\ L8 /\ L9 /\ L10
Ledger     == LedgerStep /\ LedgerCum                                    \* C01

(* ---- C08 ---------------------------------------------------------------- *)
Comps == CASE cfg.kind = "conv" -> {"f", "g", "e"} [] cfg.kind = "bel" -> {"e", "r"} [] OTHER -> {"f", "g", "e", "r"}
LossNonNeg == Acc => /\ p.lossf >= -T /\ p.lossg >= -T /\ p.losse >= -T /\ p.lossr >= -T
                     /\ e.lossf >= -T /\ e.lossg >= -T /\ e.losse >= -T /\ e.lossr >= -T
EtaRange   == Acc => \A x \in Comps : 0 < eta[x] /\ eta[x] <= 65536      \* logged rounded up at 2^-16
OrderFc    == Acc /\ HasFc => p.brake <= p.fuel + T
OrderGen   == Acc /\ HasFc => p.gprop + p.gaux <= p.mech + T
OrderEdrv  == Acc => IF st.req > 0 THEN p.oute <= p.ine + T ELSE Abs(p.ine) <= Abs(p.oute) + T
OrderRes   == Acc /\ HasRes => IF p.elec > 0 THEN p.elec <= p.chem + T ELSE Abs(p.chem) <= Abs(p.elec) + T
Monotone   == Acc => \A x \in {"fuel", "lossf", "lossg", "losse", "lossr", "dyn", "edyn"} : e[x] >= pe[x] - T1
DynBrakeSign == Acc => p.dyn >= -T /\ (p.dyn > T => st.req < 0)
(* engine commanded off: no fuel, no aux in that step.  F-C08-2 (known): Locomotive::solve_energy_consumption  *)
(* does not hand engine_on to a HybridLoco (locomotive_model.rs:1124-1126, `TODO: add engine_on and pwr_aux`),   *)
(* which solves its engine with engine_on = true and the 50 kW generator aux (hybrid_loco.rs:308, :331):        *)
(* reported as HybEngineOff for hybrid units, EngineOff for every other unit.                                   *)
EngineOffRel == /\ p.fuel = 0 /\ p.gaux = 0 /\ p.raux = 0 /\ p.aux = 0
                /\ e.fuel = pe.fuel /\ e.gaux = pe.gaux /\ e.raux = pe.raux /\ e.aux = pe.aux
EngineOff    == Acc /\ ~st.eng /\ ~Hyb => EngineOffRel
HybEngineOff == Acc /\ ~st.eng /\ Hyb  => EngineOffRel
SecondLaw  == LossNonNeg /\ EtaRange /\ OrderFc /\ OrderGen /\ OrderEdrv /\ OrderRes /\ DynBrakeSign

(* ---- C09 ---------------------------------------------------------------- *)
(* "Whenever a step is accepted WITH LIMIT CHECKING ON ...": every clause of that sentence (ratings, transient     *)
(* limit, ramp, published locomotive limit, SOC window) is judged on units with cfg.assert only.  With              *)
(* Locomotive.assert_limits = false the code skips exactly the two engine checks (rating and transient limit,       *)
(* fuel_converter.rs:192-208); every other ensure! (generator.rs:254/:261, electric_drivetrain.rs:171, the SOC      *)
(* guards and limit checks of reversible_energy_storage.rs:475-523, engine >= 0 / engine off => 0) stays - Level B   *)
(* (FcOk) says so, and C01 / C08 (Ledger, SecondLaw, Monotone, EngineOff) are judged in both modes.  The last       *)
(* sentence of C09 (PublishedSane) is about published limits, whatever the mode.                                    *)
LimOn == cfg.assert
Lim == Acc /\ LimOn
FcRating    == Lim /\ HasFc => LeEps(p.brake, cfg.rfc)
FcTransient == Lim /\ HasFc => LeEps(p.brake, pub.fc)
GenRating   == Lim /\ HasFc => p.gprop + p.gaux <= cfg.rgen + T
EdrvRating  == Lim => Abs(p.oute) <= cfg.redrv + T         \* propulsion / regen path; braking beyond it is C10's
ResRating   == Lim /\ HasRes => LeEps(Abs(p.elec), cfg.rres)
ResDisch    == Lim /\ HasRes /\ p.elec > 0 => LeEps(p.elec, pub.disch)
ResCharge   == Lim /\ HasRes /\ p.elec < 0 => LeEps(-p.elec, pub.charge)
(* The wheel limit is not re-checked by the code, it follows from the chain: what eps on the source   *)
(* check is worth at the wheel.  conv: mech <= fc_pub(1+eps) => req <= loco_pub + eps*fc_pub/(kg*ke);  *)
(* BEL: elec <= disch(1+eps) => req <= loco_pub + eps*disch/ke; hybrid: both sources (and ASSUME        *)
(* pwr_aux <= haux: the published limit subtracts pwr_aux twice, the solve loads the generator with     *)
(* haux once).  Stated for flat maps only (with load-dependent eta the published wheel limit is         *)
(* evaluated at another operating point) and, below, for units whose only load-dependent map is the       *)
(* drivetrain's.                                                                                        *)
AbsEpsQ == cfg.ps \div 1000 + 1
Slack == (CASE cfg.kind = "conv" -> Max2(cfg.rfc \div 1000, AbsEpsQ) \div (cfg.kg * cfg.ke)
            [] cfg.kind = "bel"  -> Max2(cfg.rres \div 1000, AbsEpsQ) \div cfg.ke
            [] OTHER             -> (Max2(cfg.rfc \div 1000, AbsEpsQ) \div cfg.kg + Max2(cfg.rres \div 1000, AbsEpsQ)) \div cfg.ke + 2)
         + 2 + T
(* Load-dependent drivetrain map (cfg.lpub = 1: every component upstream of the drivetrain has an exact electrical *)
(* limit - flat engine / generator, or a battery, whose limits are electrical whatever its map).  Let u = input and  *)
(* x = output fraction, x = u*eta(x).  The code publishes P* = u_max * eta_in(u_max) with eta interpolated over the   *)
(* INPUT fractions x_i/eta_i.  Within a map segment eta_out is linear in x, so u(x) = x/eta_out(x) is concave for a   *)
(* rising and convex for a falling segment (x/eta increasing <=> the segment's line is positive at x = 0), hence      *)
(* eta_in(u(x)) >= eta_out(x) or, with Delta < 0, the reverse on the interpolation parameter: in both cases           *)
(* P* >= x_true(u_max); outside the grid both lookups are clamped to the same value.  So accepted => elec_in <=       *)
(* u_max(1+eps) => out <= x_true(u_max) + eps*src*ekx <= P* + eps*src*ekx, ekx = max dx/du = max eta^2/alpha.          *)
SlackMap == Max2((IF cfg.kind = "conv" THEN cfg.rfc \div cfg.kg ELSE cfg.rres) \div 1000, AbsEpsQ) * cfg.ekx + 2 + T
LocoPub     == Lim /\ (cfg.flat \/ cfg.lpub = 1) /\ st.req > 0 /\ (Hyb => pub.aux <= cfg.haux)
                 => p.out <= pub.loco + (IF cfg.flat THEN Slack ELSE SlackMap)
WithinLimits == FcRating /\ FcTransient /\ GenRating /\ EdrvRating /\ ResRating /\ ResDisch /\ ResCharge /\ LocoPub

(* ASSUME floor <= rating (FuelConverter::set_cur_pwr_out_max applies .min(rating) before .max(floor)) *)
RateDt == (cfg.rfc * st.dtq) \div (cfg.lag * cfg.ds) + T1          \* (rating / lag) * dt, rounded up off-lattice
Ramp == Pubd /\ HasFc /\ LimOn => /\ pub.fc <= Max2(p.brake + RateDt, cfg.floor) + T
                                  /\ pub.fc <= cfg.rfc + T

(* SOC window.  ASSUME: the initial SOC is inside the window and every step so far had dt <= DtSafe:    *)
(* with x = soc - min on the discharge ramp, disch = x*R/W (W = capacity*(lo_ramp - min)), so           *)
(* x' >= x - disch(1+eps)*dt/eta_r >= 0  iff  dt <= eta_r*W/(R(1+eps));  charging: y = max - soc,       *)
(* y' >= y - charge*dt >= 0 iff dt <= W_hi/R.  kr = 1/eta_r (flat) or ceil(1/min eta) (maps).           *)
(* Beyond DtSafe the linear derating does not protect the window (it is necessary and tight).          *)
DtSafeOk(dtq) == /\ dtq * cfg.kr * cfg.rres <= ((cfg.slo - cfg.smin) \div 1001) * 1000
                 /\ dtq * cfg.rres <= cfg.smax - cfg.shi
(* the absolute branch of almost_le admits 0.001 W beyond a zero limit: one step of that *)
SocSlack == AbsEpsQ * cfg.kr * 64 + T
SocWindow == HasRes /\ safe /\ LimOn => cfg.smin - SocSlack <= soc /\ soc <= cfg.smax + SocSlack

SaneFc  == /\ cfg.floor - T <= pub.fc /\ pub.fc <= cfg.rfc + T
           /\ pub.gen <= cfg.rgen + T /\ Eq(pub.gprop, pub.gen - pub.aux, T)
SaneRes == /\ 0 <= pub.disch /\ pub.disch <= cfg.rres + T
           /\ 0 <= pub.charge /\ pub.charge <= cfg.rres + T
           /\ Eq(pub.propmax, pub.disch - pub.aux, T) /\ Eq(pub.regenout, pub.charge + pub.aux, T)
           /\ 0 <= pub.regen /\ pub.regen <= cfg.redrv + T
PublishedSane == Pubd =>
  /\ (HasFc => SaneFc) /\ (HasRes => SaneRes) /\ (~HasRes => pub.regen = 0)
  /\ pub.loco <= cfg.redrv + T
  /\ pub.loco >= -(IF Hyb THEN 2 ELSE 1) * pub.aux - T        \* never negative beyond the auxiliary load
Limits == WithinLimits /\ Ramp /\ SocWindow /\ PublishedSane             \* C09

----------------------------------------------------------------------------
(*                               Level B                                     *)
CONSTANT Fault      \* "none" = the code as it is; otherwise one deliberate defect (fault models of bin/selftest):
                    \* "idle_when_off" (F-C08-1 reverted), "no_transient_check", "gen_ignores_aux", "soc_sign"

(* Locomotive::set_pwr_aux (locomotive_model.rs:1145): offset + coeff*|pwr_out| of the previous step   *)
AuxOf(c, eng, out) == IF eng THEN c.aux + (IF c.auxkd = 0 THEN 0 ELSE FDiv(Abs(out), c.auxkd)) ELSE 0

(* set_cur_pwr_max_out chains: conventional_loco.rs:126 (fc -> gen -> edrv), battery_electric_loco.rs:98 *)
(* (res -> edrv), hybrid_loco.rs:121 (res, fc -> gen, gen + res -> edrv)                                  *)
PubOf(c, aux, brake, s, dtq) ==
  LET hasfc  == c.kind # "bel"
      hasres == c.kind # "conv"
      fcpub  == IF hasfc THEN Max2(Min2(brake + (c.rfc * dtq) \div (c.lag * c.ds), c.rfc), c.floor) ELSE 0  \* fuel_converter.rs:177
      genmax == IF hasfc THEN Min2(FDiv(fcpub, c.kg), c.rgen) ELSE 0                                        \* generator.rs:332
      gprop  == IF hasfc THEN genmax - aux ELSE 0
      wlo == (c.slo - c.smin) \div c.rres        \* energy units per power unit on the ramp (ASSUME divisible)
      whi == (c.smax - c.shi) \div c.rres
      disch  == IF ~hasres THEN 0 ELSE
                IF s <= c.smin THEN 0 ELSE IF s >= c.slo THEN c.rres ELSE FDiv(s - c.smin, wlo)             \* res.rs:439
      charge == IF ~hasres THEN 0 ELSE
                IF s <= c.shi THEN c.rres ELSE IF s >= c.smax THEN 0 ELSE FDiv(c.smax - s, whi)             \* res.rs:450
      propmax  == IF hasres THEN disch - aux ELSE 0
      regenout == IF hasres THEN charge + aux ELSE 0
      loco   == Min2(c.redrv, FDiv(gprop + propmax, c.ke))                                                  \* electric_drivetrain.rs:274
      regen  == IF hasres THEN Min2(FDiv(regenout, c.ke), c.redrv) ELSE 0                                   \* electric_drivetrain.rs:164
  IN [fc |-> fcpub, gen |-> genmax, gprop |-> gprop, loco |-> loco, regen |-> regen,
      disch |-> disch, charge |-> charge, propmax |-> propmax, regenout |-> regenout, aux |-> aux]

(* utils::almost_le / almost_ge with Some(TOL), exactly (strict comparisons) *)
LeTol(c, a, lim) == LET d == a - lim IN d < 0 \/ (d < 1048576 /\ (d * 1000 < lim \/ d * 1000 < c.ps))
GeTol(c, a, lim) == LET d == a - lim IN d > 0 \/ (d > -1048576 /\ (d * 1000 > -lim \/ d * 1000 > -c.ps))

(* FuelConverter::solve_energy_consumption: accepts shaft power mech?  (fuel_converter.rs:193, :201, :209, :241) *)
FcOk(c, pb, mech, eng) == /\ (c.assert => LeTol(c, mech, c.rfc) /\ (Fault = "no_transient_check" \/ LeTol(c, mech, pb.fc)))
                          /\ mech >= 0 /\ (eng \/ mech = 0)
(* ReversibleEnergyStorage::solve_energy_consumption guards and limit checks (res.rs:475, :481, :489-:523) *)
ResOk(c, pb, s, prop, elec) == /\ (s <= c.smax \/ prop >= 0) /\ (s >= c.smin \/ prop <= 0)
                               /\ IF elec >= 0 THEN LeTol(c, elec, c.rres) /\ LeTol(c, elec, pb.disch)
                                               ELSE GeTol(c, elec, -c.rres) /\ GeTol(c, elec, -pb.charge)
ChemOf(c, elec) == IF elec > 0 THEN elec * c.kr ELSE FDiv(elec, c.kr)     \* res.rs:570

(* Locomotive::solve_energy_consumption (locomotive_model.rs:1103) *)
SolveOf(c, pb, req, eng, s) ==
  LET prop  == Max2(req, -pb.regen)                                       \* electric_drivetrain.rs:201
      dyn   == prop - req
      ine   == IF req > 0 THEN prop * c.ke ELSE FDiv(prop, c.ke)          \* :212
      edyn  == FDiv(dyn, c.ke)
      okE   == req <= c.redrv                                             \* :171
      base  == [Zero EXCEPT !.ine = ine, !.oute = prop, !.dyn = dyn, !.edyn = edyn,
                            !.losse = Abs(prop - ine), !.out = prop - dyn, !.aux = pb.aux]
  IN CASE c.kind = "conv" ->
       LET auxe == IF eng THEN pb.aux ELSE 0                              \* conventional_loco.rs:66
           mech == (ine + auxe) * c.kg                                    \* generator.rs:294
           idle == IF eng \/ Fault = "idle_when_off" THEN c.idle ELSE 0   \* fuel_converter.rs:235 (repaired: state value)
           fuel == mech * c.kf + idle
           ok   == /\ okE /\ ine >= 0                                     \* generator.rs:254
                   /\ (IF Fault = "gen_ignores_aux" THEN ine ELSE ine + auxe) <= c.rgen     \* :261
                   /\ FcOk(c, pb, mech, eng)
       IN [ok |-> ok,
           p |-> [base EXCEPT !.gprop = ine, !.gaux = auxe, !.mech = mech, !.lossg = mech - (ine + auxe),
                              !.brake = mech, !.fuel = fuel, !.lossf = fuel - mech, !.idle = idle],
           chem |-> 0]
     [] c.kind = "bel" ->
       LET auxr == IF ine > 0 THEN pb.aux ELSE Max2(Min2(pb.aux, pb.propmax - ine), 0)  \* battery_electric_loco.rs:47-60
           elec == ine + auxr
           chem == ChemOf(c, elec)
           ok   == okE /\ ResOk(c, pb, s, ine, elec)
       IN [ok |-> ok,
           p |-> [base EXCEPT !.rprop = ine, !.raux = auxr, !.elec = elec, !.chem = chem, !.lossr = Abs(chem - elec)],
           chem |-> IF Fault = "soc_sign" THEN -chem ELSE chem]
     [] OTHER ->
       (* HybridLoco::solve_energy_consumption (hybrid_loco.rs:226) with fuel_res_ratio = None: the split is the    *)
       (* fixed fraction fuel_res_split (1 = all from the generator), limited by what the battery published;       *)
       (* the generator is always loaded with the hard-coded haux and the engine always solved as running.         *)
       LET fromres == IF ine > 0 THEN Min2(pb.propmax, FDiv(ine * (2 - c.split2), 2)) ELSE ine   \* :295-:299, :319
           fromgen == ine - fromres                                                              \* :301 (0 in braking, :326)
           mech == (fromgen + c.haux) * c.kg
           fuel == mech * c.kf + c.idle
           chem == ChemOf(c, fromres)
           ok   == /\ okE /\ fromgen >= 0 /\ fromgen + c.haux <= c.rgen
                   /\ FcOk(c, pb, mech, TRUE)
                   /\ ResOk(c, pb, s, fromres, fromres)
       IN [ok |-> ok,
           p |-> [base EXCEPT !.gprop = fromgen, !.gaux = c.haux, !.mech = mech, !.lossg = mech - (fromgen + c.haux),
                              !.brake = mech, !.fuel = fuel, !.lossf = fuel - mech, !.idle = c.idle,
                              !.rprop = fromres, !.raux = 0, !.elec = fromres, !.chem = chem, !.lossr = Abs(chem - fromres)],
           chem |-> chem]

EtaOf(c) == [f |-> 65536 \div c.kf, g |-> 65536 \div c.kg, e |-> 65536 \div c.ke, r |-> 65536 \div c.kr]

(* adversarial demand classes, relative to the limits just published *)
ReqOf(c, pb, cls) ==
  CASE cls = "zero"   -> 0
    [] cls = "half"   -> FDiv(pb.loco, 2)
    [] cls = "pubm"   -> pb.loco - c.delta
    [] cls = "pub"    -> pb.loco
    [] cls = "pubp"   -> pb.loco + c.delta            \* inside the code's tolerance (when the tolerant check binds)
    [] cls = "over"   -> pb.loco + FDiv(pb.loco, 64)  \* + 1.6 %: outside
    [] cls = "o8"     -> pb.loco + FDiv(pb.loco, 8)   \* + 12.5 % and twice the published limit: far outside (what a
    [] cls = "dbl"    -> 2 * pb.loco                  \*   unit without limit checking may be driven with)
    [] cls = "regenm" -> -pb.regen + c.delta
    [] cls = "regen"  -> -pb.regen
    [] cls = "regenp" -> -pb.regen - c.delta
    [] cls = "dyn"    -> -c.redrv                     \* what a consist would allow this unit to brake
    [] cls = "dynp"   -> -c.redrv - c.delta
    [] cls = "rate"   -> c.redrv                      \* the drivetrain's own rating, whatever was published
    [] cls = "ratep"  -> c.redrv + c.delta

----------------------------------------------------------------------------
(* Level B as a transition system *)
CONSTANTS Cfgs,          \* set of unit records
          Soc0s,         \* initial battery contents as multiples of cap/16 (units with a battery)
          Dts,           \* set of dtq
          Engs,          \* subset of BOOLEAN
          ClsOn, ClsOff, \* demand classes offered with the engine on / off
          Depth

Init == /\ cfg \in Cfgs
        /\ soc0 \in (IF cfg.kind # "conv" THEN {k * (cfg.cap \div 16) : k \in Soc0s} ELSE {0})
        /\ soc = soc0 /\ psoc = soc0
        /\ pc = "aux" /\ st = ZeroSt /\ pub = ZeroPub /\ p = [Zero EXCEPT !.brake = cfg.pb0] /\ e = Zero /\ pe = Zero /\ eta = Eta1
        /\ gap = 0 /\ safe = TRUE /\ ex = TRUE /\ i = 1 /\ n = 0 /\ hist = <<>>

SetAux == /\ pc = "aux" /\ n < Depth
          /\ \E eng \in Engs :
               /\ st' = [ZeroSt EXCEPT !.eng = eng]
               /\ pub' = [pub EXCEPT !.aux = AuxOf(cfg, eng, p.out)]
          /\ pc' = "pub"
          /\ UNCHANGED <<cfg, p, e, pe, eta, soc, psoc, soc0, gap, safe, ex, i, n, hist>>

Publish == /\ pc = "pub"
           /\ \E dtq \in Dts :
                /\ st' = [st EXCEPT !.dtq = dtq]
                /\ pub' = PubOf(cfg, pub.aux, p.brake, soc, dtq)
           /\ pc' = "solve"
           /\ UNCHANGED <<cfg, p, e, pe, eta, soc, psoc, soc0, gap, safe, ex, i, n, hist>>

Classes == IF st.eng THEN ClsOn ELSE ClsOff

Solve == /\ pc = "solve"
         /\ \E cls \in Classes :
              LET req == ReqOf(cfg, pub, cls)
                  r   == SolveOf(cfg, pub, req, st.eng, soc)
              IN /\ r.ok
                 /\ st' = [st EXCEPT !.req = req, !.cls = cls, !.acc = TRUE]
                 /\ p' = r.p /\ pe' = e /\ e' = [x \in EKeys |-> e[x] + r.p[x] * st.dtq]
                 /\ eta' = EtaOf(cfg)
                 /\ psoc' = soc /\ soc' = soc - r.chem * st.dtq                       \* res.rs:584
                 /\ gap' = gap + (IF cfg.kind = "hyb" \/ (cfg.kind = "bel" /\ req <= 0 /\ pub.propmax - r.p.ine < pub.aux)   \* KnownAuxClass'
                                  THEN (r.p.aux - r.p.raux - r.p.gaux) * st.dtq ELSE 0)
                 /\ safe' = (safe /\ (cfg.kind # "conv" => DtSafeOk(st.dtq)))
                 /\ hist' = Append(hist, [eng |-> st.eng, dt |-> st.dtq, cls |-> cls])
         /\ pc' = "adv" /\ n' = n + 1
         /\ UNCHANGED <<cfg, pub, soc0, ex, i>>

(* an ensure! fired: the caller gets Err, walk stops; the harness restores its clone. Nothing of the  *)
(* half-updated components is part of any invariant.                                                   *)
Reject == /\ pc = "solve"
          /\ \E cls \in Classes :
               LET req == ReqOf(cfg, pub, cls)
                   r   == SolveOf(cfg, pub, req, st.eng, soc)
               IN /\ ~r.ok
                  /\ st' = [st EXCEPT !.req = req, !.cls = cls, !.acc = FALSE]
                  /\ hist' = Append(hist, [eng |-> st.eng, dt |-> st.dtq, cls |-> cls])
          /\ pc' = "aux" /\ n' = n + 1
          /\ UNCHANGED <<cfg, pub, p, e, pe, eta, soc, psoc, soc0, gap, safe, ex, i>>

Advance == /\ pc = "adv"                                                  \* Locomotive::step
           /\ i' = i + 1 /\ pc' = "aux"
           /\ UNCHANGED <<cfg, st, pub, p, e, pe, eta, soc, psoc, soc0, gap, safe, ex, n, hist>>

Next == SetAux \/ Publish \/ Solve \/ Reject \/ Advance
Spec == Init /\ [][Next]_vars

View == <<cfg, pc, st, pub, p, e, pe, soc, psoc, soc0, gap, safe, i, n>>   \* hist hidden in exhaustive configs
=============================================================================
