SPECIFICATION Spec
CONSTANTS
  NT = 3
  Links <- N2_Links
  Flip <- N2_Flip
  Lock <- N2_Lock
  Routes <- R_n2_3
  Depart <- D_n2_3
  S = 2
  U = 1
  O = 1
  Rules = {"flip","lock","prevce","lead","quiet","spacing","exitce"}
  Horizon = 36
INVARIANT OppExclusive
INVARIANT LockoutExclusive
INVARIANT Headway
INVARIANT Fifo
INVARIANT MonotonePlan
INVARIANT AuthAgrees
PROPERTY CommittedStable
CHECK_DEADLOCK FALSE
