SPECIFICATION Spec
CONSTANTS
  Variant = "pinned"
  Trains <- QA_Trains
  LinkLens <- QA_LinkLens
  Speeds <- QA_Speeds
  Gates <- QA_Gates
  MaxLinks = 1
  MaxR = 3
INVARIANT Safe
INVARIANT Exact
INVARIANT Canonical
INVARIANT Functional

CHECK_DEADLOCK FALSE
