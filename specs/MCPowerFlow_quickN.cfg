SPECIFICATION Spec
CONSTANTS
  Fault = "none"
  Cfgs <- QN_Cfgs
  Soc0s <- SocN
  Dts <- Dt2
  Engs <- Bools
  ClsOn <- QN_On
  ClsOff <- QN_Off
  Depth = 3
INVARIANT L1
INVARIANT L1s
INVARIANT L2
INVARIANT L2s
INVARIANT L3
INVARIANT L3s
INVARIANT L4
INVARIANT L4s
INVARIANT L5
INVARIANT L5s
INVARIANT L6
INVARIANT L6s
INVARIANT L7
INVARIANT L7s
INVARIANT L8
INVARIANT L8s
INVARIANT L9
INVARIANT L9s
INVARIANT L10
INVARIANT L10s
INVARIANT Integ
INVARIANT LossNonNeg
INVARIANT EtaRange
INVARIANT OrderFc
INVARIANT OrderGen
INVARIANT OrderEdrv
INVARIANT OrderRes
INVARIANT Monotone
INVARIANT DynBrakeSign
INVARIANT EngineOff
INVARIANT FcRating
INVARIANT FcTransient
INVARIANT GenRating
INVARIANT EdrvRating
INVARIANT ResRating
INVARIANT ResDisch
INVARIANT ResCharge
INVARIANT LocoPub
INVARIANT Ramp
INVARIANT SocWindow
INVARIANT PublishedSane
INVARIANT Emit
CHECK_DEADLOCK FALSE
