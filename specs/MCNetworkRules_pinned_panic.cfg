SPECIFICATION Spec
CONSTANTS
  Variant = "pinned"
  Bases <- VP_Bases
  MaxFaults = 1
INVARIANT ImplNoPanic
CHECK_DEADLOCK FALSE
