SPECIFICATION Spec
CONSTANTS
  Recorded = FALSE
  Fault = "none"
  Lims <- LimOn
  Policies <- Both
  Ratings <- R123
  ConvStarts <- CS2
  BelStarts <- BS2
  MinUnits = 4
  MaxUnits = 4
  MaxSteps = 2
  WarmClasses <- WarmFew
  Classes <- AllClasses
  ThinMod = 16
INVARIANT TypeOK
INVARIANT Sum
INVARIANT RangePos
INVARIANT RangeNeg
INVARIANT Zero
INVARIANT NoOpposite
INVARIANT Regen
INVARIANT BatteryFirst
INVARIANT EmitThin
CHECK_DEADLOCK FALSE
