------------------------- MODULE NetworkRulesTrace -------------------------
(* Implementation -> spec: every outcome the real loaders produced (Network::from_yaml /      *)
(* from_json / from_file, three file layouts) for a description is compared by TLC with       *)
(* Valid(net) of that description; the harness only reports accepted | rejected | panic.      *)
(* Mismatches are appended to `viol`; the state re-synchronises at every `begin`.             *)
EXTENDS NetworkRules, Json, IOUtils

Rec == ndJsonDeserialize(IOEnv.TRACE)

(* NetworkRules' variable `net` is bound to the description of the current case (<<>> for cases without one) *)
VARIABLES l,        \* next line of Rec
          valid,    \* Valid(net), evaluated once per case
          impl,     \* ImplOutcome(net) (Level B), only for the drift count
          viol, stats
tvars == <<base, faults, l, net, valid, impl, viol, stats>>

TInit == /\ base = "" /\ faults = <<>> /\ l = 1 /\ net = <<>> /\ valid = FALSE /\ impl = "rejected" /\ viol = <<>>
         /\ stats = [cases |-> 0, loads |-> 0, accepted |-> 0, rejected |-> 0, panics |-> 0, drift |-> 0,
                     valid_cases |-> 0, legacy |-> 0, legacy_both |-> 0, harness_err |-> 0]

Names(checks) == LET Fl == SelectSeq(checks, LAMBDA c : ~c[2]) IN [i \in 1..Len(Fl) |-> Fl[i][1]]
Report(names) == viol' = viol \o [i \in 1..Len(names) |-> <<l, Rec[l].case, names[i]>>]

Begin == /\ Rec[l].ev = "begin"
         /\ net' = IF "net" \in DOMAIN Rec[l].desc THEN Rec[l].desc.net ELSE <<>>
         /\ valid' = Valid(net')
         /\ impl' = ImplOutcome(net')
         /\ stats' = [stats EXCEPT !.cases = @ + 1, !.valid_cases = @ + (IF valid' THEN 1 ELSE 0)]
         /\ UNCHANGED viol

Load == /\ Rec[l].ev = "Load"
        /\ LET o == Rec[l].outcome IN
           /\ Report(Names(<< <<"NoPanic", o # "panic">>,
                              <<"AcceptIffValid", o = "panic" \/ ((o = "accepted") <=> valid)>> >>))
           /\ stats' = [stats EXCEPT !.loads = @ + 1,
                                     !.accepted = @ + (IF o = "accepted" THEN 1 ELSE 0),
                                     !.rejected = @ + (IF o = "rejected" THEN 1 ELSE 0),
                                     !.panics = @ + (IF o = "panic" THEN 1 ELSE 0),
                                     !.drift = @ + (IF o = impl THEN 0 ELSE 1)]
        /\ UNCHANGED <<net, valid, impl>>

(* the legacy layout and the current layout of the same network, both through Network::from_file *)
Legacy == /\ Rec[l].ev = "Legacy"
          /\ LET r == Rec[l]  both == r.old = "accepted" /\ r.new = "accepted" IN
             /\ Report(Names(<< <<"NoPanic", r.old # "panic" /\ r.new # "panic">>,
                                <<"LegacySameVerdict", (r.old = "accepted") <=> (r.new = "accepted")>>,
                                <<"LegacyEqual", both => /\ r.same_len /\ r.partial_eq
                                                         /\ \A f \in DOMAIN r.fields : r.fields[f]>> >>))
             /\ stats' = [stats EXCEPT !.legacy = @ + 1, !.legacy_both = @ + (IF both THEN 1 ELSE 0)]
          /\ UNCHANGED <<net, valid, impl>>

Panic == /\ Rec[l].ev \in {"panic", "abort", "timeout"}
         /\ Report(<<"NoPanic">>)
         /\ UNCHANGED <<net, valid, impl, stats>>

End == /\ Rec[l].ev = "end"
       /\ stats' = [stats EXCEPT !.harness_err = @ + (IF Rec[l].result = "harness_err" THEN 1 ELSE 0)]
       /\ UNCHANGED <<net, valid, impl, viol>>

TNext == /\ l <= Len(Rec) /\ l' = l + 1 /\ UNCHANGED <<base, faults>>
         /\ (Begin \/ Load \/ Legacy \/ Panic \/ End)
TSpec == TInit /\ [][TNext]_tvars

AtEnd == l > Len(Rec) => /\ PrintT(<<"VIOLS", ToJson(viol)>>)
                         /\ PrintT(<<"STATS", ToJson(stats)>>)
Accepted == IF TLCGet("stats").diameter - 1 = Len(Rec) THEN TRUE
            ELSE Print(<<"FIRST-UNMATCHED", TLCGet("stats").diameter, Rec[TLCGet("stats").diameter]>>, FALSE)
=============================================================================
