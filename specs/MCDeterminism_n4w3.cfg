SPECIFICATION Spec
CONSTANTS
  N = 4
  W = 3
  Rounds = 2
  Variant = "isolated"
INVARIANT TypeOK
INVARIANT SingleAssignment
INVARIANT ElemSerial
INVARIANT InputsUntouched
INVARIANT ErrIsolated
INVARIANT AllWalked
INVARIANT Disjoint
INVARIANT Emit
CHECK_DEADLOCK FALSE
