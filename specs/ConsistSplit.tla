--------------------------- MODULE ConsistSplit ---------------------------
(***************************************************************************)
(* Consist power split (C10) and the consist-level roll-ups of C01.         *)
(*                                                                          *)
(* Level A (the property, one named invariant per clause of the statement): *)
(*   Sum, RangePos, RangeNeg, Zero, NoOpposite, Regen, BatteryFirst over    *)
(*   <<pol, kind, rat, pub, rgn, req, acc, p, mpo, mdb, den>>; only         *)
(*   ACCEPTED steps are judged (acc).  Roll* = consist totals against the   *)
(*   per-unit values (C01, evaluated on recorded states only).              *)
(* Level B (implementation-shaped, one action per public call):             *)
(*   Aggregate    = Consist::set_cur_pwr_max_out (consist_model.rs:432)     *)
(*   SplitPos_Greedy / SplitPos_Prop = RESGreedy / Proportional             *)
(*                  ::solve_positive_traction (consist_utils.rs:56 / :186)  *)
(*   SplitNeg     = solve_negative_traction (consist_utils.rs:129)          *)
(*   SplitZero    = the zero branch of Consist::solve_energy_consumption    *)
(*   Reject       = the two ensure! of consist_model.rs:270-289 (limit      *)
(*                  checking on) / the ensure! that stay (limit checking off)*)
(*   Advance      = step() of the toy units (the pre-history that makes the *)
(*                  transient limits of the units differ)                   *)
(*   Shares are never divided: p, mpo, mdb are NUMERATORS over the common   *)
(*   denominator den (den = 1 on recorded states).                          *)
(*                                                                          *)
(* Units: every power is an integer number of 1/16 W (the harness logs at   *)
(* the same scale), so model and recorded states bind without conversion.   *)
(* Data shapes = harness JSON: units = Seq([k, c, s]); kind = Seq("C"|"B"); *)
(* rat/pub/rgn/p/mpo/mdb/ust = Seq(Int); agg = record of the aggregates.    *)
(***************************************************************************)
EXTENDS Integers, Sequences, FiniteSets, TLC

CONSTANTS Recorded,      \* TRUE: states are Q-rounded records of the real code (quantisation tolerance on sums)
          Fault          \* "none", or the name of a deliberately wrong Level-B variant (bin/selftest: each must
                         \* break the invariant it is aimed at, i.e. the invariants are not vacuous)

VARIABLES pol,           \* "RESGreedy" | "Proportional"
          lim,           \* limit checking on (the default) / off: Consist::set_assert_limits(lim), handed down to every unit
          units,         \* configuration: Seq([k |-> "C"|"B", c |-> rating class, s |-> start class])
          ust,           \* hidden state of each unit: C = previous engine shaft power, B = X = (E - E_min)/2s
          kind, rat,     \* per unit: kind, drivetrain rating (static)
          pub, rgn,      \* per unit: published traction limit, published regeneration limit
          agg,           \* consist aggregates [out_max, reves, non_reves, regen_max, dyn_max, def_out, def_regen]
          req, acc,      \* request of the last solve, and whether the code accepted it
          p, mpo, mdb,   \* per unit NUMERATORS: assigned power, drivetrain mech_prop_out, mech_dyn_brake
          den            \* common denominator of p, mpo, mdb (> 0)
avars == <<lim, pol, units, ust, kind, rat, pub, rgn, agg, req, acc, p, mpo, mdb, den>>

Max2(a, b) == IF a > b THEN a ELSE b
Min2(a, b) == IF a < b THEN a ELSE b
Abs(a) == IF a < 0 THEN -a ELSE a
RECURSIVE SumTo(_, _)
SumTo(s, n) == IF n = 0 THEN 0 ELSE SumTo(s, n-1) + s[n]
SumSeq(s) == SumTo(s, Len(s))
(* sum of s over the units of kind k *)
SumKind(s, kd, k) == SumSeq([i \in 1..Len(s) |-> IF kd[i] = k THEN s[i] ELSE 0])
N == Len(kind)

----------------------------------------------------------------------------
(* Level A *)

(* Sums of N values each rounded to the lattice differ from the rounded sum by at most N/2; the   *)
(* code itself only guarantees the sum up to utils::almost_eq (|a-b| < 1e-8 |a+b|, utils/mod.rs   *)
(* :148) — 2^-25 > 2e-8 is that epsilon in integers. Exact (0) on the model's own states.         *)
SumTol == IF Recorded THEN (N \div 2) + 1 + (Abs(req) \div 33554432) ELSE 0

Sum == acc => Abs(SumSeq(p) - req * den) <= SumTol * den

(* Upper bound of a share: the code computes it as pub/total*req (consist_utils.rs:71, :195), which in   *)
(* f64 can come out 1 ulp ABOVE pub when req = total; the unit accepts that because its own limit       *)
(* checks carry an epsilon (almost_le with TOL = 1e-3: reversible_energy_storage.rs:6/:502,             *)
(* fuel_converter.rs:5/:194). If pub itself sits 1 ulp below a rounding boundary of the 1/16 W lattice  *)
(* (an off-lattice history), that ulp shows as ONE lattice unit after rounding. So: slack s = one unit  *)
(* on records that are not exactly on the lattice, 0 on lattice records and on the model's own states   *)
(* (far inside what TOL grants for pub >= 62.5 W, and the resolution of the projection below that).     *)
(* The other order relations need no slack: signs survive rounding; the ratings are lattice points in   *)
(* the whole domain (integer watts are never a rounding boundary), and -mpo <= rgn holds exactly in     *)
(* f64 (mpo = max(p, -rgn), electric_drivetrain.rs:201), which monotone odd rounding preserves.          *)
RangePosOf(ac, rq, pp, pb, dn, s) ==
  (ac /\ rq > 0) => \A i \in 1..Len(pp) : 0 <= pp[i] /\ pp[i] <= (pb[i] + s) * dn
(* Limit checking off (Consist::set_assert_limits(false)).  An "accepted consist step" is a call of              *)
(* Consist::solve_energy_consumption that returned Ok, in either mode.  With limit checking off the consist no    *)
(* longer refuses a demand outside [-pwr_dyn_brake_max, pwr_out_max] (consist_model.rs:270-289) nor compares the  *)
(* sum of the shares with the demand (:319) - "the only internal sum check can be disabled by one flag" is the     *)
(* property's own reason for stating Sum.  Reading of the statement:                                              *)
(*   Sum, Zero, NoOpposite, Regen, BatteryFirst (and the Roll* roll-ups of C01) hold for every accepted step of    *)
(*     either mode: none of them is what a limit check enforces (regeneration is clipped by the drivetrain,        *)
(*     electric_drivetrain.rs:201, not rejected);                                                                  *)
(*   RangePos / RangeNeg ("no unit is asked for more traction than its published limit / more braking than its     *)
(*     drivetrain rating") hold in either mode for every demand INSIDE the consist's published range; for a demand  *)
(*     beyond the sum of the published limits they contradict Sum (the shares of a demand above sum(pub) cannot    *)
(*     all be <= pub), and refusing such a demand is precisely what limit checking is: with limit checking off     *)
(*     and the demand outside the published range the two range clauses are not judged.                            *)
InRangePos == lim \/ req <= agg.out_max
InRangeNeg == lim \/ -req <= agg.dyn_max
RangePos == RangePosOf(acc /\ InRangePos, req, p, pub, den, 0)

RangeNeg == (acc /\ req < 0 /\ InRangeNeg) => \A i \in 1..N : -(rat[i] * den) <= p[i] /\ p[i] <= 0

Zero == (acc /\ req = 0) => \A i \in 1..N : p[i] = 0

(* no unit pushes while the consist brakes or brakes while it pushes: on the assignment and on *)
(* what the unit's drivetrain did with it                                                       *)
NoOpposite == acc => \A i \in 1..N :
                 /\ req > 0 => (p[i] >= 0 /\ mpo[i] >= 0 /\ mdb[i] = 0)
                 /\ req < 0 => (p[i] <= 0 /\ mpo[i] <= 0)

(* regeneration only on battery units and never above the published regeneration limit *)
Regen == acc => \A i \in 1..N :
            /\ kind[i] = "C" => mpo[i] >= 0
            /\ kind[i] = "B" => -mpo[i] <= rgn[i] * den

(* battery-first: the fuel-burning units deliver exactly what the battery units cannot *)
BatteryFirst ==
  (acc /\ pol = "RESGreedy" /\ req > 0) =>
     LET sb == SumKind(pub, kind, "B")
         sc == SumKind(p, kind, "C")
     IN /\ Abs(sc - Max2(0, req - sb) * den) <= SumTol * den
        /\ (req + SumTol <= sb) => \A i \in 1..N : kind[i] = "C" => p[i] = 0

LevelA == Sum /\ RangePos /\ RangeNeg /\ Zero /\ NoOpposite /\ Regen /\ BatteryFirst

(* ---- consist roll-ups (C01: "consist-level fuel, battery and wheel totals equal the sums over   *)
(* its locomotives"); r = a recorded state with totals r.tot and per-unit arrays r.p / r.u*        *)
RollTol(r) == (Len(r.p) \div 2) + 1
RollPwrOut(r)     == Abs(r.tot.p_out  - SumSeq(r.p))       <= RollTol(r)
RollPwrFuel(r)    == Abs(r.tot.p_fuel - SumSeq(r.up_fuel)) <= RollTol(r)
RollPwrRes(r)     == Abs(r.tot.p_res  - SumSeq(r.up_res))  <= RollTol(r)
RollEnergyOut(r)  == Abs(r.tot.e_out  - SumSeq(r.ue_out))  <= RollTol(r)
RollEnergyFuel(r) == Abs(r.tot.e_fuel - SumSeq(r.ue_fuel)) <= RollTol(r)
RollEnergyRes(r)  == Abs(r.tot.e_res  - SumSeq(r.ue_res))  <= RollTol(r)
(* Consist::get_energy_fuel / get_net_energy_res (only meaningful on live states, not histories) *)
RollGetFuel(r)    == Abs(r.tot.g_fuel - SumSeq(r.ue_fuel)) <= RollTol(r)
RollGetRes(r)     == Abs(r.tot.g_res  - SumSeq(r.ue_res))  <= RollTol(r)

----------------------------------------------------------------------------
(* Level B: the functions of the code, on numerators *)

(* Consist::set_cur_pwr_max_out + set_pwr_dyn_brake_max (the deficits are left as they were) *)
AggOf(kd, rt, pb, rg, old) ==
  LET om == SumSeq(pb)  rv == SumKind(pb, kd, "B")
  IN [out_max |-> om, reves |-> rv, non_reves |-> om - rv, regen_max |-> SumSeq(rg),
      dyn_max |-> SumSeq(rt), def_out |-> old.def_out, def_regen |-> old.def_regen]

(* the two ensure! at the top of Consist::solve_energy_consumption (exact comparisons), limit checking on *)
Admit(a, r) == -r <= a.dyn_max /\ r <= a.out_max
(* limit checking off: both are skipped.  Braking beyond pwr_dyn_brake_max is still refused, by                    *)
(* `ensure!(surplus_frac <= 1)` of solve_negative_traction (consist_utils.rs:162): deficit <= sum(rating - regen)   *)
(* <=> -r <= dyn_max (regen_max <= dyn_max always).  Traction beyond pwr_out_max is split like any other demand.   *)
AdmitOff(a, r) == -r <= a.dyn_max

DefOut(a, r)   == Max2(r - a.reves, 0)
DefRegen(a, r) == Max2(-r - a.regen_max, 0)

(* RESGreedy::solve_positive_traction *)
PosGreedy(kd, pb, a, r) ==
  LET d == DefOut(a, r) IN
  IF d = 0
  THEN [den |-> a.reves, num |-> [i \in 1..Len(kd) |-> IF kd[i] = "B" THEN pb[i] * r ELSE 0]]
  ELSE [den |-> a.non_reves,
        num |-> [i \in 1..Len(kd) |-> IF kd[i] = "C" THEN pb[i] * d ELSE pb[i] * a.non_reves]]
(* Fault "fuel_first": the order reversed, sum kept *)
PosFuelFirst(kd, pb, a, r) ==
  IF r <= a.non_reves
  THEN [den |-> a.non_reves, num |-> [i \in 1..Len(kd) |-> IF kd[i] = "C" THEN pb[i] * r ELSE 0]]
  ELSE [den |-> a.reves,
        num |-> [i \in 1..Len(kd) |-> IF kd[i] = "B" THEN pb[i] * (r - a.non_reves) ELSE pb[i] * a.reves]]

(* Proportional::solve_positive_traction *)
PosProp(kd, pb, a, r) ==
  [den |-> a.out_max,
   num |-> [i \in 1..Len(kd) |-> IF Fault = "drop_last_share" /\ i = Len(kd) /\ i > 1 THEN 0 ELSE pb[i] * r]]

(* solve_negative_traction: regen first (fraction capped at 1), the rest (regen deficit) spread over *)
(* every unit in proportion to the drivetrain capacity it has left                                 *)
Neg(kd, rt, rg, a, r) ==
  LET b == -r
      d == DefRegen(a, r)
  IN IF d = 0
     THEN [den |-> a.regen_max, num |-> [i \in 1..Len(kd) |-> IF kd[i] = "B" THEN -(rg[i] * b) ELSE 0]]
     ELSE LET regen == [i \in 1..Len(kd) |-> IF kd[i] = "B" /\ a.regen_max # 0 THEN rg[i] ELSE 0]
              \* Fault "surplus_by_rating": headroom not reduced by the regeneration share
              spl   == [i \in 1..Len(kd) |-> IF Fault = "surplus_by_rating" THEN rt[i] ELSE rt[i] - regen[i]]
              S     == SumSeq(spl)
          IN [den |-> S, num |-> [i \in 1..Len(kd) |-> -(spl[i] * d + regen[i] * S)]]

SplitOf(po, kd, rt, pb, rg, a, r) ==
  IF r > 0 THEN (IF po = "RESGreedy"
                 THEN (IF Fault = "fuel_first" /\ a.reves > 0 /\ a.non_reves > 0 THEN PosFuelFirst(kd, pb, a, r)
                       ELSE PosGreedy(kd, pb, a, r))
                 ELSE PosProp(kd, pb, a, r))
  ELSE IF r < 0 THEN Neg(kd, rt, rg, a, r)
  ELSE [den |-> 1, num |-> [i \in 1..Len(kd) |-> 0]]

(* accepted = admitted and the shares are numbers (a zero denominator is 0/0 = NaN in the code, *)
(* which then fails its own sum check). Deliberate deviation: the ensure! of the units (exact   *)
(* `<=` of drivetrain and generator against a share that is 1 ulp high, SOC window guards of   *)
(* the battery, surplus_frac = 1 + 1 ulp) are not modelled - such steps are rejections, which  *)
(* the property does not judge; the trace spec counts them as drift_verdict.                   *)
(* Limit checking off, RESGreedy, no conventional unit, demand above what the batteries published: the deficit *)
(* branch has nobody to give the deficit to (den = non_reves = 0); the code does not return Err there but     *)
(* PANICS in RESGreedy's own assert_almost_eq_uom (consist_utils.rs:96) - not an accepted step either way     *)
(* (recorded as NoPanic, owned by no property; with limit checking on the demand is refused before).         *)
WithDef(a, r) == [a EXCEPT !.def_out = DefOut(a, r), !.def_regen = DefRegen(a, r)]
Accepts(lm, po, kd, rt, pb, rg, a, r) == /\ (IF lm THEN Admit(a, r) ELSE AdmitOff(a, r))
                                         /\ SplitOf(po, kd, rt, pb, rg, WithDef(a, r), r).den > 0
(* ... with limit checking off the ensure! of the units are what refuses an over-limit share (sp = the split; toy   *)
(* units: generator rating = drivetrain rating = rt, aux 1 W, efficiencies 1):                                     *)
(*   conventional: share + aux <= generator rating (generator.rs:261; the engine's own rating / transient checks    *)
(*                 are skipped, fuel_converter.rs:192) - so a conventional unit CAN be driven above its published  *)
(*                 limit, up to its generator rating;                                                              *)
(*   battery:      share + aux <= published discharge limit (reversible_energy_storage.rs:502, not guarded by the   *)
(*                 flag; its 1e-3 tolerance is not modelled) <=> share <= published traction limit.                *)
UnitsOk(kd, rt, pb, sp) == \A i \in 1..Len(kd) : sp.num[i] > 0 =>
                             IF kd[i] = "C" THEN sp.num[i] + 16 * sp.den <= rt[i] * sp.den
                                            ELSE sp.num[i] <= pb[i] * sp.den

(* ElectricDrivetrain::set_pwr_in_req: what is not regenerated is dynamic braking; a conventional *)
(* unit's drivetrain never has a regeneration limit (pwr_mech_regen_max stays 0)                  *)
(* Fault "edrv_no_regen_clip": everything negative counted as regeneration                        *)
MpoOf(kd, rg, num, d) ==
  [i \in 1..Len(kd) |-> IF Fault = "edrv_no_regen_clip" THEN num[i]
                        ELSE Max2(num[i], -((IF kd[i] = "B" THEN rg[i] ELSE 0) * d))]
MdbOf(num, m) == [i \in 1..Len(num) |-> m[i] - num[i]]

----------------------------------------------------------------------------
(* Level B: the toy units (table shared with harness/src/bin/avh_consist.rs::toy_params).       *)
(* R = 64 c W, efficiencies 1, aux 1 W, dt 1 s.                                                *)
(*  C: engine ramp R/4 per step above the previous shaft power, floor by start class           *)
(*  B: capacity 16 R J, SOC window [1/8, 7/8], ramps from 1/4 and 3/4: with X = 8R(soc - 1/8)  *)
(*     discharge limit = clamp(X, 0, R), charge limit = clamp(6R - X, 0, R), X' = X - elec/2   *)
RU(u)  == 1024 * u.c
Aux    == 16
Delta  == 2              \* the "just below / just above" offset of the demand classes (1/8 W)
FloorC(u) == CASE u.s = 0 -> RU(u) \div 4 [] u.s = 1 -> RU(u) \div 2 [] OTHER -> RU(u)
X0(u)     == CASE u.s = 0 -> RU(u) \div 2 [] u.s = 1 -> 3 * RU(u) [] u.s = 2 -> (11 * RU(u)) \div 2
               [] u.s = 3 -> RU(u) \div 16 [] u.s = 4 -> 6 * RU(u) [] OTHER -> 0
InitUst(u) == IF u.k = "C" THEN 0 ELSE X0(u)
Clamp(x, lo, hi) == Max2(lo, Min2(x, hi))

(* FuelConverter::set_cur_pwr_out_max -> Generator -> ElectricDrivetrain | RES -> ElectricDrivetrain *)
PubOf(u, x) == IF u.k = "C"
               THEN Min2(RU(u), Min2(Max2(Min2(x + RU(u) \div 4, RU(u)), FloorC(u)), RU(u)) - Aux)
               ELSE Min2(RU(u), Clamp(x, 0, RU(u)) - Aux)
RgnOf(u, x) == IF u.k = "C" THEN 0 ELSE Min2(Clamp(6 * RU(u) - x, 0, RU(u)) + Aux, RU(u))

(* electrical power the battery sees for wheel power w (aux curtailed to what is available when  *)
(* not pulling: BatteryElectricLoco::solve_energy_consumption)                                   *)
ElecB(u, x, w) == LET m == Max2(w, -RgnOf(u, x))
                      avail == (Clamp(x, 0, RU(u)) - Aux) - m
                  IN m + (IF m > 0 THEN Aux ELSE Max2(Min2(Aux, avail), 0))
(* hidden state after an accepted step with wheel power w (an integer) *)
NextUst(u, x, w) == IF u.k = "C" THEN Max2(w, 0) + Aux ELSE x - (ElecB(u, x, w) \div 2)
StepExact(u, x, w) == u.k = "C" \/ ElecB(u, x, w) % 2 = 0

----------------------------------------------------------------------------
(* Level B as a transition system *)
CONSTANTS Lims,                   \* subset of BOOLEAN: modes of limit checking explored
          Policies, Ratings, ConvStarts, BelStarts,
          MinUnits, MaxUnits,     \* compositions: every word over {C,B} of MinUnits..MaxUnits units
          MaxSteps,               \* steps per behaviour (all but the last are the pre-history)
          WarmClasses,            \* demand classes after which the behaviour may go on
          Classes                 \* demand classes of any step

VARIABLES phase,         \* "build" | "idle" | "pub" | "split"
          hist           \* demand classes so far (the replayable behaviour)
vars == <<lim, pol, units, ust, kind, rat, pub, rgn, agg, req, acc, p, mpo, mdb, den, phase, hist>>

Agg0 == [out_max |-> 0, reves |-> 0, non_reves |-> 0, regen_max |-> 0, dyn_max |-> 0, def_out |-> 0, def_regen |-> 0]

Init == /\ pol \in Policies /\ lim \in Lims
        /\ units = <<>> /\ ust = <<>> /\ kind = <<>> /\ rat = <<>> /\ pub = <<>> /\ rgn = <<>>
        /\ agg = Agg0 /\ req = 0 /\ acc = FALSE /\ p = <<>> /\ mpo = <<>> /\ mdb = <<>> /\ den = 1
        /\ phase = "build" /\ hist = <<>>

UnitChoices == {[k |-> "C", c |-> c, s |-> s] : c \in Ratings, s \in ConvStarts}
               \cup {[k |-> "B", c |-> c, s |-> s] : c \in Ratings, s \in BelStarts}

AddUnit == /\ phase = "build" /\ Len(units) < MaxUnits
           /\ \E u \in UnitChoices :
                /\ units' = Append(units, u)
                /\ ust' = Append(ust, InitUst(u))
                /\ kind' = Append(kind, u.k)
                /\ rat' = Append(rat, RU(u))
                /\ pub' = Append(pub, 0) /\ rgn' = Append(rgn, 0)
                /\ p' = Append(p, 0) /\ mpo' = Append(mpo, 0) /\ mdb' = Append(mdb, 0)
           /\ UNCHANGED <<lim, pol, agg, req, acc, den, phase, hist>>

(* set_pwr_aux + set_cur_pwr_max_out: every unit publishes, the consist aggregates *)
Aggregate == /\ phase \in {"build", "idle"} /\ Len(units) >= MinUnits /\ Len(units) >= 1
             /\ pub' = [i \in 1..N |-> PubOf(units[i], ust[i])]
             /\ rgn' = [i \in 1..N |-> RgnOf(units[i], ust[i])]
             /\ agg' = AggOf(kind, rat, pub', rgn', agg)
             /\ acc' = FALSE
             /\ phase' = "pub"
             /\ UNCHANGED <<lim, pol, units, ust, kind, rat, req, p, mpo, mdb, den, hist>>

(* the request of a demand class, from the aggregates just published; classes that would need a *)
(* half lattice unit are not enabled                                                            *)
ReqOK(cls, a) == CASE cls = "half"  -> a.out_max % 2 = 0
                   [] cls = "over"  -> a.out_max % 8 = 0
                   [] cls = "rhalf" -> a.regen_max % 2 = 0
                   [] cls = "dmid"  -> (a.regen_max + a.dyn_max) % 2 = 0
                   [] OTHER -> TRUE
ReqOf(cls, a) == CASE cls = "full"  -> a.out_max
                   [] cls = "fullm" -> a.out_max - Delta
                   [] cls = "fullp" -> a.out_max + Delta
                   [] cls = "half"  -> a.out_max \div 2
                   [] cls = "over"  -> a.out_max + a.out_max \div 8     \* + 12.5 % and twice the published consist limit:
                   [] cls = "dbl"   -> 2 * a.out_max                    \*   only a consist without limit checking takes them
                   [] cls = "rev"   -> a.reves
                   [] cls = "revm"  -> a.reves - Delta
                   [] cls = "revp"  -> a.reves + Delta
                   [] cls = "low"   -> Delta
                   [] cls = "zero"  -> 0
                   [] cls = "rgn"   -> -a.regen_max
                   [] cls = "rgnm"  -> -a.regen_max + Delta
                   [] cls = "rgnp"  -> -a.regen_max - Delta
                   [] cls = "rhalf" -> -(a.regen_max \div 2)
                   [] cls = "dyn"   -> -a.dyn_max
                   [] cls = "dynm"  -> -a.dyn_max + Delta
                   [] cls = "dynp"  -> -a.dyn_max - Delta
                   [] cls = "dmid"  -> -((a.regen_max + a.dyn_max) \div 2)

Ok(r) == /\ Accepts(lim, pol, kind, rat, pub, rgn, agg, r)
         /\ (~lim => UnitsOk(kind, rat, pub, SplitOf(pol, kind, rat, pub, rgn, WithDef(agg, r), r)))
(* common part of the accepting branches of Consist::solve_energy_consumption *)
Solve(cls, r) ==
  LET a2 == WithDef(agg, r)
      sp == SplitOf(pol, kind, rat, pub, rgn, a2, r)
  IN /\ req' = r /\ acc' = TRUE /\ agg' = a2
     /\ den' = sp.den /\ p' = sp.num
     /\ mpo' = MpoOf(kind, rgn, sp.num, sp.den)
     /\ mdb' = MdbOf(sp.num, mpo')
     /\ hist' = Append(hist, cls)
     /\ phase' = "split"
     /\ UNCHANGED <<lim, pol, units, ust, kind, rat, pub, rgn>>

SplitPos_Greedy == /\ phase = "pub" /\ pol = "RESGreedy"
                   /\ \E cls \in Classes : ReqOK(cls, agg) /\ ReqOf(cls, agg) > 0
                                           /\ Ok(ReqOf(cls, agg)) /\ Solve(cls, ReqOf(cls, agg))
SplitPos_Prop   == /\ phase = "pub" /\ pol = "Proportional"
                   /\ \E cls \in Classes : ReqOK(cls, agg) /\ ReqOf(cls, agg) > 0
                                           /\ Ok(ReqOf(cls, agg)) /\ Solve(cls, ReqOf(cls, agg))
SplitNeg        == /\ phase = "pub"
                   /\ \E cls \in Classes : ReqOK(cls, agg) /\ ReqOf(cls, agg) < 0
                                           /\ Ok(ReqOf(cls, agg)) /\ Solve(cls, ReqOf(cls, agg))
SplitZero       == /\ phase = "pub"
                   /\ \E cls \in Classes : ReqOK(cls, agg) /\ ReqOf(cls, agg) = 0
                                           /\ Ok(0) /\ Solve(cls, 0)
(* ensure! fired: nothing but the verdict is part of the abstract state (the harness restores a clone) *)
Reject          == /\ phase = "pub"
                   /\ \E cls \in Classes : /\ ReqOK(cls, agg) /\ ~Ok(ReqOf(cls, agg))
                                           /\ req' = ReqOf(cls, agg) /\ acc' = FALSE
                                           /\ hist' = Append(hist, cls) /\ phase' = "split"
                   /\ UNCHANGED <<lim, pol, units, ust, kind, rat, pub, rgn, agg, p, mpo, mdb, den>>

(* the shares of the last step are lattice values and every battery moves by a lattice value *)
SharesExact == /\ \A i \in 1..N : p[i] % den = 0
               /\ \A i \in 1..N : StepExact(units[i], ust[i], p[i] \div den)
CanAdvance == /\ phase = "split" /\ Len(hist) < MaxSteps /\ hist[Len(hist)] \in WarmClasses
              /\ (acc => SharesExact)
(* step(): the units move on (only after an accepted solve) *)
Advance == /\ CanAdvance
           /\ ust' = IF acc THEN [i \in 1..N |-> NextUst(units[i], ust[i], p[i] \div den)] ELSE ust
           /\ phase' = "idle"
           /\ UNCHANGED <<lim, pol, units, kind, rat, pub, rgn, agg, req, acc, p, mpo, mdb, den, hist>>

Next == AddUnit \/ Aggregate \/ SplitPos_Greedy \/ SplitPos_Prop \/ SplitNeg \/ SplitZero \/ Reject \/ Advance
Spec == Init /\ [][Next]_vars

(* sanity of the model's own bookkeeping *)
TypeOK == /\ den > 0
          /\ Len(p) = N /\ Len(pub) = N /\ Len(rgn) = N /\ Len(rat) = N /\ Len(ust) = N
          /\ \A i \in 1..N : mdb[i] >= 0
=============================================================================
