---------------------------- MODULE Controller ----------------------------
(***************************************************************************)
(* C03, Level B of the CONTROLLER: an integer-kinematics transcription of   *)
(* BrakingPoints::calc_speeds (train/braking_point.rs:36-66) and of         *)
(* SpeedLimitTrainSim::solve_required_pwr (train/speed_limit_train_sim.rs   *)
(* :405-654), composed with the braking table BrakingCurve!Recalc builds.   *)
(* TLC checks that on every admitted profile a safe table makes a safe run. *)
(*                                                                          *)
(* Scale: unit mass, dt = 1 s. Speeds and forces are integers, positions    *)
(* are kept in HALF offset units (the trapezoid rule adds v + dv/2).        *)
(* With a 1 kg train, a friction brake of A - r newtons, a constant         *)
(* resistance of r newtons and a consist whose force limit is scripted per  *)
(* step the real code computes exactly these integers (the "ctrl" cases of  *)
(* harness/src/bin/avh_control.rs step a real SpeedLimitTrainSim).          *)
(*                                                                          *)
(* Environment (nondeterminism): per run a constant resistance r (negative  *)
(* = down grade; the table is built for the same r: its deceleration        *)
(* A = friction + r) and a brake build-up time R; per step the force F the  *)
(* consist can apply, as traction and as dynamic brake alike.               *)
(* Deliberate deviations: the traction POWER limit is not modelled          *)
(* (pwr_pos_max is far above force * speed at this scale, so                *)
(* f_pos_max = force_max and v_max never binds); ramp_up_coeff = 1/2.       *)
(***************************************************************************)
EXTENDS BrakingCurve

CONSTANTS Forces,     \* forces the consist may be able to apply in a step
          Envs,       \* set of <<r, R>>: resistance, brake build-up time (A - r divisible by R when R > 0)
          Window,     \* stopping window, in offset units (the code's 1000 ft)
          TLen,       \* train length = initial position of the front
          Free,       \* TRUE: F is chosen freely at every step; FALSE: F follows a cyclic policy (replayable runs)
          Policies,   \* set of non-empty sequences of forces (used when ~Free)
          MaxSteps    \* policy runs are cut (and emitted) after this many steps

VARIABLES phase,      \* "build" (profile under construction) | "run"
          env,        \* <<r, R>> of the run
          pol,        \* policy of the run (<<>> when Free)
          cs          \* controller / train state, see CS0
cvars == <<phase, env, pol, cs>>
allvars == <<sp, end, tbl, under, phase, env, pol, cs>>

----------------------------------------------------------------------------
(* calc_speeds; table offsets are doubled to compare with half-unit positions *)

(* "if points.first().offset <= offset { idx_curr = 0 } else { while points[idx_curr-1].offset <= offset  *)
(* { idx_curr -= 1 } }" — 1-based; 0 = the code would index points[-1] (usize underflow, panic)            *)
RECURSIVE Down(_, _, _)
Down(pts, ic, X) == IF ic = 1 THEN 0
                    ELSE IF 2 * pts[ic-1][1] <= X THEN Down(pts, ic-1, X) ELSE ic
Catch(pts, ic, X) == IF 2 * pts[1][1] <= X THEN 1 ELSE Down(pts, ic, X)

(* "while idx >= 1 && points[idx-1].offset <= offset_far { speed_target = min(..); idx -= 1 }" *)
RECURSIVE Look(_, _, _, _)
Look(pts, idx, Xfar, t) == IF idx >= 2 /\ 2 * pts[idx-1][1] <= Xfar
                           THEN Look(pts, idx-1, Xfar, Min2(t, pts[idx-1][4])) ELSE t

(* offset_far = offset + speed * ramp_up_time * ramp_up_coeff, coeff = 1/2: in half units X + v*R *)
Far(X, v, R) == X + v * R

----------------------------------------------------------------------------
(* solve_required_pwr: one step. s = state before, F = force the consist can apply. *)
Fric(r) == A - r      \* the table's deceleration A = friction brake + resistance

CS0 == [x |-> 2 * TLen, v |-> 0, ic |-> 0, ff |-> 0, lim |-> 0, tgt |-> 0, px |-> 2 * TLen,
        panic |-> FALSE, err |-> FALSE, k |-> 0]

StepFn(pts, e, s, F) ==
  LET r == e[1]  R == e[2]
      ic == Catch(pts, s.ic, s.x)
  IN IF ic = 0 THEN [s EXCEPT !.panic = TRUE, !.k = @ + 1]
     ELSE IF s.v > pts[ic][2]                              \* assert!(speed <= speed_limit, "Speed limit violated!")
     THEN [s EXCEPT !.ic = ic, !.panic = TRUE, !.k = @ + 1]
     ELSE
       LET lim  == pts[ic][2]
           tgt  == Look(pts, ic, Far(s.x, s.v, R), pts[ic][4])
           ftgt == r + (tgt - s.v)                         \* f_applied_target = res_net + m (target - speed) / dt
           fpos == F                                       \* f_pos_max = force_max.min(pwr_pos_max / ..) with ample power
       IN IF s.v = 0 /\ fpos <= r                          \* "Train does not have sufficient power to move!"
          THEN [s EXCEPT !.ic = ic, !.lim = lim, !.tgt = tgt, !.err = TRUE, !.k = @ + 1]
          ELSE
            LET fcur == IF R = 0 THEN Fric(r)              \* FricBrake::set_cur_force_max_out
                        ELSE Min2(s.ff + Fric(r) \div R, Fric(r))
                fdyn == F                                  \* below v_neg_trac_lim: the consist's force limit
                fapp == Min2(fpos, Max2(ftgt, -fcur - fdyn))
                dv   == fapp - r                           \* vel_change = dt / m * (f_applied - res_net)
                ff2  == IF fapp >= 0 THEN 0                \* friction brake released
                        ELSE IF fapp + s.ff >= 0 THEN s.ff           \* "If the friction brakes should be released, don't add power"
                        ELSE IF fapp + s.ff + fdyn >= 0 THEN s.ff    \* current friction + dynamic brake suffice
                        ELSE -(fapp + fdyn)                          \* max out the dynamic brake, friction takes the rest
            IN [x |-> s.x + 2 * s.v + dv,                  \* offset += dt * (speed + vel_change / 2)
                v |-> s.v + dv,                            \* (the snap to speed_target is the identity on integers)
                ic |-> ic, ff |-> ff2, lim |-> lim, tgt |-> tgt, px |-> s.x,
                panic |-> FALSE, err |-> FALSE, k |-> s.k + 1]

(* walk_internal's loop condition (speed_limit_train_sim.rs:335-337) *)
MustGoOn(s, endo) == s.x < 2 * (endo - Window) \/ (s.x < 2 * endo /\ s.v # 0)
Halted(s) == s.panic \/ s.err

(* a scripted run: k steps with F = policy[(i-1) % Len + 1]; the sequence of states after each step *)
RECURSIVE RunSeq(_, _, _, _, _, _)
RunSeq(pts, e, s, policy, i, n) ==
  IF i > n THEN <<>>
  ELSE LET s2 == StepFn(pts, e, s, policy[((i - 1) % Len(policy)) + 1])
       IN <<s2>> \o (IF Halted(s2) THEN <<>> ELSE RunSeq(pts, e, s2, policy, i + 1, n))

----------------------------------------------------------------------------
(* the composed system *)
CInit == Init /\ phase = "build" /\ env = <<0, 0>> /\ pol = <<>> /\ cs = CS0

Build == phase = "build" /\ AddZone /\ UNCHANGED cvars

(* The geometry of F-C03-4 (found by this model with sign-encoded limits, reproduced on the real code at toy      *)
(* scale: zones -8 [0,3) | 8 [3,11) | 4 [11,31), forces 2, 5 -> `Speed limit violated! speed=7, speed_limit=6`;    *)
(* repaired, Variant = "catchup"): a braking curve abandoned at the start of the path after crossing a boundary   *)
(* between two zones of EQUAL magnitude (possible only through the sign encoding). Before the repair recalc       *)
(* pushed that boundary's start point after the abandoned curve point; calc_speeds, searching from the end of     *)
(* the table, stopped at the boundary point and never reached the curve point behind it, so upstream of the       *)
(* boundary the train was given the full limit as target. Kept to name the class; no config excludes it           *)
(* (MCController_hiddentarget.cfg checks the pre-repair variant and must fail).                                    *)
HiddenTarget == \E k \in 1..(Len(tbl) - 1) :
                  /\ tbl[k][1] <= 0 /\ tbl[k+1][1] > 0
                  /\ \E i \in 2..Len(sp) : sp[i][1] = tbl[k+1][1] /\ V(sp, i) = V(sp, i-1)

Start == /\ phase = "build" /\ Admitted /\ ~under
         /\ phase' = "run"
         /\ env' \in Envs
         /\ IF Free THEN pol' = <<>> ELSE pol' \in Policies
         /\ cs' = [CS0 EXCEPT !.ic = Len(tbl)]          \* recalc leaves idx_curr on the last point
         /\ UNCHANGED vars

Going == phase = "run" /\ ~Halted(cs) /\ MustGoOn(cs, end) /\ (Free \/ cs.k < MaxSteps)

Step == /\ Going
        /\ IF Free THEN \E F \in Forces : cs' = [StepFn(tbl, env, cs, F) EXCEPT !.k = 1]   \* k only marks "stepped"
           ELSE cs' = StepFn(tbl, env, cs, pol[(cs.k % Len(pol)) + 1])
        /\ UNCHANGED <<sp, end, tbl, under, phase, env, pol>>

(* tbl and under are functions of <<sp, end>>: left out of the fingerprint *)
CView == <<sp, end, phase, env, pol, cs>>

CNext == Build \/ Start \/ Step
CSpec == CInit /\ [][CNext]_allvars
CFairSpec == CSpec /\ WF_allvars(Step)

----------------------------------------------------------------------------
(* Level A on the composed system *)
Sp2 == [j \in 1..Len(sp) |-> <<2 * sp[j][1], sp[j][2]>>]
Running == phase = "run"
Stepped == Running /\ cs.k > 0 /\ ~Halted(cs)

CNonNeg        == Running => cs.v >= 0
CPosted        == Running /\ ~Halted(cs) => cs.v <= PostedHi(Sp2, cs.x)      \* speed <= Posted(offset), every step
CNoPanic       == Running => ~cs.panic            \* the code's own assert: speed <= the limit it reports for that position
CTargetLeLimit == Stepped => cs.tgt <= cs.lim
CLimitLePosted == Stepped => cs.lim <= PostedHi(Sp2, cs.px)
CNoStall       == Running => ~cs.err              \* holds because every F in Forces exceeds every resistance in Envs
(* every step moves the front: a run takes at most 2 * end steps *)
CProgress      == Stepped => cs.x > cs.px
(* when walk_internal's condition ends the run: at rest, inside the window, not beyond the end *)
CStopWindow    == Running /\ ~Halted(cs) /\ ~MustGoOn(cs, end)
                    => /\ cs.v = 0
                       /\ cs.x >= 2 * (end - Window)
                       /\ cs.x <= 2 * Max2(end, TLen)
(* liveness, checked in the unconstrained (Free) configs under weak fairness of Step *)
Terminates == (phase = "run") ~> (phase = "run" /\ (Halted(cs) \/ ~MustGoOn(cs, end)))
=============================================================================
