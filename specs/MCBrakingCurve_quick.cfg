SPECIFICATION Spec
CONSTANTS
  Variant = "catchup"
  E = 0
  VPerO = 1
  MaxZ = 4
  Lens <- Q_Lens
  Lims <- Q_Lims
  Domain = "admitted"
INVARIANT TableSafe
INVARIANT TargetLeLimit
INVARIANT Monotone
INVARIANT NoUnderflow
INVARIANT Emit
CHECK_DEADLOCK FALSE
