SPECIFICATION Spec
CONSTANTS
  DeepKinds <- MC_MediaDeep
  ShallowKinds <- MC_MediaShallow
  StaticKinds <- MC_Static
  Depth = 2
  ShallowDepth = 2
  Media = {"mem", "reader", "file", "alias", "over"}
  Sizes = {"small"}
  BigSaves = 1
  Variant = "keep_tail"
INVARIANT TypeOK
INVARIANT Stutter
INVARIANT Idempotent
INVARIANT SaveLoadOk
INVARIANT MediumIndependent

PROPERTY StutterStep
CHECK_DEADLOCK FALSE
