----------------------------- MODULE Checkpoint -----------------------------
(***************************************************************************)
(* C17 — every model object survives save/load in every advertised format,  *)
(* mid-run too.                                                             *)
(*                                                                          *)
(* What TLA+ contributes here is the refinement statement and the           *)
(* enumeration, not byte-level insight:                                     *)
(*                                                                          *)
(*   a checkpoint is a STUTTERING STEP OF THE OBSERVABLE TRAJECTORY.        *)
(*                                                                          *)
(* Level A (the property), over <<kind, step, traj>>:                       *)
(*   Stutter  == traj = RefTraj(kind, step)   the trajectory observed under *)
(*               any interleaving of SaveLoad actions is the trajectory of  *)
(*               the checkpoint-free run                                    *)
(*   SaveLoad(fmt) == UNCHANGED <<step, traj>>                              *)
(* `traj` is the sequence of per-step digests of what a step makes          *)
(* observable (state structs, histories, step counters; for a static type   *)
(* the result of using it). Deliberately NOT "the object is unchanged":     *)
(* init() recomputes derived values, serde(skip) caches are rebuilt lazily, *)
(* so a reloaded object is often not == the original although nothing       *)
(* observable differs.                                                      *)
(*                                                                          *)
(* Level B (implementation-shaped): an object is                            *)
(*   [i, acc, hlen]  serialised fields: step counter, a cumulative quantity *)
(*                   (energy, offset...), history length                    *)
(*   cache           a serde(skip) field derived from the parameters,       *)
(*                   rebuilt on first use after a load                      *)
(* Step reads the cache, advances i, acc, hlen and appends Dig(obj);        *)
(* SaveLoad(fmt) replaces the object by Reload(obj): serialised fields      *)
(* survive, the cache does not. Variant selects a faithful Reload or one of *)
(* the fault models used to show that Stutter can fail (vacuity):           *)
(*   "skip_acc"  a state field carries #[serde(skip)] / init() resets it    *)
(*   "drop_i"    the step counter is not serialised                         *)
(*   "drop_hist" a history column is not serialised                         *)
(*   "drift"     every round trip perturbs a number (a parser that does not *)
(*               round-trip): also breaks Idempotent                        *)
(*                                                                          *)
(* TLC enumerates every schedule over {Step, SaveLoad(yaml|json|bin)} up to *)
(* DepthOf(kind) for every object kind — every step index is a checkpoint   *)
(* position — checks Stutter on all of them and (MCCheckpoint) emits each   *)
(* complete schedule as a replayable case for the real objects.             *)
(***************************************************************************)
EXTENDS Integers, Sequences, FiniteSets, TLC

CONSTANTS DeepKinds,      \* kinds explored to Depth (simulation objects)
          ShallowKinds,   \* kinds explored to ShallowDepth
          StaticKinds,    \* subset of the kinds whose Step is a *use* (object not advanced)
          Depth, ShallowDepth,
          Variant         \* "faithful" | "skip_acc" | "drop_i" | "drop_hist" | "drift"

Formats == {"yaml", "json", "bin"}
Kinds == DeepKinds \cup ShallowKinds
DepthOf(k) == IF k \in DeepKinds THEN Depth ELSE ShallowDepth

VARIABLES kind,   \* object kind of this behaviour
          step,   \* number of Steps taken
          traj,   \* observable trajectory: digest after every Step
          obj,    \* the live object (Level B)
          hist    \* the schedule so far: "step" | format names
vars == <<kind, step, traj, obj, hist>>

----------------------------------------------------------------------------
(* the abstract object *)
Param == 3                                    \* a construction parameter the cache derives from
NoCache == -1                                 \* "not built yet" (TLC compares integers with integers only)
Fresh == [i |-> 0, acc |-> 0, hlen |-> 0, cache |-> NoCache, par |-> Param]
Derived(o) == o.par * 2                       \* what the lazily rebuilt cache holds
CacheOf(o) == IF o.cache = NoCache THEN Derived(o) ELSE o.cache
Inc(o) == CacheOf(o) + o.i                    \* the step's increment depends on the counter and the cache

Advance(o) == [o EXCEPT !.i = @ + 1, !.acc = @ + Inc(o), !.hlen = @ + 1, !.cache = CacheOf(o)]
Dig(o) == <<o.i, o.acc, o.hlen>>              \* observable projection (the cache is not observable)

Reload(o) ==
  CASE Variant = "faithful"  -> [o EXCEPT !.cache = NoCache]
    [] Variant = "skip_acc"  -> [o EXCEPT !.cache = NoCache, !.acc = 0]
    [] Variant = "drop_i"    -> [o EXCEPT !.cache = NoCache, !.i = 0]
    [] Variant = "drop_hist" -> [o EXCEPT !.cache = NoCache, !.hlen = 0]
    [] Variant = "drift"     -> [o EXCEPT !.cache = NoCache, !.acc = @ + 1]
    [] OTHER -> o

(* the checkpoint-free run *)
RECURSIVE RefObj(_, _)
RefObj(k, n) == IF n = 0 \/ k \in StaticKinds THEN Fresh ELSE Advance(RefObj(k, n - 1))
RefTraj(k, n) == [j \in 1..n |-> Dig(RefObj(k, j))]

----------------------------------------------------------------------------
Init == /\ kind \in Kinds
        /\ step = 0 /\ traj = <<>> /\ obj = Fresh /\ hist = <<>>

Step == /\ Len(hist) < DepthOf(kind)
        /\ obj' = IF kind \in StaticKinds THEN obj ELSE Advance(obj)
        /\ step' = step + 1
        /\ traj' = Append(traj, Dig(obj'))
        /\ hist' = Append(hist, "step")
        /\ UNCHANGED kind

SaveLoad(fmt) == /\ Len(hist) < DepthOf(kind)
                 /\ obj' = Reload(obj)
                 /\ hist' = Append(hist, fmt)
                 /\ UNCHANGED <<kind, step, traj>>       \* the refinement statement

Next == Step \/ \E fmt \in Formats : SaveLoad(fmt)
Spec == Init /\ [][Next]_vars

----------------------------------------------------------------------------
(* Level A *)
Stutter == traj = RefTraj(kind, step)
(* a second round trip changes nothing more than the first *)
Idempotent == Reload(Reload(obj)) = Reload(obj)
(* SaveLoad is a stuttering step of <<step, traj>>, as an action property *)
StutterStep == [][hist' # hist /\ hist'[Len(hist')] \in Formats => UNCHANGED <<step, traj>>]_vars

TypeOK == /\ kind \in Kinds /\ step \in 0..Depth /\ Len(traj) = step
          /\ Len(hist) <= DepthOf(kind)
=============================================================================
