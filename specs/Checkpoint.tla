----------------------------- MODULE Checkpoint -----------------------------
(***************************************************************************)
(* C17 — every model object survives save/load in every advertised format,  *)
(* mid-run too.                                                             *)
(*                                                                          *)
(* What TLA+ contributes here is the refinement statement and the           *)
(* enumeration, not byte-level insight:                                     *)
(*                                                                          *)
(*   a checkpoint is a STUTTERING STEP OF THE OBSERVABLE TRAJECTORY.        *)
(*                                                                          *)
(* Level A (the property), over <<kind, step, traj>>:                       *)
(*   Stutter  == traj = RefTraj(kind, step)   the trajectory observed under *)
(*               any interleaving of SaveLoad actions is the trajectory of  *)
(*               the checkpoint-free run                                    *)
(*   SaveLoad(fmt, medium) == UNCHANGED <<step, traj>>                      *)
(*   SaveLoadOk == ok      every save/load returns Ok, whatever the medium, *)
(*               the size of the object and what the path held before       *)
(*   MediumIndependent     what is loaded does not depend on the medium     *)
(* `traj` is the sequence of per-step digests of what a step makes          *)
(* observable (state structs, histories, step counters; for a static type   *)
(* the result of using it). Deliberately NOT "the object is unchanged":     *)
(* init() recomputes derived values, serde(skip) caches are rebuilt lazily, *)
(* so a reloaded object is often not == the original although nothing       *)
(* observable differs.                                                      *)
(*                                                                          *)
(* Level B (implementation-shaped): an object is                            *)
(*   [i, acc, hlen]  serialised fields: step counter, a cumulative quantity *)
(*                   (energy, offset...), history length                    *)
(*   cache           a serde(skip) field derived from the parameters,       *)
(*                   rebuilt on first use after a load                      *)
(* Step reads the cache, advances i, acc, hlen and appends Dig(obj);        *)
(* SaveLoad(fmt) replaces the object by Reload(obj): serialised fields      *)
(* survive, the cache does not. Variant selects a faithful Reload or one of *)
(* the fault models used to show that Stutter can fail (vacuity):           *)
(*   "skip_acc"  a state field carries #[serde(skip)] / init() resets it    *)
(*   "drop_i"    the step counter is not serialised                         *)
(*   "drop_hist" a history column is not serialised                         *)
(*   "drift"     every round trip perturbs a number (a parser that does not *)
(*               round-trip): also breaks Idempotent                        *)
(*                                                                          *)
(*   "keep_tail" to_file opens the target without truncating: a shorter     *)
(*               document written over a longer one keeps the old tail      *)
(*   "size_cap"  the binary reader refuses documents longer than Cap        *)
(*                                                                          *)
(* A SaveLoad has a MEDIUM (the public entry points a user saves through):  *)
(*   "mem"    string / bytes in memory  (to_str / from_str, to_bincode ..)  *)
(*   "reader" bytes in memory read back through from_reader                 *)
(*   "file"   to_file / from_file at a fresh path                           *)
(*   "alias"  the other advertised spellings of the format name (yml, YAML, *)
(*            .json, BIN ...) as file extension or format string            *)
(*   "over"   to_file / from_file at a path that ALREADY holds a document:  *)
(*            the checkpoint a previous, longer run left there (disk[fmt])  *)
(* and the object a SIZE CLASS: "small" starts fresh, "large" has BigPre    *)
(* steps (a long history) behind it when the schedule starts; the length of *)
(* a document grows with the history (DocLen).                              *)
(*                                                                          *)
(* TLC enumerates every schedule over {Step, SaveLoad(fmt, medium)} up to   *)
(* DepthOf(kind) for every object kind and size class — every step index is *)
(* a checkpoint position — checks Stutter / SaveLoadOk / MediumIndependent  *)
(* on all of them and (MCCheckpoint) emits each complete schedule as a      *)
(* replayable case for the real objects.                                    *)
(***************************************************************************)
EXTENDS Integers, Sequences, FiniteSets, TLC

CONSTANTS DeepKinds,      \* kinds explored to Depth (simulation objects)
          ShallowKinds,   \* kinds explored to ShallowDepth
          StaticKinds,    \* subset of the kinds whose Step is a *use* (object not advanced)
          Depth, ShallowDepth,
          Media,          \* media enumerated by this config (subset of AllMedia)
          Sizes,          \* size classes enumerated by this config (subset of AllSizes)
          BigSaves,       \* most SaveLoads in a schedule of a "large" object (they are expensive to replay)
          Variant         \* "faithful" | "skip_acc" | "drop_i" | "drop_hist" | "drift" | "keep_tail" | "size_cap"

Formats == {"yaml", "json", "bin"}
AllMedia == {"mem", "reader", "file", "alias", "over"}
AllSizes == {"small", "large"}
BigPre == 5                                   \* steps behind a "large" object when the schedule starts
Cap == 4                                      \* fault model size_cap: longest document the capped reader takes
Kinds == DeepKinds \cup ShallowKinds
DepthOf(k) == IF k \in DeepKinds THEN Depth ELSE ShallowDepth

VARIABLES kind,   \* object kind of this behaviour
          size,   \* size class of this behaviour
          step,   \* number of Steps taken
          traj,   \* observable trajectory: digest after every Step
          obj,    \* the live object (Level B)
          disk,   \* per format: the document at the re-used checkpoint path [len, junk = bytes of an older document behind it]
          ok,     \* the last SaveLoad returned Ok
          hist    \* the schedule so far: <<"step", "-">> | <<format, medium>>
vars == <<kind, size, step, traj, obj, disk, ok, hist>>

----------------------------------------------------------------------------
(* the abstract object *)
Param == 3                                    \* a construction parameter the cache derives from
NoCache == -1                                 \* "not built yet" (TLC compares integers with integers only)
Fresh == [i |-> 0, acc |-> 0, hlen |-> 0, cache |-> NoCache, par |-> Param]
Derived(o) == o.par * 2                       \* what the lazily rebuilt cache holds
CacheOf(o) == IF o.cache = NoCache THEN Derived(o) ELSE o.cache
Inc(o) == CacheOf(o) + o.i                    \* the step's increment depends on the counter and the cache

Advance(o) == [o EXCEPT !.i = @ + 1, !.acc = @ + Inc(o), !.hlen = @ + 1, !.cache = CacheOf(o)]
Dig(o) == <<o.i, o.acc, o.hlen>>              \* observable projection (the cache is not observable)

Reload(o) ==
  CASE Variant = "faithful"  -> [o EXCEPT !.cache = NoCache]
    [] Variant = "skip_acc"  -> [o EXCEPT !.cache = NoCache, !.acc = 0]
    [] Variant = "drop_i"    -> [o EXCEPT !.cache = NoCache, !.i = 0]
    [] Variant = "drop_hist" -> [o EXCEPT !.cache = NoCache, !.hlen = 0]
    [] Variant = "drift"     -> [o EXCEPT !.cache = NoCache, !.acc = @ + 1]
    [] OTHER -> o

(* the checkpoint-free run; a "large" object has BigPre steps behind it (a static one is simply a big document) *)
Pre(sz) == IF sz = "large" THEN BigPre ELSE 0
RECURSIVE RefObj(_, _)
RefObj(k, n) == IF n = 0 \/ k \in StaticKinds THEN Fresh ELSE Advance(RefObj(k, n - 1))
RefTraj(k, sz, n) == [j \in 1..n |-> Dig(RefObj(k, Pre(sz) + j))]

(* documents and the two ways to the storage *)
DocLen(k, sz, o) == 1 + o.hlen + (IF k \in StaticKinds THEN Pre(sz) ELSE 0)
Doc(n) == [len |-> n, junk |-> 0]
Max(a, b) == IF a > b THEN a ELSE b
(* to_file onto a path that holds `old` *)
Write(old, n) == IF Variant = "keep_tail" THEN [len |-> n, junk |-> Max(0, old.len + old.junk - n)] ELSE Doc(n)
(* the text parsers refuse anything behind the document; the binary decoder stops at its end *)
Readable(fmt, med, c) == /\ (fmt = "bin" \/ c.junk = 0)
                         /\ ~(Variant = "size_cap" /\ fmt = "bin" /\ med # "mem" /\ c.len > Cap)
(* one save + load of o: what lands in storage, whether the load returns Ok, the object to continue with *)
Loaded(k, sz, o, fmt, med, dsk) ==
  LET c == IF med = "over" THEN Write(dsk[fmt], DocLen(k, sz, o)) ELSE Doc(DocLen(k, sz, o))
      good == Readable(fmt, med, c)
  IN [ok |-> good, obj |-> IF good THEN Reload(o) ELSE o, disk |-> IF med = "over" THEN [dsk EXCEPT ![fmt] = c] ELSE dsk]
(* the re-used path holds the checkpoint written at the end of an earlier run of the same case *)
Prefill(k, sz) == Doc(DocLen(k, sz, RefObj(k, Pre(sz) + DepthOf(k))))
NSaves(h) == Cardinality({j \in 1..Len(h) : h[j][1] \in Formats})

----------------------------------------------------------------------------
Init == /\ kind \in Kinds /\ size \in Sizes
        /\ step = 0 /\ traj = <<>> /\ obj = RefObj(kind, Pre(size)) /\ hist = <<>>
        /\ disk = [f \in Formats |-> Prefill(kind, size)] /\ ok = TRUE

Step == /\ Len(hist) < DepthOf(kind)
        /\ obj' = IF kind \in StaticKinds THEN obj ELSE Advance(obj)
        /\ step' = step + 1
        /\ traj' = Append(traj, Dig(obj'))
        /\ hist' = Append(hist, <<"step", "-">>)
        /\ UNCHANGED <<kind, size, disk, ok>>

SaveLoad(fmt, med) ==
  /\ Len(hist) < DepthOf(kind)
  /\ size = "large" => NSaves(hist) < BigSaves
  /\ LET r == Loaded(kind, size, obj, fmt, med, disk)
     IN obj' = r.obj /\ ok' = r.ok /\ disk' = r.disk
  /\ hist' = Append(hist, <<fmt, med>>)
  /\ UNCHANGED <<kind, size, step, traj>>       \* the refinement statement

Next == Step \/ \E fmt \in Formats, med \in Media : SaveLoad(fmt, med)
Spec == Init /\ [][Next]_vars

----------------------------------------------------------------------------
(* Level A *)
Stutter == traj = RefTraj(kind, size, step)
(* every save/load returns Ok: whatever the medium, the size of the object, and whatever the path held before *)
SaveLoadOk == ok
(* what is loaded does not depend on the medium the document travelled through *)
MediumIndependent == \A fmt \in Formats, med \in AllMedia :
                       LET a == Loaded(kind, size, obj, fmt, med, disk)
                           b == Loaded(kind, size, obj, fmt, "mem", disk)
                       IN a.ok = b.ok /\ a.obj = b.obj
(* a second round trip changes nothing more than the first *)
Idempotent == Reload(Reload(obj)) = Reload(obj)
(* SaveLoad is a stuttering step of <<step, traj>>, as an action property *)
StutterStep == [][hist' # hist /\ hist'[Len(hist')][1] \in Formats => UNCHANGED <<step, traj>>]_vars

TypeOK == /\ kind \in Kinds /\ size \in AllSizes /\ step \in 0..Depth /\ Len(traj) = step
          /\ Len(hist) <= DepthOf(kind) /\ Media \subseteq AllMedia /\ Sizes \subseteq AllSizes
=============================================================================
