SPECIFICATION SpecRelist
CONSTANTS
  MaxLinks = 0
  LinkLens <- None
  MaxMoves = 0
  MaxSegs = 0
  SegLens <- None
  Rises <- None
  TrainLens <- None
  MaxSteps = 0
  Pows <- None
  Fault = FALSE
  MaxUnits = 2
  Cached = TRUE
INVARIANT RelistResKm
INVARIANT RelistNonResKm
CHECK_DEADLOCK FALSE
