---------------------------- MODULE MCMassLedger ----------------------------
(* Model-checking shell for MassLedger: the dyadic lattice (masses 1,2,4 kg; specific 1/2,1,2;   *)
(* mu 1/4,1/2; force/g 1/2,1,2), every known/unknown pattern of the redundant fields, the setter  *)
(* x option alphabets, and the emission of every maximal call sequence / every file.             *)
EXTENDS MassLedger, Json

q(n, d) == (n * K) \div d
M124 == {q(1,1), q(2,1), q(4,1)}
S == {q(1,2), q(1,1), q(2,1)}
Mu == {q(1,4), q(1,2)}
OptN(X) == X \cup {N}

C(m, s, x) == [mass |-> m, spec |-> s, ext |-> x]
(* ---- components: every (mass?, specific?) pattern; consistent when both are known *)
CompStates == {C(m, s, x) : m \in OptN(M124), s \in OptN(S), x \in {q(1,2), q(1,1), q(2,1), q(4,1), q(8,1)}}
CompInitsAll == {<<"comp", c>> : c \in {c \in CompStates :
                    IF Known(c.mass) /\ Known(c.spec) THEN c.mass * c.spec = c.ext * K ELSE c.ext \in {q(1,1), q(4,1)}}}
(* "big" components (derived mass 64 kg = 4096/64, specific 1/2, 1, 2): the grid resolves 64 kg * 2^-12 *)
CompInitsNear == {<<"comp", C(m, sp, (q(64,1) * sp) \div K)>> : m \in {N, q(64,1)}, sp \in S}
CompInitsQ == CompInitsAll \cup CompInitsNear
CompOpsAll == {<<"SetMass", m, o>> : m \in OptN(M124), o \in {"None", "Extensive", "Intensive"}} \cup {<<"Expunge", 0, "">>}

(* ---- locomotives *)
NoComps(t) == CASE t = "conv" -> <<C(N, N, q(2,1)), C(N, N, q(2,1))>>
                [] t = "hyb" -> <<C(N, N, q(2,1)), C(N, N, q(2,1)), C(N, N, q(2,1))>>
                [] OTHER -> <<C(N, N, q(2,1))>>
(* fc 1 kg @ 1 W/kg, gen 1 kg @ 1/2 W/kg (conv) / res 2 kg @ 2 J/kg (bel); baseline = ballast = 1 kg: derived 4 kg *)
(* hybrid: fc 1 + gen 1 + res 2 kg, baseline = ballast = 2 kg: derived 8 kg *)
DerComps(t) == CASE t = "conv" -> <<C(q(1,1), q(1,1), q(1,1)), C(q(1,1), q(1,2), q(1,2))>>
                 [] t = "hyb" -> <<C(q(1,1), q(1,1), q(1,1)), C(q(1,1), q(1,2), q(1,2)), C(q(2,1), q(2,1), q(4,1))>>
                 [] OTHER -> <<C(q(2,1), q(2,1), q(4,1))>>
BaseOf(t) == IF t = "hyb" THEN q(2,1) ELSE q(1,1)
DerOf(t) == IF t = "hyb" THEN q(8,1) ELSE q(4,1)
U(t, m, mu, f, b, comps) == [t |-> t, mass |-> m, mu |-> mu, force |-> f, base |-> b, ball |-> b, comps |-> comps]
Forces(m, mu) == IF Known(m) /\ Known(mu) THEN {(m * mu) \div K} ELSE {q(1,2), q(2,1)}
Plain(T) == {U(t, m, mu, f, N, NoComps(t)) : t \in T, m \in OptN(M124), mu \in OptN(Mu), f \in {q(1,4), q(1,2), q(1,1), q(2,1)}}
DerivedOf(t) == {U(t, m, mu, f, BaseOf(t), DerComps(t)) : m \in {N, DerOf(t)}, mu \in OptN(Mu), f \in {q(1,2), q(1,1), q(2,1), q(4,1)}}
Derived(T) == UNION {DerivedOf(t) : t \in T}
Valid(Us) == {u \in Us : u.force \in Forces(u.mass, u.mu)}
Units1 == Valid(Plain({"conv"})) \cup Valid(Derived({"conv", "bel", "hyb"}))
UnitsAll == Valid(Plain({"conv", "bel", "hyb"})) \cup Valid(Derived({"conv", "bel", "hyb"}))
Second == {U("bel", q(2,1), q(1,2), q(1,1), N, NoComps("bel")), U("conv", N, N, q(1,2), N, NoComps("conv"))}

CarsA == [types |-> << <<q(8,1), 0, 2>> >>, override |-> N]
CarsB == [types |-> << <<q(8,1), 0, 2>>, <<q(4,1), q(4,1), 1>> >>, override |-> N]
CarsC == [types |-> << <<q(8,1), 0, 2>>, <<q(4,1), q(4,1), 1>> >>, override |-> q(32,1)]

L1Inits == {<<"loco", [units |-> <<u>>, cars |-> CarsB]>> : u \in Units1}
L2Inits == {<<"loco", [units |-> <<u, v>>, cars |-> c]>> : u \in Units1, v \in Second, c \in {CarsC}}
L1InitsT == {<<"loco", [units |-> <<u>>, cars |-> c]>> : u \in UnitsAll, c \in {CarsA}}
L2InitsT == {<<"loco", [units |-> <<u, v>>, cars |-> c]>> : u \in UnitsAll, v \in Second, c \in {CarsB, CarsC}}

MuOpts == {"Mass", "ForceMax", "SetMassToNone"}
FOpts == {"Mass", "UpdateMu", "SetMuToNone", "SetMassToNone", "SetMassAndMuToNone"}
LocoOpsAll == {<<"SetMass", m, "None">> : m \in OptN(M124)} \cup {<<"SetMass", q(2,1), o>> : o \in {"Extensive", "Intensive"}}
              \cup {<<"SetMu", mu, o>> : mu \in Mu, o \in MuOpts}
              \cup {<<"SetForce", f, o>> : f \in {q(1,2), q(1,1), q(2,1)}, o \in FOpts}
              \cup {<<"Expunge", 0, "">>}
LocoOpsQ == {<<"SetMass", N, "None">>, <<"SetMass", q(2,1), "None">>, <<"SetMass", q(2,1), "Extensive">>}
            \cup {<<"SetMu", q(1,2), o>> : o \in MuOpts} \cup {<<"SetMu", q(1,4), "Mass">>}
            \cup {<<"SetForce", q(1,1), o>> : o \in FOpts} \cup {<<"SetForce", q(2,1), "Mass">>}
            \cup {<<"Expunge", 0, "">>}

(* ---- files with redundant data, consistent and not *)
LoadComps == {<<"loadcomp", C(m, s, x)>> : m \in {N, q(1,1), q(2,1)}, s \in {N, q(1,2), q(1,1)}, x \in {q(1,1), q(2,1)}}
BadComps(t) == CASE t = "conv" -> <<C(q(1,1), q(1,1), q(2,1)), C(q(1,1), q(1,2), q(1,2))>>
                 [] t = "hyb" -> <<C(q(1,1), q(1,1), q(1,1)), C(q(1,1), q(1,2), q(1,2)), C(q(2,1), q(2,1), q(2,1))>>
                 [] OTHER -> <<C(q(2,1), q(2,1), q(2,1))>>
FileUnitsOf(t) == {[t |-> t, mass |-> m, mu |-> mu, force |-> f, base |-> bb[1], ball |-> bb[2], comps |-> bb[3]] :
                     m \in {N, q(2,1), DerOf(t)}, mu \in {N, q(1,2)}, f \in {q(1,1), q(2,1), q(4,1)},
                     bb \in {<<N, N, "no">>, <<BaseOf(t), BaseOf(t), "der">>, <<BaseOf(t), BaseOf(t), "bad">>, <<BaseOf(t), N, "der">>, <<N, N, "der">>}}
FileUnits == UNION {FileUnitsOf(t) : t \in {"conv", "bel", "hyb"}}
FileUnit(r) == [r EXCEPT !.comps = CASE r.comps = "no" -> NoComps(r.t) [] r.comps = "der" -> DerComps(r.t) [] OTHER -> BadComps(r.t)]
LoadLocos == {<<"loadloco", [units |-> <<FileUnit(r)>>, cars |-> CarsA]>> : r \in FileUnits}
AllLoads == LoadComps \cup LoadLocos
None == {}
One == {1}
Two == {1, 2}

Done == Len(ops) = MaxOps \/ (Len(ops) = 1 /\ ops[1][1] = "Load") \/ (mode = "comp" /\ st.spec = Xq)
Emit == Done => PrintT(<<"REPLAY", ToJson([mode |-> st0[1], st |-> st0[2], ops |-> ops])>>)
(* quick tier: the driver replays a seeded sample of a few thousand sequences anyway, so only every   *)
(* third maximal sequence (by a fixed arithmetic fingerprint of the calls) is printed                 *)
Fp == SumSeq([i \in Idx(ops) |-> (ops[i][2] + 2) * (i + 1) + 5 * Len(ops[i][1]) + 3 * Len(ops[i][3]) + 7 * ops[i][4]])
EmitThird == (Done /\ Fp % 3 = 0) => PrintT(<<"REPLAY", ToJson([mode |-> st0[1], st |-> st0[2], ops |-> ops])>>)
=============================================================================
