---------------------------- MODULE SpeedLemmas ----------------------------
(* TLAPS-checked algebra behind SpeedProfile's reading "the enforced limit is the magnitude": combining limits with *)
(* min_speed (track/link/speed/speed_limit.rs:3) — smaller magnitude, negative as soon as one side is — is, on     *)
(* magnitudes, exactly the minimum. Hence Level A may judge signed profiles by Abs (Val, Canon) while Level B     *)
(* transcribes the signed arithmetic. Checked with `tlapm specs/proofs/SpeedLemmas.tla` (bin/prove).               *)
EXTENDS Integers, TLAPS

Min2(a, b) == IF a < b THEN a ELSE b
Abs(a) == IF a < 0 THEN -a ELSE a
MinSpeed(a, b) == IF a >= 0 /\ b >= 0 THEN Min2(a, b) ELSE -Min2(Abs(a), Abs(b))

THEOREM MinSpeedMagnitude ==
  \A a, b \in Int : Abs(MinSpeed(a, b)) = Min2(Abs(a), Abs(b))
BY DEF MinSpeed, Min2, Abs

THEOREM MinSpeedCommutesOnMagnitude ==
  \A a, b \in Int : Abs(MinSpeed(a, b)) = Abs(MinSpeed(b, a))
BY DEF MinSpeed, Min2, Abs

THEOREM MinSpeedAssociatesOnMagnitude ==
  \A a, b, c \in Int : Abs(MinSpeed(MinSpeed(a, b), c)) = Abs(MinSpeed(a, MinSpeed(b, c)))
BY DEF MinSpeed, Min2, Abs

THEOREM MinSpeedNeverRaises ==
  \A a, b \in Int : Abs(MinSpeed(a, b)) <= Abs(a) /\ Abs(MinSpeed(a, b)) <= Abs(b)
BY DEF MinSpeed, Min2, Abs

(* a restriction that is not below the limit in force changes nothing in magnitude: the test insert_speed uses to   *)
(* skip a point (speed_old != min_speed(speed_old, new)) is sound on magnitudes for non-negative profiles          *)
THEOREM NoChangeWhenNotTighter ==
  \A a, b \in Int : (a >= 0 /\ b >= 0 /\ b >= a) => MinSpeed(a, b) = a
BY DEF MinSpeed, Min2
=============================================================================
