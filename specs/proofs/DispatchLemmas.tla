--------------------------- MODULE DispatchLemmas ---------------------------
(* TLAPS-checked arithmetic behind Dispatch.tla's gating rules: why the time gates of TrainDisp::advance imply the   *)
(* Level-A clauses locally (TLC checks the global statement on bounded networks; these are the per-step reasons).   *)
EXTENDS Integers, TLAPS

Overlap(aae, acx, bae, bcx) == aae < bcx /\ bae < acx

(* flip / lockout gate: entering at tau >= fcx + u, where every window on the opposing (or locked-out) link has     *)
(* closed by fcx (they are ordered, Fifo), cannot overlap any of them however long the new window stays open        *)
THEOREM GateImpliesExclusion ==
  \A tau, fcx, u, bae, bcx, acx \in Int :
     (u >= 0 /\ tau >= fcx + u /\ bcx <= fcx /\ bae <= bcx) => ~Overlap(tau, acx, bae, bcx)
BY DEF Overlap

(* entry headway: the gate prev.ce + S is exactly the first clause of HeadwayOk *)
THEOREM GateImpliesEntryHeadway ==
  \A tau, base, ce, s \in Int : (tau >= base /\ tau >= ce + s) => tau >= ce + s
OBVIOUS

(* exit headway and order: leaving the link at tau2 >= lead.cx + S, with S >= 0, keeps the leader ahead *)
THEOREM GateImpliesFifoAtExit ==
  \A tau2, leadcx, s \in Int : (s >= 0 /\ tau2 >= leadcx + s) => leadcx <= tau2
OBVIOUS

(* node times are a maximum of the free-running time and the gates: never faster than free running (C05 FreeRun) *)
THEOREM MaxNeverFasterThanFreeRun ==
  \A tprev, dur, g1, g2, tau \in Int :
     (tau = (IF tprev + dur >= g1 THEN (IF tprev + dur >= g2 THEN tprev + dur ELSE g2)
                                  ELSE (IF g1 >= g2 THEN g1 ELSE g2))) => tau - tprev >= dur
OBVIOUS
=============================================================================
