------------------------- MODULE PathProfileTrace -------------------------
(* Implementation -> spec: every profile the real PathTpc held after an extend call (for every      *)
(* composition of the route into calls) is bound to PathProfile's variables and PathProfile's own   *)
(* Level-A conjuncts are evaluated on it. Failures are appended to `viol`; the state is simply the   *)
(* recorded one, so every line of every case is examined in one pass.                               *)
EXTENDS PathProfile, Json, IOUtils

Rec == ndJsonDeserialize(IOEnv.TRACE)

VARIABLES l,        \* next line of Rec
          ref,      \* final profile of the first (one-shot) composition of the current case
          viol, stats
tvars == <<train, net, route, unit, exact, done, ok, lp, grades, curves, cat, phase, hist, l, ref, viol, stats>>
case == <<train, net, route, unit, exact>>
prof == <<lp, grades, curves, cat>>

TInit == /\ train = [c0 |-> 0, c1 |-> 0, g16 |-> 0] /\ net = <<>> /\ route = <<>> /\ unit = 1 /\ exact = TRUE
         /\ done = 0 /\ ok = TRUE
         /\ lp = NewPath.lp /\ grades = NewPath.grades /\ curves = NewPath.curves /\ cat = NewPath.cat
         /\ phase = "trace" /\ hist = <<>>
         /\ l = 1 /\ ref = <<>> /\ viol = <<>>
         /\ stats = [cases |-> 0, extends |-> 0, rejected_calls |-> 0, finals |-> 0, partitions_equal |-> 0,
                     drift |-> 0, skipped |-> 0, real_scale |-> 0, harness_err |-> 0]

Names(checks) == LET Fl == SelectSeq(checks, LAMBDA c : ~c[2]) IN [i \in 1..Len(Fl) |-> Fl[i][1]]
Report(names) == viol' = viol \o [i \in 1..Len(names) |-> <<l, Rec[l].case, names[i]>>]

Begin == /\ Rec[l].ev = "begin"
         /\ ref' = <<>>
         /\ stats' = [stats EXCEPT !.cases = @ + 1]
         /\ UNCHANGED <<case, done, ok, prof, viol>>

(* the constants of the case: the abstract network (or the Q-encoded links of a shipped file), route, train *)
Source == /\ Rec[l].ev = "Source"
          /\ train' = Rec[l].train /\ net' = Rec[l].net /\ route' = Rec[l].route
          /\ unit' = Rec[l].unit /\ exact' = Rec[l].exact
          /\ done' = 0 /\ ok' = TRUE
          /\ lp' = NewPath.lp /\ grades' = NewPath.grades /\ curves' = NewPath.curves /\ cat' = NewPath.cat
          /\ stats' = [stats EXCEPT !.real_scale = @ + (IF Rec[l].exact THEN 0 ELSE 1)]
          /\ UNCHANGED <<ref, viol>>

Extend1 == /\ Rec[l].ev = "Extend"
           /\ UNCHANGED case
           /\ LET r == Rec[l] IN
              /\ lp' = r.lp /\ grades' = r.grades /\ curves' = r.curves /\ cat' = r.cat
              /\ ok' = r.ok
              /\ done' = IF r.ok THEN r.upto ELSE r.from
              /\ Report(Names(<< <<"Representable", r.fits>>,
                                 <<"RouteVerdict", r.ok <=> RouteOK(net, SubSeq(route, 1, r.upto))>>,
                                 <<"Boundaries", Boundaries'>>,
                                 <<"Counts", Counts'>>,
                                 <<"ElevWalk", ElevWalk'>>,
                                 <<"GradeSlope", GradeSlope'>>,
                                 <<"CumulativeGrade", CumulativeGrade'>>,
                                 <<"CurvePoints", CurvePoints'>>,
                                 <<"CurveCoeff", CurveCoeff'>>,
                                 <<"CumulativeCurve", CumulativeCurve'>>,
                                 <<"CatShift", CatShift'>> >>))
              /\ ref' = IF ref = <<>> /\ r.ok /\ r.upto = Len(route) THEN prof' ELSE ref
              /\ stats' = [stats EXCEPT !.extends = @ + 1,
                                        !.rejected_calls = @ + (IF r.ok THEN 0 ELSE 1),
                                        !.drift = @ + (IF ~exact \/ ~r.ok THEN 0
                                                       ELSE LET m == ModelPath(net, SubSeq(route, 1, r.upto), SubSeq(r.part, 1, r.call), train)
                                                            IN IF prof' = <<m.lp, m.grades, m.curves, m.cat>> THEN 0 ELSE 1)]

(* end of one composition: PartialEq with the one-shot build, identical projected profile, finish() *)
Final == /\ Rec[l].ev = "Final"
         /\ LET r == Rec[l]  f == r.fin IN
            /\ Report(Names(<< <<"PartitionInvariant", r.ok => (r.eq_whole /\ prof = ref)>>,
                               <<"FinishAppends", r.ok => /\ f.finished
                                                          /\ f.ng = Len(grades) + 1 /\ f.nc = Len(curves) + 1
                                                          /\ f.g_tail = <<Last(grades), <<INF, 0, Last(grades)[3]>> >>
                                                          /\ f.c_tail = <<Last(curves), <<INF, 0, Last(curves)[3]>> >> >> >>))
            /\ stats' = [stats EXCEPT !.finals = @ + 1, !.partitions_equal = @ + (IF r.ok /\ r.eq_whole THEN 1 ELSE 0)]
         /\ UNCHANGED <<case, done, ok, prof, ref>>

Skipped == /\ Rec[l].ev = "NetRejected"
           /\ stats' = [stats EXCEPT !.skipped = @ + 1]
           /\ UNCHANGED <<case, done, ok, prof, ref, viol>>

Panic == /\ Rec[l].ev \in {"panic", "abort", "timeout"}
         /\ Report(<<"NoPanic">>)
         /\ UNCHANGED <<case, done, ok, prof, ref, stats>>

(* a harness error is not a verdict on the property: it is counted and turned into a tool error by the driver *)
End == /\ Rec[l].ev = "end"
       /\ stats' = [stats EXCEPT !.harness_err = @ + (IF Rec[l].result = "harness_err" THEN 1 ELSE 0)]
       /\ UNCHANGED <<case, done, ok, prof, ref, viol>>

TNext == /\ l <= Len(Rec) /\ l' = l + 1 /\ UNCHANGED <<phase, hist>>
         /\ (Begin \/ Source \/ Extend1 \/ Final \/ Skipped \/ Panic \/ End)
TSpec == TInit /\ [][TNext]_tvars

AtEnd == l > Len(Rec) => /\ PrintT(<<"VIOLS", ToJson(viol)>>)
                         /\ PrintT(<<"STATS", ToJson(stats)>>)
Accepted == IF TLCGet("stats").diameter - 1 = Len(Rec) THEN TRUE
            ELSE Print(<<"FIRST-UNMATCHED", TLCGet("stats").diameter, Rec[TLCGet("stats").diameter]>>, FALSE)
=============================================================================
