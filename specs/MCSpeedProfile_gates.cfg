SPECIFICATION Spec
CONSTANTS
  Variant = "fixed"
  Trains <- GM_Trains
  LinkLens <- GM_LinkLens
  Speeds <- GM_Speeds
  Gates <- GM_Gates
  MaxLinks = 1
  MaxR = 1
INVARIANT Safe
INVARIANT Exact
INVARIANT Canonical
INVARIANT Functional
INVARIANT Emit
CHECK_DEADLOCK FALSE
