SPECIFICATION TSpec
CONSTANTS
  Variant = "euclid"
  Trains = {}
  Templates = {}
  Topos = {}
  MaxLinks = 0
  MaxRoute = 0
INVARIANT AtEnd
POSTCONDITION Accepted
CHECK_DEADLOCK FALSE
