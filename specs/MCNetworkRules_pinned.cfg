SPECIFICATION Spec
CONSTANTS
  Variant = "pinned"
  Bases <- V_Bases
  MaxFaults = 1
INVARIANT BaseValid
INVARIANT FaultInvalid
INVARIANT BenignValid
INVARIANT NonFiniteTable
INVARIANT Conforms
INVARIANT ImplNoPanic
CHECK_DEADLOCK FALSE
