----------------------------- MODULE EstTimeNet -----------------------------
(***************************************************************************)
(* Estimated-time network returned by make_est_times (C15).  The graph is   *)
(* data, not behaviour: Level A is a set of predicates over the node list   *)
(*   node = <<t, dur, dist, next, alt, prev, palt, link, type>>             *)
(* (0-based node ids as in the code, 0 = "none" for alt/palt and for the     *)
(* next of the last / prev of the first node; type 1 Arrive, 2 Clear,        *)
(* 3 Fake; times in ms), a network header h (next / next_alt tables) and the *)
(* train's origin / destination links.                                       *)
(***************************************************************************)
EXTENDS Integers, Sequences, FiniteSets

LOCAL RangeOfE(s) == {s[i] : i \in 1..Len(s)}
N(ns, i) == ns[i + 1]                 \* 0-based access
LastId(ns) == Len(ns) - 1
InRange(ns, i) == i >= 0 /\ i <= LastId(ns)

\* every reference is inside the node list (guards the other predicates)
RefsInRange(ns) == \A i \in 0..LastId(ns) : \A k \in 4..7 : InRange(ns, N(ns, i)[k])

\* forward and backward links are mutually consistent
Linked(ns) ==
  \A i \in 0..LastId(ns) :
    /\ (i < LastId(ns) => LET m == N(ns, N(ns, i)[4]) IN m[6] = i \/ m[7] = i)       \* next points back
    /\ (N(ns, i)[5] # 0 => LET m == N(ns, N(ns, i)[5]) IN m[6] = i \/ m[7] = i)      \* alt points back
    /\ (i >= 1 => LET p == N(ns, N(ns, i)[6]) IN p[4] = i \/ p[5] = i)               \* prev points forward
    /\ (N(ns, i)[7] # 0 => LET p == N(ns, N(ns, i)[7]) IN p[4] = i \/ p[5] = i)      \* prev alt points forward
    /\ (i = LastId(ns) => N(ns, i)[4] = 0 /\ N(ns, i)[5] = 0)
    /\ (i = 0 => N(ns, i)[6] = 0 /\ N(ns, i)[7] = 0)
    /\ (i < LastId(ns) => N(ns, i)[4] # 0)

\* all maximal walks from node i along next | alt (the graph is a DAG; fuel bounds a cyclic one)
RECURSIVE Walks(_, _, _)
Walks(ns, i, fuel) ==
  IF i = LastId(ns) \/ fuel = 0 \/ N(ns, i)[4] = 0 THEN {<<i>>}
  ELSE {<<i>> \o w : w \in Walks(ns, N(ns, i)[4], fuel - 1)}
       \cup (IF N(ns, i)[5] = 0 THEN {} ELSE {<<i>> \o w : w \in Walks(ns, N(ns, i)[5], fuel - 1)})
AllWalks(ns) == Walks(ns, 0, 2 * Len(ns))
AllWalksEnd(ns, W) == \A w \in W : w[Len(w)] = LastId(ns)

ArrLinks(ns, w) ==
  LET I == {k \in 1..Len(w) : N(ns, w[k])[9] = 1}
  IN [j \in 1..Cardinality(I) |-> N(ns, w[CHOOSE k \in I : Cardinality({m \in I : m <= k}) = j])[8]]

\* the events of a walk describe a contiguous route from an origin to a destination, each link
\* cleared after it is entered
Faithful(h, origs, dests, ns, w) ==
  LET a == ArrLinks(ns, w) IN
  /\ Len(a) >= 1
  /\ a[1] \in RangeOfE(origs)
  /\ a[Len(a)] \in RangeOfE(dests)
  /\ \A j \in 1..(Len(a) - 1) : a[j+1] # 0 /\ a[j+1] \in {h.next[a[j]], h.next_alt[a[j]]}
  /\ \A k \in 1..Len(w) : N(ns, w[k])[9] = 2 =>
        \E m \in 1..(k - 1) : N(ns, w[m])[9] = 1 /\ N(ns, w[m])[8] = N(ns, w[k])[8]
  /\ \A k \in 1..Len(w) :                                  \* ... and every entered link is cleared later, except
        (N(ns, w[k])[9] = 1 /\ N(ns, w[k])[8] # a[Len(a)]) =>   \* the last one (a train longer than its destination
        \E m \in (k + 1)..Len(w) : N(ns, w[m])[9] = 2 /\ N(ns, w[m])[8] = N(ns, w[k])[8]   \* link never gets wholly inside)
RouteFaithful(h, origs, dests, ns, W) == \A w \in W : Faithful(h, origs, dests, ns, w)

INFq == 1073741824
TimesFinite(ns) == \A i \in 0..LastId(ns) : \A k \in 1..3 : N(ns, i)[k] < INFq /\ N(ns, i)[k] > -INFq
DurationsNonNeg(ns) == \A i \in 0..LastId(ns) : N(ns, i)[2] >= 0 /\ N(ns, i)[3] >= 0
TimesNonNeg(ns) == \A i \in 0..LastId(ns) : N(ns, i)[1] >= 0
NegNodes(ns) == {i \in 0..LastId(ns) : N(ns, i)[1] < 0}

\* scheduled time = primary predecessor's time + its duration
PrimaryEq(ns, tol) ==
  \A i \in 1..LastId(ns) :
    LET p == N(ns, i)[6] IN
    N(ns, p)[4] = i => (N(ns, i)[1] - (N(ns, p)[1] + N(ns, p)[2])) \in (-tol)..tol
\* no node is scheduled later than any predecessor allows (alternate edges have duration 0)
NoLater(ns, tol) ==
  \A p \in 0..LastId(ns) :
    /\ (N(ns, p)[4] # 0 => N(ns, N(ns, p)[4])[1] <= N(ns, p)[1] + N(ns, p)[2] + tol)
    /\ (N(ns, p)[5] # 0 => N(ns, N(ns, p)[5])[1] <= N(ns, p)[1] + tol)
=============================================================================
