SPECIFICATION TSpec
CONSTANTS
  MaxLinks = 0
  LinkLens = {}
  MaxMoves = 0
  MaxSegs = 0
  SegLens = {}
  Rises = {}
  TrainLens = {}
  MaxSteps = 0
  Pows = {}
  Fault = FALSE
  MaxUnits = 0
  Cached = FALSE
INVARIANT AtEnd
POSTCONDITION Accepted
CHECK_DEADLOCK FALSE
