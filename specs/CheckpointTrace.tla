-------------------------- MODULE CheckpointTrace --------------------------
(* Implementation -> spec for C17: every recorded run of a schedule over {Step, SaveLoad(fmt)}  *)
(* on a real altrios object (harness/src/bin/avh_checkpoint.rs) is bound to Checkpoint's        *)
(* variables <<kind, step, traj>>; RefTraj is bound to the recorded checkpoint-free run of the   *)
(* same case, and the Level-A statement is evaluated on every line:                             *)
(*   SaveLoadOk   the round trip through the public SerdeAPI returns Ok                         *)
(*                — through every medium (memory, from_reader, a fresh file, another spelling of  *)
(*                the format name, a file written over the longer checkpoint of an earlier run) *)
(*                and for every size class of the object; `ok`, `size`, `disk` are bound to the *)
(*                recording (disk[fmt] = document length and the bytes found behind it)         *)
(*   MediumIndependent  a load through another medium succeeds iff the load of the same object  *)
(*                through memory does, and gives an object with the same digest                 *)
(*   Idempotent   a second round trip returns Ok and an object with the same digest (no drift)  *)
(*   LoadFidelity the numbers of the object deserialised without init() are the saved ones:     *)
(*                bit-exact for yaml / bin, within 1 unit in the last place for json            *)
(*   HistoryColumns wherever a struct is saved with both `state` and `history`, the two have   *)
(*                the same field names (a HistoryVec is derived field by field from its state;  *)
(*                a field saved in one and not the other does not survive the load)            *)
(*   Resume       Stutter on the recording: every Step appends exactly the digest the reference *)
(*                run has at that index (and succeeds / fails as the reference does)            *)
(*   ResumeJsonTol once a json load happened the statement allows parser rounding: the digest   *)
(*                is equal, or the class-relative deviation of the projection is <= 1e-9        *)
(*   RefStable    building the case twice gives the same start digest (replay is meaningful)    *)
(* SaveLoad lines leave <<step, traj>> unchanged by construction (the refinement statement);    *)
(* whether that is *true* of the code is what Resume decides on the following Step lines.       *)
(* Digests are pairs of integers < 2^30 (60 bits of FNV-1a of the canonical value tree); they   *)
(* are only ever compared for equality. Failures do not block: they are appended to `viol` and  *)
(* the state re-synchronises. Failures are recorded at most MaxPerSig times per signature       *)
(* <<kind, event, invariant, fmt, medium if the outcome depends on it, error class, skipped?,    *)
(* non-finite?, Location?>> (the format-  *)
(* level defects F-C17-1..3 fail thousands of lines); every failure is counted in `stats`.      *)
EXTENDS Checkpoint, Json, IOUtils

Rec == ndJsonDeserialize(IOEnv.TRACE)

MaxPerSig == 3
TolQ == 1100          \* 1e-9 in units of 2^-40 (relative to the largest magnitude of the leaf's class)

VARIABLES l, ref, refoks, refstart, jsonSeen, last, seen, viol, stats
tvars == <<kind, size, step, traj, obj, disk, ok, hist, l, ref, refoks, refstart, jsonSeen, last, seen, viol, stats>>

Stat0 == [cases |-> 0, steps |-> 0, moved |-> 0, resumed_exact |-> 0, resumed_tol |-> 0, resume_fail |-> 0,
          saveloads |-> 0, sl_ok |-> 0, sl_fail |-> 0, via_file |-> 0, after_load_steps |-> 0,
          via_over |-> 0, over_shorter |-> 0, via_reader |-> 0, via_alias |-> 0, large_saveloads |-> 0, big_bin_nonmem |-> 0,
          big_text_nonmem |-> 0, junk_behind_doc |-> 0, medium_fail |-> 0,
          fail_bin_skipped |-> 0, fail_bin_location |-> 0, fail_json_nonfinite |-> 0, fail_other |-> 0,
          idem_fail |-> 0, idem_json_few_ulps |-> 0, fidelity_fail |-> 0, fidelity_json_few_ulps |-> 0, json_1ulp_loads |-> 0,
          reload_neq_orig |-> 0, step_err |-> 0, panics |-> 0, dedup |-> 0]

TInit == /\ l = 1 /\ ref = <<>> /\ refoks = <<>> /\ refstart = <<0, 0>> /\ jsonSeen = FALSE /\ last = <<0, 0>>
         /\ seen = <<>> /\ viol = <<>> /\ stats = Stat0
         /\ kind = "" /\ size = "small" /\ step = 0 /\ traj = <<>> /\ obj = Fresh /\ hist = <<>>
         /\ disk = [f \in Formats |-> Doc(0)] /\ ok = TRUE

Names(checks) == LET F == SelectSeq(checks, LAMBDA c : ~c[2]) IN [i \in 1..Len(F) |-> F[i][1]]

Sig(name) == <<kind, Rec[l].ev, name,
               IF Rec[l].ev = "SaveLoad"
               THEN <<Rec[l].fmt, IF Rec[l].ok = Rec[l].mem_ok THEN "any" ELSE Rec[l].via,   \* the medium, where it made a difference
                      Rec[l].errclass, Rec[l].skipped > 0, Rec[l].nonfinite > 0, Rec[l].locations > 0>>
               ELSE <<jsonSeen>> >>
Count(s) == IF s \in DOMAIN seen THEN seen[s] ELSE 0
Report(names) ==
  LET sigs == [i \in 1..Len(names) |-> Sig(names[i])]
      idx  == SelectSeq([i \in 1..Len(names) |-> i], LAMBDA i : Count(sigs[i]) < MaxPerSig)
      new  == {sigs[i] : i \in 1..Len(names)}
  IN /\ viol' = viol \o [j \in 1..Len(idx) |-> <<l, Rec[l].case, names[idx[j]]>>]
     /\ seen' = [s \in (DOMAIN seen) \cup new |-> Count(s) + (IF s \in new THEN 1 ELSE 0)]
Dropped(names) == Len(names) - Cardinality({i \in 1..Len(names) : Count(Sig(names[i])) < MaxPerSig})

Begin == /\ Rec[l].ev = "begin"
         /\ kind' = Rec[l].desc.kind /\ step' = 0 /\ traj' = <<>>
         /\ size' = IF "size" \in DOMAIN Rec[l].desc THEN Rec[l].desc.size ELSE "small"
         /\ disk' = [f \in Formats |-> Doc(0)] /\ ok' = TRUE
         /\ ref' = <<>> /\ refoks' = <<>> /\ refstart' = <<0, 0>> /\ jsonSeen' = FALSE /\ last' = <<0, 0>>
         /\ stats' = [stats EXCEPT !.cases = @ + 1]
         /\ UNCHANGED <<obj, hist, seen, viol>>

RefEv == /\ Rec[l].ev = "Ref"
         /\ ref' = Rec[l].traj /\ refoks' = Rec[l].oks /\ refstart' = Rec[l].start
         /\ UNCHANGED <<kind, size, step, traj, obj, disk, ok, hist, jsonSeen, last, seen, viol, stats>>

Start == /\ Rec[l].ev = "Start"
         /\ last' = Rec[l].d
         /\ Report(Names(<< <<"RefStable", Rec[l].d = refstart>> >>))
         /\ UNCHANGED <<kind, size, step, traj, obj, disk, ok, hist, ref, refoks, refstart, jsonSeen, stats>>

(* Stutter evaluated on the recording: RefTraj is the recorded checkpoint-free run *)
StutterRec(t) == Len(t) <= Len(ref) /\ t = SubSeq(ref, 1, Len(t))

StepEv ==
  /\ Rec[l].ev = "Step"
  /\ step' = step + 1
  /\ traj' = Append(traj, Rec[l].d)
  /\ last' = Rec[l].d
  /\ LET k == step'
         inref == k <= Len(ref)
         same  == inref /\ Rec[l].d = ref[k] /\ Rec[l].ok = refoks[k]
         exact == ~jsonSeen => (same /\ (StutterRec(traj) => StutterRec(traj')))
         tol   == jsonSeen => (same \/ (inref /\ Rec[l].ok = refoks[k] /\ Rec[l].dev <= TolQ))
         names == Names(<< <<"Resume", exact>>, <<"ResumeJsonTol", tol>> >>)
     IN /\ Report(names)
        /\ stats' = [stats EXCEPT !.steps = @ + 1,
                                  !.moved = @ + (IF Rec[l].d # last THEN 1 ELSE 0),
                                  !.resumed_exact = @ + (IF same THEN 1 ELSE 0),
                                  !.resumed_tol = @ + (IF ~same /\ names = <<>> THEN 1 ELSE 0),
                                  !.resume_fail = @ + Len(names),
                                  !.after_load_steps = @ + (IF hist # <<>> THEN 1 ELSE 0),
                                  !.step_err = @ + (IF Rec[l].ok THEN 0 ELSE 1),
                                  !.dedup = @ + Dropped(names)]
  /\ UNCHANGED <<kind, size, obj, disk, ok, hist, ref, refoks, refstart, jsonSeen>>

SaveLoadEv ==
  /\ Rec[l].ev = "SaveLoad"
  /\ UNCHANGED <<step, traj>>                     \* SaveLoad(fmt) == UNCHANGED <<step, traj>>
  /\ jsonSeen' = (jsonSeen \/ (Rec[l].fmt = "json" /\ Rec[l].ok))
  /\ hist' = IF Rec[l].ok THEN <<Rec[l].fmt>> ELSE hist    \* "some load succeeded in this case" marker
  /\ ok' = Rec[l].ok
  \* what the re-used path holds after the write: the document (its length in memory) and whatever lies behind it
  /\ disk' = IF Rec[l].via = "over" THEN [disk EXCEPT ![Rec[l].fmt] = [len |-> Rec[l].mem_bytes, junk |-> Rec[l].bytes - Rec[l].mem_bytes]]
              ELSE disk
  /\ LET r == Rec[l]
         lim == IF r.fmt = "json" THEN 1 ELSE 0
         idem == r.ok => (r.ok2 /\ r.d1 = r.d2)
         fid  == r.ok => (r.raw_ok /\ r.load_ulps <= lim)
         nonmem == r.via # "mem"
         medind == nonmem => (r.ok = r.mem_ok /\ (r.ok => r.d1 = r.dm))
         names == Names(<< <<"SaveLoadOk", SaveLoadOk'>>, <<"MediumIndependent", medind>>, <<"Idempotent", idem>>, <<"LoadFidelity", fid>>,
                           <<"HistoryColumns", r.colmis = 0>> >>)
         binskip == ~r.ok /\ r.fmt = "bin" /\ r.stage = "de" /\ r.skipped > 0 /\ r.errclass # "any"
         binloc  == ~r.ok /\ r.fmt = "bin" /\ r.stage = "de" /\ r.locations > 0 /\ r.errclass = "any"
         jsonnf  == ~r.ok /\ r.fmt = "json" /\ r.stage = "de" /\ r.nonfinite > 0 /\ r.errclass = "null"
     IN /\ Report(names)
        /\ stats' = [stats EXCEPT !.saveloads = @ + 1,
                                  !.sl_ok = @ + (IF r.ok THEN 1 ELSE 0),
                                  !.sl_fail = @ + (IF r.ok THEN 0 ELSE 1),
                                  !.via_file = @ + (IF r.via = "file" THEN 1 ELSE 0),
                                  !.via_over = @ + (IF r.via = "over" THEN 1 ELSE 0),
                                  !.over_shorter = @ + (IF r.via = "over" /\ r.prev > r.mem_bytes THEN 1 ELSE 0),
                                  !.via_reader = @ + (IF r.via = "reader" THEN 1 ELSE 0),
                                  !.via_alias = @ + (IF r.via = "alias" THEN 1 ELSE 0),
                                  !.large_saveloads = @ + (IF size = "large" THEN 1 ELSE 0),
                                  !.big_bin_nonmem = @ + (IF nonmem /\ r.fmt = "bin" /\ r.mem_bytes > 1048576 THEN 1 ELSE 0),
                                  !.big_text_nonmem = @ + (IF nonmem /\ r.fmt # "bin" /\ r.mem_bytes > 1048576 THEN 1 ELSE 0),
                                  !.junk_behind_doc = @ + (IF r.via = "over" /\ r.bytes > r.mem_bytes THEN 1 ELSE 0),
                                  !.medium_fail = @ + (IF medind THEN 0 ELSE 1),
                                  !.fail_bin_skipped = @ + (IF binskip THEN 1 ELSE 0),
                                  !.fail_bin_location = @ + (IF binloc THEN 1 ELSE 0),
                                  !.fail_json_nonfinite = @ + (IF jsonnf THEN 1 ELSE 0),
                                  !.fail_other = @ + (IF ~r.ok /\ ~binskip /\ ~binloc /\ ~jsonnf THEN 1 ELSE 0),
                                  !.idem_fail = @ + (IF idem THEN 0 ELSE 1),
                                  !.idem_json_few_ulps = @ + (IF ~idem /\ r.fmt = "json" /\ r.ok2 /\ r.again_ulps <= 4 THEN 1 ELSE 0),
                                  !.fidelity_fail = @ + (IF fid THEN 0 ELSE 1),
                                  !.fidelity_json_few_ulps = @ + (IF ~fid /\ r.fmt = "json" /\ r.raw_ok /\ r.load_ulps <= 4 THEN 1 ELSE 0),
                                  !.json_1ulp_loads = @ + (IF r.ok /\ r.fmt = "json" /\ r.load_ulps = 1 THEN 1 ELSE 0),
                                  !.reload_neq_orig = @ + (IF r.ok /\ ~r.eq_orig THEN 1 ELSE 0),
                                  !.dedup = @ + Dropped(names)]
  /\ UNCHANGED <<kind, size, obj, ref, refoks, refstart, last>>

Panic == /\ Rec[l].ev \in {"panic", "abort", "timeout"}
         /\ Report(<<"NoPanic">>)
         /\ stats' = [stats EXCEPT !.panics = @ + 1]
         /\ UNCHANGED <<kind, size, step, traj, obj, disk, ok, hist, ref, refoks, refstart, jsonSeen, last>>

End == /\ Rec[l].ev = "end"
       /\ IF Rec[l].result = "harness_err" THEN Report(<<"HarnessOk">>) ELSE UNCHANGED <<seen, viol>>
       /\ hist' = <<>>
       /\ UNCHANGED <<kind, size, step, traj, obj, disk, ok, ref, refoks, refstart, jsonSeen, last, stats>>

TNext == /\ l <= Len(Rec) /\ l' = l + 1
         /\ (Begin \/ RefEv \/ Start \/ StepEv \/ SaveLoadEv \/ Panic \/ End)
TSpec == TInit /\ [][TNext]_tvars

AtEnd == l > Len(Rec) => /\ PrintT(<<"VIOLS", ToJson(viol)>>)
                         /\ PrintT(<<"STATS", ToJson(stats)>>)
Accepted == IF TLCGet("stats").diameter - 1 = Len(Rec) THEN TRUE
            ELSE Print(<<"FIRST-UNMATCHED", TLCGet("stats").diameter, Rec[TLCGet("stats").diameter]>>, FALSE)
=============================================================================
