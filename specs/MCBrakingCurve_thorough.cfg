SPECIFICATION Spec
CONSTANTS
  Variant = "catchup"
  E = 0
  VPerO = 1
  MaxZ = 5
  Lens <- T_Lens
  Lims <- T_Lims
  Domain = "admitted"
INVARIANT TableSafe
INVARIANT TargetLeLimit
INVARIANT Monotone
INVARIANT NoUnderflow
INVARIANT Emit
CHECK_DEADLOCK FALSE
