SPECIFICATION Spec
CONSTANTS
  DeepKinds <- MC_Deep
  ShallowKinds <- MC_Shallow
  StaticKinds <- MC_Static
  Depth = 2
  ShallowDepth = 2
  Media = {"mem", "reader", "file", "alias", "over"}
  Sizes = {"small"}
  BigSaves = 1
  Variant = "faithful"
INVARIANT TypeOK
INVARIANT Stutter
INVARIANT Idempotent
INVARIANT SaveLoadOk
INVARIANT MediumIndependent
INVARIANT Emit
PROPERTY StutterStep
CHECK_DEADLOCK FALSE
