SPECIFICATION TSpec
CONSTANTS
  N = 16
  W = 1
  Rounds = 2
  Variant = "isolated"
INVARIANT AtEnd
POSTCONDITION Accepted
CHECK_DEADLOCK FALSE
