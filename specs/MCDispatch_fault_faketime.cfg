SPECIFICATION Spec
CONSTANTS
  NT = 2
  Links <- N1_Links
  Flip <- N1_Flip
  Lock <- N1_Lock
  Routes <- R_n1f_2
  Depart <- D_n1f_2
  S = 2
  U = 1
  O = 1
  Rules = {"flip","lock","prevce","lead","quiet","spacing","exitce"}
  Horizon = 24
INVARIANT OppExclusive
INVARIANT LockoutExclusive
INVARIANT Headway
INVARIANT Fifo
INVARIANT MonotonePlan
INVARIANT AuthAgrees
INVARIANT TimedPrefix
CHECK_DEADLOCK FALSE
