SPECIFICATION TSpec
CONSTANTS
  Variant = "fixed"
  Trains = {}
  LinkLens = {}
  Speeds = {}
  Gates = {}
  MaxLinks = 0
  MaxR = 0
INVARIANT AtEnd
POSTCONDITION Accepted
CHECK_DEADLOCK FALSE
