-------------------------- MODULE MassLedgerTrace --------------------------
(* Implementation -> spec for C20: the fields (through serde) and every getter's answer recorded  *)
(* after each real setter call / file load are bound to MassLedger's variables; MassLedger's own   *)
(* Level-A invariants are evaluated on them (state invariants after accepted calls, Atomic after   *)
(* rejected ones). Level B (Variant = "ascoded" here: the code as it is) predicts outcome, fields  *)
(* and getter answers of the same call: a difference with Level A intact is drift.                 *)
(* After a rejected call the harness puts the pre-call object back (`Restore`), so one failure is  *)
(* reported once and the sequence continues from a sound object.                                   *)
EXTENDS MassLedger, Json, IOUtils

Rec == ndJsonDeserialize(IOEnv.TRACE)

VARIABLES l, viol, stats,
          cnt       \* reported name -> number of failures (every one is counted, the first PerName are listed)
tvars == <<mode, st, obs, last, pst, pobs, ops, st0, l, viol, stats, cnt>>
PerName == 8

TInit == /\ l = 1 /\ viol = <<>> /\ cnt = [n \in {} |-> 0]
         /\ stats = [cases |-> 0, objects |-> 0, calls |-> 0, accepted |-> 0, rejected |-> 0, loads |-> 0,
                     loads_ok |-> 0, trains |-> 0, drift |-> 0, offlattice |-> 0, harness |-> 0, panics |-> 0]
         /\ mode = "none" /\ st = <<>> /\ obs = <<>> /\ last = New /\ pst = <<>> /\ pobs = <<>>
         /\ ops = <<>> /\ st0 = <<>>

(* A failure is reported as "<invariant>@<input class>": TLC names the failing relation AND the class *)
(* of the call it failed on - setter / option / known-ness pattern of the addressed object BEFORE the *)
(* call, computed here from the recorded pre-state - so that known findings can be filed under        *)
(* exactly that pair and everything else stays a violation.                                           *)
Kn(x) == IF x >= 0 THEN "K" ELSE "U"
UKey(u) == "mass=" \o Kn(u.mass) \o ",mu=" \o Kn(u.mu) \o ",der=" \o (IF u.base >= 0 /\ u.ball >= 0 THEN "K" ELSE "U")
CallKey(op) == op[1] \o "/" \o op[3] \o "/" \o (IF mode = "comp" THEN "comp" ELSE UKey(st.units[op[4]]))
LoadKey(m, file) == "Load//" \o (IF m = "comp" THEN "comp" ELSE UKey(file.units[1]))

Names(checks) == LET F == SelectSeq(checks, LAMBDA c : ~c[2]) IN [i \in 1..Len(F) |-> F[i][1]]
(* known findings fail on thousands of records: listing every one would bury (or, with a global cap, *)
(* cut off) an unknown failure, so each distinct name is listed PerName times and counted always     *)
Full(names, key) == [i \in 1..Len(names) |-> names[i] \o "@" \o key]
Was(n) == IF n \in DOMAIN cnt THEN cnt[n] ELSE 0
Report(key, names) ==
  LET F == Full(names, key)  S == {F[i] : i \in 1..Len(F)}
      keep == SelectSeq(F, LAMBDA n : Was(n) < PerName)
  IN /\ viol' = viol \o [i \in 1..Len(keep) |-> <<l, Rec[l].case, keep[i]>>]
     /\ cnt' = [n \in DOMAIN cnt \cup S |-> Was(n) + (IF n \in S THEN 1 ELSE 0)]

StateChecks == << <<"ComponentConsistent", ComponentConsistent'>>, <<"LocoConsistent", LocoConsistent'>>,
                  <<"Traction", Traction'>>, <<"ConsistMass", ConsistMass'>>, <<"ConsistForce", ConsistForce'>>,
                  <<"TrainStatic", TrainStatic'>> >>
CallChecks == StateChecks \o << <<"Atomic", Atomic'>>, <<"OptionSemantics", OptionSemantics'>>, <<"Frame", Frame'>> >>
Built(o) == IF mode' = "loco" /\ o.tstatic >= 0 THEN 1 ELSE 0
(* the harness logs a value that is not a multiple of 1/64 as the sentinel Xq and marks the record.  *)
(* Component relations are stated so that they hold with Xq fields too (getter-level clauses), and  *)
(* are always evaluated; locomotive records with an off-grid value (only the seeded long walks can  *)
(* produce them) are counted, not judged                                                            *)
ReportIf(exact, key, names) == IF exact \/ mode' = "comp" THEN Report(key, names) ELSE UNCHANGED <<viol, cnt>>

Begin == /\ Rec[l].ev = "begin"
         /\ stats' = [stats EXCEPT !.cases = @ + 1]
         /\ mode' = "none" /\ st' = <<>> /\ obs' = <<>> /\ last' = New /\ pst' = <<>> /\ pobs' = <<>>
         /\ ops' = <<>> /\ st0' = <<>>
         /\ UNCHANGED <<viol, cnt>>

StateEv == /\ Rec[l].ev = "State"
         /\ mode' = Rec[l].mode /\ st' = Rec[l].st /\ obs' = Rec[l].obs
         /\ last' = New /\ pst' = st' /\ pobs' = obs' /\ ops' = <<>> /\ st0' = <<mode', st'>>
         /\ ReportIf(Rec[l].exact, "State", Names(StateChecks))
         /\ stats' = [stats EXCEPT !.objects = @ + 1, !.trains = @ + Built(obs'),
                        !.offlattice = @ + (IF Rec[l].exact THEN 0 ELSE 1),
                        !.drift = @ + (IF obs' = Observe(mode', st') THEN 0 ELSE 1)]

CallEv == /\ Rec[l].ev = "Call"
        /\ UNCHANGED <<mode, st0>>
        /\ LET r == Rec[l]
               pred == Apply(mode, st, r.op[1], r.op[2], r.op[3], r.op[4])
           IN /\ st' = r.st /\ obs' = r.obs
              /\ last' = [name |-> r.op[1], arg |-> r.op[2], opt |-> r.op[3], k |-> r.op[4], ok |-> r.ok]
              /\ pst' = st /\ pobs' = obs
              /\ ops' = Append(ops, r.op)
              /\ ReportIf(r.exact, CallKey(r.op), Names(CallChecks))
              /\ stats' = [stats EXCEPT !.calls = @ + 1, !.trains = @ + Built(obs'),
                             !.accepted = @ + (IF r.ok THEN 1 ELSE 0), !.rejected = @ + (IF r.ok THEN 0 ELSE 1),
                             !.offlattice = @ + (IF r.exact THEN 0 ELSE 1),
                             !.drift = @ + (IF ~r.exact \/ (pred.ok = r.ok /\ pred.st = r.st /\ obs' = Observe(mode, r.st))
                                            THEN 0 ELSE 1)]

Restore == /\ Rec[l].ev = "Restore"
           /\ st' = Rec[l].st /\ obs' = Rec[l].obs /\ last' = New /\ pst' = st' /\ pobs' = obs'
           /\ stats' = [stats EXCEPT !.harness = @ + (IF Rec[l].st = pst /\ Rec[l].obs = pobs THEN 0 ELSE 1)]
           /\ UNCHANGED <<mode, ops, st0, viol, cnt>>

LoadEv == /\ Rec[l].ev = "Load"
          /\ mode' = Rec[l].mode /\ st' = Rec[l].st /\ obs' = Rec[l].obs
          /\ last' = [name |-> "Load", arg |-> 0, opt |-> "", k |-> 0, ok |-> Rec[l].ok]
          /\ pst' = st' /\ pobs' = obs' /\ ops' = << <<"Load", 0, "", 0>> >> /\ st0' = <<mode', Rec[l].file>>
          /\ Report(LoadKey(mode', Rec[l].file), Names(StateChecks))
          /\ stats' = [stats EXCEPT !.loads = @ + 1, !.loads_ok = @ + (IF Rec[l].ok THEN 1 ELSE 0),
                         !.trains = @ + (IF Rec[l].ok THEN Built(obs') ELSE 0),
                         !.drift = @ + (IF LoadOkB(mode', Rec[l].file) = Rec[l].ok /\ (Rec[l].ok => st' = Rec[l].file)
                                        THEN 0 ELSE 1)]

Panic == /\ Rec[l].ev \in {"panic", "abort", "timeout"}
         /\ Report("any", <<"NoPanic">>)
         /\ stats' = [stats EXCEPT !.panics = @ + 1]
         /\ UNCHANGED <<mode, st, obs, last, pst, pobs, ops, st0>>

End == /\ Rec[l].ev = "end"
       /\ stats' = [stats EXCEPT !.harness = @ + (IF Rec[l].result = "harness_err" THEN 1 ELSE 0)]
       /\ UNCHANGED <<mode, st, obs, last, pst, pobs, ops, st0, viol, cnt>>

TNext == /\ l <= Len(Rec) /\ l' = l + 1
         /\ (Begin \/ StateEv \/ CallEv \/ Restore \/ LoadEv \/ Panic \/ End)
TSpec == TInit /\ [][TNext]_tvars

AtEnd == l > Len(Rec) => /\ PrintT(<<"VIOLS", ToJson(viol)>>)
                         /\ PrintT(<<"STATS", ToJson(stats)>>)
                         /\ PrintT(<<"FAILCOUNTS", ToJson(cnt)>>)
Accepted == IF TLCGet("stats").diameter - 1 = Len(Rec) THEN TRUE
            ELSE Print(<<"FIRST-UNMATCHED", TLCGet("stats").diameter, Rec[TLCGet("stats").diameter]>>, FALSE)
=============================================================================
