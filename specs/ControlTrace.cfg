SPECIFICATION TSpec
CONSTANTS
  Variant = "catchup"
  E = 1
  VPerO = 1024
  FT1000 = 19508
  MaxZ = 0
  Lens = {}
  Lims = {}
  Domain = "all"
INVARIANT AtEnd
POSTCONDITION Accepted
CHECK_DEADLOCK FALSE
