SPECIFICATION Spec
CONSTANTS
  Variant = "skip1"
  Bases <- VP_Bases
  MaxFaults = 1
INVARIANT Conforms
CHECK_DEADLOCK FALSE
