SPECIFICATION TSpec
CONSTANTS
  NT = 0
  Links = {}
  Flip = 0
  Lock = 0
  Routes = 0
  Depart = 0
  S = 0
  U = 0
  O = 0
  Horizon = 0
  Rules = {}
INVARIANT AtEnd
POSTCONDITION Accepted
CHECK_DEADLOCK FALSE
