\* the quick profiles with sign-encoded limits (same magnitudes, some zones written with a negative value):
\* recalc takes the magnitude at every use (braking_point.rs:91, :100, :131, :152-153)
SPECIFICATION Spec
CONSTANTS
  Variant = "catchup"
  E = 0
  VPerO = 1
  MaxZ = 4
  Lens <- Q_Lens
  Lims <- S_Lims
  Domain = "admitted"
INVARIANT TableSafe
INVARIANT TargetLeLimit
INVARIANT Monotone
INVARIANT NoUnderflow
INVARIANT Emit
CHECK_DEADLOCK FALSE
