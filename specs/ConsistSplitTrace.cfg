SPECIFICATION TSpec
CONSTANTS
  Recorded = TRUE
  Fault = "none"
  Lims = {}
  Policies = {}
  Ratings = {}
  ConvStarts = {}
  BelStarts = {}
  MinUnits = 0
  MaxUnits = 0
  MaxSteps = 0
  WarmClasses = {}
  Classes = {}
INVARIANT AtEnd
POSTCONDITION Accepted
CHECK_DEADLOCK FALSE
