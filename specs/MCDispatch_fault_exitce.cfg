SPECIFICATION FairSpec
CONSTANTS
  NT = 3
  Links <- N0_Links
  Flip <- N0_Flip
  Lock <- N0_Lock
  Routes <- R_nl_3
  Depart <- D_nl_3
  S = 2
  U = 1
  O = 1
  Rules = {"flip","lock","prevce","lead","quiet","spacing"}
  Horizon = 30
INVARIANT OppExclusive
INVARIANT LockoutExclusive
INVARIANT Headway
INVARIANT Fifo
INVARIANT MonotonePlan
INVARIANT AuthAgrees
PROPERTY Progress
CHECK_DEADLOCK FALSE
