"""Generic group pipeline (see vk.py) driven by a declarative group definition in checks/<group>.py.

A group module defines GROUP = dict(
  name, bin, model_spec, trace_spec, trace_cfg,
  models   = {tier: [dict(cfg=..., emit=bool, workers=int, timeout=int, simulate=str|None, max_emit=int)]},
  gen_n    = {tier: n},                 # seeded generator cases
  per_case_ms = int,
  props    = {PID: dict(invariants=[...], level=..., rule=..., assumptions=[...])},
  nontrivial = fn(desc) -> bool,
  sigs     = {name: fn(desc, events, invariant) -> bool},   # known-finding class signatures
  extra_cases = fn(tier, seed) -> [desc]   (optional),
  vacuity  = fn(result) -> str|None        (optional; returns a complaint),
)
"""
import json
import os
import random
import shutil
import time

import vk


def _known_inputs(group):
    d = os.path.join(vk.ROOT, "known")
    out = []
    if os.path.isdir(d):
        for fn in sorted(os.listdir(d)):
            if fn.endswith(".json") and not fn.startswith("findings-"):
                j = json.load(open(os.path.join(d, fn)))
                if j.get("group") == group:
                    desc = dict(j["desc"])
                    desc["known_input"] = fn
                    out.append(desc)
    return out


def run_group(G, tier, seed, only_cases=None):
    """Runs the whole pipeline of a group, returns the (cacheable) result dict."""
    key = vk.sha(dict(tree=vk.tree_key(), tier=tier, seed=seed, group=G["name"]))[:20]
    if only_cases is None and os.environ.get("VERIF_NOCACHE") != "1":
        hit = vk.cache_get(G["name"], key)
        if hit:
            vk.log(f"[cache] {G['name']} {tier} seed={seed}: reusing group run {key}")
            hit["cache_hit"] = True
            return hit
    t0 = time.time()
    work = os.path.join(vk.ROOT, ".work", f"{G['name']}-{os.getpid()}")
    shutil.rmtree(work, ignore_errors=True)
    os.makedirs(work)
    try:
        binpath = vk.build_harness(G["bin"])
        models, cases = [], []
        n_emit = 0
        if only_cases is None:
            for m in G["models"].get(tier, []):
                r = vk.tlc_check(G["model_spec"] if "spec" not in m else m["spec"], m["cfg"], work,
                                 workers=m.get("workers", 8), timeout=m.get("timeout", 600),
                                 coverage=m.get("coverage", True), want_emit=m.get("emit", False),
                                 simulate=m.get("simulate"), sim_seed=seed)
                if r["violated"]:
                    raise vk.ToolError(f"model {m['cfg']} violates {r['violated']}: the Level-B spec itself breaks "
                                       f"the property (see {r['out']})")
                zero = [a for a, c in r["coverage"].items() if c == 0 and a not in m.get("may_be_zero", ())]
                if zero:
                    raise vk.ToolError(f"vacuity: actions never taken in {m['cfg']}: {zero}")
                em = r.pop("cases")
                if m.get("emit"):
                    if not em:
                        raise vk.ToolError(f"{m['cfg']} emitted no cases")
                    mx = m.get("max_emit")
                    # TLC's workers print in a schedule-dependent order: canonicalise before sampling
                    em.sort(key=lambda c: json.dumps(c, sort_keys=True))
                    if mx and len(em) > mx:
                        rnd = random.Random(seed * 7919 + len(em))
                        em = rnd.sample(em, mx)
                    for c in em:
                        c["src"] = m["cfg"]
                    cases += em
                    n_emit += len(em)
                r.pop("out", None)
                models.append(r)
            n_gen = G.get("gen_n", {}).get(tier, 0)
            if n_gen:
                cases += vk.gen_cases(binpath, seed, n_gen, tier)
            if G.get("extra_cases"):
                cases += G["extra_cases"](tier, seed)
            cases += _known_inputs(G["name"])
        else:
            cases = only_cases
            n_gen = 0
        cases_p = os.path.join(work, "cases.ndjson")
        trace_p = os.path.join(work, "trace.ndjson")
        vk.write_cases(cases, cases_p)
        hr = vk.run_harness(binpath, cases_p, trace_p, len(cases), per_case_ms=G.get("per_case_ms", 20000),
                            total_timeout=G.get("harness_timeout", {}).get(tier, 1800))
        tv = vk.tlc_validate(G["trace_spec"], G["trace_cfg"], trace_p, work,
                             timeout=G.get("trace_timeout", {}).get(tier, 1200), xmx=G.get("trace_xmx", "6g"))
        viols = tv["viols"]
        # keep details for at most 400 failing cases, rarest failure kinds first, so that a flood of one (known) class
        # can never evict the descriptor of a rare failure
        from collections import Counter
        inv_count = Counter(v[2] for v in viols)
        case_key = {}
        for v in viols:
            case_key[v[1]] = min(case_key.get(v[1], 1 << 60), inv_count[v[2]])
        bad_cases = sorted(sorted(case_key, key=lambda c: (case_key[c], c))[:400])
        sample_cases = [0, len(cases) // 2, len(cases) - 1] if cases else []
        evs = vk.read_trace_cases(trace_p, set(bad_cases) | set(sample_cases))
        distinct = {}
        nt = G.get("nontrivial", lambda d: True)
        for c in cases:
            k = dict(c)
            for drop in ("src", "seed", "k", "known_input"):
                k.pop(drop, None)
            h = vk.sha(k)
            if h not in distinct:
                distinct[h] = bool(nt(c))
        res = dict(
            group=G["name"], tier=tier, seed=seed, models=models, n_cases=len(cases), n_emitted=n_emit,
            n_gen=n_gen, n_distinct=len(distinct), n_nontrivial=sum(1 for v in distinct.values() if v),
            viols=viols, stats=tv["stats"], tags=tv.get("tags", {}), trace_lines=tv["lines"], restarts=hr["restarts"],
            bad={str(c): dict(desc=cases[c], events=evs.get(c, [])[:400]) for c in bad_cases if c < len(cases)},
            samples=[dict(desc=cases[c], events=[e for e in evs.get(c, []) if e.get("ev") != "begin"][:6]) for c in sample_cases if c in evs][:3],
            wall=round(time.time() - t0, 1), cache_hit=False,
        )
        # vacuity complaints only matter for a run that would otherwise report "held": decide() raises them
        res["vacuity_msg"] = (G["vacuity"](res) if (G.get("vacuity") and only_cases is None) else None)
        if only_cases is None:
            vk.cache_put(G["name"], key, res)
        return res
    finally:
        if os.environ.get("VERIF_KEEP") != "1":
            shutil.rmtree(work, ignore_errors=True)


def decide(G, pid, res, tier, seed, t_start, write_evidence=True):
    """Turns a group result into the verdict, KNOWN-FINDING / VIOLATION lines and evidence of one property."""
    P = G["props"][pid]
    owned = set(P["invariants"])
    findings = [f for f in vk.load_findings() if f["property"] == pid]
    known_hits, violations = {}, []
    seen = set()
    for line, case, inv in res["viols"]:
        if inv not in owned:
            continue
        b = res["bad"].get(str(case))
        if b is None:
            # more failing cases than we keep details for: still a violation, desc unavailable
            b = dict(desc={"case": case, "note": "details truncated"}, events=[])
        desc, events = b["desc"], b["events"]
        matched = None
        for f in findings:
            if f.get("status") != "known" or inv not in f.get("invariants", [inv]):
                continue
            if f.get("input_sha") and f["input_sha"] == _desc_sha(desc):
                matched = f
                break
            sig = f.get("sig")
            if sig and sig in G.get("sigs", {}) and G["sigs"][sig](desc, events, inv):
                matched = f
                break
        if matched:
            known_hits.setdefault(matched["id"], [matched, 0])[1] += 1
            continue
        k = (case, inv)
        if k in seen:
            continue
        seen.add(k)
        violations.append((case, inv, line, desc, events))
    if G.get("drift_report"):
        msg = G["drift_report"](res)
        if msg:
            print(f"MODEL-DRIFT property={pid} {msg} (Level A intact unless a VIOLATION line follows)")
    for fid, (f, n) in sorted(known_hits.items()):
        print(f"KNOWN-FINDING: property={pid} {fid} {f['what']} [{n} recorded failures]")
    shown = 0
    for case, inv, line, desc, events in violations:
        if shown >= 10:
            break
        path = vk.write_replay(pid, G["name"], desc, inv, events, extra=dict(tier=tier, seed=seed, trace_line=line))
        print(f"VIOLATION property={pid} replay={path}")
        print(f"  invariant {inv} failed on case {case} (trace line {line}, source {desc.get('src', '?')})")
        shown += 1
    if len(violations) > shown:
        print(f"  ... and {len(violations)-shown} more failing (case, invariant) pairs")
    states = sum(m["distinct"] for m in res["models"]) + res["trace_lines"]
    trans = sum(m["states"] for m in res["models"]) + res["trace_lines"]
    cov = dict(
        states=max(states, 1), transitions=max(trans, 1),
        traces_validated_against_impl=res["n_cases"],
        trace_lines_validated=res["trace_lines"],
        evaluations=max(res["n_cases"], 1),
        distinct_nontrivial=res["n_nontrivial"],
        distinct_cases=res["n_distinct"],
        rule=P.get("rule", G.get("rule", "")),
        samples=res["samples"] or [{"note": "no cases"}],
        models=[dict(cfg=m["cfg"], distinct_states=m["distinct"], states_generated=m["states"],
                     wall_s=m["wall"], actions=m["coverage"]) for m in res["models"]],
        cases_from_tlc=res["n_emitted"], cases_from_generator=res["n_gen"],
        invariants_decided_by_tlc=sorted(owned),
        trace_stats=res["stats"],
        known_findings_seen={k: v[1] for k, v in known_hits.items()},
        harness_restarts=res["restarts"],
        exhaustive=bool(P.get("exhaustive", False)),
        group_run_reused=bool(res.get("cache_hit")),
        group_wall_s=res["wall"],
        checker_cmd=f"bin/check {pid} --tier {tier}",
    )
    if "coverage_extra" in P:
        cov.update(P["coverage_extra"](res))
    if not violations and res.get("vacuity_msg"):
        raise vk.ToolError("vacuity: " + res["vacuity_msg"])
    if write_evidence:
        vk.write_evidence(pid, tier, seed, P.get("level", "model_checking"), cov, P.get("assumptions", []),
                          time.time() - t_start, len(violations))
    return 1 if violations else 0


def _desc_sha(desc):
    k = dict(desc)
    for drop in ("src", "seed", "k", "known_input"):
        k.pop(drop, None)
    return vk.sha(k)
