"""vk — verification kit shared by every check.

Pipeline of a *group* (a TLA+ spec + its harness binary, serving one or more properties):
  1. cargo build of the harness binary against /repo's current working tree (hooks cfg on)
  2. TLC model-checks the Level-B spec (bounded configs of the tier); configs flagged `emit`
     print every reached configuration / behaviour as a REPLAY line
  3. cases = TLC-emitted + seeded generator (`<bin> gen`) + materialised inputs of known findings
  4. the harness executes every case on the real code and records an NDJSON trace
  5. TLC validates the trace against `<Spec>Trace.tla` (the spec's own invariants evaluated on every
     recorded state); it prints the list of <<line, case, invariant>> failures
  6. per property: failures owned by the property are matched against known_findings.json, the
     rest become VIOLATION lines with a replay file; evidence/<ID>.json is written.
Exit codes: 0 held, 1 violation (always with a VIOLATION line + replay file), 2 tool error.
"""
import hashlib
import json
import os
import re
import resource
import shutil
import subprocess
import sys
import time

ROOT = os.path.dirname(os.path.dirname(os.path.abspath(__file__)))
# VERIF_SANDBOX=<dir> (made by bin/mutant-sandbox) redirects the code under test to <dir>/repo and the
# harness build to <dir>/harness: used only for mutation self-tests, never by registered checks.
_SB = os.environ.get("VERIF_SANDBOX")
REPO = os.path.join(_SB, "repo") if _SB else "/repo"
SPECS = os.path.join(ROOT, "specs")
HARNESS = os.path.join(_SB, "harness") if _SB else os.path.join(ROOT, "harness")
# mutation trials in a sandbox must not overwrite the evidence / replay files of the real tree
EVID = os.path.join(ROOT, ".sandbox-out", "evidence") if _SB else os.path.join(ROOT, "evidence")
REPLAYS = os.path.join(ROOT, ".sandbox-out", "replays") if _SB else os.path.join(ROOT, "replays")
CACHE = os.path.join(ROOT, ".cache")
TLA_CP = "/opt/veriftools/tla/tla2tools.jar:/opt/veriftools/tla/CommunityModules-deps.jar"


class ToolError(Exception):
    pass


def log(*a):
    print(*a, file=sys.stderr, flush=True)


def sha(obj):
    if not isinstance(obj, (bytes, str)):
        obj = json.dumps(obj, sort_keys=True)
    if isinstance(obj, str):
        obj = obj.encode()
    return hashlib.sha256(obj).hexdigest()


# --------------------------------------------------------------------------------------------
# tree hash (cache key): every file that can influence a group's result

def _hash_tree(h, base, exts=None, skip=("target", ".git", "__pycache__")):
    for dp, dns, fns in os.walk(base):
        dns[:] = sorted(d for d in dns if d not in skip)
        for fn in sorted(fns):
            if exts and not fn.endswith(exts):
                continue
            p = os.path.join(dp, fn)
            try:
                with open(p, "rb") as f:
                    h.update(p.encode())
                    h.update(hashlib.sha256(f.read()).digest())
            except OSError:
                pass


def tree_key():
    h = hashlib.sha256()
    _hash_tree(h, os.path.join(REPO, "rust"), exts=(".rs", ".toml", ".lock"))
    _hash_tree(h, os.path.join(REPO, "python/altrios/resources"), exts=(".yaml", ".csv", ".json"))
    for d in ("specs", "harness/src", "lib", "bin", "checks", "known"):
        _hash_tree(h, os.path.join(ROOT, d))
    for f in ("harness/Cargo.toml", "harness/.cargo/config.toml", "known_findings.json"):
        p = os.path.join(ROOT, f)
        if os.path.exists(p):
            h.update(open(p, "rb").read())
    return h.hexdigest()[:24]


# --------------------------------------------------------------------------------------------
# build

_built = set()


def build_harness(binname):
    """cargo build of one harness binary against /repo's working tree (hooks cfg enabled through
    harness/.cargo/config.toml)."""
    if binname in _built:
        return os.path.join(HARNESS, "target/debug", binname)
    env = dict(os.environ, CARGO_NET_OFFLINE="true", RUST_BACKTRACE="0")
    t0 = time.time()
    if _SB:
        # keep the sandbox's harness sources in step with /verif/harness
        subprocess.run(["rsync", "-a", "--delete", "--exclude", "target", os.path.join(ROOT, "harness") + "/", HARNESS + "/"], check=True)
    r = subprocess.run(["cargo", "build", "--offline", "--bin", binname], cwd=HARNESS, env=env,
                       stdout=subprocess.PIPE, stderr=subprocess.STDOUT, text=True)
    if r.returncode != 0:
        errs = [l for l in r.stdout.splitlines() if l.startswith("error")][:10]
        raise ToolError("harness build failed (does /repo still compile?):\n" + "\n".join(errs) + "\n" + r.stdout[-3000:])
    log(f"[build] {binname} {time.time()-t0:.1f}s")
    _built.add(binname)
    return os.path.join(HARNESS, "target/debug", binname)


# --------------------------------------------------------------------------------------------
# TLC

def _tlc_cmd(spec, cfg, workers, metadir, extra=(), xmx="8g", jopts=()):
    return ["java", "-XX:+UseParallelGC", f"-Xmx{xmx}", *jopts, "-cp", TLA_CP, "tlc2.TLC",
            "-workers", str(workers), "-metadir", metadir, "-cleanup", "-noGenerateSpecTE", "-checkpoint", "0",
            "-config", cfg, *extra, spec]


_RE_STATES = re.compile(r"(\d+) states generated, (\d+) distinct states found")
_RE_COV = re.compile(r"^<(\w+) line \d+, col \d+ to line \d+, col \d+ of module (\w+)>: (\d+):(\d+)")
_RE_REPLAY = re.compile(r'^<<"REPLAY", "(.*)">>$')
_RE_TAG = re.compile(r'^<<"([A-Z-]+)", "(.*)">>$')


def _unescape(s):
    # TLC prints the JSON string with TLA+ string escaping: \" and \\
    return s.replace('\\"', '"').replace("\\\\", "\\")


def _run_jvm(cmd, out_p, **kw):
    """Runs a TLC command writing to out_p. A JVM that was killed or never started (no TLC banner in the output:
    out of memory on a busy host) is not a verdict about anything: it is started again, at most twice."""
    for attempt in range(3):
        with open(out_p, "w") as out:
            r = subprocess.run(cmd, stdout=out, stderr=subprocess.STDOUT, **kw)
        if r.returncode == 0:
            return r
        try:
            head = open(out_p, errors="replace").read(4000)
        except OSError:
            head = ""
        if r.returncode in (-9, 137, -15, 143) or "TLC2 Version" not in head:
            log(f"[jvm] exited {r.returncode} without a TLC verdict (attempt {attempt + 1}); starting it again")
            time.sleep(3)
            continue
        return r
    return r


def tlc_check(spec, cfg, work, workers=8, timeout=600, coverage=True, want_emit=False, simulate=None, sim_seed=0):
    """Model-checks `cfg`. Returns dict(states, distinct, violated, coverage, cases, wall)."""
    spec_p = os.path.join(SPECS, spec)
    cfg_p = os.path.join(SPECS, cfg)
    md = os.path.join(work, "md-" + os.path.splitext(cfg)[0])
    extra = []
    if coverage and not simulate:
        extra += ["-coverage", "1"]
    if simulate:
        extra += ["-simulate", simulate, "-seed", str(int(sim_seed))]   # reproducible sample for a given VERIF_SEED
    out_p = os.path.join(work, os.path.splitext(cfg)[0] + ".out")
    t0 = time.time()
    try:
        r = _run_jvm(_tlc_cmd(spec_p, cfg_p, workers, md, extra), out_p, cwd=work, timeout=timeout)
        rc = r.returncode
    except subprocess.TimeoutExpired:
        raise ToolError(f"TLC timed out after {timeout}s on {cfg}")
    wall = time.time() - t0
    shutil.rmtree(md, ignore_errors=True)
    res = dict(cfg=cfg, states=0, distinct=0, violated=None, coverage={}, cases=[], wall=round(wall, 1), rc=rc)
    err_lines = []
    with open(out_p) as f:
        for line in f:
            line = line.rstrip("\n")
            if want_emit:
                m = _RE_REPLAY.match(line)
                if m:
                    res["cases"].append(json.loads(_unescape(m.group(1))))
                    continue
            m = _RE_STATES.search(line)
            if m:
                res["states"], res["distinct"] = int(m.group(1)), int(m.group(2))
                continue
            m = _RE_COV.match(line)
            if m and m.group(2) != "":
                k = m.group(1)
                # keep the max over repeated coverage dumps
                res["coverage"][k] = max(res["coverage"].get(k, 0), int(m.group(4)))
                continue
            if line.startswith("Error:") or "is violated" in line:
                err_lines.append(line)
                m2 = re.search(r"Invariant (\w+) is violated", line)
                if m2:
                    res["violated"] = m2.group(1)
                m2 = re.search(r"Action property (\w+) is violated|Temporal properties were violated", line)
                if m2:
                    res["violated"] = m2.group(1) or "temporal"
    if simulate:
        # simulation mode never "finishes"; it is ended by its num= bound
        pass
    if rc != 0 and res["violated"] is None and not (simulate and rc in (0,)):
        tail = "".join(open(out_p).readlines()[-25:])
        raise ToolError(f"TLC failed on {cfg} (rc={rc}):\n" + "\n".join(err_lines[:5]) + "\n" + tail)
    res["out"] = out_p
    log(f"[tlc] {cfg}: {res['distinct']} distinct / {res['states']} generated, {wall:.1f}s"
        + (f", {len(res['cases'])} cases emitted" if want_emit else "")
        + (f", VIOLATED {res['violated']}" if res["violated"] else ""))
    return res


def tlc_validate(trace_spec, trace_cfg, trace_path, work, timeout=900, xmx="6g", env_extra=None):
    """Validates an NDJSON trace. Returns dict(viols=[[line,case,name],..], stats, lines, wall)."""
    md = os.path.join(work, "md-trace")
    env = dict(os.environ, TRACE=trace_path)
    if env_extra:
        env.update(env_extra)
    jopts = ["-Xss1g", "-Dtlc2.tool.queue.IStateQueue=StateDeque"]
    out_p = trace_path + ".tlc.out"
    t0 = time.time()
    try:
        r = _run_jvm(_tlc_cmd(os.path.join(SPECS, trace_spec), os.path.join(SPECS, trace_cfg), 1, md,
                              xmx=xmx, jopts=jopts), out_p, cwd=work, env=env, timeout=timeout)
    except subprocess.TimeoutExpired:
        raise ToolError(f"TLC trace validation timed out after {timeout}s on {trace_path}")
    wall = time.time() - t0
    shutil.rmtree(md, ignore_errors=True)
    res = dict(viols=None, stats={}, lines=0, wall=round(wall, 1), tags={})
    txt = open(out_p).read()
    for line in txt.splitlines():
        m = _RE_TAG.match(line)
        if m:
            tag, payload = m.group(1), json.loads(_unescape(m.group(2)))
            if tag == "VIOLS":
                res["viols"] = payload
            elif tag == "STATS":
                res["stats"] = payload
            else:
                res["tags"].setdefault(tag, []).append(payload)
            continue
        m = _RE_STATES.search(line)
        if m:
            res["lines"] = int(m.group(2)) - 1
    if r.returncode != 0 or res["viols"] is None or "FIRST-UNMATCHED" in txt:
        raise ToolError(f"trace spec did not accept/finish {trace_path} (rc={r.returncode}):\n" + txt[-3000:])
    log(f"[tlc] {trace_spec}: {res['lines']} lines validated, {len(res['viols'])} failures, {wall:.1f}s")
    return res


# --------------------------------------------------------------------------------------------
# harness runs

def _limits():
    # address-space ceiling for the code under test (a runaway walk once filled 62 GB)
    lim = 12 << 30
    resource.setrlimit(resource.RLIMIT_AS, (lim, lim))
    resource.setrlimit(resource.RLIMIT_CORE, (0, 0))


def gen_cases(binpath, seed, n, tier):
    r = subprocess.run([binpath, "gen", str(seed), str(n), tier], stdout=subprocess.PIPE, text=True, timeout=600)
    if r.returncode != 0:
        raise ToolError(f"{binpath} gen failed")
    return [json.loads(l) for l in r.stdout.splitlines() if l.strip()]


def write_cases(cases, path):
    with open(path, "w") as f:
        for c in cases:
            f.write(json.dumps(c, sort_keys=True) + "\n")


def _last_open_case(trace_path):
    """Returns the case number of a trailing `begin` without `end`, else None; truncates a torn last line."""
    last_begin, last_end = None, None
    good_len = 0
    with open(trace_path, "rb") as f:
        data = f.read()
    pos = 0
    for raw in data.split(b"\n"):
        ln = len(raw) + 1
        if not raw.strip():
            pos += ln
            continue
        try:
            ev = json.loads(raw)
        except Exception:
            break
        pos += ln
        good_len = pos
        if ev.get("ev") == "begin":
            last_begin = ev["case"]
        elif ev.get("ev") == "end":
            last_end = ev["case"]
    if good_len < len(data):
        with open(trace_path, "r+b") as f:
            f.truncate(min(good_len, len(data)))
    if last_begin is not None and last_begin != last_end:
        return last_begin
    return None


def run_harness(binpath, cases_path, trace_path, ncases, per_case_ms=20000, total_timeout=1800, args_extra=()):
    """Runs the harness over all cases; an abort / hang inside the code under test becomes a
    synthetic `abort` / `timeout` event and the run resumes after the offending case."""
    if os.path.exists(trace_path):
        os.remove(trace_path)
    skip, restarts = 0, 0
    env = dict(os.environ, RUST_BACKTRACE="0", RUST_LIB_BACKTRACE="0", AVH_REPO=REPO)
    t0 = time.time()
    while skip < ncases:
        try:
            r = subprocess.run([binpath, "run", cases_path, trace_path, str(skip), str(per_case_ms), *args_extra],
                               env=env, preexec_fn=_limits, stdout=subprocess.DEVNULL, stderr=subprocess.PIPE,
                               timeout=max(10, total_timeout - (time.time() - t0)))
            rc = r.returncode
        except subprocess.TimeoutExpired:
            rc = -99
        if rc == 0:
            break
        k = _last_open_case(trace_path) if os.path.exists(trace_path) else None
        if k is None:
            if rc == -99:
                raise ToolError("harness exceeded its total time budget")
            raise ToolError(f"harness died (rc={rc}) outside a case: {(r.stderr or b'')[-500:]!r}")
        ev = "timeout" if rc in (97, -99) else "abort"
        with open(trace_path, "a") as f:
            f.write(json.dumps({"ev": ev, "case": k, "rc": rc,
                                "msg": (r.stderr or b"")[-300:].decode("utf8", "replace") if rc != -99 else ""}) + "\n")
            f.write(json.dumps({"ev": "end", "case": k, "result": ev}) + "\n")
        skip = k + 1
        restarts += 1
        if rc == -99:
            raise ToolError("harness exceeded its total time budget")
        if restarts > 200:
            raise ToolError("harness restarted more than 200 times")
    log(f"[harness] {os.path.basename(binpath)}: {ncases} cases, {restarts} restarts, {time.time()-t0:.1f}s")
    return dict(restarts=restarts, wall=round(time.time() - t0, 1))


def read_trace_cases(trace_path, wanted):
    """Returns {case: [events]} for the wanted case numbers."""
    wanted = set(wanted)
    out = {}
    if not wanted:
        return out
    with open(trace_path) as f:
        for line in f:
            # cheap pre-filter
            try:
                ev = json.loads(line)
            except Exception:
                continue
            c = ev.get("case")
            if c in wanted:
                out.setdefault(c, []).append(ev)
    return out


# --------------------------------------------------------------------------------------------
# findings, replay files, evidence

def load_findings():
    """known_findings.json is the single committed list (bin/mkfindings consolidates the builders' fragments
    known/findings-<group>.json into it); a fragment entry that is not yet in it is still honoured."""
    out = []
    p = os.path.join(ROOT, "known_findings.json")
    if os.path.exists(p):
        out += json.load(open(p))["findings"]
    have = {(f["property"], f["id"]) for f in out}
    kd = os.path.join(ROOT, "known")
    if os.path.isdir(kd):
        for fn in sorted(os.listdir(kd)):
            if fn.startswith("findings-") and fn.endswith(".json"):
                for f in json.load(open(os.path.join(kd, fn)))["findings"]:
                    if (f["property"], f["id"]) not in have:
                        out.append(f)
    return out


def write_replay(pid, group, desc, invariant, events, extra=None):
    os.makedirs(REPLAYS, exist_ok=True)
    body = dict(property=pid, group=group, invariant=invariant, desc=desc, events=events[:400])
    if extra:
        body.update(extra)
    h = sha(dict(property=pid, invariant=invariant, desc=desc))[:12]
    path = os.path.join(REPLAYS, f"{pid}-{h}.json")
    with open(path, "w") as f:
        json.dump(body, f, indent=1, sort_keys=True)
    return path


def write_evidence(pid, tier, seed, level, coverage, assumptions, wall, violations):
    os.makedirs(EVID, exist_ok=True)
    ev = dict(property_id=pid, tier=tier, seed=int(seed), level=level, coverage=coverage,
              assumptions=assumptions, wall_s=round(wall, 1), violations=int(violations))
    with open(os.path.join(EVID, f"{pid}.json"), "w") as f:
        json.dump(ev, f, indent=1, sort_keys=True)
    return ev


def cache_get(group, key):
    p = os.path.join(CACHE, f"{group}-{key}.json")
    if os.path.exists(p):
        try:
            return json.load(open(p))
        except Exception:
            return None
    return None


def cache_put(group, key, obj):
    os.makedirs(CACHE, exist_ok=True)
    # keep the cache small: drop older entries of the group
    olds = sorted((os.path.join(CACHE, f) for f in os.listdir(CACHE) if f.startswith(group + "-")), key=os.path.getmtime)
    for f in olds[:-6]:
        os.remove(f)
    with open(os.path.join(CACHE, f"{group}-{key}.json"), "w") as f:
        json.dump(obj, f)
