"""Single source of truth for MANIFEST.json (bin/mkmanifest)."""

HOOKS = dict(
    guard="altrios_verif",
    enable="rustc --cfg altrios_verif, set for every harness build by harness/.cargo/config.toml (rustflags); "
           "the guard is a cfg flag, not a cargo feature, so /repo's own Cargo files are untouched",
    baseline_off_cmd="cd /repo/rust && cargo test --workspace --no-fail-fast --offline",
    source_commits=[],
    add_only=True,
)

ENGINES = [
    dict(name="SpeedProfile", path="specs/SpeedProfile.tla", serves_properties=["C02", "C13"],
         kind_free_text="TLA+ spec (Level A Canon/Safe/Exact/Canonical; Level B transcription of insert_speed/add_speeds), "
                        "TLC exhaustive on bounded layouts, every configuration replayed into real PathTpc/TrainSimBuilder/"
                        "SpeedLimitTrainSim, recorded profiles validated by TLC (SpeedProfileTrace.tla)"),
]

NOTES = ("Every check = TLC model check of an implementation-shaped TLA+ spec + spec->implementation replay of the "
         "TLC-enumerated cases + TLC validation of the recorded implementation states against the spec's own invariants. "
         "Properties that share a spec share one group run per (tree, tier, seed) through a content-addressed cache "
         "(.cache/, keyed by a hash of /repo/rust sources, /verif sources, tier and seed); each property still decides "
         "only on its own invariants and writes its own evidence. Exit 2 = tool error (never a verdict).")

NOT_APPLICABLE = {}

_SP_NOTE = ("Trusted: TLC, the JSON projection of PathTpc (serde), the harness materialisation of the abstract layout as a "
            "Network (validated by altrios itself). Bounded: exhaustive only up to the lattice bounds of the MC configs; "
            "random metre-scale layouts beyond. One car type per train.")
CHECKS = {
    "C02": dict(engine="SpeedProfile", design_ref="3 (C02 / C13)", technique="TLA+ spec + TLC model checking + trace validation of replayed cases",
                text="TLC checks Safe on every reachable state of the bounded SpeedProfile model (all sorted restriction lists per "
                     "link, head/tail sets, gates, 1-3 links) and re-evaluates Safe on the profile the real code built for every "
                     "one of those configurations through five construction paths, plus seeded random layouts.",
                note=_SP_NOTE),
    "C13": dict(engine="SpeedProfile", design_ref="3 (C02 / C13)", technique="TLA+ spec + TLC model checking + trace validation of replayed cases",
                text="Same runs as C02; TLC evaluates Exact (pointwise equality with the canonical minimum at every breakpoint), "
                     "Canonical and SameByEveryPath on every recorded profile. Found and led to the repair of F-C13-1.",
                note=_SP_NOTE),
}
