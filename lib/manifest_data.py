"""Single source of truth for MANIFEST.json (bin/mkmanifest)."""

HOOKS = dict(
    guard="altrios_verif",
    enable="rustc --cfg altrios_verif, set for every harness build by harness/.cargo/config.toml (rustflags); "
           "the guard is a cfg flag, not a cargo feature, so /repo's own Cargo files are untouched",
    baseline_off_cmd="cd /repo/rust && cargo test --workspace --no-fail-fast --offline",
    source_commits=["1f8a92f"],
    add_only=True,
)

ENGINES = []

NOTES = ("Every check = TLC model check of an implementation-shaped TLA+ spec + spec->implementation replay of the "
         "TLC-enumerated cases + TLC validation of the recorded implementation states against the spec's own invariants. "
         "Properties that share a spec share one group run per (tree, tier, seed) through a content-addressed cache "
         "(.cache/, keyed by a hash of /repo/rust sources, /verif sources, tier and seed); each property still decides "
         "only on its own invariants and writes its own evidence. Exit 2 = tool error (never a verdict).")

NOT_APPLICABLE = {}

# groups whose checks are registered in MANIFEST.json (a group is added here once it has been reviewed,
# exits 0 on the unchanged tree and has been tried against mutants)
ENABLED_GROUPS = ["speed", "dispatch", "control", "consist", "netrules", "pathprofile", "checkpoint", "determinism", "powerflow", "history", "mass", "trainsim"]

CHECKS = {}
