"""Control group: C03 (a speed-limited train never overspeeds, never reverses, stops inside its path; the run
ends Ok or with a descriptive error, never a panic; the target speed is never above the limit in force)."""


def _header(events):
    for e in events:
        if e.get("ev") == "Header":
            return e
    return {}


def sig_short_window(desc, events, inv):
    # F-C03-1: the input is in the ShortWindow class (evaluated by the harness on the descriptor alone, the same
    # function its generator uses to exclude the class) and the failing relation is one of the defect's symptoms;
    # a panic only counts when it is the `Speed limit violated!` assertion
    if not _header(events).get("dom", {}).get("short"):
        return False
    if inv == "NoPanic":
        return any(e.get("ev") == "panic" and "Speed limit violated" in e.get("msg", "") for e in events)
    return True


def sig_light_train(desc, events, inv):
    # F-C03-2: LightTrain input; the train is stuck short of the stopping window (step cap hit / watchdog timeout)
    if not _header(events).get("dom", {}).get("light"):
        return False
    if inv == "NoPanic":
        return any(e.get("ev") == "timeout" for e in events)
    return True


def nontrivial(d):
    if d.get("kind") == "ctrl":
        return d["n"] > 0
    if d.get("kind") == "table":
        v = [abs(z[1]) for z in d["zones"]]
        return any(v[i] < v[i - 1] for i in range(1, len(v)))          # a braking curve other than the final stop
    vmax = min(c["vmax"] for c in d["train"]["cars"])
    return any(abs(r[2]) < vmax for l in d["links"] for r in l["rs"])


def vacuity(r):
    s = r["stats"]
    runs = s.get("runs_ok", 0) + s.get("runs_err", 0)
    if s.get("harness_err", 0):
        return f"{s['harness_err']} cases could not be executed by the harness"
    # (the framework evaluates this after the decision step and not on --replay: the complaints below are about a
    # run that was quiet for the wrong reason)
    if s.get("steps", 0) == 0 or runs == 0:
        return "no run was recorded"
    if s.get("runs_ok", 0) * 2 < runs:
        return f"only {s.get('runs_ok', 0)} of {runs} runs ended Ok: the monitors saw too little"
    if s.get("skipped", 0) * 4 > r["n_cases"]:
        return "more than a quarter of the generated networks were rejected"
    if s.get("toy_tables", 0) == 0:
        return "no BrakingCurve table case was replayed"
    if s.get("ctrl_runs", 0) == 0 or s.get("lookups", 0) == 0:
        return "no Controller run was replayed / no table lookup was checked"
    if s.get("ic_bad", 0):
        return "the harness' projection of BrakingPoints.idx_curr disagrees with its JSON image"
    if s.get("dom_short", 0) == 0 or s.get("dom_light", 0) == 0:
        return "the known inputs of F-C03-1 / F-C03-2 were not replayed"
    return None


# ---- selftest (bin/selftest control): every invariant can fail, at the corrupted line -------------------------------

def _find(lines, pred):
    for i, e in enumerate(lines):
        if pred(e):
            return i
    return None


def _steps_line(lines):
    # a chunk in the middle of a run (the train is moving)
    return _find(lines, lambda e: e.get("ev") == "Steps" and len(e["s"]) > 40 and e["s"][30][3] > 65536)


def _corrupt_step(field, value, expect):
    def f(lines):
        i = _steps_line(lines)
        if i is None:
            return None
        rec = lines[i]["s"][30]
        rec[field] = value(rec, lines[i]["s"][29]) if callable(value) else value
        return lines, i, expect
    return f


def _corrupt_final(patch, expect):
    def f(lines):
        i = _find(lines, lambda e: e.get("ev") == "Final" and e["ok"] and e["msg"] == "")
        if i is None:
            return None
        lines[i].update(patch(lines[i]) if callable(patch) else patch)
        return lines, i, expect
    return f


def _replace_walk(ev, expect):
    def f(lines):
        i = _find(lines, lambda e: e.get("ev") == "Walk")
        if i is None:
            return None
        lines[i] = dict(ev, case=lines[i]["case"])
        return lines, i, expect
    return f


def _corrupt_table(fn, expect):
    def f(lines):
        i = _find(lines, lambda e: e.get("ev") == "Table" and e["ok"] and len(e["pts"]) > 6 and all(p[0] > 0 for p in e["pts"][:4]))
        if i is None:
            return None
        fn(lines[i]["pts"])
        return lines, i, expect
    return f


def _tbl_limit(pts):
    pts[2][1] = pts[2][2] = 1 << 24


def _tbl_target(pts):
    pts[2][3] = pts[2][2] + 1000


def _tbl_order(pts):
    pts[3][0] = pts[2][0] + 64 * 500


CORRUPT = {
    "negative_speed": _corrupt_step(3, -5, {"NonNeg"}),
    "overspeed": _corrupt_step(3, 1 << 24, {"Posted"}),
    "reported_limit_below_speed": _corrupt_step(5, lambda rec, prv: prv[3] - 100, {"Reported"}),
    "target_above_limit": _corrupt_step(6, lambda rec, prv: rec[5] + 100, {"TargetLeLimit"}),
    "limit_above_posted": _corrupt_step(4, 1 << 24, {"LimitLePosted"}),
    "front_moves_back": _corrupt_step(2, lambda rec, prv: prv[2] - 640, {"NoReverse"}),
    "stops_short": _corrupt_final(lambda e: {"o": e["end"] - 64 * 400}, {"StopWindow"}),
    "stops_beyond_end": _corrupt_final(lambda e: {"o": e["end"] + 64}, {"StopWindow"}),
    "ends_moving": _corrupt_final({"v": 3, "vc": 4}, {"StopWindow"}),
    "error_without_text": _corrupt_final({"ok": False, "msg": ""}, {"EndOk"}),
    "internal_error": _corrupt_final({"ok": False, "msg": "Power wheel out is larger than max positive power!", "cls": "internal"}, {"NoInternalErr"}),
    "step_cap": _replace_walk({"ev": "stepcap", "steps": 1}, {"StepCap"}),
    "panic": _replace_walk({"ev": "panic", "msg": "boom"}, {"NoPanic"}),
    "timeout": _replace_walk({"ev": "timeout", "rc": 97, "msg": ""}, {"NoPanic"}),
    "table_limit_above_posted": _corrupt_table(_tbl_limit, {"TableSafe"}),
    "table_target_above_limit": _corrupt_table(_tbl_target, {"TargetLeLimit"}),
    "table_offsets_out_of_order": _corrupt_table(_tbl_order, {"TableMonotone"}),
}


RULE = ("cases = seeded random single-line networks (2-8 links, 300 m-6 km, nested/overlapping head- and tail-end "
        "restrictions, grades) x realistic trains (10-85 cars of the six resource car types, default and mixed consists) x "
        "path schedule (whole, incl. paths barely longer than the train / link by link / timed path from make_est_times + "
        "run_dispatch / make_est_times alone / stop-and-go: extend_path + the library's walk() after each link, short last "
        "links / the library's walk_timed_path() on a timed path that makes the train wait before short links are released), outside "
        "the input classes ShortWindow and LightTrain; + every admitted profile of the bounded BrakingCurve model replayed on "
        "the real recalc at toy scale; + the materialised inputs of the known findings. distinct = distinct descriptors "
        "(sha256); non-trivial = at least one restriction below the train's maximum speed / one slow-down in the profile")

ASSUME = ["networks are materialised through Network::from_json (validation accepted them); single-line routes; dt = 1 s",
          "Posted is evaluated by the spec from the recorded speed points of the path (whose correctness against the "
          "restrictions is C02/C13's business), not from the braking table",
          "speeds are logged floor/ceil at 2^-16 m/s on the left/right side of a comparison, offsets at 2^-6 m with the posted "
          "limit taken as the maximum over the rounding cell: rounding can hide an excess < 1 unit, never invent one",
          "inputs of the classes ShortWindow (F-C03-1) and LightTrain (F-C03-2) are excluded from random generation by "
          "input-level predicates and represented by materialised known inputs; a descriptive Err ends a run legitimately, an "
          "Err raised by one of the solver's own consistency checks (ensure! on the power / force bounds it has just computed) "
          "does not",
          "make_est_times is observed through its exit status only (Ok / Err / panic)"]

_INV = ["NonNeg", "NoReverse", "Posted", "Reported", "TargetLeLimit", "LimitLePosted", "StopWindow", "EndOk", "NoInternalErr",
        "NoPanic", "StepCap",
        "TableSafe", "TableMonotone"]

GROUP = dict(
    name="control", bin="avh_control",
    model_spec="MCBrakingCurve.tla", trace_spec="ControlTrace.tla", trace_cfg="ControlTrace.cfg",
    models={
        "quick": [dict(cfg="MCBrakingCurve_quick.cfg", emit=True, max_emit=1000, workers=8, timeout=300),
                  # the same profiles with sign-encoded (negative) limits
                  dict(cfg="MCBrakingCurve_signed.cfg", emit=True, max_emit=600, workers=8, timeout=300),
                  # the controller composed with the table: every admitted quick profile x environment x every force
                  # choice at every step (exhaustive), then scripted runs emitted for the step-by-step replay
                  dict(spec="MCController.tla", cfg="MCController_quick.cfg", emit=False, workers=8, timeout=600),
                  dict(spec="MCController.tla", cfg="MCController_replay.cfg", emit=True, max_emit=600, workers=8, timeout=300)],
        "thorough": [dict(cfg="MCBrakingCurve_quick.cfg", emit=True, workers=8, timeout=300),
                     dict(cfg="MCBrakingCurve_signed.cfg", emit=True, max_emit=8000, workers=8, timeout=300),
                     dict(cfg="MCBrakingCurve_thorough.cfg", emit=True, max_emit=20000, workers=16, timeout=1800),
                     dict(spec="MCController.tla", cfg="MCController_thorough.cfg", emit=False, workers=16, timeout=900),
                     dict(spec="MCController.tla", cfg="MCController_live.cfg", emit=False, workers=8, timeout=900),
                     dict(spec="MCController.tla", cfg="MCController_replay.cfg", emit=True, workers=8, timeout=300)],
    },
    gen_n={"quick": 300, "thorough": 4000},
    per_case_ms=5000,         # a normal run takes 1-30 ms, the longest known stuck run (35 000 steps) 0.2 s
    harness_timeout={"quick": 1500, "thorough": 3600},
    trace_timeout={"quick": 600, "thorough": 1800},
    trace_xmx="10g",
    nontrivial=nontrivial,
    rule=RULE,
    props={
        "C03": dict(invariants=_INV, assumptions=ASSUME, exhaustive=False,
                    coverage_extra=lambda res: dict(
                        steps_monitored=res["stats"].get("steps", 0),
                        braking_tables_checked=res["stats"].get("tables", 0),
                        toy_tables_replayed=res["stats"].get("toy_tables", 0),
                        toy_tables_differing_from_model=res["stats"].get("drift", 0),
                        library_walks_differing_from_harness_loop=res["stats"].get("walk_differs", 0),
                        # Level B of the controller: drift is counted, never an alarm
                        controller_runs_replayed=res["stats"].get("ctrl_runs", 0),
                        controller_steps_replayed=res["stats"].get("ctrl_steps", 0),
                        ctrl_drift=res["stats"].get("ctrl_drift", 0),
                        lookups_checked_against_serialised_table=res["stats"].get("lookups", 0),
                        lookup_drift=res["stats"].get("lookup_drift", 0))),
    },
    sigs={"short_window": sig_short_window, "light_train": sig_light_train},
    vacuity=vacuity,
    # bin/selftest: the pinned algorithm on EVERY profile must violate the table invariants (re-finds F-C03-1) ...
    fault_models=[dict(cfg="MCBrakingCurve_pinned.cfg", expect=["TableSafe", "TargetLeLimit", "Monotone"]),
                  # the composed controller overspeeds on ShortWindow profiles (F-C03-1) and stalls before a window that is
                  # shorter than the stretch with speed_target = 0 (F-C03-2)
                  dict(spec="MCController.tla", cfg="MCController_shortwindow.cfg", expect=["CPosted", "CNoPanic"]),
                  dict(spec="MCController.tla", cfg="MCController_stall.cfg", expect=["CProgress", "CStopWindow"]),
                  # recalc without the .abs() in its curve-needed test: no curve after a sign-encoded zone
                  dict(spec="MCController.tla", cfg="MCController_noabs.cfg", expect=["CPosted", "CNoPanic"]),
                  # F-C03-4 (repaired): recalc before the repair (no catch-up of idx) overspeeds / trips the code's assert
                  dict(spec="MCController.tla", cfg="MCController_hiddentarget.cfg", expect=["CPosted", "CNoPanic"]),
                  dict(cfg="MCBrakingCurve_underflow.cfg", expect=["NoUnderflow"])],
    # ... and every monitor of the trace spec must fail at exactly the record that was corrupted
    corrupt=CORRUPT, selftest_cases=12,
)

ENGINE = dict(name="Control", path="specs/Control.tla", serves_properties=["C03"],
              kind_free_text="TLA+ specs: Control.tla (Level A monitors over recorded runs: speed >= 0, speed <= Posted evaluated by the "
                             "spec from the speed points, speed <= reported limit, target <= limit, limit <= Posted, stop window, no "
                             "panic/timeout/step cap, braking-table safety) + BrakingCurve.tla (Level B integer-kinematics "
                             "transcription of BrakingPoints::recalc, model-checked by TLC over all admitted profiles and replayed on "
                             "the real recalc) + Controller.tla (Level B transcription of calc_speeds / solve_required_pwr composed "
                             "with that table: TLC checks NonNeg / Posted / reported limit / target <= limit / stop window / progress "
                             "for every force choice at every step, liveness under weak fairness; scripted runs replayed step by step on "
                             "a real SpeedLimitTrainSim at toy scale); seeded generator of realistic runs driven step by step with every "
                             "reported (limit, target) re-derived from the serialised table; TLC trace validation "
                             "(ControlTrace.tla)")
_NOTE = ("Trusted: TLC, the serde projection of TrainState / PathTpc / BrakingPoints, the harness' own step loop (walk_internal's "
         "condition + step cap; the library's own walk()/walk_timed_path() is called once that loop has terminated and is judged "
         "by StopWindow on the state it returns). Bounded: random runs at dt = 1 s "
         "outside the two excluded input classes; BrakingCurve model exhaustive only up to its bounds (<= 5 zones), Controller model up to <= 4 zones with ample traction "
         "power (the power-limit branch of solve_required_pwr is not modelled), constant resistance per run. Known: F-C03-1, "
         "F-C03-2 (materialised inputs replayed on every run); F-C03-4 (hidden target after an abandoned curve, predicted by Controller.tla) "
         "and F-C03-3 (index underflow of recalc, found by TLC) is repaired.")
MANIFEST = {
    "C03": dict(engine="Control", design_ref="3 (C03)",
                technique="TLA+ spec + TLC model checking of the braking-table design model + spec->impl replay of its profiles + "
                          "seeded realistic runs + TLC trace validation",
                text="Every step of every recorded run (whole path, link by link, timed path from the real dispatcher) and every "
                     "braking table serialised after an extend_path is checked by TLC against Control.tla's Level-A monitors; "
                     "BrakingCurve.tla's transcription of recalc is model-checked against TableSafe / TargetLeLimit / Monotone on all "
                     "profiles without a ShortWindow and each such profile is replayed on the real recalc (integer-exact at toy scale).",
                note=_NOTE),
}
