"""Determinism group: C18 (results are deterministic and independent of thread scheduling)."""


def _corrupt(ev, pred, change, expect):
    """selftest: corrupts the first record matching pred"""
    for i, e in enumerate(ev):
        if pred(e):
            if change(e, ev) is False:
                continue
            return ev, i, expect
    return None


def _set_elem(j, k, v):
    def f(e, ev):
        e["elems"][j][k] = v
    return f


def _untouch_first(e, ev):
    solo = next(x for x in ev if x.get("case") == e["case"] and x.get("ev") == "Solo" and x["j"] == 1)
    e["elems"][0][0] = solo["dinit"]


def _okpar(e):
    return e.get("ev") == "Batch" and e.get("ok") and e.get("how") == "par" and e.get("len", 0) >= 2


def _errpar(e):
    return e.get("ev") == "Batch" and not e.get("ok") and e.get("how") == "par" and e.get("len", 0) >= 2


CORRUPT = {
    "second_process_digest": lambda ev: _corrupt(ev, lambda e: e.get("ev") == "Run" and e.get("how") == "proc2",
                                                 lambda e, _: e.update(d=[1, 2]), ["SingleAssignment"]),
    "repeat_outcome": lambda ev: _corrupt(ev, lambda e: e.get("ev") == "Run" and e.get("how") == "inproc2",
                                          lambda e, _: e.update(ok=not e["ok"]), ["SingleAssignment"]),
    "pool_digest": lambda ev: _corrupt(ev, lambda e: e.get("ev") == "Run" and e.get("how") == "pool4",
                                       lambda e, _: e.update(d=[e["d"][0], e["d"][1] ^ 1]), ["SingleAssignment@pool"]),
    "pool_outcome": lambda ev: _corrupt(ev, lambda e: e.get("ev") == "Run" and e.get("how") == "pool7",
                                        lambda e, _: e.update(ok=not e["ok"]), ["SingleAssignment@pool"]),
    "rebuild_digest": lambda ev: _corrupt(ev, lambda e: e.get("ev") == "Run" and e.get("how") == "build5",
                                          lambda e, _: e.update(d=[e["d"][0] ^ 1, e["d"][1]]), ["SingleAssignment@build"]),
    "element_result": lambda ev: _corrupt(ev, _okpar, _set_elem(0, 0, [1, 2]), ["ElemSerial"]),
    "element_input": lambda ev: _corrupt(ev, _okpar, _set_elem(1, 1, [1, 2]), ["InputsUntouched"]),
    "element_not_walked": lambda ev: _corrupt(ev, _okpar, _untouch_first, ["AllWalked"]),
    "batch_digest": lambda ev: _corrupt(ev, _okpar, lambda e, _: e.update(d=[1, 2]), ["ParallelEqualsSerial"]),
    "error_for_wrong_element": lambda ev: _corrupt(ev, _errpar, lambda e, _: e.update(err_idx=(e["err_idx"] % e["len"]) + 1),
                                                   ["ErrIsolated"]),
    "error_swallowed": lambda ev: _corrupt(ev, _errpar, lambda e, _: e.update(ok=True), ["ErrIsolated"]),
    "other_element_corrupted_on_error": lambda ev: _corrupt(
        ev, _errpar, lambda e, _: e["elems"][e["err_idx"] % e["len"]].__setitem__(0, [1, 2]), ["ErrIsolated", "ElemSerial"]),
}


def nontrivial(d):
    # a batch with at least two elements, a consist / train with at least three parts, or any whole-pipeline input
    if d.get("kind") == "consist":
        return d.get("n", 0) >= 3
    if d.get("kind") == "build":
        return d.get("types", 0) >= 3
    return d.get("kind") != "batch" or d.get("n", 0) >= 2


RULE = ("cases = every batch shape (size, failing position incl. none) of the bounded Determinism configs, materialised as "
        "a real LocomotiveSimulationVec + seeded inputs: larger batches with random unit parameters and failing positions, "
        "est-time construction / dispatch of 2-4 trains / speed-limit runs on the shipped simple corridor (four car types "
        "with non-round masses: HashMaps with 4 keys), set-speed runs, set-speed / speed-limit runs of Freight / Intermodal / "
        "Passenger trains on corridors whose links carry per-train-type speed_sets maps (2-3 keys per link), est-times + "
        "dispatch of trains with 2-3 origin and 1-3 destination links (four in-process executions), consists of 3-7 "
        "locomotives (all conventional / all battery / mixed) with pairwise different non-dyadic ratings, efficiencies, aux "
        "and idle powers stepped 4-12 times with positive and negative demands and additionally executed inside rayon pools "
        "of 1, 2, 4, 7 workers, trains of 3-5 car types with non-dyadic masses / rotating masses / resistances and 4-8 axles "
        "built by TrainSimBuilder (set-speed / speed-limit) and additionally built 8 times from separately constructed equal "
        "inputs (fresh Vec<RailVehicle>, fresh n_cars_by_type map filled in another insertion order); TLC emits a consist of "
        "3..3+N locomotives and a train of 3-5 car types with every batch shape; every input executed twice in-process and once in a second process, every "
        "batch serially and 2-3 times under each rayon pool of 1, 2, 3, 8, 16 threads; distinct = distinct descriptors; "
        "non-trivial = whole-pipeline input or a batch of >= 2 elements")

ASSUME = ["outputs are compared as digests (60 bits of FNV-1a) of their canonical value tree (sorted keys, floats by bit "
          "pattern): byte serialisations of objects holding a HashMap with >= 2 keys differ between runs, values do not",
          "the second process is the same harness binary (fresh RandomState seeds); thread schedules are whatever rayon "
          "produces in 2-3 repetitions per pool size, they are not enumerated on the real code (the model enumerates them)",
          "with a failing element the statement protects the other elements' inputs; which of them were already walked "
          "when the error short-circuits the batch is schedule-dependent and only counted (err_others_walked / _untouched); "
          "with several failing elements any one of them may be the one reported",
          "a panic inside an execution is an outcome (it must repeat); speed-limit runs are stepped with a step cap"]

GROUP = dict(
    name="determinism", bin="avh_determinism",
    model_spec="MCDeterminism.tla", trace_spec="DeterminismTrace.tla", trace_cfg="DeterminismTrace.cfg",
    models={
        "quick": [dict(cfg="MCDeterminism_n3w2.cfg", emit=True, workers=2, timeout=120),
                  dict(cfg="MCDeterminism_n4w3.cfg", emit=True, workers=4, timeout=120),
                  dict(cfg="MCDeterminism_n4w3r3.cfg", emit=False, workers=4, timeout=120)],
        "thorough": [dict(cfg="MCDeterminism_n3w2.cfg", emit=True, workers=2, timeout=300),
                     dict(cfg="MCDeterminism_n4w3.cfg", emit=True, workers=4, timeout=300),
                     dict(cfg="MCDeterminism_n4w3r3.cfg", emit=False, workers=4, timeout=300),
                     dict(cfg="MCDeterminism_n5w3.cfg", emit=True, workers=8, timeout=600),
                     dict(cfg="MCDeterminism_n6w4.cfg", emit=False, workers=8, timeout=1800)],
    },
    gen_n={"quick": 200, "thorough": 4000},
    per_case_ms=120000,
    harness_timeout={"quick": 600, "thorough": 3000},
    nontrivial=nontrivial,
    rule=RULE,
    props={
        "C18": dict(invariants=["SingleAssignment", "SingleAssignment@pool", "SingleAssignment@build", "ElemSerial", "InputsUntouched", "ErrIsolated", "AllWalked",
                                "ParallelEqualsSerial", "BatchShape", "SoloInOrder", "NoPanic", "HarnessOk"],
                    assumptions=ASSUME, level="exploration", exhaustive=False),
    },
    sigs={},
    # Level-B variants of the batch walker that break isolation: TLC must find the interleaving
    fault_models=[dict(cfg="MCDeterminism_fault_shared.cfg", expect=["InputsUntouched", "ElemSerial", "ErrIsolated", "SingleAssignment"]),
                  dict(cfg="MCDeterminism_fault_shifted.cfg", expect=["ElemSerial", "AllWalked", "ErrIsolated"]),
                  dict(cfg="MCDeterminism_fault_abortall.cfg", expect=["ErrIsolated", "ElemSerial", "SingleAssignment"]),
                  # reductions inside an element: chunked by the worker count / folded in the iteration order of a map
                  dict(cfg="MCDeterminism_fault_parsum.cfg", expect=["ElemSerial", "SingleAssignment", "AllWalked", "ErrIsolated"]),
                  dict(cfg="MCDeterminism_fault_maporder.cfg", expect=["InputsUntouched", "ElemSerial", "SingleAssignment"])],
    selftest_cases=40,
    corrupt=CORRUPT,
    # (a --replay run has no model part and a single case: nothing to complain about)
    vacuity=lambda r: None if not r["models"] else ("no second-process run was recorded" if r["stats"].get("runs_proc2", 0) == 0 else
                       # floors on cases ISSUED (4 pool / 8 rebuild lines belong to each of them)
                       "fewer than 5 consists were stepped under the worker pools" if r["stats"].get("cases_pool", 0) < 5 else
                       "fewer than 5 trains were rebuilt from fresh equal inputs" if r["stats"].get("cases_build", 0) < 5 else
                       "no parallel batch walk was recorded" if r["stats"].get("batches_par", 0) == 0 else
                       "no batch with a failing element was recorded" if r["stats"].get("batches_err", 0) == 0 else
                       "no batch without a failing element was recorded"
                       if r["stats"].get("batches", 0) == r["stats"].get("batches_err", 0) else None),
)

ENGINE = dict(name="Determinism", path="specs/Determinism.tla", serves_properties=["C18"],
              kind_free_text="TLA+ spec: result[input] is single-assignment (Run(input, how) requires result in {None, out}); "
                             "the batch walker as workers taking disjoint elements from a pool, Walk(e) touching only e, "
                             "short-circuit after an Err; TLC checks under every interleaving that each walked element holds "
                             "its serial result, inputs stay untouched and an Err is reported for the failing element "
                             "(fault variants shared / shifted / abortall for vacuity); the harness logs digests of repeated, "
                             "cross-process and 1..16-thread executions and TLC evaluates the spec's own invariants on them "
                             "through a refinement mapping (DeterminismTrace.tla)")
_NOTE = ("Exploration, not proof: thread schedules of the real code are sampled (rayon pools of 1, 2, 3, 8, 16 threads, 2-3 "
         "repetitions), only the model enumerates them (2-4 workers, 3-6 elements, one failing element at every position). "
         "The decision is a digest comparison; a 60-bit FNV collision would hide a difference. Trusted: TLC, serde's "
         "Serialize impls as the projection of outputs, the OS giving the second process fresh hash seeds.")
_TECH = "TLA+ single-assignment statement + TLC schedule model + repeated / cross-process / multi-pool execution + TLC trace validation"
MANIFEST = {
    "C18": dict(engine="Determinism", design_ref="3 (C18)", technique=_TECH, category="exploration",
                text="Exploration: TLC checks on the batch-walker model (workers taking disjoint elements, short-circuit on "
                     "Err) that under every interleaving each walked element holds exactly its serial result, no input is "
                     "touched and the Err is reported for the failing element, and that result[input] is assigned once across "
                     "serial and parallel rounds; every batch shape of the model plus seeded loco-sim batches, est-time "
                     "constructions, dispatches of 2-4 trains on the simple corridor, set-speed and speed-limit runs are "
                     "executed twice in-process, once in a second process and (batches) under rayon pools of 1, 2, 3, 8, 16 "
                     "threads; TLC validates single assignment of the output digests and ElemSerial / InputsUntouched / "
                     "ErrIsolated / AllWalked / ParallelEqualsSerial on every recorded batch.",
                note=_NOTE),
}
