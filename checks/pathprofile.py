"""PathProfile group: C06 (the path geometry handed to the train model equals the network's geometry)."""


def _nontrivial(d):
    return d.get("kind") == "shipped" or len(d.get("route", [])) >= 2


# ---- bin/selftest: corruptions of a recorded trace (one field each), expected invariant at that line
def _ext(ev, pred):
    for i, e in enumerate(ev):
        if e.get("ev") == "Extend" and e.get("ok") and pred(e):
            return i
    return None


def _bump(pred, edit, expect):
    def f(ev):
        i = _ext(ev, pred)
        if i is None:
            return None
        edit(ev[i])
        return ev, i, expect
    return f


def _set(e, key, j, k, d=1):
    e[key][j][k] += d


def _reject_flag(ev):
    for i, e in enumerate(ev):
        if e.get("ev") == "Extend" and not e.get("ok"):
            e["ok"] = True
            return ev, i, ["RouteVerdict"]
    return None


def _final(edit, expect):
    def f(ev):
        for i, e in enumerate(ev):
            if e.get("ev") == "Final" and e.get("ok") and e.get("eq_whole"):
                edit(e)
                return ev, i, expect
        return None
    return f


RULE = ("cases = every (network, route) reached by TLC in the bounded PathProfile configs (links from templates with 2..4 "
        "elevation points, 0/2/3 heading points incl. wrap-around both ways, 0..2 catenary sections; chain and merge "
        "topologies; contiguous routes of 1..4 links and all their single-fault non-contiguous variants), each consumed by "
        "all 2^(n-1) compositions into extend calls, + seeded random real-scale links on the 1/8 lattice + routes of the "
        "shipped simple corridor and Taconite networks; distinct = distinct descriptors (sha256); non-trivial = route of "
        "at least two entries or a shipped network")

ASSUME = ["networks are materialised through Network::from_json / from_file (validation accepted them); prev_alt differs from "
          "prev wherever it is set",
          "curve resistance is compared in the normalised form w = 25*res_coeff*run/k1 (k1 = 1 degree / 100 ft), "
          "exact on the lattice for trains without quadratic term, +-1 unit with it (g16*E^2 < 2^31 only), "
          "+-(787*cmax+1) units of 1/32 for shipped (non-lattice) data",
          "route entries outside the network (index >= number of links) are not routes and are not tried",
          "nothing is demanded of the half-extended object after a rejected call"]

GROUP = dict(
    name="pathprofile", bin="avh_path",
    model_spec="MCPathProfile.tla", trace_spec="PathProfileTrace.tla", trace_cfg="PathProfileTrace.cfg",
    models={
        "quick": [dict(cfg="MCPathProfile_quick.cfg", emit=True, max_emit=1800, workers=8, timeout=300),
                  dict(cfg="MCPathProfile_merge.cfg", emit=True, max_emit=600, workers=8, timeout=300)],
        "thorough": [dict(cfg="MCPathProfile_thorough3.cfg", emit=True, max_emit=15000, workers=8, timeout=1800),
                     dict(cfg="MCPathProfile_thorough4.cfg", emit=True, max_emit=15000, workers=8, timeout=3600),
                     dict(cfg="MCPathProfile_mergeT.cfg", emit=True, max_emit=8000, workers=8, timeout=3600)],
    },
    gen_n={"quick": 250, "thorough": 5000},
    per_case_ms=60000,
    nontrivial=_nontrivial,
    rule=RULE,
    props={
        "C06": dict(invariants=["Boundaries", "Counts", "ElevWalk", "GradeSlope", "CumulativeGrade", "CurvePoints", "CurveCoeff",
                                "CumulativeCurve", "CatShift", "RouteVerdict", "PartitionInvariant", "FinishAppends",
                                "Representable", "NoPanic"],
                    assumptions=ASSUME),
    },
    sigs={},
    # bin/selftest: the pinned heading wrap (single Rust `%`, the tree before b8a91e0) must break A_CurveCoeff in TLC (F-C06-1)
    fault_models=[dict(cfg="MCPathProfile_pinned.cfg", expect=["A_CurveCoeff"])],
    selftest_cases=30,
    corrupt={
        "link_point_offset": _bump(lambda e: len(e["lp"]) >= 2, lambda e: _set(e, "lp", 1, 0), ["Boundaries"]),
        "grade_count": _bump(lambda e: len(e["lp"]) >= 2, lambda e: _set(e, "lp", 0, 1), ["Counts"]),
        "elevation": _bump(lambda e: len(e["grades"]) >= 3, lambda e: _set(e, "grades", 1, 2), ["ElevWalk"]),
        "grade_rise": _bump(lambda e: len(e["grades"]) >= 2, lambda e: _set(e, "grades", 0, 1), ["GradeSlope"]),
        "curve_offset": _bump(lambda e: len(e["curves"]) >= 3, lambda e: _set(e, "curves", 1, 0), ["CurvePoints"]),
        "curve_coeff": _bump(lambda e: len(e["curves"]) >= 2, lambda e: _set(e, "curves", 0, 1, 5000), ["CurveCoeff"]),
        "curve_cumulative": _bump(lambda e: len(e["curves"]) >= 2, lambda e: _set(e, "curves", 1, 2, 5000), ["CumulativeCurve"]),
        "catenary_start": _bump(lambda e: len(e["cat"]) >= 1, lambda e: _set(e, "cat", 0, 0), ["CatShift"]),
        "rejected_call_reported_ok": _reject_flag,
        "partition_differs": _final(lambda e: e.__setitem__("eq_whole", False), ["PartitionInvariant"]),
        "finish_tail": _final(lambda e: _set(e["fin"], "g_tail", 1, 2), ["FinishAppends"]),
    },
    vacuity=lambda r: ("no extend call was recorded" if r["stats"].get("extends", 0) == 0 else
                       "no composition reproduced the one-shot profile" if r["stats"].get("partitions_equal", 0) == 0 else
                       "no non-contiguous route was rejected" if r["stats"].get("rejected_calls", 0) == 0 else
                       "networks were rejected by validation" if r["stats"].get("skipped", 0) > 0 else
                       "the harness failed on some cases" if r["stats"].get("harness_err", 0) > 0 else
                       "no shipped network was examined" if r["n_gen"] and r["stats"].get("real_scale", 0) == 0 else None),
    harness_timeout={"quick": 600, "thorough": 3600},
)

ENGINE = dict(name="PathProfile", path="specs/PathProfile.tla", serves_properties=["C06"],
              kind_free_text="TLA+ spec (Level A closed forms of the route's own points: Boundaries/Counts/ElevWalk/GradeSlope/"
                             "CurveCoeff/CatShift/...; Level B transcription of the loops of PathTpc::extend and finish with a "
                             "`pinned` variant of the heading wrap), TLC exhaustive on bounded networks x routes x compositions, "
                             "every (network, route) replayed into real Network + PathTpc for all compositions, recorded "
                             "profiles validated by TLC (PathProfileTrace.tla)")
_NOTE = ("Trusted: TLC, the harness' projection (coeff*run, normalisation by k1, rounding to integers), Network validation. "
         "Bounded: exhaustive only on the template lattice; random real-scale lattice links and shipped routes beyond. "
         "Found F-C06-1 (heading change below -180 degrees was not wrapped; repaired by b8a91e0).")
MANIFEST = {
    "C06": dict(engine="PathProfile", design_ref="3 (C06)",
                technique="TLA+ spec + TLC model checking + spec->impl replay + TLC trace validation",
                text="TLC checks Level B => Level A (all nine geometry conjuncts, RouteVerdict, Functional = partition "
                     "invariance, FinishOK) on every reachable state of the bounded model and re-evaluates the Level-A "
                     "conjuncts on the profile the real PathTpc held after every extend call of every composition, plus "
                     "PartialEq with the one-shot build and finish().",
                note=_NOTE),
}
